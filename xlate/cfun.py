"""Mini C -> Lean translator over clang-14's JSON AST (trusted base, see DESIGN.md section 3).

Scope: small, loop-free (or statically bounded) integer functions.  Every C value becomes a Lean `Int`;
every arithmetic node is wrapped to the C type clang assigned to it (integer promotions and
conversions are explicit `ImplicitCastExpr` nodes in the AST, so nothing is guessed).  Any node kind
outside the whitelist raises `Unsupported` -- the translator refuses rather than approximates.

Reads of struct members (`p->a.b`) become free variables named by the flattened access path
(`p_a_b`); the caller decides how those are packaged (function parameters or structure fields).
"""
import json
import os
import re
import subprocess

REPO = os.environ.get("VERIF_REPO", "/repo")
INC = ["Source/API", "Source/Lib/Common/Codec", "Source/Lib/Common/C_DEFAULT", "Source/Lib/Common/ASM_SSE2",
       "Source/Lib/Common/ASM_SSSE3", "Source/Lib/Common/ASM_SSE4_1", "Source/Lib/Common/ASM_AVX2",
       "Source/Lib/Common/ASM_AVX512", "Source/Lib/Encoder/Codec", "Source/Lib/Encoder/Globals",
       "Source/Lib/Encoder/C_DEFAULT", "Source/Lib/Encoder/ASM_SSE2", "Source/Lib/Encoder/ASM_SSSE3",
       "Source/Lib/Encoder/ASM_SSE4_1", "Source/Lib/Encoder/ASM_AVX2", "Source/Lib/Encoder/ASM_AVX512",
       "Source/Lib/Decoder/Codec", "third_party/fastfeat", "third_party/cpuinfo/include"]


class Unsupported(Exception):
    pass


def clang_ast(path, flt=None, defines=()):
    """Return list of top-level JSON objects of the AST dump (optionally filtered by name)."""
    cmd = ["clang-14", "-Xclang", "-ast-dump=json", "-fsyntax-only", "-w", "-DSVT_AV1_VERIF"]
    for d in defines:
        cmd.append("-D" + d)
    if flt:
        cmd += ["-Xclang", "-ast-dump-filter=" + flt]
    cmd += ["-I" + os.path.join(REPO, d) for d in INC if os.path.isdir(os.path.join(REPO, d))]
    cmd.append(path if os.path.isabs(path) else os.path.join(REPO, path))
    p = subprocess.run(cmd, stdout=subprocess.PIPE, stderr=subprocess.PIPE)
    txt = p.stdout.decode()
    if not txt.strip():
        raise Unsupported("clang produced no AST for %s (%s): %s" % (path, flt, p.stderr.decode()[-500:]))
    dec = json.JSONDecoder()
    i, objs = 0, []
    n = len(txt)
    while i < n:
        while i < n and (txt[i].isspace()):
            i += 1
        if i >= n:
            break
        if txt[i] != "{":
            # filtered dumps print "Dumping <name>:" lines between objects
            j = txt.find("\n", i)
            i = n if j < 0 else j + 1
            continue
        o, i = dec.raw_decode(txt, i)
        objs.append(o)
    return objs


def find_functions(objs, name):
    """All FunctionDecl nodes with a body named `name`."""
    res = []

    def walk(n):
        if n.get("kind") == "FunctionDecl" and n.get("name") == name and any(
                c.get("kind") == "CompoundStmt" for c in n.get("inner", [])):
            res.append(n)
        for c in n.get("inner", []):
            walk(c)
    for o in objs:
        walk(o)
    return res


def enum_values(objs):
    """name -> int for every EnumConstantDecl reachable in objs."""
    vals = {}

    def const_value(n):
        if "value" in n and n.get("kind") in ("ConstantExpr", "IntegerLiteral"):
            return int(n["value"])
        for c in n.get("inner", []):
            v = const_value(c)
            if v is not None:
                return v
        return None

    def walk(n):
        if n.get("kind") == "EnumDecl":
            prev = -1
            for c in n.get("inner", []):
                if c.get("kind") == "EnumConstantDecl":
                    v = const_value(c)
                    if v is None:
                        v = prev + 1
                    vals[c["name"]] = v
                    prev = v
        for c in n.get("inner", []):
            walk(c)
    for o in objs:
        walk(o)
    return vals


# ------------------------------------------------------------------ C types
TYPES = {
    "int": ("S", 32), "signed int": ("S", 32), "unsigned int": ("U", 32), "unsigned": ("U", 32),
    "char": ("S", 8), "signed char": ("S", 8), "unsigned char": ("U", 8),
    "short": ("S", 16), "unsigned short": ("U", 16),
    "long": ("S", 64), "unsigned long": ("U", 64), "long long": ("S", 64), "unsigned long long": ("U", 64),
    "int8_t": ("S", 8), "uint8_t": ("U", 8), "int16_t": ("S", 16), "uint16_t": ("U", 16),
    "int32_t": ("S", 32), "uint32_t": ("U", 32), "int64_t": ("S", 64), "uint64_t": ("U", 64),
    "size_t": ("U", 64), "EbBool": ("U", 8), "_Bool": ("U", 1), "EbErrorType": ("S", 32),
    "__uint8_t": ("U", 8), "__uint16_t": ("U", 16), "__uint32_t": ("U", 32), "__uint64_t": ("U", 64),
    "__int8_t": ("S", 8), "__int16_t": ("S", 16), "__int32_t": ("S", 32), "__int64_t": ("S", 64),
}


def ctype(node_or_type):
    t = node_or_type.get("type", node_or_type) if isinstance(node_or_type, dict) else {"qualType": node_or_type}
    for key in ("desugaredQualType", "qualType"):
        q = t.get(key)
        if not q:
            continue
        q = re.sub(r"\b(const|volatile|restrict)\b", "", q).strip()
        if q in TYPES:
            return TYPES[q]
        if q.startswith("enum ") or key == "desugaredQualType" and q.startswith("enum"):
            return ("U", 32)
    q = t.get("qualType", "")
    if "*" in q or "[" in q:
        return ("P", 64)
    # typedef'd enums (EbColorFormat, EbAsm ...) come without desugaring in some nodes
    return ("E", 32)


def wrap(ty, e):
    k, n = ty
    if k == "U":
        return "(CSem.wrapU %d %s)" % (n, e)
    if k == "S":
        return "(CSem.wrapS %d %s)" % (n, e)
    if k == "E":
        return "(CSem.wrapU 32 %s)" % e
    raise Unsupported("wrap to pointer type")


def fits(src, dst):
    """Every value of C type src is representable in dst (so the conversion is the identity)."""
    (sk, sn), (dk, dn) = src, dst
    if sk == "E":
        sk = "U"
    if dk == "E":
        dk = "U"
    if sk == dk:
        return sn <= dn
    if sk == "U" and dk == "S":
        return sn < dn
    return False


LEAN_KW = {"end", "at", "from", "in", "fun", "let", "if", "then", "else", "do", "have", "show", "with", "match",
           "where", "open", "def", "theorem", "instance", "structure", "class", "namespace", "section", "by",
           "type", "Type", "Prop", "Sort", "universe", "variable", "mutual", "local", "private", "protected",
           "partial", "unsafe", "macro", "syntax", "deriving", "extends", "for", "return", "break", "continue",
           "mut", "try", "catch", "finally", "unless", "until", "calc", "suffices", "obtain", "using", "export",
           "import", "prefix", "infix", "postfix", "notation", "abbrev", "axiom", "example", "inductive", "opaque"}


def ident(s):
    s = re.sub(r"[^A-Za-z0-9_]", "_", s)
    if s in LEAN_KW or s[0].isdigit():
        s = s + "_"
    return s


class Ctx:
    def __init__(self, enums=None, calls=None, arrays=None):
        self.enums = enums or {}
        self.calls = calls or {}      # C function name -> lean function name (applied to translated args)
        self.arrays = arrays or {}
        self.free = {}                # flattened member path -> ctype
        self.locals = set()
        self.aliases = {}             # local pointer variable -> path prefix it stands for

    # hooks (overridden by the state-passing translator in cstate.py)
    def read_var(self, name, node):
        return ident(name)

    def read_member(self, path, node):
        self.free[path] = ctype(node)
        return ident(path)

    def call(self, name, node):
        """Return Lean term for a call expression, or None if unknown."""
        if name in self.calls:
            args = " ".join(expr(x, self) for x in node["inner"][1:])
            return "(%s %s)" % (self.calls[name], args)
        return None


def member_path(n, aliases=None):
    """`p->a.b` -> 'p_a_b'; returns None if not a pure member chain on a DeclRef."""
    parts = []
    while True:
        k = n.get("kind")
        if k == "MemberExpr":
            parts.append(n["name"])
            n = n["inner"][0]
        elif k in ("ImplicitCastExpr", "ParenExpr") and n.get("castKind", "LValueToRValue") in ("LValueToRValue", "NoOp"):
            n = n["inner"][0]
        elif k == "DeclRefExpr":
            nm = n["referencedDecl"]["name"]
            parts.append(aliases.get(nm, nm) if aliases else nm)
            break
        elif k == "CStyleCastExpr" and n.get("castKind") in ("NoOp", "BitCast"):
            n = n["inner"][0]          # e.g. ((EbSvtAv1EncConfiguration*)config_struct)->x
        else:
            return None
    return "_".join(reversed(parts))


# set by translators whose executable model is fed type-extreme shift counts (xlate/config.py)
CAP_VARIABLE_SHIFTS = False


def literal_value(n):
    """Value of a (possibly parenthesised / negated) integer literal, else None."""
    while n.get("kind") in ("ParenExpr", "ConstantExpr"):
        n = n["inner"][0]
    if n.get("kind") == "IntegerLiteral":
        return int(n["value"])
    if n.get("kind") == "UnaryOperator" and n.get("opcode") == "-":
        v = literal_value(n["inner"][0])
        return None if v is None else -v
    return None


def expr(n, cx):
    """C expression node -> Lean term of type Int."""
    k = n.get("kind")
    if k == "IntegerLiteral":
        return "(%s : Int)" % n["value"]
    if k == "CharacterLiteral":
        return "(%s : Int)" % n["value"]
    if k in ("ParenExpr", "ConstantExpr"):
        return expr(n["inner"][0], cx)
    if k == "DeclRefExpr":
        rd = n["referencedDecl"]
        if rd["kind"] == "EnumConstantDecl":
            if rd["name"] not in cx.enums:
                raise Unsupported("enum constant %s value unknown" % rd["name"])
            return "(%d : Int)" % cx.enums[rd["name"]]
        if rd["kind"] in ("ParmVarDecl", "VarDecl"):
            return cx.read_var(rd["name"], n)
        raise Unsupported("DeclRef to " + rd["kind"])
    if k == "MemberExpr":
        p = member_path(n, cx.aliases)
        if p is None:
            # `base->arr[i].m` (member of an element of a member array of structs): only contexts that model such arrays
            h = getattr(cx, "read_elem_member", None)
            if h is None:
                raise Unsupported("member expression base too complex")
            return h(n)
        return cx.read_member(p, n)
    if k == "ArraySubscriptExpr":
        base, idx = n["inner"]
        while base.get("kind") in ("ImplicitCastExpr", "ParenExpr"):
            base = base["inner"][0]
        if base.get("kind") == "MemberExpr":
            p = member_path(base, cx.aliases)
            if p is None:
                h = getattr(cx, "read_elem_member", None)
                if h is None:
                    raise Unsupported("array base too complex")
                return "(((%s).getD (%s).toNat 0 : Int))" % (h(base), expr(idx, cx))
            else:
                bt = cx.read_member(p, base)
        elif base.get("kind") == "DeclRefExpr":
            bt = cx.read_var(base["referencedDecl"]["name"], base)
        else:
            raise Unsupported("array base kind %s" % base.get("kind"))
        return "((%s).getD (%s).toNat 0)" % (bt, expr(idx, cx))
    if k == "ImplicitCastExpr" or k == "CStyleCastExpr":
        ck = n.get("castKind")
        inner = n["inner"][0]
        if ck in ("LValueToRValue", "NoOp", "ArrayToPointerDecay"):
            return expr(inner, cx)
        if ck == "NullToPointer":
            return "(0 : Int)"
        if ck == "PointerToBoolean":
            return "(CSem.b2i (%s != 0))" % expr(inner, cx)
        if ck == "IntegralCast":
            src, dst = ctype(inner), ctype(n)
            lit = literal_value(inner)
            if lit is not None and dst[0] in ("U", "S", "E"):
                bits = dst[1]
                v = lit % (1 << bits)
                if dst[0] == "S" and v >= (1 << (bits - 1)):
                    v -= 1 << bits
                return "(%d : Int)" % v          # conversion of a constant, folded at translation time
            e = expr(inner, cx)
            return e if fits(src, dst) else wrap(dst, e)
        if ck == "IntegralToBoolean":
            return "(CSem.b2i (%s != 0))" % expr(inner, cx)
        raise Unsupported("cast kind %s" % ck)
    if k == "UnaryOperator":
        op = n["opcode"]
        a = n["inner"][0]
        if op == "-":
            lv = literal_value(a)
            if lv is not None and ctype(n) == ("S", 32) and lv < 2 ** 31:
                return "(%d : Int)" % (-lv)
            return wrap(ctype(n), "(- %s)" % expr(a, cx))
        if op == "+":
            return expr(a, cx)
        if op == "!":
            return "(CSem.b2i (! %s))" % cond(a, cx)
        if op == "~":
            return wrap(ctype(n), "(- %s - 1)" % expr(a, cx))
        raise Unsupported("unary " + op)
    if k == "BinaryOperator":
        op = n["opcode"]
        a, b = n["inner"]
        ty = ctype(n)
        if op in ("<", "<=", ">", ">=", "==", "!=", "&&", "||"):
            return "(CSem.b2i %s)" % cond(n, cx)
        ea, eb = expr(a, cx), expr(b, cx)
        if op in ("+", "-", "*"):
            return wrap(ty, "(%s %s %s)" % (ea, op, eb))
        if op == "/":
            return wrap(ty, "(CSem.cdiv %s %s)" % (ea, eb))
        if op == "%":
            return "(CSem.cmod %s %s)" % (ea, eb)
        if op == "<<":
            if CAP_VARIABLE_SHIFTS and literal_value(b) is None:
                # variable shift count: `CSem.shlRaw` caps the exponent at 64 (identical after the <= 64-bit wrap that
                # always follows; keeps the executable model from building 2^(2^32) for garbage counts)
                return wrap(ty, "(CSem.shlRaw %s %s)" % (ea, eb))
            return wrap(ty, "(%s * 2 ^ (%s).toNat)" % (ea, eb))
        if op == ">>":
            return "(CSem.shr %s %s)" % (ea, eb)
        if op in ("&", "|", "^"):
            f = {"&": "and", "|": "or", "^": "xor"}[op]
            if ty[0] == "S" and ty[1] == 32:
                return "(CSem.%s32 %s %s)" % (f, ea, eb)
            if ty[0] in ("U", "E") and ty[1] == 32 and op != "^":
                return "(CSem.%sU32 %s %s)" % (f, ea, eb)
            if ty[1] == 64 and op != "^":
                return "(CSem.%s%s64 %s %s)" % (f, "U" if ty[0] == "U" else "", ea, eb)
            raise Unsupported("bitwise %s at type %s" % (op, ty))
        if op == ",":
            raise Unsupported("comma operator")
        raise Unsupported("binary " + op)
    if k == "ConditionalOperator":
        c, a, b = n["inner"]
        return "(if %s then %s else %s)" % (cond(c, cx), expr(a, cx), expr(b, cx))
    if k == "CallExpr":
        callee = n["inner"][0]
        while callee.get("kind") in ("ImplicitCastExpr", "ParenExpr"):
            callee = callee["inner"][0]
        name = callee.get("referencedDecl", {}).get("name")
        t = cx.call(name, n)
        if t is not None:
            return t
        raise Unsupported("call to %s" % name)
    if k == "UnaryExprOrTypeTraitExpr":
        if n.get("name") == "sizeof" and "argType" in n:
            t = ctype(n["argType"])
            if t[0] in ("U", "S"):
                return "(%d : Int)" % (t[1] // 8)
        raise Unsupported("sizeof")
    raise Unsupported("expression kind %s" % k)


def cond(n, cx):
    """C expression in boolean context -> Lean term of type Bool."""
    k = n.get("kind")
    if k == "ParenExpr":
        return cond(n["inner"][0], cx)
    if k == "ImplicitCastExpr" and n.get("castKind") in ("LValueToRValue", "NoOp", "IntegralCast", "IntegralToBoolean", "PointerToBoolean"):
        inner = n["inner"][0]
        if n.get("castKind") == "IntegralCast" and not fits(ctype(inner), ctype(n)):
            return "(%s != 0)" % expr(n, cx)
        if inner.get("kind") in ("BinaryOperator", "UnaryOperator", "ParenExpr", "ImplicitCastExpr"):
            return cond(inner, cx)
        return "(%s != 0)" % expr(inner, cx)
    if k == "UnaryOperator" and n["opcode"] == "!":
        return "(! %s)" % cond(n["inner"][0], cx)
    if k == "BinaryOperator":
        op = n["opcode"]
        a, b = n["inner"]
        if op == "&&":
            return "(%s && %s)" % (cond(a, cx), cond(b, cx))
        if op == "||":
            return "(%s || %s)" % (cond(a, cx), cond(b, cx))
        if op in ("<", "<=", ">", ">=", "==", "!="):
            lop = {"==": "==", "!=": "!="}.get(op)
            ea, eb = expr(a, cx), expr(b, cx)
            if lop:
                return "(%s %s %s)" % (ea, lop, eb)
            return "(decide (%s %s %s))" % (ea, op, eb)
    return "(%s != 0)" % expr(n, cx)


# ------------------------------------------------------------------ statements (continuation style)
def assigned_vars(n, acc):
    k = n.get("kind")
    if k == "BinaryOperator" and n["opcode"] in ("=", "+=", "-=", "*=", "|=", "&=", "<<=", ">>="):
        lhs = n["inner"][0]
        if lhs.get("kind") == "DeclRefExpr":
            acc.add(ident(lhs["referencedDecl"]["name"]))
        else:
            p = member_path(lhs)
            if p is None:
                raise Unsupported("assignment target")
            acc.add(ident(p))
    if k == "UnaryOperator" and n["opcode"] in ("++", "--"):
        t = n["inner"][0]
        if t.get("kind") == "DeclRefExpr":
            acc.add(ident(t["referencedDecl"]["name"]))
        else:
            raise Unsupported("++ on non-variable")
    for c in n.get("inner", []):
        assigned_vars(c, acc)
    return acc


def has_return(n):
    if n.get("kind") == "ReturnStmt":
        return True
    return any(has_return(c) for c in n.get("inner", []))


def stmts(lst, cx, k_tail, ind="  "):
    """Translate statement list; `k_tail` is the Lean term for 'fell off the end' (None = must return)."""
    if not lst:
        if k_tail is None:
            raise Unsupported("control reaches end of non-void function")
        return k_tail
    s, rest = lst[0], lst[1:]
    k = s.get("kind")
    if k == "CompoundStmt":
        return stmts(s.get("inner", []) + rest, cx, k_tail, ind)
    if k == "NullStmt":
        return stmts(rest, cx, k_tail, ind)
    if k == "DeclStmt":
        out = ""
        for v in s.get("inner", []):
            if v.get("kind") != "VarDecl":
                raise Unsupported("decl " + v.get("kind"))
            cx.locals.add(v["name"])
            init = [c for c in v.get("inner", []) if c.get("kind") not in ("FullComment",)]
            if init:
                e = expr(init[0], cx)
                src = ctype(init[0])
                if not fits(src, ctype(v)):
                    e = wrap(ctype(v), e)
                out += "let %s : Int := %s\n%s" % (ident(v["name"]), e, ind)
            else:
                out += "let %s : Int := 0 /- uninitialised in C -/\n%s" % (ident(v["name"]), ind)
        return out + stmts(rest, cx, k_tail, ind)
    if k == "ReturnStmt":
        inner = s.get("inner", [])
        if not inner:
            if k_tail is None:
                raise Unsupported("void return in value context")
            return k_tail
        return expr(inner[0], cx)
    if k == "BinaryOperator" and s["opcode"] == "=":
        lhs, rhs = s["inner"]
        if lhs.get("kind") == "DeclRefExpr":
            name = ident(lhs["referencedDecl"]["name"])
        else:
            p = member_path(lhs)
            if p is None:
                raise Unsupported("assignment target")
            name = ident(p)
        e = expr(rhs, cx)
        if not fits(ctype(rhs), ctype(lhs)):
            e = wrap(ctype(lhs), e)
        return "let %s : Int := %s\n%s" % (name, e, ind) + stmts(rest, cx, k_tail, ind)
    if k == "IfStmt":
        parts = s["inner"]
        c = cond(parts[0], cx)
        th = parts[1]
        el = parts[2] if len(parts) > 2 else None
        if has_return(th) or (el is not None and has_return(el)):
            # duplicate the continuation into the branches (functions are small)
            t_th = stmts([th] + rest, cx, k_tail, ind + "  ")
            t_el = stmts(([el] if el is not None else []) + rest, cx, k_tail, ind + "  ")
            return "if %s then\n%s  %s\n%selse\n%s  %s" % (c, ind, t_th, ind, ind, t_el)
        vs = sorted(assigned_vars(th, set()) | (assigned_vars(el, set()) if el is not None else set()))
        if not vs:
            return stmts(rest, cx, k_tail, ind)
        tup = "(" + ", ".join(vs) + ")" if len(vs) > 1 else vs[0]
        t_th = stmts([th], cx, tup, ind + "  ")
        t_el = stmts([el], cx, tup, ind + "  ") if el is not None else tup
        return "let %s := (if %s then\n%s  %s\n%selse\n%s  %s)\n%s" % (tup, c, ind, t_th, ind, ind, t_el, ind) + \
            stmts(rest, cx, k_tail, ind)
    if k == "CallExpr":
        callee = s["inner"][0]
        while callee.get("kind") in ("ImplicitCastExpr", "ParenExpr"):
            callee = callee["inner"][0]
        name = callee.get("referencedDecl", {}).get("name")
        if name in ("assert", "__assert_fail", "SVT_LOG", "SVT_ERROR", "SVT_WARN", "svt_log", "printf", "fprintf"):
            return stmts(rest, cx, k_tail, ind)
        raise Unsupported("call statement to %s" % name)
    if k in ("ParenExpr", "ConditionalOperator", "CStyleCastExpr"):
        # `assert(x)` expands to ((x) ? (void)0 : __assert_fail(...)) -- no effect on values
        if "__assert_fail" in json.dumps(s):
            return stmts(rest, cx, k_tail, ind)
        raise Unsupported("expression statement " + k)
    raise Unsupported("statement kind %s" % k)


def translate_function(fn, lean_name, cx, param_order=None, doc=""):
    """FunctionDecl -> Lean def text.  Parameters: scalar C params (pointer params dropped) followed by
    free member paths in sorted order.  Returns (text, param_names)."""
    params = [p for p in fn.get("inner", []) if p.get("kind") == "ParmVarDecl"]
    body = [c for c in fn["inner"] if c.get("kind") == "CompoundStmt"][0]
    term = stmts(body.get("inner", []), cx, None, "  ")
    scalars = [ident(p["name"]) for p in params if ctype(p)[0] != "P"]
    frees = sorted(ident(p) for p in cx.free)
    names = (param_order if param_order else frees + scalars)
    missing = set(frees + scalars) - set(names)
    if missing:
        raise Unsupported("param_order misses %s" % sorted(missing))
    sig = " ".join("(%s : Int)" % x for x in names)
    text = "%sdef %s %s : Int :=\n  %s\n" % (("/-- %s -/\n" % doc) if doc else "", lean_name, sig, term)
    return text, names
