"""C06/C07: regenerate lean/SvtVerif/Gen/Dispatch.lean from the run-time CPU dispatch tables of /repo.

Sources (each is preprocessed with `gcc -E -P` using the library's own defines, so `#if` blocks are
resolved exactly as in the build, and the SET_* macros are seen in their *expanded* form):

  Source/Lib/Common/Codec/common_dsp_rtcd.c   setup_common_rtcd_internal(), get_cpu_flags_to_use()
  Source/Lib/Encoder/Codec/aom_dsp_rtcd.c     setup_rtcd_internal()
  Source/Lib/Encoder/Globals/EbEncHandle.c    `use_cpu_flags &= cpu_flags_to_use` (text scan)
  Source/Lib/Decoder/Codec/EbDecHandle.c      `cpu_flags = get_cpu_flags_to_use()` (text scan)

Every statement of the two setup functions must be one of the shapes below; anything else raises
`Unsupported` (the check then fails loudly instead of approximating):

  S0  the three `first_call_setup` / `check_pointer_was_set` lines
  S1  flags &= get_cpu_flags_to_use();
  S2  do { <was-set check> <c-is-NULL check> PTR = C; { if ((NULL != FN) && (flags & (1 << K))) PTR = FN; }* } while (0);
  S3  if (flags & (1 << K)) PTR = FN;            (a pointer without C fallback)

S2 is the expansion of SET_FUNCTIONS; the order of the `if`s and the flag bit K of each are read from the
expansion itself (not assumed from the macro's parameter names).  Slots whose FN is the literal 0 are dropped,
exactly as `(uintptr_t)NULL != (uintptr_t)0` drops them at run time.
"""
import os
import re
import subprocess
import sys

REPO = os.environ.get("VERIF_REPO", os.environ.get("SVT_REPO", "/repo"))

COMMON = "Source/Lib/Common/Codec/common_dsp_rtcd.c"
ENC = "Source/Lib/Encoder/Codec/aom_dsp_rtcd.c"
ENC_HANDLE = "Source/Lib/Encoder/Globals/EbEncHandle.c"
DEC_HANDLE = "Source/Lib/Decoder/Codec/EbDecHandle.c"

INC_DIRS = [".", "Source/API", "Source/Lib/Common/Codec", "Source/Lib/Common/C_DEFAULT",
            "Source/Lib/Common/ASM_SSE2", "Source/Lib/Common/ASM_SSSE3", "Source/Lib/Common/ASM_SSE4_1",
            "Source/Lib/Common/ASM_AVX2", "Source/Lib/Common/ASM_AVX512",
            "Source/Lib/Encoder/Codec", "Source/Lib/Encoder/C_DEFAULT", "Source/Lib/Encoder/Globals",
            "Source/Lib/Encoder/ASM_SSE2", "Source/Lib/Encoder/ASM_SSSE3", "Source/Lib/Encoder/ASM_SSE4_1",
            "Source/Lib/Encoder/ASM_AVX2", "Source/Lib/Encoder/ASM_AVX512",
            "third_party/fastfeat", "third_party/cpuinfo/include"]

FLAG_NAMES = ["MMX", "SSE", "SSE2", "SSE3", "SSSE3", "SSE4_1", "SSE4_2", "AVX", "AVX2", "AVX512F", "AVX512CD",
              "AVX512DQ", "AVX512ER", "AVX512PF", "AVX512BW", "AVX512VL"]


class Unsupported(Exception):
    pass


def preprocess(path, avx512):
    cmd = ["gcc", "-E", "-P", "-DARCH_X86_64=1", "-DEN_AVX512_SUPPORT=%d" % (1 if avx512 else 0), "-DNDEBUG",
           "-DSAFECLIB_STR_NULL_SLACK=1"]
    cmd += ["-I" + os.path.join(REPO, d) for d in INC_DIRS if os.path.isdir(os.path.join(REPO, d))]
    cmd.append(os.path.join(REPO, path))
    p = subprocess.run(cmd, stdout=subprocess.PIPE, stderr=subprocess.PIPE)
    if p.returncode != 0:
        raise Unsupported("gcc -E failed on %s: %s" % (path, p.stderr.decode()[-800:]))
    return p.stdout.decode()


def function_body(text, name):
    """Text between the braces of the single definition `name(...) {`."""
    ms = list(re.finditer(r"\b%s\s*\([^;{)]*\)\s*\{" % re.escape(name), text))
    if len(ms) != 1:
        raise Unsupported("expected exactly one definition of %s, found %d" % (name, len(ms)))
    i = ms[0].end()
    depth, j, n = 1, i, len(text)
    in_str = False
    while j < n and depth:
        ch = text[j]
        if in_str:
            if ch == "\\":
                j += 1
            elif ch == '"':
                in_str = False
        elif ch == '"':
            in_str = True
        elif ch == "{":
            depth += 1
        elif ch == "}":
            depth -= 1
        j += 1
    if depth:
        raise Unsupported("unbalanced braces in %s" % name)
    return text[i:j - 1]


ID = r"[A-Za-z_][A-Za-z_0-9]*"
NULLP = r"\(\s*uintptr_t\s*\)\s*\(\s*\(\s*void\s*\*\s*\)\s*0\s*\)"      # (uintptr_t)((void *)0)
STR = r'"(?:[^"\\]|\\.)*"'
ASSERT0 = r"\(\s*\(\s*void\s*\)\s*\(?\s*0\s*\)?\s*\)"                     # ((void) (0))  (assert under NDEBUG)

RE_S0 = [re.compile(r"static\s+uint8_t\s+first_call_setup\s*=\s*1\s*;"),
         re.compile(r"uint8_t\s+check_pointer_was_set\s*=\s*first_call_setup\s*;"),
         re.compile(r"first_call_setup\s*=\s*0\s*;")]
RE_S1 = re.compile(r"flags\s*&=\s*get_cpu_flags_to_use\s*\(\s*\)\s*;")
RE_S2_HEAD = re.compile(
    r"do\s*\{\s*if\s*\(\s*check_pointer_was_set\s*&&\s*(?P<ptr>%s)\s*!=\s*0\s*\)\s*\{\s*printf\s*\(\s*%s\s*,\s*(?P<file>%s)\s*,\s*(?P<line>\d+)\s*,\s*%s\s*\)\s*;\s*%s\s*;\s*\}"
    r"\s*if\s*\(\s*%s\s*==\s*\(\s*uintptr_t\s*\)\s*(?P<c>%s)\s*\)\s*\{\s*printf\s*\(\s*%s\s*,\s*%s\s*,\s*\d+\s*,\s*%s\s*\)\s*;\s*%s\s*;\s*\}"
    r"\s*(?P<ptr2>%s)\s*=\s*(?P<c2>%s)\s*;" % (ID, STR, STR, STR, ASSERT0, NULLP, ID, STR, STR, STR, ASSERT0, ID, ID))
RE_S2_SLOT = re.compile(
    r"\s*if\s*\(\s*\(\s*%s\s*!=\s*\(\s*uintptr_t\s*\)\s*(?P<fn>%s|0)\s*\)\s*&&\s*\(\s*flags\s*&\s*\(\s*1\s*<<\s*(?P<bit>\d+)\s*\)\s*\)\s*\)\s*(?P<ptr>%s)\s*=\s*(?P<fn2>%s|0)\s*;"
    % (NULLP, ID, ID, ID))
RE_S2_TAIL = re.compile(r"\s*\}\s*while\s*\(\s*0\s*\)\s*;")
RE_S3 = re.compile(r"if\s*\(\s*flags\s*&\s*\(\s*1\s*<<\s*(?P<bit>\d+)\s*\)\s*\)\s*(?P<ptr>%s)\s*=\s*(?P<fn>%s)\s*;" % (ID, ID))


def parse_setup(body, src):
    """-> (entries, masked_before_first_entry).  entry = dict(ptr, c (None if no C fallback), slots [(bit, fn)], file, line)"""
    pos, n = 0, len(body)
    entries = []
    by_ptr = {}
    s0_seen = 0
    masked = False
    while True:
        while pos < n and body[pos].isspace():
            pos += 1
        if pos >= n:
            break
        m = None
        for r in RE_S0:
            m = r.match(body, pos)
            if m:
                s0_seen += 1
                break
        if m:
            pos = m.end()
            continue
        m = RE_S1.match(body, pos)
        if m:
            if entries:
                raise Unsupported("%s: `flags &= get_cpu_flags_to_use()` appears after %d registrations" % (src, len(entries)))
            masked = True
            pos = m.end()
            continue
        m = RE_S2_HEAD.match(body, pos)
        if m:
            if m.group("ptr") != m.group("ptr2") or m.group("c") != m.group("c2"):
                raise Unsupported("%s:%s: SET_FUNCTIONS expansion names differ (%s/%s, %s/%s)" % (
                    src, m.group("line"), m.group("ptr"), m.group("ptr2"), m.group("c"), m.group("c2")))
            e = dict(ptr=m.group("ptr"), c=m.group("c"), slots=[], file=src, line=int(m.group("line")))
            pos = m.end()
            while True:
                ms = RE_S2_SLOT.match(body, pos)
                if not ms:
                    break
                if ms.group("ptr") != e["ptr"] or ms.group("fn") != ms.group("fn2"):
                    raise Unsupported("%s:%d: slot assigns %s = %s under a test of %s" % (
                        src, e["line"], ms.group("ptr"), ms.group("fn2"), ms.group("fn")))
                bit = int(ms.group("bit"))
                if not 0 <= bit < 16:
                    raise Unsupported("%s:%d: flag bit %d outside CPU_FLAGS" % (src, e["line"], bit))
                if ms.group("fn") != "0":
                    e["slots"].append((bit, ms.group("fn")))
                pos = ms.end()
            mt = RE_S2_TAIL.match(body, pos)
            if not mt:
                raise Unsupported("%s:%d: unrecognised text inside SET_FUNCTIONS expansion: %r" % (src, e["line"], body[pos:pos + 160]))
            pos = mt.end()
            if e["ptr"] in by_ptr:
                raise Unsupported("%s:%d: pointer %s registered twice" % (src, e["line"], e["ptr"]))
            by_ptr[e["ptr"]] = e
            entries.append(e)
            continue
        m = RE_S3.match(body, pos)
        if m:
            p = m.group("ptr")
            e = by_ptr.get(p)
            if e is None:
                e = dict(ptr=p, c=None, slots=[], file=src, line=0)
                by_ptr[p] = e
                entries.append(e)
            elif e["c"] is not None:
                raise Unsupported("%s: bare `if (flags & ..) %s = ..` after a SET_FUNCTIONS registration of the same pointer" % (src, p))
            e["slots"].append((int(m.group("bit")), m.group("fn")))
            pos = m.end()
            continue
        raise Unsupported("%s: statement shape not understood: %r" % (src, body[pos:pos + 200]))
    if s0_seen != 3:
        raise Unsupported("%s: expected the 3 first_call_setup statements, saw %d" % (src, s0_seen))
    return entries, masked


def parse_to_use(text):
    """get_cpu_flags_to_use(): -> mask (int) applied to the detected flags."""
    body = function_body(text, "get_cpu_flags_to_use")
    stm = [s.strip() for s in body.split(";") if s.strip()]
    if not stm or not re.fullmatch(r"CPU_FLAGS\s+flags\s*=\s*get_cpu_flags\s*\(\s*\)", stm[0]):
        raise Unsupported("get_cpu_flags_to_use: first statement %r" % (stm[:1],))
    if stm[-1] != "return flags":
        raise Unsupported("get_cpu_flags_to_use: last statement %r" % stm[-1])
    mask = 0xFFFF
    for s in stm[1:-1]:
        m = re.fullmatch(r"flags\s*&=\s*\(\s*\(\s*1\s*<<\s*(\d+)\s*\)\s*-\s*1\s*\)", s)
        if not m:
            raise Unsupported("get_cpu_flags_to_use: statement %r" % s)
        mask &= (1 << int(m.group(1))) - 1
    return mask


def strip_comments(s):
    s = re.sub(r"/\*.*?\*/", lambda m: "\n" * m.group(0).count("\n"), s, flags=re.S)
    return re.sub(r"//[^\n]*", "", s)


def scan_handle_sites():
    """Text scan of the two call sites: -> list of (site, ok, detail)."""
    sites = []
    t = strip_comments(open(os.path.join(REPO, ENC_HANDLE)).read())
    m1 = re.search(r"const\s+CPU_FLAGS\s+cpu_flags_to_use\s*=\s*get_cpu_flags_to_use\s*\(\s*\)\s*;", t)
    m2 = re.search(r"scs_ptr->static_config\.use_cpu_flags\s*&=\s*cpu_flags_to_use\s*;", t)
    calls = [(m.start(), m.group(1)) for m in re.finditer(r"\b(setup_common_rtcd_internal|setup_rtcd_internal)\s*\(\s*([^;]*?)\)\s*;", t)]
    args = [m.group(2) for m in re.finditer(r"\b(setup_common_rtcd_internal|setup_rtcd_internal)\s*\(\s*([^;]*?)\)\s*;", t)]
    ok = bool(m1 and m2 and m1.start() < m2.start())
    line = t.count("\n", 0, m2.start()) + 1 if m2 else 0
    sites.append(("%s:%d use_cpu_flags &= get_cpu_flags_to_use()" % (ENC_HANDLE, line), ok, ""))
    want = "enc_handle_ptr->scs_instance_array[0]->scs_ptr->static_config.use_cpu_flags"
    ok2 = sorted(c[1] for c in calls) == ["setup_common_rtcd_internal", "setup_rtcd_internal"] and all(re.sub(r"\s+", "", a) == want for a in args)
    sites.append(("%s: both setup_*_rtcd_internal(static_config.use_cpu_flags)" % ENC_HANDLE, ok2, ""))
    t = strip_comments(open(os.path.join(REPO, DEC_HANDLE)).read())
    m1 = re.search(r"CPU_FLAGS\s+cpu_flags\s*=\s*get_cpu_flags_to_use\s*\(\s*\)\s*;", t)
    m2 = re.search(r"setup_common_rtcd_internal\s*\(\s*cpu_flags\s*\)\s*;", t)
    ncalls = len(re.findall(r"\bsetup_common_rtcd_internal\s*\(", t))
    sites.append(("%s: cpu_flags = get_cpu_flags_to_use(); setup_common_rtcd_internal(cpu_flags)" % DEC_HANDLE,
                  bool(m1 and m2 and m1.start() < m2.start() and ncalls == 1), ""))
    return sites


def parse_all(avx512=False):
    tc = preprocess(COMMON, avx512)
    te = preprocess(ENC, avx512)
    ce, cm = parse_setup(function_body(tc, "setup_common_rtcd_internal"), COMMON)
    ee, em = parse_setup(function_body(te, "setup_rtcd_internal"), ENC)
    ptrs = set(e["ptr"] for e in ce)
    for e in ee:
        if e["ptr"] in ptrs:
            raise Unsupported("pointer %s registered in both tables" % e["ptr"])
    return dict(common=ce, enc=ee, common_masked=cm, enc_masked=em, to_use_mask=parse_to_use(tc))


def lean_str(s):
    if not re.fullmatch(r"[A-Za-z_0-9./]*", s):
        raise Unsupported("unexpected character in identifier %r" % s)
    return 'name! "%s"' % s


def lean_entry(e):
    c = "none" if e["c"] is None else "some (%s)" % lean_str(e["c"])
    slots = ", ".join("(%d, %s)" % (b, lean_str(f)) for b, f in e["slots"])
    return "  { ptr := %s, c := %s, slots := [%s], line := %d }" % (lean_str(e["ptr"]), c, slots, e["line"])


CHUNK = 64


def lean_table(name, entries):
    """Emit the table as a concatenation of chunks so that `decide` obligations can be split."""
    out = []
    nchunks = (len(entries) + CHUNK - 1) // CHUNK
    for k in range(nchunks):
        out.append("def %s_%d : List Entry := [\n%s\n]\n" % (name, k, ",\n".join(lean_entry(e) for e in entries[k * CHUNK:(k + 1) * CHUNK])))
    out.append("def %sChunks : List (List Entry) := [%s]\n" % (name, ", ".join("%s_%d" % (name, k) for k in range(nchunks))))
    out.append("def %s : List Entry := %sChunks.flatten\n" % (name, name))
    return "\n".join(out)


def generate():
    d0 = parse_all(False)
    d1 = parse_all(True)
    sites = scan_handle_sites()
    out = ["""/- GENERATED by xlate/rtcd.py from /repo (gcc -E expansion of every SET_* registration). Do not edit.
   `common`/`enc`       : the build's configuration (EN_AVX512_SUPPORT=0)
   `common512`/`enc512` : the same sources preprocessed with EN_AVX512_SUPPORT=1
   slots are (CPU_FLAGS bit index, function) in the order SET_FUNCTIONS tests them. -/
import SvtVerif.Model.Dispatch
namespace Gen.Dispatch
open _root_.Dispatch
"""]
    out.append(lean_table("common", d0["common"]))
    out.append(lean_table("enc", d0["enc"]))
    out.append(lean_table("common512", d1["common"]))
    out.append(lean_table("enc512", d1["enc"]))
    out.append("/-- `flags &= (CPU_FLAGS_AVX512F - 1)` in get_cpu_flags_to_use() (common_dsp_rtcd.c:102-109) -/")
    out.append("def toUseMask : Nat := %d" % d0["to_use_mask"])
    out.append("def toUseMask512 : Nat := %d" % d1["to_use_mask"])
    out.append("/-- first effective statement of each setup function is `flags &= get_cpu_flags_to_use()` -/")
    out.append("def commonMasked : Bool := %s" % ("true" if d0["common_masked"] and d1["common_masked"] else "false"))
    out.append("def encMasked : Bool := %s" % ("true" if d0["enc_masked"] and d1["enc_masked"] else "false"))
    out.append("/-- call sites found by text scan: (site, shape recognised) -/")
    out.append("def maskSites : List (String × Bool) := [\n%s\n]" % ",\n".join('  ("%s", %s)' % (s, "true" if ok else "false") for s, ok, _ in sites))
    out.append("end Gen.Dispatch\n")
    return "\n".join(out), d0, d1, sites


def main(dst):
    txt, d0, d1, sites = generate()
    old = open(dst).read() if os.path.exists(dst) else None
    if old != txt:
        open(dst, "w").write(txt)
    return d0, d1, sites


if __name__ == "__main__":
    d0, d1, sites = main(sys.argv[1] if len(sys.argv) > 1 else os.path.join(os.path.dirname(os.path.dirname(os.path.abspath(__file__))), "lean/SvtVerif/Gen/Dispatch.lean"))
    for k, d in (("build", d0), ("avx512", d1)):
        es = d["common"] + d["enc"]
        print(k, "entries", len(es), "slots", sum(len(e["slots"]) for e in es), "mask", d["to_use_mask"], d["common_masked"], d["enc_masked"])
    for s in sites:
        print(s)
