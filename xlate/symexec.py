"""Symbolic execution of straight-line C (assignments, if/else, switch, whitelisted loops) into a
per-field normal form: after running a function, every structure field and local has a Lean term over the
function's *inputs*.  This is what makes the generated model proof-friendly: each validation condition of
`verify_settings` becomes a closed term over the caller's configuration.

The store maps  "<structvar>.<field>" / "local:<name>"  ->  Lean term (type Int or List Int).
Joins after `if` produce `(if c then a else b)` only for the keys on which the branches differ.
"""
import json
import re
import cfun
import cstate
from cfun import Unsupported, ident, ctype, wrap, fits


class Sym(cstate.SCtx):
    def __init__(self, enums=None):
        super().__init__(enums=enums)
        self.store = {}
        self.struct_members = {}

    # --- reads go through the store
    def key(self, sv, f):
        return "%s.%s" % (sv.var, ident(f))

    def read_member(self, path, node):
        default = super().read_member(path, node)     # registers the field, returns "s.f"
        return self.store.get(default, default)

    def read_var(self, name, node):
        k = "local:" + ident(name)
        if k in self.store:
            return self.store[k]
        return super().read_var(name, node)


def lval_key(n, cx):
    """-> (kind, key, extra) kind in local|field|elem"""
    while n.get("kind") == "ParenExpr":
        n = n["inner"][0]
    k = n.get("kind")
    if k == "DeclRefExpr":
        return "local", "local:" + ident(n["referencedDecl"]["name"]), ctype(n), None
    if k == "MemberExpr":
        p = cfun.member_path(n, cx.aliases)
        sv, f = cx.split(p) if p else (None, None)
        if sv is None:
            raise Unsupported("assignment target %s" % p)
        cstate.SCtx.read_member(cx, p, n)
        return "field", cx.key(sv, f), ctype(n), p
    if k == "ArraySubscriptExpr":
        base, idx = n["inner"]
        b = cstate.strip_casts(base)
        p = cfun.member_path(b, cx.aliases) if b.get("kind") == "MemberExpr" else None
        sv, f = cx.split(p) if p else (None, None)
        if sv is None:
            raise Unsupported("array element assignment base")
        cstate.SCtx.read_member(cx, p, b)
        return "elem", cx.key(sv, f), ctype(n), (sv, f, idx)
    raise Unsupported("lvalue kind %s" % k)


def read_key(cx, key):
    if key in cx.store:
        return cx.store[key]
    if key.startswith("local:"):
        return key[6:]
    return key


def do_assign(n, cx):
    lhs_n, rhs_n = n["inner"]
    op = n["opcode"]
    if rhs_n.get("kind") == "BinaryOperator" and rhs_n.get("opcode") == "=":
        val, vty = do_assign(rhs_n, cx), ctype(rhs_n)
    else:
        val, vty = None, None
    kind, key, lty, extra = lval_key(lhs_n, cx)
    if kind == "field" and lty[0] == "E" and extra in cx.struct_members and val is None:
        rp = cfun.member_path(cstate.strip_casts(rhs_n), cx.aliases)
        if rp is None:
            raise Unsupported("whole-struct assignment source")
        for m in cx.struct_members[extra]:
            lsv, lf = cx.split(extra + "_" + m)
            rsv, rf = cx.split(rp + "_" + m)
            lsv.fields.setdefault(lf, ("int", ("S", 64)))
            rsv.fields.setdefault(rf, ("int", ("S", 64)))
            cx.store[cx.key(lsv, lf)] = read_key(cx, cx.key(rsv, rf))
        return "0"
    if val is None:
        val, vty = cfun.expr(rhs_n, cx), ctype(rhs_n)
    if kind == "elem":
        sv, f, idx = extra
        ent = sv.fields[f]
        lit = cfun.literal_value(cstate.strip_casts(idx))
        if lit is None or ent[0] != "list" or not (0 <= lit < (ent[2] or 0)):
            raise Unsupported("array element write with non-constant or out-of-range index outside a whitelisted loop")
        cur = read_key(cx, key)
        if op != "=":
            raise Unsupported("compound assignment to array element")
        cx.store[key] = "((%s).set %d %s)" % (cur, lit, val)
        return val
    if op != "=":
        bop = op[:-1]
        if bop not in ("+", "-", "*"):
            raise Unsupported("compound assignment " + op)
        val = wrap(ctype(n), "(%s %s %s)" % (read_key(cx, key), bop, val))
    elif lty[0] != "P" and vty[0] != "P" and not fits(vty, lty):
        val = wrap(lty, val)
    cx.store[key] = val
    return val


def merge(cx, c, st_then, st_else):
    keys = list(dict.fromkeys(list(st_then.keys()) + list(st_else.keys())))
    out = {}
    for k in keys:
        a = st_then.get(k, read_default(k))
        b = st_else.get(k, read_default(k))
        out[k] = a if a == b else "(if %s then %s else %s)" % (c, a, b)
    return out


def read_default(k):
    return k[6:] if k.startswith("local:") else k


def array_of(n, cx):
    t = cstate.strip_casts(n)
    if t.get("kind") == "UnaryOperator" and t.get("opcode") == "&":
        t = cstate.strip_casts(t["inner"][0])
    if t.get("kind") == "ArraySubscriptExpr":
        t = cstate.strip_casts(t["inner"][0])
    p = cfun.member_path(t, cx.aliases)
    sv, f = cx.split(p) if p else (None, None)
    if sv is None:
        raise Unsupported("memcpy/memset operand")
    cstate.SCtx.read_member(cx, p, t)
    return sv, f


def run(lst, cx, opaque):
    for s in lst:
        if not s:
            continue
        k = s.get("kind")
        if k == "CompoundStmt":
            run(s.get("inner", []), cx, opaque)
        elif k == "NullStmt":
            pass
        elif k == "DeclStmt":
            for v in s.get("inner", []):
                init = [c for c in v.get("inner", []) if c.get("kind") not in ("FullComment",)]
                vt = ctype(v)
                if vt[0] == "P":
                    cstate.block([{"kind": "DeclStmt", "inner": [v]}], cx, "()", "")
                    continue
                if init:
                    e = cfun.expr(init[0], cx)
                    if not fits(ctype(init[0]), vt):
                        e = wrap(vt, e)
                else:
                    e = "(0 : Int)"
                cx.store["local:" + ident(v["name"])] = e
        elif k in ("BinaryOperator", "CompoundAssignOperator") and s.get("opcode") in cstate.ASSIGN_OPS:
            do_assign(s, cx)
        elif k == "IfStmt":
            p = s["inner"]
            c = cfun.cond(p[0], cx)
            base = dict(cx.store)
            run([p[1]], cx, opaque)
            st_then = cx.store
            cx.store = dict(base)
            if len(p) > 2:
                run([p[2]], cx, opaque)
            st_else = cx.store
            cx.store = merge(cx, c, st_then, st_else)
        elif k == "SwitchStmt":
            sel = cfun.expr(s["inner"][0], cx)
            body = s["inner"][-1]
            cases, cur, default = [], None, None
            for c in body.get("inner", []):
                kk = c.get("kind")
                while kk in ("CaseStmt", "DefaultStmt"):
                    if kk == "CaseStmt":
                        cur = [cfun.expr(c["inner"][0], cx), []]
                        cases.append(cur)
                    else:
                        cur = [None, []]
                        default = cur
                    c = c["inner"][-1]
                    kk = c.get("kind")
                if kk == "BreakStmt":
                    cur = None
                    continue
                if cur is None:
                    raise Unsupported("statement outside case / fall-through in switch")
                cur[1].append(c)
            base = dict(cx.store)
            if default:
                run(default[1], cx, opaque)
            acc = cx.store
            for val, st in reversed(cases):
                cx.store = dict(base)
                run(st, cx, opaque)
                acc = merge(cx, "((%s) == %s)" % (sel, val), cx.store, acc)
            cx.store = acc
        elif k == "ForStmt":
            run_copy_loop(s, cx)
        elif k == "CallExpr":
            name = cstate.callee_name(s)
            if name in cstate.LOG_CALLS:
                continue
            if name == "memset":
                sv, f = array_of(s["inner"][1], cx)
                ent = sv.fields[f]
                size = cstate.strip_casts(s["inner"][3])
                if size.get("kind") != "UnaryExprOrTypeTraitExpr":
                    raise Unsupported("memset form")
                if ent[0] == "blob":       # struct array modelled as an opaque content tag (byte value it was filled with)
                    cx.store[cx.key(sv, f)] = cfun.expr(s["inner"][2], cx)
                elif ent[0] == "structlist":   # array of structs, whole array: every member of every element is filled with the byte
                    cx.store[cx.key(sv, f)] = "(List.replicate %d (%s.fill %s))" % (ent[2], ent[1], cfun.expr(s["inner"][2], cx))
                elif ent[0] == "list":
                    cx.store[cx.key(sv, f)] = "(List.replicate %d %s)" % (ent[2], cfun.expr(s["inner"][2], cx))
                else:
                    raise Unsupported("memset form")
            elif name in ("memcpy", "svt_memcpy_app", "svt_memcpy"):
                dsv, df = array_of(s["inner"][1], cx)
                ssv, sf = array_of(s["inner"][2], cx)
                if dsv.fields[df][0] == "structlist":
                    # memcpy(&dst[0], &src[0], N * sizeof(Elem)): bounded prefix copy of N elements.  N is the operand as clang
                    # converted it (to size_t, so a negative count is a huge one); any N above the array length is recorded in
                    # `oob` (for 32-bit N the byte count N*sizeof(Elem) mod 2^64 then also exceeds the array, so this is exact).
                    dent, sent = dsv.fields[df], ssv.fields[sf]
                    if sent[0] != "structlist" or sent[1] != dent[1]:
                        raise Unsupported("memcpy between different struct arrays")
                    for side in (s["inner"][1], s["inner"][2]):
                        t = cstate.strip_casts(side)
                        if t.get("kind") == "UnaryOperator" and t.get("opcode") == "&":
                            t = cstate.strip_casts(t["inner"][0])
                        if t.get("kind") == "ArraySubscriptExpr" and cfun.literal_value(cstate.strip_casts(t["inner"][1])) != 0:
                            raise Unsupported("memcpy of a struct array not starting at element 0")
                    size = s["inner"][3]
                    while size.get("kind") in ("ParenExpr",) or (size.get("kind") == "ImplicitCastExpr" and size.get("castKind") == "NoOp"):
                        size = size["inner"][0]
                    if not (size.get("kind") == "BinaryOperator" and size.get("opcode") == "*"):
                        raise Unsupported("memcpy size of a struct array is not `count * sizeof(element)`")
                    a, b = size["inner"]
                    def is_sizeof(x):
                        x = cstate.strip_casts(x)
                        return x.get("kind") == "UnaryExprOrTypeTraitExpr" and x.get("name") == "sizeof" and \
                            x.get("argType", {}).get("qualType") == cx.struct_ctype.get(dent[1])
                    if is_sizeof(b) and not is_sizeof(a):
                        cnt = cfun.expr(a, cx)
                    elif is_sizeof(a) and not is_sizeof(b):
                        cnt = cfun.expr(b, cx)
                    else:
                        raise Unsupported("memcpy size of a struct array is not `count * sizeof(element)`")
                    dk, sk = cx.key(dsv, df), cx.key(ssv, sf)
                    cx.store[dk] = "(copyPrefixE %s %s %s)" % (cnt, read_key(cx, sk), read_key(cx, dk))
                    ok = "%s.oob" % dsv.var
                    cx.store[ok] = "(if decide (%s > %d) then 1 else %s)" % (cnt, min(dent[2], sent[2]), read_key(cx, ok))
                    continue
                ent = dsv.fields[df]
                m = re.search(r'"kind": "IntegerLiteral".*?"value": "(\d+)"', json.dumps(s["inner"][3]))
                if ent[0] != "list" or not m or int(m.group(1)) != ent[2]:
                    raise Unsupported("memcpy size is not the whole destination array")
                cx.store[cx.key(dsv, df)] = read_key(cx, cx.key(ssv, sf))
            else:
                raise Unsupported("call statement to %s" % name)
        elif k == "ReturnStmt":
            if s is not lst[-1]:
                raise Unsupported("early return")
            if s.get("inner"):
                cx.store["return"] = cfun.expr(s["inner"][0], cx)
        elif k in ("ParenExpr", "ConditionalOperator", "CStyleCastExpr", "ImplicitCastExpr") and "__assert_fail" in json.dumps(s):
            pass
        else:
            raise Unsupported("statement kind %s" % k)


def run_copy_loop(s, cx):
    """Whitelisted loop:  for (i = 0; i < N; ++i) { dstA[i] = srcA[i]; dstB[i] = srcB[i]; ... }
       -> dstX := CSem.copyPrefix N srcX dstX ;  oob := N > len(dstX) (C writes/reads past the arrays)."""
    init, _cv, cnd, inc, body = (s["inner"] + [{}] * 5)[:5]
    if not (init.get("kind") == "BinaryOperator" and init.get("opcode") == "=" and cfun.literal_value(cstate.strip_casts(init["inner"][1])) == 0):
        raise Unsupported("loop init is not `i = 0`")
    ivar = cstate.strip_casts(init["inner"][0])["referencedDecl"]["name"]
    if not (cnd.get("kind") == "BinaryOperator" and cnd.get("opcode") == "<" and
            cstate.strip_casts(cnd["inner"][0]).get("referencedDecl", {}).get("name") == ivar):
        raise Unsupported("loop condition is not `i < N`")
    bound = cfun.expr(cnd["inner"][1], cx)
    if not (inc.get("kind") == "UnaryOperator" and inc.get("opcode") == "++"):
        raise Unsupported("loop increment")
    stmts = body.get("inner", []) if body.get("kind") == "CompoundStmt" else [body]
    for st in stmts:
        if not (st.get("kind") == "BinaryOperator" and st.get("opcode") == "="):
            raise Unsupported("loop body statement is not an element copy")
        l, r = st["inner"]
        r = cstate.strip_casts(r)
        if l.get("kind") != "ArraySubscriptExpr" or r.get("kind") != "ArraySubscriptExpr":
            raise Unsupported("loop body statement is not `dst[i] = src[i]`")
        for side in (l, r):
            ix = cstate.strip_casts(side["inner"][1])
            if ix.get("referencedDecl", {}).get("name") != ivar:
                raise Unsupported("loop body index is not the loop variable")
        dsv, df = array_of(l["inner"][0], cx)
        ssv, sf = array_of(r["inner"][0], cx)
        dent, sent = dsv.fields[df], ssv.fields[sf]
        if dent[0] != "list" or sent[0] != "list":
            raise Unsupported("loop copies non-arrays")
        dk, sk = cx.key(dsv, df), cx.key(ssv, sf)
        cx.store[dk] = "(CSem.copyPrefix %s %s %s)" % (bound, read_key(cx, sk), read_key(cx, dk))
        ok = "%s.oob" % dsv.var
        cx.store[ok] = "(if decide (%s > %d) then 1 else %s)" % (bound, min(dent[2], sent[2]), read_key(cx, ok))
    cx.store["local:" + ident(ivar)] = bound
