"""C07: handler list of the differential kernel harness (used by kernel_protos.py).

Each handler: name, pointer-name regex (full match), the exact normalised prototype(s) it was written for,
the C shape handler in harness/kernels_shapes.h, how to derive size/kind constants from the name, and the
DOMAIN string (what inputs are generated = what is claimed to be the valid domain).
"""

HANDLERS = []


def H(name, pattern, sigs, cfunc, domain, params=None):
    if isinstance(sigs, str):
        sigs = [sigs]
    HANDLERS.append(dict(name=name, pattern=pattern, sigs=set(sigs), cfunc=cfunc, domain=domain, params=params))


def wh(m, wi=None, hi=None, **kw):
    gd = m.groupdict()
    d = dict(w=int(gd["w"]), h=int(gd["h"]))
    d.update(kw)
    return d


INTRA_KINDS = {"dc": 0, "dc_top": 1, "dc_left": 2, "dc_128": 3, "v": 4, "h": 5, "smooth": 6, "smooth_v": 7, "smooth_h": 8, "paeth": 9}

H("intra_lbd", r"svt_aom_(?P<kind>paeth|dc|dc_top|dc_left|dc_128|v|h|smooth|smooth_v|smooth_h)_predictor_(?P<w>\d+)x(?P<h>\d+)",
  "void(uint8_t*,ptrdiff_t,const uint8_t*,const uint8_t*)", "h_intra",
  "8-bit non-directional intra predictors: all 19 tx sizes; above[-1..2W+15], left[-1..2H+15] any uint8 (above/left 16-byte aligned "
  "as in the encoder's above_data+16 / left_data+16); dst at any byte offset, stride in {W, W+1..W+40, 192, 2W+16}; "
  "top-left sample 0 / max / random; patterns lo/hi/checker/ramp/rand/outlier",
  lambda m: dict(w=int(m.group("w")), h=int(m.group("h")), k=[0, INTRA_KINDS[m.group("kind")]], kind=m.group("kind")))

H("intra_hbd", r"svt_aom_highbd_(?P<kind>paeth|dc|dc_top|dc_left|dc_128|v|h|smooth|smooth_v|smooth_h)_predictor_(?P<w>\d+)x(?P<h>\d+)",
  ["void(uint16_t*,ptrdiff_t,const uint16_t*,const uint16_t*,int32_t)", "void(uint16_t*,ptrdiff_t,const uint16_t*,const uint16_t*,int)"], "h_intra",
  "16-bit non-directional intra predictors: as intra_lbd with samples in [0, 2^bd-1], bd in {8,10,12}",
  lambda m: dict(w=int(m.group("w")), h=int(m.group("h")), k=[1, INTRA_KINDS[m.group("kind")]], kind=m.group("kind")))

H("sad", r"svt_aom_sad(?P<w>\d+)x(?P<h>\d+)", "uint32_t(const uint8_t*,int,const uint8_t*,int)", "h_sad",
  "SAD WxH: any uint8 samples; src/ref at arbitrary byte offsets, strides W, W+1, W+odd, large; patterns incl. src=255/ref=0",
  lambda m: wh(m))

H("sad4d", r"svt_aom_sad(?P<w>\d+)x(?P<h>\d+)x4d", "void(const uint8_t*,int,const uint8_t*const[],int,uint32_t*)", "h_sad4d",
  "SAD WxH against 4 references (4 pointers into one reference area at random offsets, common stride); any uint8 samples",
  lambda m: wh(m))

H("variance", r"svt_aom_variance(?P<w>\d+)x(?P<h>\d+)", "unsigned int(const uint8_t*,int,const uint8_t*,int,unsigned int*)", "h_variance",
  "variance WxH -> (variance, *sse): any uint8 samples, arbitrary offsets/strides",
  lambda m: wh(m, k=[0]))

H("variance_hbd10", r"svt_aom_highbd_10_variance(?P<w>\d+)x(?P<h>\d+)", "unsigned int(const uint8_t*,int,const uint8_t*,int,unsigned int*)", "h_variance",
  "10-bit variance WxH (CONVERT_TO_BYTEPTR pointers to uint16 samples < 1024), arbitrary strides",
  lambda m: wh(m, k=[1]))

SHAPE_ID = {"": 0, "_N2": 1, "_N4": 2}
H("fwd_txfm", r"svt_av1_fwd_txfm2d_(?P<w>\d+)x(?P<h>\d+)(?P<shape>|_N2|_N4)", "void(int16_t*,int32_t*,uint32_t,TxType,uint8_t)", "h_fwd_txfm",
  "forward 2-D transform (full / N2 / N4): residual in [-(2^bd-1), 2^bd-1], bd in {8,10}; tx types the encoder sends through the pointer "
  "(av1_estimate_transform_default/_N2/_N4): max(w,h)=64 -> DCT_DCT, =32 -> DCT_DCT,IDTX, else all 16; input stride W, 64/128, W+8r; input at "
  "8-byte multiples; output W*H int32 64-byte aligned, compared over the whole W*H block. Left out: 64x64 IDTX and 32x32 V_DCT/H_DCT (in the "
  "unit test's is_txfm_allowed but routed to the C function by the encoder), bd=12",
  lambda m: dict(w=int(m.group("w")), h=int(m.group("h")), k=[SHAPE_ID[m.group("shape")]]))

H("handle_transform", r"(svt_)?handle_transform(?P<w>\d+)x(?P<h>\d+)(?P<n>|_N2_N4)", "uint64_t(int32_t*)", "h_handle_transform",
  "svt_handle_transformWxH: in/out = output of the C forward DCT_DCT transform of a residual in +-(2^bd-1), bd 8/10 (energy return + zeroing/packing); "
  "handle_transformWxH_N2_N4: same on the output of the C N2 and N4 forward transforms (rest of the block zero)",
  lambda m: dict(w=int(m.group("w")), h=int(m.group("h")), k=[1 if m.group("n") else 0]))

INV_SQ = "void(const int32_t*,uint16_t*,int32_t,uint16_t*,int32_t,TxType,int32_t)"
INV_R1 = "void(const int32_t*,uint16_t*,int32_t,uint16_t*,int32_t,TxType,TxSize,int32_t,int32_t)"
INV_R2 = "void(const int32_t*,uint16_t*,int32_t,uint16_t*,int32_t,TxType,TxSize,int32_t)"
INV_DOMAIN = ("inverse 2-D transform + add, 16-bit samples: coefficients = C forward transform of a residual in +-(2^bd-1) (64-sizes packed by the C "
              "svt_handle_transform*), optionally quantised to multiples of q in 1..200, cleared from a random eob on in scan order; eob = exact eob "
              "(1 for an all-zero block); read and write buffer identical, or different with eob = av1_get_max_eob (as av1_inv_transform_recon does); "
              "prediction in [0,2^bd-1], bd in {8,10}; tx types as for fwd_txfm; tx_size argument = the entry's size; arbitrary strides, buffers at 8-byte multiples. "
              "EXCLUDED (run with ext=1): blocks in the overflow regime = intermediate values exceed the max(bd+8,16)/max(bd+6,16)-bit ranges that AV1 7.13.3 "
              "requires of a conformant stream (detected as: C result for bd != C result for bd=12 clipped to bd; the stage clamps depend on bd only); there the "
              "C reference clamps at stage boundaries and SIMD versions clamp elsewhere/not at all. Observed only for 16x16 with a 16-point ADST on a flat "
              "+-(2^bd-1) residual (about 0.1% of the 16x16 cases), where svt_av1_inv_txfm2d_add_16x16_avx2 differs from C")
# three prototypes share one name pattern: the handler is selected by the prototype
H("inv_txfm_sq", r"svt_av1_inv_txfm2d_add_(?P<w>\d+)x(?P<h>\d+)", INV_SQ, "h_inv_txfm", INV_DOMAIN,
  lambda m: dict(w=int(m.group("w")), h=int(m.group("h")), k=[0]))
H("inv_txfm_rect_eob", r"svt_av1_inv_txfm2d_add_(?P<w>\d+)x(?P<h>\d+)", INV_R1, "h_inv_txfm", INV_DOMAIN,
  lambda m: dict(w=int(m.group("w")), h=int(m.group("h")), k=[1]))
H("inv_txfm_rect", r"svt_av1_inv_txfm2d_add_(?P<w>\d+)x(?P<h>\d+)", INV_R2, "h_inv_txfm", INV_DOMAIN,
  lambda m: dict(w=int(m.group("w")), h=int(m.group("h")), k=[2]))
H("inv_txfm_add_lbd", r"svt_av1_inv_txfm_add", "void(const TranLow*,uint8_t*,int32_t,uint8_t*,int32_t,const TxfmParam*)", "h_inv_txfm_add",
  "8-bit svt_av1_inv_txfm_add(TxfmParam): all 19 sizes, as inv_txfm with bd=8 (TxfmParam as av1_inv_transform_recon8bit fills it: lossless=0, bd=8, is_hbd=1)")

H("fft", r"svt_aom_(?P<inv>i?)fft(?P<w>\d+)x(?P=w)_float", "void(const float*,float*,float*)", "h_fft",
  "float (i)FFT n x n, outputs compared bit-exactly: inputs 0, 1, alternating, ramp, uniform [0,1) (as test/FFTTest.cc), [-1,1), k/255, +-1024; "
  "temp is scratch (not compared); buffers 64-byte aligned",
  lambda m: dict(w=int(m.group("w")), h=int(m.group("w")), k=[1 if m.group("inv") else 0]))

H("obmc_sad", r"svt_aom_obmc_sad(?P<w>\d+)x(?P<h>\d+)", "unsigned int(const uint8_t*,int,const int32_t*,const int32_t*)", "h_obmc",
  "OBMC SAD: pre any uint8 at any offset/stride; mask in [0,4096], wsrc in [-(4096-mask)*255, 4096*255] (range of calc_target_weighted_pred; "
  "superset of test/OBMCSadTest.cc), W*H contiguous, 64-byte aligned",
  lambda m: wh(m, k=[0]))
H("obmc_variance", r"svt_aom_obmc_variance(?P<w>\d+)x(?P<h>\d+)", "unsigned int(const uint8_t*,int,const int32_t*,const int32_t*,unsigned int*)", "h_obmc",
  "OBMC variance: as obmc_sad, plus *sse", lambda m: wh(m, k=[1]))
H("obmc_subpel_variance", r"svt_aom_obmc_sub_pixel_variance(?P<w>\d+)x(?P<h>\d+)",
  "unsigned int(const uint8_t*,int,int,int,const int32_t*,const int32_t*,unsigned int*)", "h_obmc",
  "OBMC sub-pixel variance: as obmc_variance with xoffset,yoffset in 0..7 (0/0, x only, y only, both), pre has W+1 x H+1 valid samples",
  lambda m: wh(m, k=[2]))

H("lpf", r"svt_aom_lpf_(?P<dir>horizontal|vertical)_(?P<len>4|6|8|14)", "void(uint8_t*,int32_t,const uint8_t*,const uint8_t*,const uint8_t*)", "h_lpf",
  "8-bit deblocking filters on one 4-sample edge inside a 40x40 picture area (any stride >= 40): blimit 0..193, limit 0..63, thresh 0..3 "
  "(test/DeblockTest.cc, spec 7.14) replicated in 16-byte aligned arrays; samples any uint8: extremes, checker, ramps, random, near-flat with "
  "and without a step across the edge; the filter may only write len/2 samples on each side of the edge x 4",
  lambda m: dict(k=[1 if m.group("dir") == "vertical" else 0, int(m.group("len")), 0]))
H("lpf_hbd", r"svt_aom_highbd_lpf_(?P<dir>horizontal|vertical)_(?P<len>4|6|8|14)", "void(uint16_t*,int32_t,const uint8_t*,const uint8_t*,const uint8_t*,int32_t)", "h_lpf",
  "16-bit deblocking filters: as lpf with samples < 2^bd, bd in {8,10,12}",
  lambda m: dict(k=[1 if m.group("dir") == "vertical" else 0, int(m.group("len")), 1]))

# further groups live in their own modules (C side: harness/kshapes_<group>.h)
import kernel_handlers_pix    # noqa: E402
import kernel_handlers_blend  # noqa: E402
import kernel_handlers_pred   # noqa: E402
import kernel_handlers_filt   # noqa: E402
for _m in (kernel_handlers_pix, kernel_handlers_blend, kernel_handlers_pred, kernel_handlers_filt):
    _m.register(H)
