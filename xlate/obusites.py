"""C02: find every OBU framing site of the encoder and emit lean/SvtVerif/Gen/ObuSites.lean.

A *framing site* is the sequence (EbEntropyCoding.c)
    H = write_obu_header(type, ext, data)            header at `data`
    ... payload written behind it ...
    L = obu_mem_move(a1, a2, data)                   reserve svt_aom_uleb_size_in_bytes(a2) bytes: memmove(data+L+a1, data+a1, a2)
    write_uleb_obu_size(a1, a2, data)                svt_aom_uleb_encode(a2, sizeof(uint32_t), data + a1, ..)
    data += <total>                                  (or the caller accounts a constant: TD_SIZE in EbPacketizationProcess.c)
For every site this translator symbolically executes the enclosing function (clang-14 JSON AST) and emits, with callee bodies
(`obu_mem_move`, `write_uleb_obu_size`) and local definitions inlined, the expression trees of
    (a) the value whose leb128 length is reserved     (b) the value encoded into the size field and its offset
    (c) memmove destination / source / size           (d) what is added to the write pointer / byte count
over two atoms:  hdr = the value returned by write_obu_header,  payload = everything written behind the header.

What is trusted here (and nothing more):
  * `payload`: a call that receives a pointer `data + <cursor>` (cursor = hdr + what was written so far) and whose result is
    added to the running size is taken to write exactly that many bytes there; a nested block (loop / if) that only does
    `running_size += ...` is taken to append to the payload.  A variable computed from an *earlier* value of the running size
    is emitted as `.other "stale ..."` (never consistent), not silently identified with the payload.
  * integral casts between 32/64-bit integer types are dropped (all sizes are below 2^29 under the theorems' hypotheses).
Everything else is refused loudly (`cfun.Unsupported`): a framing primitive called from a function or in a statement shape that is
not understood, an occurrence of a primitive's name in the encoder sources that the analysed functions do not account for, ...

    python3 xlate/obusites.py [out.lean]
"""
import os
import re
import sys

sys.path.insert(0, os.path.dirname(os.path.abspath(__file__)))
import cfun
from cfun import Unsupported

ENC_DIRS = ["Source/Lib/Encoder/Codec", "Source/Lib/Encoder/Globals"]
PRIMS = ["obu_mem_move", "write_uleb_obu_size", "svt_aom_uleb_encode", "svt_aom_uleb_size_in_bytes", "write_obu_header",
         "encode_td_av1"]
# functions that only DEFINE the primitives (analysed as callee summaries / transcribed in Model/Leb128.lean, Model/Obu.lean)
PRIM_DEFS = {"obu_mem_move", "write_uleb_obu_size", "svt_aom_uleb_encode", "svt_aom_uleb_size_in_bytes", "write_obu_header"}
OBU_TYPES = {"OBU_SEQUENCE_HEADER": 1, "OBU_TEMPORAL_DELIMITER": 2, "OBU_FRAME_HEADER": 3, "OBU_TILE_GROUP": 4, "OBU_METADATA": 5,
             "OBU_FRAME": 6, "OBU_REDUNDANT_FRAME_HEADER": 7, "OBU_TILE_LIST": 8, "OBU_PADDING": 15}
INT_OK = {("U", 32), ("S", 32), ("U", 64), ("S", 64), ("E", 32)}


# ---------------------------------------------------------------------------------------------- source scan
def strip_comments(src):
    """Comments and string literals -> spaces (newlines kept, so offsets and line numbers survive)."""
    out = []
    i, n = 0, len(src)
    while i < n:
        c = src[i]
        if src.startswith("/*", i):
            j = src.find("*/", i + 2)
            j = n if j < 0 else j + 2
            out.append("".join(ch if ch == "\n" else " " for ch in src[i:j]))
            i = j
        elif src.startswith("//", i):
            j = src.find("\n", i)
            j = n if j < 0 else j
            out.append(" " * (j - i))
            i = j
        elif c in "\"'":
            j = i + 1
            while j < n and src[j] != c:
                j += 2 if src[j] == "\\" else 1
            out.append(c + " " * (j - i - 1) + c)
            i = j + 1
        else:
            out.append(c)
            i += 1
    return "".join(out)


def enclosing_functions(text):
    """[(name, body_start_offset, body_end_offset)] of the top-level function definitions of a comment-stripped C file."""
    res = []
    depth = 0
    i, n = 0, len(text)
    last_top = 0          # offset after the previous top-level `}` or `;`
    start = name = None
    while i < n:
        c = text[i]
        if c == "{":
            if depth == 0:
                head = text[last_top:i]
                m = None
                for m in re.finditer(r"([A-Za-z_]\w*)\s*\(", head):
                    break                     # first identifier followed by '(' in the declarator
                # the function name is the last identifier before the first top-level '(' of the head
                name = None
                par = head.find("(")
                if par >= 0 and "=" not in head[:par] and not re.search(r"\b(struct|union|enum)\s+\w*\s*$", head.strip()):
                    mm = re.search(r"([A-Za-z_]\w*)\s*$", head[:par])
                    if mm and head.rstrip().endswith(")"):
                        name = mm.group(1)
                start = i
            depth += 1
        elif c == "}":
            depth -= 1
            if depth == 0:
                if name:
                    res.append((name, start, i))
                last_top = i + 1
                name = None
        elif c == ";" and depth == 0:
            last_top = i + 1
        i += 1
    return res


def scan_sources():
    """-> {file: {function: [(primitive, line)]}} for every textual use of a framing primitive in the encoder sources."""
    found = {}
    for d in ENC_DIRS:
        full = os.path.join(cfun.REPO, d)
        if not os.path.isdir(full):
            continue
        for f in sorted(os.listdir(full)):
            if not f.endswith(".c"):
                continue
            rel = os.path.join(d, f)
            raw = open(os.path.join(full, f), encoding="utf-8", errors="replace").read()
            if not any(p in raw for p in PRIMS):
                continue
            text = strip_comments(raw)
            fns = enclosing_functions(text)
            for m in re.finditer(r"\b(%s)\b\s*\(" % "|".join(PRIMS), text):
                off = m.start()
                line = text.count("\n", 0, off) + 1
                owner = None
                for name, b, e in fns:
                    if b < off < e:
                        owner = name
                        break
                if owner is None:
                    # a definition's own declarator or a prototype: the name is followed by a parameter list and `{` or `;`
                    continue
                found.setdefault(rel, {}).setdefault(owner, []).append((m.group(1), line))
    return found


# ---------------------------------------------------------------------------------------------- symbolic values
HDR = ("hdr",)


def lit(n):
    return ("lit", n)


def other(s):
    return ("other", s)


def add(a, b):
    if a == lit(0):
        return b
    if b == lit(0):
        return a
    return ("add", a, b)


def sub(a, b):
    if b == lit(0):
        return a
    return ("sub", a, b)


def subst(t, env):
    """Replace ("param", name) atoms."""
    if t[0] == "param":
        return env[t[1]]
    if t[0] in ("add", "sub"):
        f = add if t[0] == "add" else sub
        return f(subst(t[1], env), subst(t[2], env))
    if t[0] == "uleb":
        return ("uleb", subst(t[1], env))
    if t[0] == "ptr":
        base = env.get(t[1])
        if base is None or base[0] != "ptr":
            raise Unsupported("callee pointer parameter %s bound to a non-pointer" % t[1])
        return ("ptr", base[1], add(base[2], subst(t[2], env)))
    return t


def annotate_lines(root):
    """clang's JSON prints `line` only when it differs from the previously printed location; make it explicit (`_l`)
    on every location object, walking the dump in document order."""
    state = {"line": None}

    def walk(o):
        if isinstance(o, dict):
            is_loc = ("offset" in o or "col" in o) and "kind" not in o
            for k, v in o.items():
                if k == "line" and is_loc:
                    state["line"] = v
                elif isinstance(v, (dict, list)):
                    walk(v)
            if is_loc:
                o["_l"] = state["line"]
        elif isinstance(o, list):
            for v in o:
                walk(v)
    walk(root)
    return root


def line_of(n):
    r = n.get("range", {}).get("begin", {})
    for k in (r.get("expansionLoc", {}), r, n.get("loc", {}).get("expansionLoc", {}), n.get("loc", {})):
        if k.get("_l") is not None:
            return k["_l"]
    return None


def strip_casts(n):
    while n.get("kind") in ("ImplicitCastExpr", "ParenExpr", "CStyleCastExpr", "ConstantExpr"):
        n = n["inner"][0]
    return n


def callee_name(n):
    c = strip_casts(n["inner"][0])
    return c.get("referencedDecl", {}).get("name")


def contains_call(n, names):
    if n.get("kind") == "CallExpr" and callee_name(n) in names:
        return True
    return any(contains_call(c, names) for c in n.get("inner", []))


def count_calls(n, acc):
    if n.get("kind") == "CallExpr" and callee_name(n) in PRIMS:
        acc.append((callee_name(n), line_of(n)))
    for c in n.get("inner", []):
        count_calls(c, acc)
    return acc


def is_assert(n):
    import json
    return "__assert_fail" in json.dumps(n)


class Site:
    def __init__(self, func, path, line):
        self.func, self.path, self.line = func, path, line
        self.types = []
        self.hdr_size = None
        self.base = None            # pointer tree the header was written at
        self.k = 0                  # payload version (number of writer steps so far)
        self.reserved = None
        self.move = None            # (dst, src, size) relative to base
        self.move_line = None
        self.encoded = None
        self.encode_at = None
        self.avail = None
        self.encode_line = None
        self.k_final = None
        self.total = None
        self.total_line = None
        self.ret_len = None

    def cursor(self):
        return HDR if self.k == 0 else ("add", HDR, ("payload", self.k))


class Fn:
    """Symbolic execution of one function body."""

    def __init__(self, path, fn, summaries, as_summary=False):
        self.path, self.fn, self.summaries, self.as_summary = path, fn, summaries, as_summary
        self.name = fn["name"]
        self.env = {}
        self.sites = []
        self.cur = None
        self.td_calls = []          # (line, pointer var, prev stmt, next stmt)
        self.summary = {}           # for callee summaries
        self.calls_seen = []
        for p in fn.get("inner", []):
            if p.get("kind") == "ParmVarDecl":
                t = cfun.ctype(p)
                nm = p["name"]
                if as_summary:
                    self.env[nm] = ("ptr", nm, lit(0)) if t[0] == "P" else ("param", nm)
                else:
                    self.env[nm] = ("ptr", nm, lit(0)) if t[0] == "P" else other("parameter %s" % nm)

    # ---- expressions
    def rel(self, p):
        """Offset of pointer tree `p` relative to the current site's base, or None."""
        s = self.cur
        if s is None or p[0] != "ptr" or s.base is None or p[1] != s.base[1]:
            return None
        if p[2] == s.base[2]:
            return lit(0)
        if s.base[2] == lit(0):
            return p[2]
        if p[2][0] == "add" and p[2][1] == s.base[2]:
            return p[2][2]
        return None

    def ev(self, n):
        k = n.get("kind")
        if k == "IntegerLiteral":
            return lit(int(n["value"]))
        if k in ("ParenExpr", "ConstantExpr"):
            return self.ev(n["inner"][0])
        if k in ("ImplicitCastExpr", "CStyleCastExpr"):
            ck = n.get("castKind")
            inner = n["inner"][0]
            if ck in ("LValueToRValue", "NoOp", "BitCast", "ArrayToPointerDecay", "FunctionToPointerDecay"):
                return self.ev(inner)
            if ck == "IntegralCast":
                v = self.ev(inner)
                if v[0] in ("enum", "other") or (v[0] == "lit"):
                    return v
                if cfun.ctype(n) not in INT_OK:
                    return other("narrowing cast to %s @%s" % (n.get("type", {}).get("qualType"), line_of(n)))
                return v
            if ck == "ToVoid":
                self.ev(inner)
                return other("void")
            if ck == "NullToPointer":
                return other("NULL")
            return other("cast %s" % ck)
        if k == "DeclRefExpr":
            rd = n["referencedDecl"]
            if rd["kind"] == "EnumConstantDecl":
                return ("enum", [rd["name"]])
            if rd["kind"] in ("VarDecl", "ParmVarDecl"):
                return self.env.get(rd["name"], other("variable %s" % rd["name"]))
            return other("ref %s" % rd.get("name"))
        if k == "MemberExpr":
            p = cfun.member_path(n)
            if p and p in self.env:
                return self.env[p]
            if cfun.ctype(n)[0] == "P":
                return ("ptr", p or "member@%s" % line_of(n), lit(0))
            return other("member %s" % p)
        if k == "BinaryOperator":
            op = n["opcode"]
            a, b = n["inner"]
            if op == ",":
                self.ev(a)
                return self.ev(b)
            va, vb = self.ev(a), self.ev(b)
            if op in ("+", "-"):
                if va[0] == "ptr" and vb[0] != "ptr":
                    return ("ptr", va[1], add(va[2], vb) if op == "+" else sub(va[2], vb))
                if vb[0] == "ptr" and va[0] != "ptr" and op == "+":
                    return ("ptr", vb[1], add(vb[2], va))
                if va[0] == "ptr" or vb[0] == "ptr":
                    return other("pointer difference @%s" % line_of(n))
                if cfun.ctype(n) not in INT_OK:
                    return other("arithmetic at narrow type @%s" % line_of(n))
                return add(va, vb) if op == "+" else sub(va, vb)
            if op == "=":
                return self.assign(a, vb, n)
            return other("operator %s @%s" % (op, line_of(n)))
        if k == "CompoundAssignOperator":
            return self.compound_assign(n)
        if k == "ConditionalOperator":
            c, a, b = n["inner"]
            self.ev(c)
            va, vb = self.ev(a), self.ev(b)
            if va[0] == "enum" and vb[0] == "enum":
                return ("enum", va[1] + vb[1])
            if va == vb:
                return va
            return other("conditional @%s" % line_of(n))
        if k == "UnaryExprOrTypeTraitExpr":
            if n.get("name") == "sizeof":
                t = cfun.ctype(n["argType"]) if "argType" in n else cfun.ctype(strip_casts(n["inner"][0]))
                if t[0] in ("U", "S"):
                    return lit(t[1] // 8)
            return other("sizeof @%s" % line_of(n))
        if k == "UnaryOperator":
            op = n["opcode"]
            if op in ("++", "--"):
                t = strip_casts(n["inner"][0])
                if t.get("kind") == "DeclRefExpr":
                    nm = t["referencedDecl"]["name"]
                    self.set_var(nm, other("%s%s @%s" % (nm, op, line_of(n))), n)
                return other("incdec")
            if op == "__extension__" and is_assert(n):
                return other("assert")
            if op == "&":
                return other("address-of")
            self.ev(n["inner"][0])
            return other("unary %s" % op)
        if k == "CallExpr":
            return self.call(n)
        if k == "StmtExpr":
            if is_assert(n):
                return other("assert")
            raise Unsupported("%s: statement expression @%s" % (self.name, line_of(n)))
        if k in ("StringLiteral", "CharacterLiteral", "FloatingLiteral", "ArraySubscriptExpr", "PredefinedExpr"):
            for c in n.get("inner", []):
                if contains_call(c, PRIMS):
                    raise Unsupported("%s: framing call inside %s @%s" % (self.name, k, line_of(n)))
            return other(k)
        if contains_call(n, PRIMS):
            raise Unsupported("%s: framing call inside unsupported expression %s @%s" % (self.name, k, line_of(n)))
        return other("expression %s" % k)

    def set_var(self, name, val, node):
        old = self.env.get(name)
        # advancing the site's base pointer after the size field was written = the total of this OBU
        self.env[name] = val

    def assign(self, lhs, val, node):
        t = strip_casts(lhs)
        if t.get("kind") == "DeclRefExpr":
            nm = t["referencedDecl"]["name"]
            val = self.absorb_writer(val, assigned=True)
            self.env[nm] = val
            return val
        if t.get("kind") == "MemberExpr":
            p = cfun.member_path(t)
            if p:
                self.env[p] = val
            return val
        return val

    def absorb_writer(self, val, assigned, old=None):
        """A writer result ("w", dest offset, text) used as a size: becomes the next version of the payload when it was written
        at the cursor and is (a) added to a variable that holds the cursor or (b) assigned while nothing was written yet."""
        if val[0] != "w":
            return val
        s = self.cur
        if s is None or s.encode_line is not None:
            return other("bytes written by %s" % val[2])
        if val[1] != s.cursor():
            return other("bytes written by %s at an offset that is not the end of the OBU so far" % val[2])
        if assigned:
            if s.k != 0:
                return other("bytes written by %s (partial payload)" % val[2])
            s.k = 1
            return ("payload", 1)
        if old == s.cursor():
            s.k += 1
            return ("delta",)
        return other("bytes written by %s" % val[2])

    def compound_assign(self, n):
        op = n["opcode"]
        lhs, rhs = n["inner"]
        t = strip_casts(lhs)
        vr = self.ev(rhs)
        if t.get("kind") != "DeclRefExpr":
            p = cfun.member_path(t) if t.get("kind") == "MemberExpr" else None
            if p:
                self.env[p] = other("%s %s @%s" % (p, op, line_of(n)))
            return other("compound assignment to non-variable")
        nm = t["referencedDecl"]["name"]
        old = self.env.get(nm, other("variable %s" % nm))
        if op not in ("+=", "-="):
            self.env[nm] = other("%s %s @%s" % (nm, op, line_of(n)))
            return self.env[nm]
        if old[0] == "ptr":
            s = self.cur
            if s is not None and s.encode_line is not None and s.total is None and op == "+=" and old == s.base:
                s.total, s.total_line = vr if vr[0] != "w" else other("writer result"), line_of(n)
                self.cur = None
            new = ("ptr", old[1], add(old[2], vr) if op == "+=" else sub(old[2], vr))
            self.env[nm] = new
            return new
        if vr[0] == "w":
            d = self.absorb_writer(vr, assigned=False, old=old)
            if d == ("delta",):
                new = self.cur.cursor()
            else:
                new = add(old, d)
        else:
            new = add(old, vr) if op == "+=" else sub(old, vr)
        self.env[nm] = new
        return new

    # ---- calls
    def call(self, n):
        name = callee_name(n)
        args = n["inner"][1:]
        ln = line_of(n)
        if name in PRIMS:
            self.calls_seen.append((name, ln))
        if name == "write_obu_header" and not self.as_summary:
            vals = [self.ev(a) for a in args]
            if len(vals) != 3:
                raise Unsupported("%s: write_obu_header with %d arguments @%s" % (self.name, len(vals), ln))
            if self.cur is not None and self.cur.encode_line is None:
                raise Unsupported("%s: write_obu_header @%s while the OBU started @%s has no size field yet" % (self.name, ln, self.cur.line))
            s = Site(self.name, self.path, ln)
            if vals[0][0] != "enum" or any(t not in OBU_TYPES for t in vals[0][1]):
                raise Unsupported("%s: OBU type argument of write_obu_header @%s is not a (choice of) ObuType constant(s): %s" % (self.name, ln, vals[0]))
            s.types = [OBU_TYPES[t] for t in vals[0][1]]
            s.hdr_size = 1 if vals[1] == lit(0) else None
            if vals[2][0] != "ptr":
                raise Unsupported("%s: destination of write_obu_header @%s is not a tracked pointer" % (self.name, ln))
            s.base = vals[2]
            self.sites.append(s)
            self.cur = s
            return HDR
        if name == "svt_aom_uleb_size_in_bytes":
            v = self.ev(args[0])
            return ("uleb", v)
        if name in ("obu_mem_move", "write_uleb_obu_size") and not self.as_summary:
            vals = [self.ev(a) for a in args]
            s = self.cur
            if s is None:
                raise Unsupported("%s: %s @%s without a preceding write_obu_header in the same function" % (self.name, name, ln))
            if len(vals) != 3 or vals[2] != s.base:
                raise Unsupported("%s: %s @%s does not operate on the pointer the OBU header was written at" % (self.name, name, ln))
            sm = self.summaries[name]
            env = {sm["params"][0]: vals[0], sm["params"][1]: vals[1], sm["params"][2]: ("ptr", "@base", lit(0))}
            if name == "obu_mem_move":
                if s.move is not None or s.encode_line is not None:
                    raise Unsupported("%s: obu_mem_move @%s out of order" % (self.name, ln))
                s.reserved = subst(sm["reserved"], env)
                s.move = tuple(self.rel_summary(subst(x, env), ln) for x in (sm["dst"], sm["src"])) + (subst(sm["size"], env),)
                s.move_line = ln
                s.k_move = s.k
                return subst(sm["ret"], env)
            if s.encode_line is not None:
                raise Unsupported("%s: second write_uleb_obu_size @%s for the OBU started @%s" % (self.name, ln, s.line))
            s.encoded = subst(sm["value"], env)
            s.encode_at = self.rel_summary(subst(sm["dest"], env), ln)
            s.avail = subst(sm["avail"], env)
            s.encode_line = ln
            s.k_final = s.k
            return other("status of write_uleb_obu_size")
        if name == "svt_aom_uleb_encode" and not self.as_summary:
            raise Unsupported("%s: direct call of svt_aom_uleb_encode @%s (only write_uleb_obu_size is understood)" % (self.name, ln))
        if name == "svt_aom_uleb_encode" and self.as_summary:
            vals = [self.ev(a) for a in args]
            self.summary.update(value=vals[0], avail=vals[1], dest=vals[2])
            return other("status")
        if name in ("memmove", "__builtin_memmove", "__builtin___memmove_chk") and self.as_summary:
            vals = [self.ev(a) for a in args]
            self.summary.update(dst=vals[0], src=vals[1], size=vals[2])
            return other("memmove")
        if name == "encode_td_av1" and not self.as_summary:
            vals = [self.ev(a) for a in args]
            self.td_calls.append({"line": ln, "ptr": vals[0], "node": n})
            return other("status")
        if self.as_summary and name in PRIMS:
            raise Unsupported("%s: unexpected framing call %s inside a primitive @%s" % (self.name, name, ln))
        # any other function: evaluate the arguments (nested framing calls), then see whether it writes at the cursor
        vals = [self.ev(a) for a in args]
        if name in ("assert", "__assert_fail"):
            return other("assert")
        s = self.cur
        if s is not None and s.encode_line is None:
            for v in vals:
                if v[0] == "ptr":
                    r = self.rel(v)
                    if r is not None:
                        return ("w", r, "%s @%s" % (name, ln))
        return other("call %s @%s" % (name, ln))

    def rel_summary(self, p, ln):
        if p[0] != "ptr" or p[1] != "@base":
            raise Unsupported("%s: callee pointer argument is not based on the OBU start @%s" % (self.name, ln))
        return p[2]

    # ---- statements
    def block(self, stmts):
        for i, s in enumerate(stmts):
            self.stmt(s, stmts[i - 1] if i else None, stmts[i + 1] if i + 1 < len(stmts) else None)

    def stmt(self, s, prev=None, nxt=None):
        k = s.get("kind")
        if k in ("NullStmt", "FullComment"):
            return
        if k == "CompoundStmt":
            return self.block([c for c in s.get("inner", [])])
        if k == "DeclStmt":
            for v in s.get("inner", []):
                if v.get("kind") != "VarDecl":
                    continue
                init = [c for c in v.get("inner", []) if c.get("kind") not in ("FullComment",)]
                if init:
                    val = self.ev(init[0])
                    val = self.absorb_writer(val, assigned=True)
                    if val[0] in ("add", "sub", "uleb", "payload", "hdr") and cfun.ctype(v) not in INT_OK:
                        val = other("narrow variable %s" % v["name"])
                else:
                    val = other("uninitialised %s" % v["name"])
                self.env[v["name"]] = val
            return
        if k == "ReturnStmt":
            if s.get("inner"):
                v = self.ev(s["inner"][0])
                if self.as_summary:
                    self.summary.setdefault("ret", v)
            return
        if k in ("IfStmt", "ForStmt", "WhileStmt", "DoStmt", "SwitchStmt"):
            parts = [c for c in s.get("inner", []) if c]
            if not contains_call(s, PRIMS):
                return self.opaque(s)
            if k == "IfStmt":
                self.ev(parts[0])                       # condition (may hold the write_uleb_obu_size call)
                for body in parts[1:]:
                    if contains_call(body, PRIMS):
                        self.stmt(body)
                    else:
                        self.opaque(body)
                return
            if k in ("ForStmt", "WhileStmt"):
                body = parts[-1]
                for c in parts[:-1]:
                    if c.get("kind") and contains_call(c, PRIMS):
                        raise Unsupported("%s: framing call in a loop header @%s" % (self.name, line_of(s)))
                    if c.get("kind"):
                        self.opaque(c)
                return self.stmt(body)                  # one symbolic pass over the body
            raise Unsupported("%s: framing call inside %s @%s" % (self.name, k, line_of(s)))
        if k == "CallExpr" and callee_name(s) == "encode_td_av1" and not self.as_summary:
            self.ev(s)
            self.td_calls[-1]["prev"], self.td_calls[-1]["next"] = prev, nxt
            return
        if k in ("BinaryOperator", "CompoundAssignOperator", "CallExpr", "UnaryOperator", "ParenExpr", "ConditionalOperator",
                 "CStyleCastExpr", "ImplicitCastExpr"):
            if k in ("ParenExpr", "ConditionalOperator", "CStyleCastExpr") and is_assert(s) and not contains_call(s, PRIMS):
                return
            self.ev(s)
            return
        if contains_call(s, PRIMS):
            raise Unsupported("%s: framing call inside statement kind %s @%s" % (self.name, k, line_of(s)))
        self.opaque(s)

    def opaque(self, s):
        """A statement without framing calls that is not interpreted: variables it assigns lose their value, except that
        `x += ...` on the variable holding the cursor (before the size field is written) appends to the payload."""
        plus, others = set(), set()

        def walk(n):
            k = n.get("kind")
            if k in ("BinaryOperator", "CompoundAssignOperator") and n.get("opcode", "") in ("=", "+=", "-=", "*=", "/=", "|=", "&=", "^=", "<<=", ">>=", "%="):
                t = strip_casts(n["inner"][0])
                nm = t["referencedDecl"]["name"] if t.get("kind") == "DeclRefExpr" else (cfun.member_path(t) if t.get("kind") == "MemberExpr" else None)
                if nm:
                    (plus if n["opcode"] == "+=" else others).add(nm)
            if k == "UnaryOperator" and n.get("opcode") in ("++", "--"):
                t = strip_casts(n["inner"][0])
                if t.get("kind") == "DeclRefExpr":
                    others.add(t["referencedDecl"]["name"])
            if k == "VarDecl":
                others.discard(n.get("name"))
            for c in n.get("inner", []):
                walk(c)
        walk(s)
        decl = set()

        def decls(n):
            if n.get("kind") == "VarDecl":
                decl.add(n["name"])
            for c in n.get("inner", []):
                decls(c)
        decls(s)
        cur = self.cur
        bumped = False
        for nm in sorted((plus | others) - decl):
            if nm not in self.env:
                continue
            old = self.env[nm]
            if nm in plus and nm not in others and cur is not None and cur.encode_line is None and old == cur.cursor() and not bumped:
                cur.k += 1
                self.env[nm] = cur.cursor()
                bumped = True
            else:
                self.env[nm] = other("%s modified in a nested block @%s" % (nm, line_of(s)))


def get_fn(path, name):
    objs = cfun.clang_ast(path, flt=name)
    fns = cfun.find_functions(objs, name)
    if len(fns) != 1:
        raise Unsupported("%s: expected exactly one definition of %s, found %d" % (path, name, len(fns)))
    return annotate_lines(fns[0])


def body_of(fn):
    return [c for c in fn["inner"] if c.get("kind") == "CompoundStmt"][0]


def summaries(ec_path):
    """Callee summaries of obu_mem_move and write_uleb_obu_size over ("param", name) atoms."""
    res = {}
    f = get_fn(ec_path, "obu_mem_move")
    x = Fn(ec_path, f, {}, as_summary=True)
    x.block(body_of(f).get("inner", []))
    params = [p["name"] for p in f["inner"] if p.get("kind") == "ParmVarDecl"]
    if len(params) != 3 or not all(k in x.summary for k in ("dst", "src", "size", "ret")):
        raise Unsupported("obu_mem_move: body is not `len = svt_aom_uleb_size_in_bytes(..); memmove(..); return ..` (%s)" % sorted(x.summary))
    ret = x.summary["ret"]
    if ret[0] != "uleb":
        raise Unsupported("obu_mem_move: return value is not a svt_aom_uleb_size_in_bytes(...) result: %s" % (ret,))
    for key in ("dst", "src"):
        if x.summary[key][0] != "ptr" or x.summary[key][1] != params[2]:
            raise Unsupported("obu_mem_move: memmove %s is not based on the data parameter" % key)
    res["obu_mem_move"] = {"params": params, "reserved": ret[1], "ret": ret, "dst": x.summary["dst"], "src": x.summary["src"],
                           "size": x.summary["size"], "line": line_of(f)}
    f = get_fn(ec_path, "write_uleb_obu_size")
    x = Fn(ec_path, f, {}, as_summary=True)
    x.block(body_of(f).get("inner", []))
    params = [p["name"] for p in f["inner"] if p.get("kind") == "ParmVarDecl"]
    if len(params) != 3 or not all(k in x.summary for k in ("value", "avail", "dest")):
        raise Unsupported("write_uleb_obu_size: body does not call svt_aom_uleb_encode(value, available, dest + offset, ..)")
    if x.summary["dest"][0] != "ptr" or x.summary["dest"][1] != params[2]:
        raise Unsupported("write_uleb_obu_size: destination is not based on the dest parameter")
    if x.summary["avail"][0] != "lit":
        raise Unsupported("write_uleb_obu_size: `available` is not a constant")
    res["write_uleb_obu_size"] = {"params": params, "value": x.summary["value"], "avail": x.summary["avail"],
                                  "dest": x.summary["dest"], "line": line_of(f)}
    return res


# ---------------------------------------------------------------------------------------------- emission
def lean_expr(t, k_final):
    if t == HDR:
        return ".hdr"
    if t[0] == "payload":
        if t[1] == k_final:
            return ".payload"
        return '(.other "stale payload: after %d of %d writer steps")' % (t[1], k_final)
    if t[0] == "lit":
        return "(.lit %d)" % t[1]
    if t[0] in ("add", "sub"):
        return "(.%s %s %s)" % (t[0], lean_expr(t[1], k_final), lean_expr(t[2], k_final))
    if t[0] == "uleb":
        return "(.ulebLen %s)" % lean_expr(t[1], k_final)
    if t[0] == "other":
        return '(.other "%s")' % t[1].replace('"', "'").replace("\\", "/")
    return '(.other "%s")' % str(t).replace('"', "'").replace("\\", "/")


def pretty(t, k_final):
    if t == HDR:
        return "hdr"
    if t[0] == "payload":
        return "payload" if t[1] == k_final else "stale-payload#%d" % t[1]
    if t[0] == "lit":
        return str(t[1])
    if t[0] == "add":
        return "(%s + %s)" % (pretty(t[1], k_final), pretty(t[2], k_final))
    if t[0] == "sub":
        return "(%s - %s)" % (pretty(t[1], k_final), pretty(t[2], k_final))
    if t[0] == "uleb":
        return "ulebLen(%s)" % pretty(t[1], k_final)
    return "?[%s]" % (t[1] if len(t) > 1 else t[0])


def td_accounting(call, fname):
    """The byte count the caller of encode_td_av1 accounts for the temporal delimiter:
         `dst -= K; encode_td_av1(dst);`   or   `encode_td_av1(dst); x->n_filled_len = K;`"""
    ptrnode = strip_casts(call["node"]["inner"][1])
    pname = ptrnode.get("referencedDecl", {}).get("name")
    prev, nxt = call.get("prev"), call.get("next")
    if prev is not None and prev.get("kind") == "CompoundAssignOperator" and prev.get("opcode") == "-=":
        t = strip_casts(prev["inner"][0])
        v = cfun.literal_value(strip_casts(prev["inner"][1]))
        if t.get("referencedDecl", {}).get("name") == pname and v is not None:
            return v, "`%s -= %d` before the call" % (pname, v)
    if nxt is not None and nxt.get("kind") == "BinaryOperator" and nxt.get("opcode") == "=":
        t = strip_casts(nxt["inner"][0])
        v = cfun.literal_value(strip_casts(nxt["inner"][1]))
        if t.get("kind") == "MemberExpr" and t.get("name") == "n_filled_len" and v is not None:
            return v, "`->n_filled_len = %d` after the call" % v
    raise Unsupported("%s: cannot see how many bytes are accounted for the temporal delimiter written @%s "
                      "(expected `p -= K; encode_td_av1(p);` or `encode_td_av1(p); x->n_filled_len = K;`)" % (fname, call["line"]))


def analyse():
    """-> (sites as dicts, info text)."""
    found = scan_sources()
    ec = "Source/Lib/Encoder/Codec/EbEntropyCoding.c"
    if ec not in found:
        raise Unsupported("no framing primitive found in %s" % ec)
    sm = summaries(ec)
    out = []
    td_def = None          # the site inside encode_td_av1 (no total of its own)
    td_callers = []
    for path in sorted(found):
        for fname in sorted(found[path], key=lambda f: min(l for _, l in found[path][f])):
            uses = found[path][fname]
            if fname in PRIM_DEFS:
                # bodies of the primitives: summarised above (obu_mem_move, write_uleb_obu_size) or transcribed by hand in
                # Model/Leb128.lean / Model/Obu.lean (svt_aom_uleb_encode, svt_aom_uleb_size_in_bytes, write_obu_header)
                continue
            fn = get_fn(path, fname)
            x = Fn(path, fn, sm)
            x.block(body_of(fn).get("inner", []))
            ast_calls = sorted(count_calls(body_of(fn), []))
            if sorted(uses) != ast_calls:
                raise Unsupported("%s:%s: the source text names framing primitives at %s but the AST has calls at %s "
                                  "(conditional compilation or macro?)" % (path, fname, sorted(uses), ast_calls))
            if sorted(x.calls_seen) != ast_calls:
                raise Unsupported("%s:%s: framing calls %s were not all reached by the symbolic execution (%s)" %
                                  (path, fname, ast_calls, sorted(x.calls_seen)))
            for s in x.sites:
                if s.encode_line is None:
                    raise Unsupported("%s:%s: OBU header written @%s but no size field follows" % (path, fname, s.line))
                if s.total is None:
                    if s.move is None and fname == "encode_td_av1":
                        td_def = s
                        continue
                    raise Unsupported("%s:%s: OBU written @%s: cannot see what is added to the write pointer afterwards" % (path, fname, s.line))
                out.append(s)
            for c in x.td_calls:
                k, how = td_accounting(c, fname)
                td_callers.append((path, fname, c["line"], k, how))
    if td_callers and td_def is None:
        raise Unsupported("encode_td_av1 is called but its body holds no header + size field pair")
    for path, fname, ln, k, how in td_callers:
        s = Site(td_def.func, td_def.path, td_def.line)
        s.__dict__.update(td_def.__dict__)
        s.caller = (path, fname, ln, how)
        s.total, s.total_line = lit(k), ln
        out.append(s)
    if td_def is not None and not td_callers:
        raise Unsupported("encode_td_av1 has no caller whose byte accounting is understood")
    return out, sm


def site_name(s, idx):
    c = getattr(s, "caller", None)
    return "%s@%s" % (s.func, c[1]) if c else s.func


def generate():
    sites, sm = analyse()
    lines = ["/- GENERATED by xlate/obusites.py from /repo (clang-14 JSON AST). Do not edit.",
             "   One entry per OBU framing site of the encoder: header write, size-field reservation (obu_mem_move), size-field",
             "   encoding (write_uleb_obu_size) and the byte count the writer accounts for the OBU, as expression trees over",
             "   hdr (= value returned by write_obu_header) and payload (= bytes written behind the header), with the bodies of",
             "   obu_mem_move (l.%d) / write_uleb_obu_size (l.%d) and all local definitions inlined. -/" % (sm["obu_mem_move"]["line"], sm["write_uleb_obu_size"]["line"]),
             "import SvtVerif.Model.ObuSite", "namespace Gen.ObuSites", "open ObuSite", ""]
    names = []
    table = []
    for i, s in enumerate(sites):
        kf = s.k_final
        nm = "site%d" % i
        names.append(nm)
        c = getattr(s, "caller", None)
        doc = ["%s:%d %s — OBU type(s) %s" % (s.path, s.line, s.func, s.types)]
        if s.move is not None:
            doc.append("  reserve  l.%d: ulebLen(%s); memmove(dst = %s, src = %s, n = %s)" % (
                s.move_line, pretty(s.reserved, kf), pretty(s.move[0], kf), pretty(s.move[1], kf), pretty(s.move[2], kf)))
        else:
            doc.append("  no obu_mem_move (nothing is written behind the header)")
        doc.append("  encode   l.%d: leb128(%s) at offset %s, available = %s" % (s.encode_line, pretty(s.encoded, kf), pretty(s.encode_at, kf), pretty(s.avail, kf)))
        if c:
            doc.append("  total    %s:%d %s: %s" % (c[0], c[2], c[1], c[3]))
        else:
            doc.append("  total    l.%d: write pointer += %s" % (s.total_line, pretty(s.total, kf)))
        lines.append("/-- " + "\n    ".join(doc) + " -/")
        z = ".lit 0"
        avail = s.avail[1] if s.avail and s.avail[0] == "lit" else 0
        lines.append("def %s : Site :=" % nm)
        lines.append('  { name := "%s", func := "%s", file := "%s", line := %d, obuTypes := %s, hdrSize := %s,' % (
            site_name(s, i), s.func, s.path, s.line, s.types, "some %d" % s.hdr_size if s.hdr_size else "none"))
        if s.move is not None:
            lines.append("    reserved := some %s," % lean_expr(s.reserved, kf))
            lines.append("    moveDst := %s, moveSrc := %s, moveSize := %s," % tuple(lean_expr(t, kf) for t in s.move))
        else:
            lines.append("    reserved := none, moveDst := %s, moveSrc := %s, moveSize := %s," % (z, z, z))
        lines.append("    encoded := %s, encodeAt := %s, avail := %d," % (lean_expr(s.encoded, kf), lean_expr(s.encode_at, kf), avail))
        lines.append("    total := %s }" % lean_expr(s.total, kf))
        lines.append("")
        table.append({"name": site_name(s, i), "file": s.path, "line": s.line, "func": s.func, "types": s.types,
                      "reserved": pretty(s.reserved, kf) if s.move is not None else None,
                      "encoded": pretty(s.encoded, kf),
                      "move": [pretty(t, kf) for t in s.move] if s.move is not None else None,
                      "total": pretty(s.total, kf)})
    lines.append("def sites : List Site := [%s]" % ", ".join(names))
    lines.append("")
    # stable names for the non-vacuity examples of Props/C02.lean (independent of the order / number of sites)
    frame = [n for n, s in zip(names, sites) if 6 in s.types and s.move is not None] or [n for n, s in zip(names, sites) if s.move is not None]
    td = [n for n, s in zip(names, sites) if s.move is None]
    if not frame or not td:
        raise Unsupported("the encoder has no %s framing site" % ("payload-carrying" if not frame else "temporal-delimiter"))
    lines.append("/-- The site that writes OBU_FRAME (first payload-carrying site otherwise). -/")
    lines.append("def frameSite : Site := %s" % frame[0])
    lines.append("/-- The first site without payload (temporal delimiter). -/")
    lines.append("def tdSite : Site := %s" % td[0])
    lines.append("")
    lines.append("end Gen.ObuSites")
    return "\n".join(lines) + "\n", table


def main(dst):
    txt, table = generate()
    old = open(dst).read() if os.path.exists(dst) else None
    if old != txt:
        open(dst, "w").write(txt)
    return table


if __name__ == "__main__":
    import json
    d = sys.argv[1] if len(sys.argv) > 1 else os.path.join(os.path.dirname(os.path.dirname(os.path.abspath(__file__))), "lean/SvtVerif/Gen/ObuSites.lean")
    print(json.dumps(main(d), indent=1))
