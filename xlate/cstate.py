"""State-passing statement translator (C -> Lean) on top of cfun's expression translator.

A C function that mutates structures through pointers becomes a Lean function returning the new
structure values.  Every mutable entity is a Lean variable that is re-bound (`let s := {s with f := e}`):
  * struct variables (one per pointer parameter, e.g. `s : Scs`, `c : Cfg`), members addressed by flattened path;
  * scalar locals.
`if` re-binds the tuple of variables assigned in either branch; the canonical loop
`for (i = A; i < B; ++i) body` becomes a `List.foldl` over `List.range` re-binding the variables assigned in the body.
Array element writes use `List.set` and record an out-of-bounds index in the struct's `oob` field
(C would write outside the array: that is behaviour the model must expose, not hide).
Anything else raises cfun.Unsupported.
"""
import json
import cfun
from cfun import Unsupported, ident, ctype, wrap, fits

ASSIGN_OPS = ("=", "+=", "-=", "*=", "|=", "&=", "<<=", ">>=")
LOG_CALLS = ("svt_log", "SVT_LOG", "SVT_ERROR", "SVT_WARN", "printf", "fprintf", "__assert_fail", "assert", "fflush")


class StructVar:
    def __init__(self, lean_var, type_name, prefix_strip):
        self.var, self.type_name, self.prefix = lean_var, type_name, prefix_strip
        self.fields = {}      # field name -> ("int", ctype) | ("list", ctype, len or None)
        self.has_oob = False


class SCtx(cfun.Ctx):
    """bases: C base name (after alias substitution) -> StructVar; path 'base_a_b' -> field 'a_b' of that struct."""

    def __init__(self, enums=None):
        super().__init__(enums=enums)
        self.bases = {}
        self.list_vars = {}    # C param name -> lean var holding a List Int
        self.user_calls = {}   # C function name -> callable(node, ctx) -> lean term
        self.struct_members = {}   # path -> list of sub-member names (whole-struct assignment expands over these)
        self.return_wrap = None
        self.stmt_calls = {}
        self.local_defs = {}   # local name -> Lean term substituted at each read (used by the verify walker)
        self.has_oob = {}
        self.reads = set()     # struct fields read (var.field)
        self.struct_defs = {}  # Lean structure name -> {member: ("int", ctype) | ("list", ctype, len)} (elements of "structlist" members)
        self.declared = []     # C locals declared so far (shadowing is refused)

    def split(self, path):
        best = None
        for b in self.bases:
            if path == b or path.startswith(b + "_"):
                if best is None or len(b) > len(best):
                    best = b
        if best is None:
            return None, None
        return self.bases[best], path[len(best) + 1:]

    def read_var(self, name, node):
        if name in self.list_vars:
            return self.list_vars[name]
        if name in self.local_defs:
            return self.local_defs[name]
        if name in self.aliases or name in self.bases:
            return "(1 : Int)"      # a pointer that the model assumes valid (non-NULL) read as a truth value
        return ident(name)

    def read_member(self, path, node):
        sv, f = self.split(path)
        if sv is None:
            raise Unsupported("member path %s has no known base" % path)
        q = node.get("type", {}).get("desugaredQualType") or node.get("type", {}).get("qualType", "")
        if f in sv.fields and sv.fields[f][0] in ("blob", "structlist"):
            pass
        elif "[" in q:
            import re
            m = re.search(r"\[(\d+)\]", q)
            sv.fields.setdefault(f, ("list", cfun.ctype({"qualType": q.split("[")[0].strip()}), int(m.group(1)) if m else None))
        else:
            sv.fields.setdefault(f, ("int", ctype(node)))
        self.reads.add("%s.%s" % (sv.var, ident(f)))
        return "%s.%s" % (sv.var, ident(f))

    def elem_parts(self, n):
        """`base->arr[i].m` -> (struct var, array field, index node, member name, member entry); None if n is not of that form."""
        if n.get("kind") != "MemberExpr":
            return None
        sub = strip_casts(n["inner"][0])
        if sub.get("kind") != "ArraySubscriptExpr":
            return None
        base, idx = sub["inner"]
        b = strip_casts(base)
        if b.get("kind") != "MemberExpr":
            return None
        p = cfun.member_path(b, self.aliases)
        sv, f = self.split(p) if p else (None, None)
        if sv is None or f not in sv.fields or sv.fields[f][0] != "structlist":
            return None
        ent = sv.fields[f]
        mem = self.struct_defs.get(ent[1], {}).get(n["name"])
        if mem is None:
            return None
        return sv, f, p, b, idx, n["name"], mem

    def read_elem_member(self, n):
        parts = self.elem_parts(n)
        if parts is None:
            raise Unsupported("member expression base too complex")
        sv, f, p, b, idx, m, mem = parts
        arr = self.read_member(p, b)
        t = "((%s).getD (%s).toNat default).%s" % (arr, cfun.expr(idx, self), ident(m))
        return "(%s : Int)" % t if mem[0] == "int" else t

    def call(self, name, node):
        if name in self.user_calls:
            return self.user_calls[name](node, self)
        return super().call(name, node)


def strip_casts(n):
    while n.get("kind") in ("ImplicitCastExpr", "ParenExpr", "CStyleCastExpr") and n.get("inner"):
        n = n["inner"][0]
    return n


def callee_name(n):
    c = n["inner"][0]
    while c.get("kind") in ("ImplicitCastExpr", "ParenExpr"):
        c = c["inner"][0]
    return c.get("referencedDecl", {}).get("name")


class Lhs:
    def __init__(self, kind, var, field=None, idx=None, cty=None, arrlen=None, idx_lit=None, oob=False):
        self.kind, self.var, self.field, self.idx, self.cty, self.arrlen = kind, var, field, idx, cty, arrlen
        self.idx_lit, self.oob = idx_lit, oob
        # kind "nested" (`base->arr[i].m[k] = v` / `base->arr[i].m = v`): member name, inner index term/literal/length
        self.member, self.idx2, self.idx2_lit, self.arrlen2 = None, None, None, None


def lvalue(n, cx):
    n0 = n
    while n.get("kind") == "ParenExpr":
        n = n["inner"][0]
    k = n.get("kind")
    if k == "DeclRefExpr":
        return Lhs("local", ident(n["referencedDecl"]["name"]), cty=ctype(n))
    if k == "MemberExpr" and cfun.member_path(n, cx.aliases) is not None:
        p = cfun.member_path(n, cx.aliases)
        sv, f = cx.split(p)
        if sv is None:
            raise Unsupported("assignment to member of unknown base: %s" % p)
        cx.read_member(p, n)   # registers the field
        return Lhs("field", sv.var, field=ident(f), cty=ctype(n))
    if k == "MemberExpr" and cfun.member_path(n, cx.aliases) is None:
        parts = cx.elem_parts(n)
        if parts is None or parts[6][0] != "int":
            raise Unsupported("assignment target")
        sv, f, p, b, idx, m, mem = parts
        cx.read_member(p, b)
        lh = Lhs("nested", sv.var, field=ident(f), idx=cfun.expr(idx, cx), cty=ctype(n), arrlen=sv.fields[f][2],
                 idx_lit=cfun.literal_value(strip_casts(idx)), oob=sv.has_oob)
        lh.member = ident(m)
        return lh
    if k == "ArraySubscriptExpr" and strip_casts(n["inner"][0]).get("kind") == "MemberExpr" and \
            cfun.member_path(strip_casts(n["inner"][0]), cx.aliases) is None:
        base, idx2 = n["inner"]
        parts = cx.elem_parts(strip_casts(base))
        if parts is None or parts[6][0] != "list":
            raise Unsupported("array element assignment base")
        sv, f, p, b, idx, m, mem = parts
        cx.read_member(p, b)
        lh = Lhs("nested", sv.var, field=ident(f), idx=cfun.expr(idx, cx), cty=ctype(n), arrlen=sv.fields[f][2],
                 idx_lit=cfun.literal_value(strip_casts(idx)), oob=sv.has_oob)
        lh.member, lh.idx2, lh.idx2_lit, lh.arrlen2 = ident(m), cfun.expr(idx2, cx), cfun.literal_value(strip_casts(idx2)), mem[2]
        return lh
    if k == "ArraySubscriptExpr":
        base, idx = n["inner"]
        b = strip_casts(base)
        if b.get("kind") != "MemberExpr":
            raise Unsupported("array element assignment on non-member")
        p = cfun.member_path(b, cx.aliases)
        sv, f = cx.split(p)
        if sv is None:
            raise Unsupported("array base unknown: %s" % p)
        cx.read_member(p, b)
        ent = sv.fields[f]
        return Lhs("elem", sv.var, field=ident(f), idx=cfun.expr(idx, cx), cty=ctype(n), arrlen=ent[2] if ent[0] == "list" else None,
                   idx_lit=cfun.literal_value(strip_casts(idx)), oob=sv.has_oob)
    raise Unsupported("lvalue kind %s" % k)


def modified(n, cx, acc=None):
    """Lean variables re-bound by statement n."""
    if acc is None:
        acc = []
    if not isinstance(n, dict):
        return acc
    k = n.get("kind")
    tgt = None
    if k in ("BinaryOperator", "CompoundAssignOperator") and n.get("opcode") in ASSIGN_OPS:
        tgt = n["inner"][0]
    elif k == "UnaryOperator" and n.get("opcode") in ("++", "--"):
        tgt = n["inner"][0]
    elif k == "CallExpr" and callee_name(n) in ("memset", "memcpy", "svt_memcpy", "svt_memcpy_c", "EB_MEMCPY", "svt_memcpy_app"):
        tgt = strip_casts(n["inner"][1])
        if tgt.get("kind") == "UnaryOperator" and tgt.get("opcode") == "&":
            tgt = strip_casts(tgt["inner"][0])
        if tgt.get("kind") == "ArraySubscriptExpr":
            tgt = strip_casts(tgt["inner"][0])
    if tgt is not None:
        t = tgt
        while t.get("kind") in ("ParenExpr",):
            t = t["inner"][0]
        if t.get("kind") == "ArraySubscriptExpr":
            t = strip_casts(t["inner"][0])
        if t.get("kind") == "DeclRefExpr":
            v = ident(t["referencedDecl"]["name"])
        else:
            p = cfun.member_path(t, cx.aliases)
            if p is None and t.get("kind") == "MemberExpr" and cx.elem_parts(t) is not None:
                p = cx.elem_parts(t)[2]          # `base->arr[i].m...`: the member array `base->arr` is what changes
            sv, _ = cx.split(p) if p else (None, None)
            if sv is None:
                raise Unsupported("assignment target not understood: %s" % json.dumps(t)[:200])
            v = sv.var
        if v not in acc:
            acc.append(v)
    for c in n.get("inner", []):
        modified(c, cx, acc)
    return acc


def declared_in(n, acc=None):
    """names of the C locals declared anywhere inside statement n (their scope ends with n)"""
    if acc is None:
        acc = []
    if isinstance(n, dict):
        if n.get("kind") == "VarDecl":
            acc.append(ident(n["name"]))
        for c in n.get("inner", []):
            declared_in(c, acc)
    return acc


def assigned_paths(n, cx, acc=None):
    """member paths (root member array for nested targets) and locals assigned anywhere inside n"""
    if acc is None:
        acc = set()
    if not isinstance(n, dict):
        return acc
    k = n.get("kind")
    tgt = None
    if k in ("BinaryOperator", "CompoundAssignOperator") and n.get("opcode") in ASSIGN_OPS:
        tgt = n["inner"][0]
    elif k == "UnaryOperator" and n.get("opcode") in ("++", "--"):
        tgt = n["inner"][0]
    elif k == "CallExpr" and callee_name(n) in ("memset", "memcpy", "svt_memcpy", "svt_memcpy_c", "EB_MEMCPY", "svt_memcpy_app"):
        tgt = n["inner"][1]
    if tgt is not None:
        t = strip_casts(tgt)
        while t.get("kind") in ("ArraySubscriptExpr", "UnaryOperator"):
            t = strip_casts(t["inner"][0])
        if t.get("kind") == "DeclRefExpr":
            acc.add(ident(t["referencedDecl"]["name"]))
        else:
            p = cfun.member_path(t, cx.aliases)
            while p is None and t.get("kind") in ("MemberExpr", "ArraySubscriptExpr"):
                t = strip_casts(t["inner"][0])
                p = cfun.member_path(t, cx.aliases) if t.get("kind") == "MemberExpr" else None
            if p is None:
                raise Unsupported("assignment target not understood")
            acc.add(p)
    for c in n.get("inner", []):
        assigned_paths(c, cx, acc)
    return acc


def read_paths(n, cx, acc=None):
    """member paths and locals mentioned anywhere inside expression n"""
    if acc is None:
        acc = set()
    if isinstance(n, dict):
        if n.get("kind") == "MemberExpr":
            p = cfun.member_path(n, cx.aliases)
            if p is not None:
                acc.add(p)
        if n.get("kind") == "DeclRefExpr" and n.get("referencedDecl", {}).get("kind") in ("VarDecl", "ParmVarDecl"):
            acc.add(ident(n["referencedDecl"]["name"]))
        for c in n.get("inner", []):
            read_paths(c, cx, acc)
    return acc


def tup(vs):
    return vs[0] if len(vs) == 1 else "(" + ", ".join(vs) + ")"


def assign_term(lhs, rhs_term, cx):
    if lhs.kind == "local":
        return "let %s : Int := %s" % (lhs.var, rhs_term)
    if lhs.kind == "field":
        return "let %s := { %s with %s := %s }" % (lhs.var, lhs.var, lhs.field, rhs_term)
    if lhs.kind == "nested":
        cur = "((%s.%s).getD (%s).toNat default)" % (lhs.var, lhs.field, lhs.idx)
        bad = []
        if not (lhs.idx_lit is not None and 0 <= lhs.idx_lit < lhs.arrlen):
            bad += ["decide (%s < 0)" % lhs.idx, "decide (%s ≥ %d)" % (lhs.idx, lhs.arrlen)]
        if lhs.idx2 is None:
            new = "{ %s with %s := %s }" % (cur, lhs.member, rhs_term)
        else:
            if not (lhs.idx2_lit is not None and 0 <= lhs.idx2_lit < lhs.arrlen2):
                bad += ["decide (%s < 0)" % lhs.idx2, "decide (%s ≥ %d)" % (lhs.idx2, lhs.arrlen2)]
            new = "{ %s with %s := (%s.%s).set (%s).toNat %s }" % (cur, lhs.member, cur, lhs.member, lhs.idx2, rhs_term)
        oob = ""
        if bad:
            if not lhs.oob:
                raise Unsupported("array write with non-constant index into a structure without oob tracking")
            oob = ", oob := (if %s then 1 else %s.oob)" % (" || ".join(bad), lhs.var)
        return "let %s := { %s with %s := (%s.%s).set (%s).toNat %s%s }" % (lhs.var, lhs.var, lhs.field, lhs.var, lhs.field, lhs.idx, new, oob)
    # elem
    oob = ""
    if lhs.idx_lit is not None and lhs.arrlen is not None and 0 <= lhs.idx_lit < lhs.arrlen:
        pass          # constant index inside the array
    elif not lhs.oob:
        raise Unsupported("array write with non-constant index into a structure without oob tracking")
    elif lhs.arrlen is not None:
        oob = ", oob := (if decide (%s < 0) || decide (%s ≥ %d) then 1 else %s.oob)" % (lhs.idx, lhs.idx, lhs.arrlen, lhs.var)
    return "let %s := { %s with %s := (%s.%s).set (%s).toNat %s%s }" % (
        lhs.var, lhs.var, lhs.field, lhs.var, lhs.field, lhs.idx, rhs_term, oob)


def read_lhs(lhs):
    if lhs.kind == "local":
        return lhs.var
    if lhs.kind == "field":
        return "%s.%s" % (lhs.var, lhs.field)
    if lhs.kind == "nested":
        cur = "((%s.%s).getD (%s).toNat default).%s" % (lhs.var, lhs.field, lhs.idx, lhs.member)
        return cur if lhs.idx2 is None else "((%s).getD (%s).toNat 0)" % (cur, lhs.idx2)
    return "((%s.%s).getD (%s).toNat 0)" % (lhs.var, lhs.field, lhs.idx)


def assignment(n, cx, ind):
    """Returns (lean let-lines, value term) for an assignment expression node."""
    lhs_n, rhs_n = n["inner"]
    op = n["opcode"]
    pre = ""
    if rhs_n.get("kind") in ("BinaryOperator",) and rhs_n.get("opcode") == "=":      # a = b = e
        pre, val = assignment(rhs_n, cx, ind)
        rhs_term, rhs_ty = val, ctype(rhs_n)
    else:
        rhs_term, rhs_ty = None, None
    lhs = lvalue(lhs_n, cx)
    # whole-struct assignment (e.g. rc_twopass_stats_in = config->rc_twopass_stats_in): expand over its members
    if lhs.kind == "field" and lhs.cty[0] == "E":
        lp = cfun.member_path(lhs_n, cx.aliases)
        rp = cfun.member_path(strip_casts(rhs_n), cx.aliases) if rhs_term is None else None
        if lp in cx.struct_members and rp is not None:
            lines = pre
            for mname in cx.struct_members[lp]:
                lsv, lf = cx.split(lp + "_" + mname)
                rsv, rf = cx.split(rp + "_" + mname)
                lsv.fields.setdefault(lf, ("int", ("S", 64)))
                rsv.fields.setdefault(rf, ("int", ("S", 64)))
                lines += "let %s := { %s with %s := %s.%s }\n%s" % (lsv.var, lsv.var, ident(lf), rsv.var, ident(rf), ind)
            return lines, "0"
    if rhs_term is None:
        rhs_term, rhs_ty = cfun.expr(rhs_n, cx), ctype(rhs_n)
    if op != "=":
        bop = op[:-1]
        cur = read_lhs(lhs)
        ty = ctype(n)
        if bop in ("+", "-", "*"):
            rhs_term = wrap(ty, "(%s %s %s)" % (cur, bop, rhs_term))
        else:
            raise Unsupported("compound assignment " + op)
    elif lhs.cty[0] != "P" and rhs_ty[0] != "P" and not fits(rhs_ty, lhs.cty):
        rhs_term = wrap(lhs.cty, rhs_term)
    return pre + assign_term(lhs, rhs_term, cx) + "\n" + ind, read_lhs(lhs)


def has_return(n):
    return cfun.has_return(n)


def block(lst, cx, tail, ind):
    """Translate a statement list.  `tail` = Lean term produced when control falls off the end."""
    if not lst:
        if tail is None:
            raise Unsupported("control reaches end without a value")
        return tail
    s, rest = lst[0], lst[1:]
    if not s:      # clang prints {} for absent children
        return block(rest, cx, tail, ind)
    k = s.get("kind")
    if k == "CompoundStmt":
        return block(s.get("inner", []) + rest, cx, tail, ind)
    if k == "NullStmt":
        return block(rest, cx, tail, ind)
    if k == "DeclStmt":
        out = ""
        for v in s.get("inner", []):
            if v.get("kind") != "VarDecl":
                raise Unsupported("decl " + str(v.get("kind")))
            init = [c for c in v.get("inner", []) if c.get("kind") not in ("FullComment",)]
            vt = ctype(v)
            if ident(v["name"]) in cx.declared and vt[0] != "P":
                raise Unsupported("local %s declared twice (shadowing / redeclaration in a loop-carried scope is not modelled)" % v["name"])
            if vt[0] != "P":
                cx.declared.append(ident(v["name"]))
            if vt[0] == "P":
                # pointer local: only `T *p = &base->member` / `= base` aliases are understood
                if not init:
                    raise Unsupported("uninitialised pointer local %s" % v["name"])
                e = strip_casts(init[0])
                if e.get("kind") == "UnaryOperator" and e.get("opcode") == "&":
                    e = strip_casts(e["inner"][0])
                p = cfun.member_path(e, cx.aliases)
                if p is None:
                    raise Unsupported("pointer local %s initialiser" % v["name"])
                cx.aliases[v["name"]] = p
                continue
            if init:
                e = cfun.expr(init[0], cx)
                if not fits(ctype(init[0]), vt):
                    e = wrap(vt, e)
                out += "let %s : Int := %s\n%s" % (ident(v["name"]), e, ind)
            else:
                out += "let %s : Int := 0\n%s" % (ident(v["name"]), ind)
        return out + block(rest, cx, tail, ind)
    if k == "ReturnStmt":
        inner = s.get("inner", [])
        if not inner:
            if tail is None:
                raise Unsupported("void return in value context")
            return tail
        if cx.return_wrap:
            return cx.return_wrap(cfun.expr(inner[0], cx))
        return cfun.expr(inner[0], cx)
    if k in ("BinaryOperator", "CompoundAssignOperator") and s.get("opcode") in ASSIGN_OPS:
        lines, _ = assignment(s, cx, ind)
        return lines + block(rest, cx, tail, ind)
    if k == "UnaryOperator" and s.get("opcode") in ("++", "--"):
        lhs = lvalue(s["inner"][0], cx)
        d = "+" if s["opcode"] == "++" else "-"
        return assign_term(lhs, wrap(lhs.cty, "(%s %s 1)" % (read_lhs(lhs), d)), cx) + "\n" + ind + block(rest, cx, tail, ind)
    if k == "IfStmt":
        parts = s["inner"]
        c = cfun.cond(parts[0], cx)
        th = parts[1]
        el = parts[2] if len(parts) > 2 else None
        if has_return(th) or (el is not None and has_return(el)):
            t_th = block([th] + rest, cx, tail, ind + "  ")
            t_el = block(([el] if el is not None else []) + rest, cx, tail, ind + "  ")
            return "if %s then\n%s  %s\n%selse\n%s  %s" % (c, ind, t_th, ind, ind, t_el)
        vs = modified(th, cx) + [v for v in (modified(el, cx) if el is not None else []) if v not in modified(th, cx)]
        scoped = declared_in(th) + (declared_in(el) if el is not None else [])
        vs = [v for v in vs if v not in scoped]     # locals declared inside a branch do not outlive it
        if not vs:
            return block(rest, cx, tail, ind)
        t = tup(vs)
        mark = len(cx.declared)
        t_th = block([th], cx, t, ind + "  ")
        del cx.declared[mark:]
        t_el = block([el], cx, t, ind + "  ") if el is not None else t
        del cx.declared[mark:]
        return "let %s := (if %s then\n%s  %s\n%selse\n%s  %s)\n%s" % (t, c, ind, t_th, ind, ind, t_el, ind) + block(rest, cx, tail, ind)
    if k == "ForStmt":
        init, _cv, cnd, inc, body = (s["inner"] + [{}] * 5)[:5]
        # canonical: i = A ; i < B ; ++i / i++
        ivar, a_term = None, None
        if init.get("kind") == "BinaryOperator" and init.get("opcode") == "=":
            ivar = ident(strip_casts(init["inner"][0])["referencedDecl"]["name"])
            a_term = cfun.expr(init["inner"][1], cx)
        elif init.get("kind") == "DeclStmt" and len(init["inner"]) == 1:
            v = init["inner"][0]
            ivar = ident(v["name"])
            a_term = cfun.expr([c for c in v["inner"] if c.get("kind") != "FullComment"][0], cx)
        else:
            raise Unsupported("for-init form")
        if not (cnd.get("kind") == "BinaryOperator" and cnd.get("opcode") in ("<", "<=")):
            raise Unsupported("for-condition form")
        cl = strip_casts(cnd["inner"][0])
        if cl.get("kind") != "DeclRefExpr" or ident(cl["referencedDecl"]["name"]) != ivar:
            raise Unsupported("for-condition variable")
        b_term = cfun.expr(cnd["inner"][1], cx)
        if cnd["opcode"] == "<=":
            b_term = "(%s + 1)" % b_term
        if not (inc.get("kind") == "UnaryOperator" and inc.get("opcode") == "++" and
                ident(strip_casts(inc["inner"][0])["referencedDecl"]["name"]) == ivar):
            raise Unsupported("for-increment form")
        scoped = declared_in(body)
        vs = [v for v in modified(body, cx) if v != ivar and v not in scoped]   # body-local declarations are re-created per iteration
        if ivar in modified(body, cx) or ivar in scoped:
            raise Unsupported("loop variable assigned in body")
        if has_return(body):
            raise Unsupported("return inside loop")
        # the bounds are evaluated once here but on every iteration in C: they must not depend on anything the body assigns
        if (read_paths(cnd["inner"][1], cx) | read_paths(init, cx)) & assigned_paths(body, cx):
            raise Unsupported("loop bound depends on a variable or member assigned in the loop body")
        if not vs:
            return block(rest, cx, tail, ind)
        t = tup(vs)
        mark = len(cx.declared)
        inner = block([body], cx, t, ind + "    ")
        del cx.declared[mark:]
        pat = "let %s := st_\n%s    " % (t, ind) if len(vs) > 1 else ""
        stv = "st_" if len(vs) > 1 else vs[0]
        return ("let %s := (List.range ((%s) - (%s)).toNat).foldl (fun %s k_ =>\n%s    %slet %s : Int := (%s) + (k_ : Nat)\n%s    %s) %s\n%s"
                % (t, b_term, a_term, stv, ind, pat, ivar, a_term, ind, inner, t, ind)) + \
            "let %s : Int := (if decide ((%s) < (%s)) then (%s) else (%s))\n%s" % (ivar, a_term, b_term, b_term, a_term, ind) + \
            block(rest, cx, tail, ind)
    if k == "SwitchStmt":
        cond_n, body = s["inner"][0], s["inner"][-1]
        sel = cfun.expr(cond_n, cx)
        cases, cur, default = [], None, None
        for c in body.get("inner", []):
            kk = c.get("kind")
            while kk in ("CaseStmt", "DefaultStmt"):
                if kk == "CaseStmt":
                    val = cfun.expr(c["inner"][0], cx)
                    cur = [val, []]
                    cases.append(cur)
                    c = c["inner"][-1]
                else:
                    cur = [None, []]
                    default = cur
                    c = c["inner"][-1]
                kk = c.get("kind")
            if kk == "BreakStmt":
                cur = None
                continue
            if cur is None:
                raise Unsupported("statement outside case in switch")
            cur[1].append(c)
        vs = modified(body, cx)
        t = tup(vs) if vs else None
        if not vs:
            return block(rest, cx, tail, ind)
        chain = block(default[1], cx, t, ind + "  ") if default else t
        for val, st in reversed(cases):
            chain = "(if (%s) == %s then\n%s  %s\n%selse %s)" % (sel, val, ind, block(st, cx, t, ind + "  "), ind, chain)
        return "let %s := %s\n%s" % (t, chain, ind) + block(rest, cx, tail, ind)
    if k == "CallExpr":
        name = callee_name(s)
        if name in LOG_CALLS:
            return block(rest, cx, tail, ind)
        if name in cx.stmt_calls:
            return cx.stmt_calls[name](s, cx, ind) + block(rest, cx, tail, ind)
        raise Unsupported("call statement to %s" % name)
    if k in ("ParenExpr", "ConditionalOperator", "CStyleCastExpr", "ImplicitCastExpr"):
        if "__assert_fail" in json.dumps(s):
            return block(rest, cx, tail, ind)
        raise Unsupported("expression statement " + k)
    raise Unsupported("statement kind %s" % k)
