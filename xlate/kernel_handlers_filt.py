"""C07 handler specs, group 'filt' (see kernel_handlers.py). register(H) adds the handlers."""

CONV_KIND = {"2d": 0, "x": 1, "y": 2, "2d_copy": 3}
CONV_LBD = "void(const uint8_t*,int32_t,uint8_t*,int32_t,int32_t,int32_t,InterpFilterParams*,InterpFilterParams*,const int32_t,const int32_t,ConvolveParams*)"
CONV_HBD = ("void(const uint16_t*,int32_t,uint16_t*,int32_t,int32_t,int32_t,const InterpFilterParams*,const InterpFilterParams*,"
            "const int32_t,const int32_t,ConvolveParams*,int32_t)")
CONV_DOMAIN = (
    "inter-prediction convolution as called through convolve[sx!=0][sy!=0][is_compound] / convolveHbd: w x h from the block-size table, its chroma "
    "halves (down to 2x2) and, for the non-compound functions only, the OBMC neighbour shapes 64x8, 8x64, 32x4, 4x32 (h always even); "
    "filter_x/filter_y = av1_get_interp_filter_params_with_block_size(f, w / h) for f in {REGULAR, SMOOTH, SHARP} (all 9 pairs; 4-tap tables "
    "iff the dimension is <= 4; the repo's own tables, SIMD keys the tap count on the table pointer); BILINEAR only as the encoder uses it = "
    "intrabc, non-compound: both filters BILINEAR, subpel 8 in the filtered direction(s), NULL for the unused filter parameter "
    "(convolve_2d_for_intrabc), copy with BILINEAR params; subpel_x in 1..15 exactly when the function filters horizontally "
    "(2d, x) else 0, same for subpel_y (2d, y), value 8 over-represented; ConvolveParams = get_conv_params_no_round(.., is_compound, bd) "
    "(round_0 3 (5 for bd 12), round_1 11-.. / 7), bd 8 for the 8-bit functions, {8,10,12} for the 16-bit ones (12 as in test/convolve_2d_test.cc); "
    "samples in [0,2^bd-1], 8 valid samples on every side of the block (encoder: picture padding; C needs 3 before / 4 after), "
    "src/dst at any element offset with any stride; conv_params->dst 32-byte aligned with stride 64 or 128 (encoder tmp_dst buffers): for sr it must "
    "stay untouched, for compound with do_average=0 it is the output (pixel dst untouched), with do_average=1 it holds the first prediction "
    "(= C svt_av1_(highbd_)jnt_convolve_2d_c of another source with any filter/subpel 0..15) and the pixel dst is the output; "
    "use_jnt_comp_avg 0 or 1 with (fwd,bck) from quant_dist_lookup_table. Left out: scaled references, odd h, w not a power of two; "
    "BILINEAR with other subpels / in compound prediction and the OBMC shapes in compound prediction (unit-test domain, not reachable from the "
    "encoder; K_CONV_WIDE=1 generates them: svt_av1_jnt_convolve_2d_avx2 then FAILs for w=64/128 with a 2-tap vertical filter, do_average and "
    "use_jnt_comp_avg when dst8_stride != conv dst_stride, and the jnt 4-tap vertical paths do not support w=32)")


WARP_DOMAIN = (
    "warp filter as called by svt_av1_warp_plane: model = identity +- 2^13 per non-translational parameter (AFFINE or ROTZOOM, single parameters "
    "forced to the alpha/beta/gamma/delta = 0 cases as in test/warp_filter_test_util.cc), accepted by the encoder's svt_get_shear_params which also "
    "supplies alpha..delta; translation mat[0], mat[1] in [-2^23, 2^23) (WARPEDMODEL_TRANS_CLAMP), uniform or placing the block inside the plane, "
    "on each of its four edges, or far outside; p_width x p_height = block sizes with min >= 8 (luma blocks that allow warp, chroma only of "
    "blocks >= 16x16), p_col/p_row multiples of 4 inside a plane of (block size + {0,8,24,48,120}) samples per dimension, subsampling (0,0) or (1,1); ref points at sample "
    "(0,0) of a plane that has 16 more samples per row on each side (replicated as in a padded reference, or junk), any stride/offset; pred any "
    "offset/stride; ConvolveParams = get_conv_params_no_round: single (dst NULL), compound first (writes the 32-byte aligned stride-128 "
    "CONV_BUF, pred untouched) or compound second with do_average (CONV_BUF = C warp of another model; plain or distance-weighted average); "
    "samples < 2^bd, bd 8 (8-bit) / {8,10,12} (16-bit; 12 as in the unit test). Left out: p_width or p_height 4 (unit test has them, the encoder "
    "predicts such chroma blocks with the regular convolution), 4:2:2/4:4:0 subsampling, planes wider than 248")


WIENER_DOMAIN = (
    "Wiener restoration filter as called by wiener_filter_stripe(_highbd): symmetric 7-tap kernels with taps inside [WIENER_FILT_TAPi_MINV, "
    "MAXV] (tap0 -5..10, tap1 -23..8, tap2 -17..46, centre = -2*sum, tap 7 = 0), window 7, 5 or 3 (outer taps 0; luma 7, chroma 5), the "
    "horizontal and the vertical window occasionally different; kernel types min/max/random/zero/partial as in test/wiener_convolve_test.cc; "
    "kernels 16-byte aligned inside one 256-byte line (WienerInfo); ConvolveParams = get_conv_params_wiener(bd); w in {16,32,48,64} (encoder: "
    "multiple of 16 up to the processing unit) plus {8,24,40,56} (unit test: multiples of 8), h in 1..64 (stripe heights 64/56/32/28/8/4 "
    "preferred); samples < 2^bd, bd 8 / {8,10,12} (16-bit through CONVERT_TO_BYTEPTR), 8 valid samples around the block (3 needed), any "
    "offset/stride. Left out: w > 64, h > 64")


SGR_DOMAIN = (
    "self-guided restoration of one processing unit: w <= 64, h in 1..64 (stripe heights preferred), all 16 sgr_params sets, 8-bit samples "
    "(highbd=0, bd 8) or 16-bit through CONVERT_TO_BYTEPTR (highbd=1, bd 8/10/12), samples < 2^bd, 8 valid samples around the unit (3 required), "
    "any offset/stride. svt_av1_selfguided_restoration: flt0/flt1 int32 outputs 32-byte aligned, flt_stride = w, ((w+7)&~7)+8 or larger (as "
    "apply_selfguided / search_selfguided_restoration); the buffer of a radius-0 filter must stay untouched; w restricted to multiples of 8. "
    "svt_apply_selfguided_restoration: xqd[0] in [-96,31], xqd[1] in [-32,95] (extremes and random), tmpbuf = RESTORATION_TMPBUF_SIZE bytes "
    "32-byte aligned scratch (not compared), w restricted to multiples of 16. Left out (K_SGR_ANYW=1 enables them): other widths, which "
    "the encoder reaches for the last unit of a row -- there the AVX2 code stores whole vectors (8 ints / 16 pixels) beyond `width`, the C code "
    "does not, so the bytes right of the unit differ although the w x h result is the same")


SGRS_DOMAIN = (
    "self-guided search kernels on a whole restoration unit as search_selfguided_restoration calls them: w x h = 1..384 x 1..384 with the "
    "other dimension small when one is large (multiples of 4/8 preferred, any value sometimes), src and dat any samples < 2^bd (independent "
    "extremes/checkers/ramps/random, or src = dat + small noise), flt0/flt1 = C svt_av1_selfguided_restoration_c of dat in 64x64 processing "
    "units with flt_stride = ((w+7)&~7)+8, all 16 parameter sets, the buffer of a radius-0 filter and the stride padding hold stale values "
    "in [0, (2^bd-1)<<4]; pixel_proj_error: xq = svt_decode_xq(xqd), xqd[0] in [-96,31], xqd[1] in [-32,95] (extremes and random), returns "
    "int64; lowbd: 8-bit; highbd: CONVERT_TO_BYTEPTR 16-bit with bd 8/10/12; svt_get_proj_subspace: use_highbitdepth 0 (bd 8) and 1 "
    "(bd 8/10 only: the AVX2 code keeps (sample << 4) in signed 16-bit lanes, so bd 12 -- which this encoder does not support -- overflows; "
    "K_SGR_BD12=1 adds it), output xq[2]. Left out: units larger than 384, flt values that are not filter outputs (the unit test uses random 15-bit)")


STATS_DOMAIN = (
    "Wiener statistics of one restoration unit (search_wiener_seg): wiener_win 7, 5, 3; unit [h_start,h_end) x [v_start,v_end) with start "
    "0..24 and size 1..24 x 1..24, 16..72 x 4..24, 200..384 x 2..6, 4..10 x 200..384 and one large unit per window (384x384 for win 3, "
    "320x64 for 5, 384x32 for 7 -- limited by the cost of the C reference; the encoder's maximum is 384x384; 16-bit: large unit only at "
    "bd 10, wide unit not at bd 12, tall unit not at bd 8); dgd/src point at plane sample "
    "(0,0), dgd has 8 valid samples around the unit (3 needed), any offset/stride; samples < 2^bd: zero, random, 0-or-max, src = dgd + noise, "
    "structured; 8-bit, or 16-bit through CONVERT_TO_BYTEPTR with bit_depth 8/10/12 (12 as in the unit test; it exercises the row-chunked "
    "accumulation cheaply); outputs M[49], H[49*49] int64 32-byte aligned, only the first win^2 / win^4 entries may be written. Left out: "
    "full-size units for win 5/7")


TF_DOMAIN = (
    "plane-wise temporal filter of one 32x32 luma block and, with tf_chroma, its two 16x16 4:2:0 chroma blocks (the only shape "
    "apply_filtering_block_plane_wise passes; the AVX2 code asserts 32x32/16x16): source picture with any offset/stride, prediction / accum "
    "/ count blocks with stride 64 (chroma 32), sometimes 64+8k, at 32- (16-) sample offsets; MeContext = zeroed struct with tf_chroma, "
    "tf_block_row/col in {0,1}, min_frame_size 64..2240, tf_32x32_block_split_flag, tf_32x32/16x16_block_error in [0, 1024*(2^bd-1)^2] (zero, "
    "small, typical, huge), tf_*_mv_x/y in +-8 or +-600; noise_levels in {-1 (unreliable estimate), 0, (0,3), (0,12)}, decay_control 2..4; "
    "accum/count hold 0..6 previously accumulated frames (weights <= 1000); samples < 2^bd with prediction vs source extremes, checkers, "
    "random, prediction = source + noise; 8-bit, or 16-bit with encoder_bit_depth 8/10. Outputs: accum (uint32) and count (uint16) of the "
    "three planes (chroma untouched when tf_chroma = 0). Left out: bit depth 12, 4:4:4/4:2:2, other block sizes")


def register(H):
    H("upsampled_pred", r"svt_aom_upsampled_pred",
      "void(MacroBlockD*,const struct AV1Common*const,int,int,const MV*const,uint8_t*,int,int,int,int,const uint8_t*,int,int)", "h_upsampled_pred",
      "sub-pel ME prediction (callers mcomp.c / av1me.c): width x height from the block-size table (4..128), subpel_x_q3 / subpel_y_q3 in 0..7 "
      "(full-pel, x only, y only, both), subpel_search USE_2_TAPS / USE_4_TAPS / USE_8_TAPS (1..3), ref any uint8 with 8 valid samples around "
      "the block (3 before / 4 after needed), any offset/stride; comp_pred = width*height contiguous bytes, 16-byte aligned (DECLARE_ALIGNED(16) "
      "in the callers); xd and cm NULL and mi_row/mi_col/mv arbitrary (unused by the C and the SSE2 code). Left out: USE_2_TAPS_ORIG (asserted "
      "away), widths that are not a multiple of 4")
    H("tf_planewise_lbd", r"svt_av1_apply_temporal_filter_planewise",
      "void(struct MeContext*,const uint8_t*,int,const uint8_t*,int,const uint8_t*,const uint8_t*,int,const uint8_t*,const uint8_t*,int,unsigned int,"
      "unsigned int,int,int,const double*,const int,uint32_t*,uint16_t*,uint32_t*,uint16_t*,uint32_t*,uint16_t*)", "h_tf", TF_DOMAIN,
      lambda m: dict(k=[0]))
    H("tf_planewise_hbd", r"svt_av1_apply_temporal_filter_planewise_hbd",
      "void(struct MeContext*,const uint16_t*,int,const uint16_t*,int,const uint16_t*,const uint16_t*,int,const uint16_t*,const uint16_t*,int,"
      "unsigned int,unsigned int,int,int,const double*,const int,uint32_t*,uint16_t*,uint32_t*,uint16_t*,uint32_t*,uint16_t*,uint32_t)", "h_tf",
      TF_DOMAIN, lambda m: dict(k=[1]))
    H("compute_stats_lbd", r"svt_av1_compute_stats",
      "void(int32_t,const uint8_t*,const uint8_t*,int32_t,int32_t,int32_t,int32_t,int32_t,int32_t,int64_t*,int64_t*)", "h_compute_stats",
      STATS_DOMAIN, lambda m: dict(k=[0]))
    H("compute_stats_hbd", r"svt_av1_compute_stats_highbd",
      "void(int32_t,const uint8_t*,const uint8_t*,int32_t,int32_t,int32_t,int32_t,int32_t,int32_t,int64_t*,int64_t*,AomBitDepth)", "h_compute_stats",
      STATS_DOMAIN, lambda m: dict(k=[1]))
    PPE = "int64_t(const uint8_t*,int32_t,int32_t,int32_t,const uint8_t*,int32_t,int32_t*,int32_t,int32_t*,int32_t,int32_t[2],const SgrParamsType*)"
    H("sgr_proj_error_lbd", r"svt_av1_lowbd_pixel_proj_error", PPE, "h_sgr_search", SGRS_DOMAIN, lambda m: dict(k=[0]))
    H("sgr_proj_error_hbd", r"svt_av1_highbd_pixel_proj_error", PPE, "h_sgr_search", SGRS_DOMAIN, lambda m: dict(k=[1]))
    H("sgr_proj_subspace", r"svt_get_proj_subspace",
      "void(const uint8_t*,int,int,int,const uint8_t*,int,int,int32_t*,int,int32_t*,int,int*,const SgrParamsType*)", "h_sgr_search", SGRS_DOMAIN,
      lambda m: dict(k=[2]))
    H("sgr_filter", r"svt_av1_selfguided_restoration",
      "void(const uint8_t*,int32_t,int32_t,int32_t,int32_t*,int32_t*,int32_t,int32_t,int32_t,int32_t)", "h_sgr", SGR_DOMAIN, lambda m: dict(k=[0]))
    H("sgr_apply", r"svt_apply_selfguided_restoration",
      "void(const uint8_t*,int32_t,int32_t,int32_t,int32_t,const int32_t*,uint8_t*,int32_t,int32_t*,int32_t,int32_t)", "h_sgr", SGR_DOMAIN,
      lambda m: dict(k=[1]))
    H("wiener_lbd", r"svt_av1_wiener_convolve_add_src",
      "void(const uint8_t*const,const ptrdiff_t,uint8_t*const,const ptrdiff_t,const int16_t*const,const int16_t*const,const int32_t,const int32_t,const ConvolveParams*const)",
      "h_wiener", WIENER_DOMAIN, lambda m: dict(k=[0]))
    H("wiener_hbd", r"svt_av1_highbd_wiener_convolve_add_src",
      "void(const uint8_t*const,const ptrdiff_t,uint8_t*const,const ptrdiff_t,const int16_t*const,const int16_t*const,const int32_t,const int32_t,const ConvolveParams*const,const int32_t)",
      "h_wiener", WIENER_DOMAIN, lambda m: dict(k=[1]))
    H("warp_lbd", r"svt_av1_warp_affine",
      "void(const int32_t*,const uint8_t*,int,int,int,uint8_t*,int,int,int,int,int,int,int,ConvolveParams*,int16_t,int16_t,int16_t,int16_t)",
      "h_warp", WARP_DOMAIN, lambda m: dict(k=[0]))
    H("warp_hbd", r"svt_av1_highbd_warp_affine",
      "void(const int32_t*,const uint16_t*,int,int,int,uint16_t*,int,int,int,int,int,int,int,int,ConvolveParams*,int16_t,int16_t,int16_t,int16_t)",
      "h_warp", WARP_DOMAIN, lambda m: dict(k=[1]))
    H("convolve8", r"svt_aom_convolve8_(?P<dir>horiz|vert)", "void(const uint8_t*,ptrdiff_t,uint8_t*,ptrdiff_t,const int16_t*,int,const int16_t*,int,int,int)",
      "h_convolve8",
      "svt_aom_convolve8_horiz/vert as called by svt_aom_upsampled_pred (only caller): kernel = row 2*q3 (q3 in 1..7) of the 256-byte aligned REGULAR "
      "8-tap, 4-tap or bilinear table (same contents as the file-local tables of variance_sse2.c / variance.c), step 16, the other filter NULL with "
      "step -1; w x h from the block-size table (4..128), horiz also with h = height-1+filter_taps (2-D intermediate); src any uint8 with 8 valid "
      "samples around, any offset/stride (vert also the 128-stride temp); dst stride = w (comp_pred) or 128 (temp), any offset. Left out: "
      "step != 16 (scaling), w < 4, SMOOTH/SHARP kernels",
      lambda m: dict(k=[1 if m.group("dir") == "vert" else 0]))
    H("conv_sr_lbd", r"svt_av1_convolve_(?P<kind>2d|x|y|2d_copy)_sr", CONV_LBD, "h_conv", CONV_DOMAIN,
      lambda m: dict(k=[0, CONV_KIND[m.group("kind")], 0], kind=m.group("kind")))
    H("conv_jnt_lbd", r"svt_av1_jnt_convolve_(?P<kind>2d|x|y|2d_copy)", CONV_LBD, "h_conv", CONV_DOMAIN,
      lambda m: dict(k=[0, CONV_KIND[m.group("kind")], 1], kind=m.group("kind")))
    H("conv_sr_hbd", r"svt_av1_highbd_convolve_(?P<kind>2d|x|y|2d_copy)_sr", CONV_HBD, "h_conv", CONV_DOMAIN,
      lambda m: dict(k=[1, CONV_KIND[m.group("kind")], 0], kind=m.group("kind")))
    H("conv_jnt_hbd", r"svt_av1_highbd_jnt_convolve_(?P<kind>2d|x|y|2d_copy)", CONV_HBD, "h_conv", CONV_DOMAIN,
      lambda m: dict(k=[1, CONV_KIND[m.group("kind")], 1], kind=m.group("kind")))
