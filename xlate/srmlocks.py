"""C23: regenerate lean/SvtVerif/Gen/SrmLocks.lean from EbSystemResourceManager.c (clang-14 JSON AST).

For every non-constructor function with external linkage the translator walks EVERY path of the body in
program order (callees defined in the same file are inlined with their arguments bound; `if` forks the path;
a loop is unrolled 0, 1 and 2 times with a `loopHead` marker at every evaluation of its condition) and emits the
ordered event list

    lock m | unlock m | semWait s | semPost s | read p | write p | call f | ret | loopHead id

where `p`, `m`, `s` are access paths: a root (the object a pointer parameter points to, the object an
out-parameter cell points to, or a snapshot of a pointer read from a mutable shared member) followed by the
chain of struct members.  Every load (`LValueToRValue` of a location reachable from a parameter -- including
loads in initialisers of locals, in conditions and in call arguments) is a `read`; every store (`=`, `op=`,
`++`/`--`) a `write`.  Loads / stores of the function's own locals, parameters and out-parameter cells are private
and produce no event.

What is NOT decided here: which mutex protects what, and whether the result is acceptable.  That is
`Model/LockDiscipline.lean` (`guardOf`, `disciplined`, `atomicBlock`) and the theorems `C23.srm_steps_atomic` /
`C23.srm_steps_shape`, which `decide` over the generated table.  `explain()` re-implements the check in Python only to
print a readable diagnosis next to Lean's "decide failed".

The translator REFUSES (cfun.Unsupported) on: any statement / expression kind outside its whitelist, a call to a
function it has no rule for, a struct member it does not know, a conditionally evaluated operand (`&&`, `||`, `?:`)
that does more than read, a function of the file that is in none of its lists, a listed function that is missing.
"""
import os
import sys
sys.path.insert(0, os.path.dirname(os.path.abspath(__file__)))
import cfun
from cfun import Unsupported

SRC = "Source/Lib/Common/Codec/EbSystemResourceManager.c"

# API functions (external linkage, not constructors): C name -> LockDiscipline.Fn constructor
API = [
    ("svt_object_release_enable", "release_enable"),
    ("svt_object_release_disable", "release_disable"),
    ("svt_object_inc_live_count", "inc_live_count"),
    ("svt_system_resource_get_producer_fifo", "get_producer_fifo"),
    ("svt_system_resource_get_consumer_fifo", "get_consumer_fifo"),
    ("svt_shutdown_process", "shutdown_process"),
    ("svt_post_full_object", "post_full_object"),
    ("svt_release_object", "release_object"),
    ("svt_get_empty_object", "get_empty_object"),
    ("svt_get_full_object", "get_full_object"),
    ("svt_get_full_object_non_blocking", "get_full_object_non_blocking"),
]
# static helpers: analysed only inlined into their callers (every one must be reached from some API function)
HELPERS = ["svt_fifo_push_back", "svt_fifo_pop_front", "svt_fifo_shutdown", "svt_fifo_peak_front",
           "svt_circular_buffer_empty_check", "svt_circular_buffer_pop_front", "svt_circular_buffer_push_back",
           "svt_circular_buffer_push_front", "svt_muxing_queue_assignation", "svt_muxing_queue_object_push_back",
           "svt_muxing_queue_object_push_front", "svt_muxing_queue_get_fifo", "svt_release_process"]
# constructors / destructors: run before the object is shared / after the last user is gone -> not analysed.
# (svt_system_resource_ctor calls svt_muxing_queue_object_push_back without the mutex, c470-473: single-threaded construction.)
CONSTRUCTION = ["svt_fifo_dctor", "svt_fifo_ctor", "svt_circular_buffer_dctor", "svt_circular_buffer_ctor",
                "svt_muxing_queue_dctor", "svt_muxing_queue_ctor", "svt_object_wrapper_dctor", "svt_object_wrapper_ctor",
                "svt_system_resource_dctor", "svt_system_resource_ctor"]

SYNC = {"svt_block_on_mutex": "lock", "svt_release_mutex": "unlock",
        "svt_block_on_semaphore": "semWait", "svt_post_semaphore": "semPost"}

STRUCT_TY = {"EbObjectWrapper": "wrapper", "EbFifo": "fifo", "EbMuxingQueue": "queue", "EbCircularBuffer": "ring",
             "EbSystemResource": "resource"}

# struct layout (mirrors LockDiscipline.fieldTy; only used to type roots / refuse unknown members)
FIELD_TY = {
    "wrapper": {"live_count": "other", "release_enable": "other", "next_ptr": "wrapper", "system_resource_ptr": "resource",
                "object_ptr": "other"},
    "resource": {"empty_queue": "queue", "full_queue": "queue", "object_total_count": "other", "wrapper_ptr_pool": "wrappers"},
    "queue": {"lockout_mutex": "mutex", "object_queue": "ring", "process_queue": "ring", "process_total_count": "other",
              "process_fifo_ptr_array": "fifos"},
    "fifo": {"counting_semaphore": "sem", "lockout_mutex": "mutex", "first_ptr": "wrapper", "last_ptr": "wrapper",
             "quit_signal": "other", "queue_ptr": "queue"},
    "ring": {"array_ptr": "slots", "head_index": "other", "tail_index": "other", "buffer_total_count": "other",
             "current_count": "other"},
    "slots": {"elem": "other"}, "fifos": {"elem": "fifo"}, "wrappers": {"elem": "wrapper"},
}
# members whose value never changes after construction: a pointer loaded from one of these may be kept as an alias
# (the path stays exact); a pointer loaded from any other member is a snapshot (fresh root).  Lean re-checks
# (`stablePath`) that every mutex / semaphore is named through immutable members only.
IMMUTABLE = {("wrapper", "system_resource_ptr"), ("wrapper", "object_ptr"),
             ("resource", "empty_queue"), ("resource", "full_queue"), ("resource", "object_total_count"), ("resource", "wrapper_ptr_pool"),
             ("queue", "lockout_mutex"), ("queue", "object_queue"), ("queue", "process_queue"), ("queue", "process_total_count"),
             ("queue", "process_fifo_ptr_array"),
             ("fifo", "counting_semaphore"), ("fifo", "lockout_mutex"), ("fifo", "queue_ptr"),
             ("ring", "array_ptr"), ("ring", "buffer_total_count"), ("fifos", "elem"), ("wrappers", "elem")}


# ----------------------------------------------------------------------------- AST helpers
def annotate_lines(objs):
    """clang's JSON dump prints `file` / `line` only when they differ from the previously printed location; replay that
    state in print order (loc, range.begin, range.end, children) and give every node `_line` / `_file`."""
    last = {"line": 0, "file": ""}

    def loc(d):
        if not isinstance(d, dict):
            return
        for key in ("spellingLoc", "expansionLoc"):
            if key in d:
                loc(d[key])
        if "file" in d:
            last["file"] = d["file"]
        if "line" in d:
            last["line"] = d["line"]

    def walk(n):
        if not isinstance(n, dict):
            return
        loc(n.get("loc"))
        n["_file"] = last["file"]
        r = n.get("range") or {}
        loc(r.get("begin"))
        n["_line"] = last["line"]
        loc(r.get("end"))
        for c in n.get("inner", []):
            walk(c)
    for o in objs:
        walk(o)


def find_assert_cond(n):
    """condition of the `if (x) ; else __assert_fail(...)` inside an expanded assert, or of `x ? (void)0 : __assert_fail(...)`."""
    if not isinstance(n, dict):
        return None
    if n.get("kind") == "IfStmt" and len(n.get("inner", [])) == 3 and "__assert_fail" in repr(n["inner"][2]) \
            and n["inner"][1].get("kind") == "NullStmt":
        return n["inner"][0]
    if n.get("kind") == "ConditionalOperator" and "__assert_fail" in repr(n["inner"][2]) and "__assert_fail" not in repr(n["inner"][0]):
        return n["inner"][0]
    for c in n.get("inner", []):
        r = find_assert_cond(c)
        if r is not None:
            return r
    return None


def pointee_ty(qual):
    """'EbFifo *' -> ('fifo', 1); 'EbObjectWrapper **' -> ('wrapper', 2); other -> (None, depth)."""
    q = qual.replace("const", "").replace("struct", "").replace("volatile", "").strip()
    depth = q.count("*")
    base = q.replace("*", "").strip()
    return STRUCT_TY.get(base), depth


# ----------------------------------------------------------------------------- symbolic values
# value terms:
#   ("path", root, ty, flds)   pointer to / value stored at the object named by root->flds   (root = ("param", i) | ("out", i) | ("snap", n))
#   ("addrvar", cell)          address of a private cell
#   ("outptr", i)              the pointer-to-pointer parameter i itself
#   ("opaque", uid)            scalar / unknown value
# private cells: ("var", frame, declid) | ("outcell", i)
class State:
    __slots__ = ("events", "cells", "snap", "uid", "loopid", "elems", "returned", "retval", "celltype")

    def __init__(self):
        self.events = []      # (kind, payload, line)
        self.cells = {}       # cell -> value term
        self.celltype = {}    # cell -> (struct ty or None, pointer depth)
        self.snap = 0
        self.uid = 0
        self.loopid = 0
        self.elems = {}       # canonical index term -> k
        self.returned = False
        self.retval = None

    def fork(self):
        s = State()
        s.events = list(self.events)
        s.cells = dict(self.cells)
        s.celltype = dict(self.celltype)
        s.snap, s.uid, s.loopid = self.snap, self.uid, self.loopid
        s.elems = dict(self.elems)
        s.returned, s.retval = self.returned, self.retval
        return s

    def fresh(self):
        self.uid += 1
        return ("opaque", self.uid)


def path_ty(ty, flds):
    t = ty
    for f in flds:
        name = "elem" if isinstance(f, tuple) else f
        if t not in FIELD_TY or name not in FIELD_TY[t]:
            return None
        t = FIELD_TY[t][name]
    return t


def path_immutable(ty, flds):
    t = ty
    for f in flds:
        name = "elem" if isinstance(f, tuple) else f
        if (t, name) not in IMMUTABLE:
            return False
        t = FIELD_TY[t][name]
    return True


class Walker:
    def __init__(self, funcs):
        self.funcs = funcs            # name -> FunctionDecl
        self.helper_ids = {}          # helper name -> index (order of first inlining)
        self.frame_counter = 0
        self.pure_depth = 0

    # ---- events
    def emit(self, st, kind, payload, node):
        if self.pure_depth and kind in ("lock", "unlock", "semWait", "semPost", "write"):
            raise Unsupported("line %s: conditionally evaluated operand (&&, ||, ?:) does more than read shared state" % node.get("_line"))
        st.events.append((kind, payload, node.get("_line", 0)))

    # ---- locations
    def lvalue(self, n, st, frame):
        """-> list of (state, location); location = ("cell", cell) | ("shared", root, ty, flds)."""
        k = n.get("kind")
        if k == "ParenExpr":
            return self.lvalue(n["inner"][0], st, frame)
        if k == "DeclRefExpr":
            rd = n["referencedDecl"]
            if rd["kind"] not in ("VarDecl", "ParmVarDecl"):
                raise Unsupported("line %s: lvalue DeclRef to %s" % (n.get("_line"), rd["kind"]))
            cell = ("var", frame, rd["id"])
            if cell not in st.celltype:
                raise Unsupported("line %s: variable %s is not a local or parameter of the function (global state is not modelled)" % (n.get("_line"), rd["name"]))
            return [(st, ("cell", cell))]
        if k == "MemberExpr":
            if not n.get("isArrow"):
                raise Unsupported("line %s: member access with '.' (%s)" % (n.get("_line"), n.get("name")))
            res = []
            for s, v in self.rvalue(n["inner"][0], st, frame):
                if v[0] != "path":
                    raise Unsupported("line %s: '->%s' on a pointer the translator cannot name (%s)" % (n.get("_line"), n["name"], v[0]))
                _, root, ty, flds = v
                t = path_ty(ty, flds)
                if t not in FIELD_TY or n["name"] not in FIELD_TY[t]:
                    raise Unsupported("line %s: unknown member %s of %s" % (n.get("_line"), n["name"], t))
                res.append((s, ("shared", root, ty, flds + (n["name"],))))
            return res
        if k == "ArraySubscriptExpr":
            res = []
            for s, b in self.rvalue(n["inner"][0], st, frame):
                for s2, i in self.rvalue(n["inner"][1], s, frame):
                    if b[0] != "path":
                        raise Unsupported("line %s: subscript of a pointer the translator cannot name" % n.get("_line"))
                    _, root, ty, flds = b
                    t = path_ty(ty, flds)
                    if t not in ("slots", "fifos", "wrappers"):
                        raise Unsupported("line %s: subscript of non-array member (type %s)" % (n.get("_line"), t))
                    key = repr(i)
                    if key not in s2.elems:
                        s2.elems[key] = len(s2.elems)
                    res.append((s2, ("shared", root, ty, flds + (("elem", s2.elems[key]),))))
            return res
        if k == "UnaryOperator" and n.get("opcode") == "*":
            res = []
            for s, v in self.rvalue(n["inner"][0], st, frame):
                if v[0] == "addrvar":
                    res.append((s, ("cell", v[1])))
                elif v[0] == "outptr":
                    res.append((s, ("cell", ("outcell", v[1]))))
                else:
                    raise Unsupported("line %s: '*' applied to %s" % (n.get("_line"), v[0]))
            return res
        raise Unsupported("line %s: lvalue kind %s" % (n.get("_line"), k))

    def load(self, st, loc, node):
        if loc[0] == "cell":
            v = st.cells.get(loc[1])
            if v is None:
                v = st.fresh()     # uninitialised local
            return v
        _, root, ty, flds = loc
        self.emit(st, "read", (root, ty, flds), node)
        return ("path", root, ty, flds)

    def store(self, st, loc, val, node):
        if loc[0] == "cell":
            cell = loc[1]
            sty, depth = st.celltype.get(cell, (None, 0))
            if cell[0] == "outcell":
                # the object an out-parameter cell points to is always named `out i` (whatever was stored there)
                st.cells[cell] = ("path", ("out", cell[1]), sty, ())
            elif sty is not None and depth == 1:
                # pointer-to-struct variable: keep an exact alias only for a path through immutable members
                if val[0] == "path" and path_immutable(val[2], val[3]) and path_ty(val[2], val[3]) == sty:
                    st.cells[cell] = val
                else:
                    st.snap += 1
                    st.cells[cell] = ("path", ("snap", st.snap), sty, ())
            else:
                st.cells[cell] = val if val[0] in ("addrvar", "outptr") else st.fresh()
            return
        _, root, ty, flds = loc
        self.emit(st, "write", (root, ty, flds), node)

    # ---- expressions
    def rvalue(self, n, st, frame):
        """-> list of (state, value term).  May fork (inlined callee with branches)."""
        k = n.get("kind")
        if k in ("ParenExpr", "ConstantExpr"):
            return self.rvalue(n["inner"][0], st, frame)
        if k in ("IntegerLiteral", "CharacterLiteral", "StringLiteral", "UnaryExprOrTypeTraitExpr", "FloatingLiteral"):
            return [(st, ("opaque", 0))]
        if k in ("ImplicitCastExpr", "CStyleCastExpr"):
            ck = n.get("castKind")
            if ck == "LValueToRValue":
                return [(s, self.load(s, loc, n)) for s, loc in self.lvalue(n["inner"][0], st, frame)]
            if ck == "FunctionToPointerDecay":
                raise Unsupported("line %s: function pointer value" % n.get("_line"))
            if ck in ("NullToPointer",):
                return [(st, ("opaque", 0))]
            if ck in ("NoOp", "BitCast", "IntegralCast", "IntegralToBoolean", "PointerToBoolean", "ToVoid", "IntegralToPointer", "PointerToIntegral"):
                return self.rvalue(n["inner"][0], st, frame)
            raise Unsupported("line %s: cast kind %s" % (n.get("_line"), ck))
        if k == "DeclRefExpr":
            rd = n["referencedDecl"]
            if rd["kind"] == "EnumConstantDecl":
                return [(st, ("opaque", 0))]
            raise Unsupported("line %s: DeclRef to %s %s as a value" % (n.get("_line"), rd["kind"], rd["name"]))
        if k == "UnaryOperator":
            op = n["opcode"]
            if op == "&":
                res = []
                for s, loc in self.lvalue(n["inner"][0], st, frame):
                    if loc[0] != "cell":
                        raise Unsupported("line %s: address of shared memory taken" % n.get("_line"))
                    res.append((s, ("addrvar", loc[1])))
                return res
            if op in ("!", "-", "~", "+"):
                return [(s, s.fresh()) for s, _ in self.rvalue(n["inner"][0], st, frame)]
            if op in ("++", "--"):
                res = []
                for s, loc in self.lvalue(n["inner"][0], st, frame):
                    self.load(s, loc, n)
                    self.store(s, loc, s.fresh(), n)
                    res.append((s, s.fresh()))
                return res
            if op == "*":
                return [(s, self.load(s, loc, n)) for s, loc in self.lvalue(n, st, frame)]
            raise Unsupported("line %s: unary %s" % (n.get("_line"), op))
        if k == "BinaryOperator":
            op = n["opcode"]
            a, b = n["inner"]
            if op == "=":
                res = []
                for s, loc in self.lvalue(a, st, frame):
                    for s2, v in self.rvalue(b, s, frame):
                        self.store(s2, loc, v, n)
                        res.append((s2, v))
                return res
            if op in ("&&", "||"):
                res = []
                for s, _ in self.rvalue(a, st, frame):
                    # the right operand is evaluated on some executions only: accept it only if it just reads, and
                    # then over-approximate by "always evaluated" (more reads can only make the discipline harder)
                    self.pure_depth += 1
                    try:
                        for s2, _ in self.rvalue(b, s, frame):
                            res.append((s2, s2.fresh()))
                    finally:
                        self.pure_depth -= 1
                return res
            if op == ",":
                raise Unsupported("line %s: comma operator" % n.get("_line"))
            if op in ("+", "-", "*", "/", "%", "<", "<=", ">", ">=", "==", "!=", "&", "|", "^", "<<", ">>"):
                res = []
                for s, _ in self.rvalue(a, st, frame):
                    for s2, _ in self.rvalue(b, s, frame):
                        res.append((s2, s2.fresh()))
                return res
            raise Unsupported("line %s: binary %s" % (n.get("_line"), op))
        if k == "CompoundAssignOperator":
            a, b = n["inner"]
            res = []
            for s, loc in self.lvalue(a, st, frame):
                for s2, _ in self.rvalue(b, s, frame):
                    self.load(s2, loc, n)
                    self.store(s2, loc, s2.fresh(), n)
                    res.append((s2, s2.fresh()))
            return res
        if k == "ConditionalOperator":
            c, a, b = n["inner"]
            if "__assert_fail" in repr(b) or "__assert_fail" in repr(a):
                # assert(x) -> ((x) ? (void)0 : __assert_fail(...)): only the condition is evaluated on a returning path
                return [(s, s.fresh()) for s, _ in self.rvalue(c, st, frame)]
            res = []
            for s, _ in self.rvalue(c, st, frame):
                self.pure_depth += 1
                try:
                    for s2, va in self.rvalue(a, s, frame):
                        for s3, vb in self.rvalue(b, s2, frame):
                            res.append((s3, s3.fresh()))
                finally:
                    self.pure_depth -= 1
            return res
        if k == "CallExpr":
            return self.call(n, st, frame)
        if k in ("MemberExpr", "ArraySubscriptExpr"):
            raise Unsupported("line %s: %s used as a value without a load" % (n.get("_line"), k))
        raise Unsupported("line %s: expression kind %s" % (n.get("_line"), k))

    def call(self, n, st, frame):
        callee = n["inner"][0]
        while callee.get("kind") in ("ImplicitCastExpr", "ParenExpr"):
            callee = callee["inner"][0]
        name = callee.get("referencedDecl", {}).get("name")
        args = n["inner"][1:]
        # evaluate arguments left to right
        states = [(st, [])]
        for a in args:
            nxt = []
            for s, vs in states:
                for s2, v in self.rvalue(a, s, frame):
                    nxt.append((s2, vs + [v]))
            states = nxt
        if name in SYNC:
            res = []
            for s, vs in states:
                v = vs[0]
                if v[0] != "path":
                    raise Unsupported("line %s: %s on a handle the translator cannot name" % (n.get("_line"), name))
                self.emit(s, SYNC[name], (v[1], v[2], v[3]), n)
                res.append((s, s.fresh()))
            return res
        if name in CONSTRUCTION:
            raise Unsupported("line %s: constructor/destructor %s called from a non-constructor" % (n.get("_line"), name))
        if name in self.funcs:
            fn = self.funcs[name]
            res = []
            for s, vs in states:
                if name not in self.helper_ids:
                    self.helper_ids[name] = len(self.helper_ids)
                self.emit(s, "call", self.helper_ids[name], n)
                for s2 in self.run_function(fn, s, vs):
                    rv = s2.retval if s2.retval is not None else s2.fresh()
                    s2.returned, s2.retval = False, None
                    self.emit(s2, "ret", None, n)
                    res.append((s2, rv))
            return res
        raise Unsupported("line %s: call to %s (no rule)" % (n.get("_line"), name))

    # ---- statements
    def run_function(self, fn, st, argvals):
        """Execute fn's body from state st with parameters bound to argvals; returns the list of final states
        (each with `retval`)."""
        self.frame_counter += 1
        frame = self.frame_counter
        params = [p for p in fn.get("inner", []) if p.get("kind") == "ParmVarDecl"]
        if len(params) != len(argvals):
            raise Unsupported("call of %s with %d arguments for %d parameters" % (fn["name"], len(argvals), len(params)))
        for p, v in zip(params, argvals):
            cell = ("var", frame, p["id"])
            st.celltype[cell] = pointee_ty(p["type"]["qualType"])
            self.store(st, ("cell", cell), v, p)
        body = [c for c in fn["inner"] if c.get("kind") == "CompoundStmt"][0]
        outs = self.stmt(body, [st], frame)
        return outs

    @staticmethod
    def pointer_cells(st):
        return {c: v for c, v in st.cells.items() if st.celltype.get(c, (None, 0))[0] is not None}

    def merge_branches(self, a, b, base_n, base_ptrs):
        """`if (c) A else B` where A and B only read / write (no lock, unlock, semaphore, loop), end the same way
        (both fall through, or both return a scalar) and leave every struct-pointer variable as it was: emit A's events
        followed by B's events on ONE path instead of forking.  Sound for `disciplined` (neither branch changes the held
        set, so every access of either branch is checked under the held set it really runs under) and for `shape` (no
        segment in either branch); it only avoids the 2^n blow-up of paths."""
        if len(a) != 1 or len(b) != 1:
            return None
        x, y = a[0], b[0]
        for st in (x, y):
            if any(k in ("lock", "unlock", "semWait", "semPost", "loopHead") for k, _, _ in st.events[base_n:]):
                return None
            # a struct-pointer variable that existed before the `if` got a new value in a branch: keep the fork
            # (pointer variables declared inside a branch -- frames of inlined callees -- are dead after it)
            if any(c in base_ptrs and base_ptrs[c] != v for c, v in self.pointer_cells(st).items()):
                return None
        if x.returned != y.returned:
            return None
        if x.returned and not ((x.retval is None or x.retval[0] == "opaque") and (y.retval is None or y.retval[0] == "opaque")):
            return None
        x.events = x.events + y.events[base_n:]
        x.snap, x.uid, x.loopid = max(x.snap, y.snap), max(x.uid, y.uid), max(x.loopid, y.loopid)
        for k, v in y.elems.items():
            x.elems.setdefault(k, v)
        for c, v in y.cells.items():
            x.cells.setdefault(c, v)
            x.celltype.setdefault(c, y.celltype.get(c, (None, 0)))
        if x.returned:
            x.retval = x.fresh()
        return x

    def stmt_list(self, lst, states, frame):
        for s in lst:
            states = self.stmt(s, states, frame)
        return states

    def stmt(self, n, states, frame):
        live = [s for s in states if not s.returned]
        done = [s for s in states if s.returned]
        if not live:
            return done
        k = n.get("kind")
        if k == "CompoundStmt":
            return done + self.stmt_list(n.get("inner", []), live, frame)
        if k == "NullStmt":
            return states
        if k == "DeclStmt":
            out = live
            for v in n.get("inner", []):
                if v.get("kind") != "VarDecl":
                    raise Unsupported("line %s: declaration of %s" % (n.get("_line"), v.get("kind")))
                if v.get("storageClass") == "static":
                    raise Unsupported("line %s: static local %s" % (n.get("_line"), v.get("name")))
                cell = ("var", frame, v["id"])
                init = [c for c in v.get("inner", []) if c.get("kind") not in ("FullComment",)]
                nxt = []
                for s in out:
                    s.celltype[cell] = pointee_ty(v["type"]["qualType"])
                    if init:
                        for s2, val in self.rvalue(init[0], s, frame):
                            self.store(s2, ("cell", cell), val, v)
                            nxt.append(s2)
                    else:
                        nxt.append(s)
                out = nxt
            return done + out
        if k == "ReturnStmt":
            out = []
            inner = n.get("inner", [])
            for s in live:
                if inner:
                    for s2, v in self.rvalue(inner[0], s, frame):
                        s2.returned, s2.retval = True, v
                        out.append(s2)
                else:
                    s.returned, s.retval = True, None
                    out.append(s)
            return done + out
        if k == "IfStmt":
            parts = n["inner"]
            cond, th = parts[0], parts[1]
            el = parts[2] if len(parts) > 2 else None
            out = []
            for s in live:
                for s2, _ in self.rvalue(cond, s, frame):
                    base_n = len(s2.events)
                    base_ptrs = self.pointer_cells(s2)
                    s3 = s2.fork()
                    a = self.stmt(th, [s2], frame)
                    if el is None:
                        out += a + [s3]
                        continue
                    if len(a) == 1:
                        # let the else branch number its snapshots / loops / opaque values after the then branch
                        s3.snap, s3.uid, s3.loopid, s3.elems = a[0].snap, a[0].uid, a[0].loopid, dict(a[0].elems)
                    b = self.stmt(el, [s3], frame)
                    m = self.merge_branches(a, b, base_n, base_ptrs)
                    out += [m] if m is not None else a + b
            return done + out
        if k in ("WhileStmt", "ForStmt"):
            if k == "WhileStmt":
                init, cond, inc, body = None, n["inner"][0], None, n["inner"][1]
            else:
                init, _cv, cond, inc, body = n["inner"]
                init = init or None
                cond = cond or None
                inc = inc or None
            cur = live
            if init:
                cur = self.stmt(init, cur, frame)
            exits = []
            for s in cur:
                s.loopid += 1
                lid = s.loopid
                front = [s]
                for it in range(3):
                    nxt = []
                    for t in front:
                        self.emit(t, "loopHead", lid, n)
                        cs = self.rvalue(cond, t, frame) if cond else [(t, None)]
                        for t2, _ in cs:
                            exits.append(t2.fork())           # condition false: leave the loop
                            if it < 2:
                                bs = self.stmt(body, [t2], frame)
                                for b in bs:
                                    if b.returned:
                                        exits.append(b)
                                    elif inc:
                                        nxt += [x for x, _ in self.rvalue(inc, b, frame)]
                                    else:
                                        nxt.append(b)
                    front = nxt
            return done + exits
        if k in ("BreakStmt", "ContinueStmt", "GotoStmt", "SwitchStmt", "DoStmt", "LabelStmt"):
            raise Unsupported("line %s: statement kind %s" % (n.get("_line"), k))
        # expression statement
        if "__assert_fail" in repr(n):
            # glibc assert(x): ((void)sizeof(x ? 1 : 0), __extension__({ if (x) ; else __assert_fail(...); })) -- on a
            # returning path only the condition is evaluated (once: the sizeof operand is unevaluated)
            cond = find_assert_cond(n)
            if cond is None:
                raise Unsupported("line %s: unrecognised assert expansion" % n.get("_line"))
            out = []
            self.pure_depth += 1
            try:
                for s in live:
                    out += [s2 for s2, _ in self.rvalue(cond, s, frame)]
            finally:
                self.pure_depth -= 1
            return done + out
        out = []
        for s in live:
            out += [s2 for s2, _ in self.rvalue(n, s, frame)]
        return done + out


# ----------------------------------------------------------------------------- driver
def analyse():
    objs = cfun.clang_ast(SRC)
    annotate_lines(objs)
    src_abs = os.path.join(cfun.REPO, SRC)
    defined = {}
    for o in objs:
        for c in o.get("inner", []):
            if c.get("kind") == "FunctionDecl" and any(x.get("kind") == "CompoundStmt" for x in c.get("inner", [])):
                if os.path.abspath(c.get("_file", "")) == os.path.abspath(src_abs):
                    defined[c["name"]] = c
    if not defined:
        raise Unsupported("no function definitions found in %s" % SRC)
    known = set(a for a, _ in API) | set(HELPERS) | set(CONSTRUCTION)
    unknown = sorted(set(defined) - known)
    if unknown:
        raise Unsupported("EbSystemResourceManager.c defines function(s) the lock-discipline translator has no classification for: %s "
                          "(add to API / HELPERS / CONSTRUCTION in xlate/srmlocks.py and to LockDiscipline.Fn)" % ", ".join(unknown))
    missing = sorted((set(a for a, _ in API) | set(HELPERS)) - set(defined))
    if missing:
        raise Unsupported("function(s) expected in EbSystemResourceManager.c are gone: %s" % ", ".join(missing))
    w = Walker({k: v for k, v in defined.items() if k in HELPERS or k in dict(API)})
    table = []
    for cname, lname in API:
        fn = defined[cname]
        st = State()
        params = [p for p in fn.get("inner", []) if p.get("kind") == "ParmVarDecl"]
        argvals = []
        for i, p in enumerate(params):
            sty, depth = pointee_ty(p["type"]["qualType"])
            if sty is not None and depth == 1:
                argvals.append(("path", ("param", i), sty, ()))
            elif sty is not None and depth == 2:
                argvals.append(("outptr", i))
                st.celltype[("outcell", i)] = (sty, 1)
                st.cells[("outcell", i)] = ("path", ("out", i), sty, ())
            elif depth == 0:
                argvals.append(("opaque", 0))
            else:
                raise Unsupported("%s: parameter %s of type %s" % (cname, p["name"], p["type"]["qualType"]))
        finals = w.run_function(fn, st, argvals)
        paths = []
        seen = set()
        for s in finals:
            key = repr([(k, p) for k, p, _ in s.events])
            if key not in seen:
                seen.add(key)
                paths.append(s.events)
        table.append({"c": cname, "fn": lname, "paths": paths, "params": [p["name"] for p in params]})
    unreached = sorted(set(HELPERS) - set(w.helper_ids) - set(dict(API)))
    if unreached:
        raise Unsupported("static helper(s) never reached from an API function (not analysed): %s" % ", ".join(unreached))
    helper_names = [None] * len(w.helper_ids)
    for name, i in w.helper_ids.items():
        helper_names[i] = name
    return table, helper_names


# ----------------------------------------------------------------------------- Lean emission
def lean_fld(f):
    return "(.elem %d)" % f[1] if isinstance(f, tuple) else "." + f


def lean_path(p):
    root, ty, flds = p
    return "⟨.%s %d, .%s, [%s]⟩" % (root[0], root[1], ty, ", ".join(lean_fld(f) for f in flds))


def emit_lean(table, helper_names, out_path):
    L = ["/- GENERATED by xlate/srmlocks.py from %s -- do not edit (regenerated on every `bin/check C23`).\n"
         "   Ordered event list of every path through every non-constructor API function of the system resource manager;\n"
         "   static helpers are inlined (`call k` / `ret` mark the boundaries, k indexes `helperNames`).\n"
         "   Loops are unrolled 0, 1 and 2 times (`loopHead id` at each evaluation of the condition).  `-- c<N>` = source line. -/" % SRC,
         "import SvtVerif.Model.LockDiscipline", "", "namespace Gen.SrmLocks", "open LockDiscipline", "",
         "/-- inlined static helpers, indexed by the argument of `Ev.call` -/",
         "def helperNames : List String := [%s]" % ", ".join('"%s"' % h for h in helper_names), "",
         "/-- constructors / destructors of the file: run single-threaded, not analysed -/",
         "def constructionOnly : List String := [%s]" % ", ".join('"%s"' % h for h in CONSTRUCTION), ""]
    names = []
    for ent in table:
        # shared path constants of this function
        consts = {}
        for evs in ent["paths"]:
            for k, p, _ in evs:
                if k in ("lock", "unlock", "semWait", "semPost", "read", "write") and p not in consts:
                    consts[p] = "%s_p%d" % (ent["fn"], len(consts))
        L.append("/-! ### %s(%s) -/" % (ent["c"], ", ".join(ent["params"])))
        for p, nm in consts.items():
            L.append("def %s : Path := %s" % (nm, lean_path(p)))
        pnames = []
        for j, evs in enumerate(ent["paths"]):
            nm = "%s_path%d" % (ent["fn"], j)
            pnames.append(nm)
            L.append("def %s : List Ev := [" % nm)
            rows = []
            for k, p, line in evs:
                if k in ("lock", "unlock", "semWait", "semPost", "read", "write"):
                    rows.append("  .%s %s" % (k, consts[p]))
                elif k == "call":
                    rows.append("  .call %d" % p)
                elif k == "ret":
                    rows.append("  .ret")
                elif k == "loopHead":
                    rows.append("  .loopHead %d" % p)
                else:
                    raise Unsupported("internal: event kind %s" % k)
                rows[-1] += ("," if len(rows) < len(evs) else "") + "  -- c%d" % line
            L += rows
            L.append("  ]")
        L.append("def %s : FnEntry := ⟨.%s, [%s]⟩" % (ent["fn"], ent["fn"], ", ".join(pnames)))
        L.append("")
        names.append(ent["fn"])
    L.append("/-- the table: one entry per API function -/")
    L.append("def functions : List FnEntry := [%s]" % ", ".join(names))
    L.append("")
    L.append("end Gen.SrmLocks")
    txt = "\n".join(L) + "\n"
    if out_path:
        old = open(out_path).read() if os.path.exists(out_path) else None
        if old != txt:
            with open(out_path, "w") as fh:
                fh.write(txt)
    return txt


# ----------------------------------------------------------------------------- Python mirror of the Lean check (diagnosis only)
def guard_of(p):
    root, ty, flds = p
    if not flds:
        return ("unknown",)
    pre, f = flds[:-1], flds[-1]
    owner = path_ty(ty, pre)
    fname = "elem" if isinstance(f, tuple) else f
    if owner not in FIELD_TY or fname not in FIELD_TY[owner]:
        return ("unknown",)
    if (owner, fname) in IMMUTABLE:
        return ("immutable",)
    if owner == "wrapper" and fname in ("live_count", "release_enable"):
        return ("mutex", (root, ty, pre + ("system_resource_ptr", "empty_queue", "lockout_mutex")))
    if owner == "wrapper" and fname == "next_ptr":
        if pre and pre[-1] in ("first_ptr", "last_ptr") and path_ty(ty, pre[:-1]) == "fifo":
            return ("mutex", (root, ty, pre[:-1] + ("lockout_mutex",)))
        return ("unknown",)
    if owner == "fifo":
        return ("mutex", (root, ty, pre + ("lockout_mutex",)))
    if owner == "ring":
        if pre and pre[-1] in ("object_queue", "process_queue") and path_ty(ty, pre[:-1]) == "queue":
            return ("mutex", (root, ty, pre[:-1] + ("lockout_mutex",)))
        return ("unknown",)
    if owner == "slots":
        if len(pre) >= 2 and pre[-1] == "array_ptr" and pre[-2] in ("object_queue", "process_queue") and path_ty(ty, pre[:-2]) == "queue":
            return ("mutex", (root, ty, pre[:-2] + ("lockout_mutex",)))
        return ("unknown",)
    return ("unknown",)


ALLOWED = {("get_empty_object", "write", (("out", 1), "wrapper", ("live_count",))),
           ("get_empty_object", "write", (("out", 1), "wrapper", ("release_enable",)))}


def show_path(p, params):
    root, ty, flds = p
    if root[0] == "param":
        base = params[root[1]] if root[1] < len(params) else "param%d" % root[1]
    elif root[0] == "out":
        base = "(*%s)" % (params[root[1]] if root[1] < len(params) else "param%d" % root[1])
    else:
        base = "<%s snapshot #%d>" % (ty, root[1])
    s = base
    for f in flds:
        s += "[..]" if isinstance(f, tuple) else "->" + f
    return s


def explain(table):
    """First discipline problem of every path (Python mirror of LockDiscipline.disciplinedPath); [] = clean."""
    problems = []
    for ent in table:
        for j, evs in enumerate(ent["paths"]):
            held = []
            loops = {}
            bad = None
            for k, p, line in evs:
                if k == "lock":
                    if p in held:
                        bad = "line %d: mutex %s taken twice" % (line, show_path(p, ent["params"]))
                    held.append(p)
                elif k == "unlock":
                    if not held or held[-1] != p:
                        bad = "line %d: unlock of %s which is not the innermost held mutex" % (line, show_path(p, ent["params"]))
                    else:
                        held.pop()
                elif k == "semWait" and held:
                    bad = "line %d: semaphore wait while holding %s" % (line, show_path(held[-1], ent["params"]))
                elif k in ("read", "write"):
                    g = guard_of(p)
                    if g[0] == "immutable" and k == "write":
                        bad = "line %d: write of %s, a member that is immutable after construction" % (line, show_path(p, ent["params"]))
                    elif g[0] == "unknown":
                        bad = "line %d: %s of %s: the protection map has no rule for a member reached this way" % (line, k, show_path(p, ent["params"]))
                    elif g[0] == "mutex" and g[1] not in held and (ent["fn"], k, p) not in ALLOWED:
                        bad = "line %d: %s of %s without holding %s (held: %s)" % (
                            line, k, show_path(p, ent["params"]), show_path(g[1], ent["params"]),
                            ", ".join(show_path(h, ent["params"]) for h in held) or "nothing")
                elif k == "loopHead":
                    if p in loops and loops[p] != list(held):
                        bad = "line %d: loop body changes the set of held mutexes" % line
                    loops.setdefault(p, list(held))
                if bad:
                    break
            if not bad and held:
                bad = "function returns holding %s" % ", ".join(show_path(h, ent["params"]) for h in held)
            if bad:
                problems.append("%s (path %d of %d): %s" % (ent["c"], j, len(ent["paths"]), bad))
    return problems


def stats(table):
    ev = sum(len(e) for ent in table for e in ent["paths"])
    acc = sum(1 for ent in table for e in ent["paths"] for k, p, _ in e if k in ("read", "write"))
    prot = sum(1 for ent in table for e in ent["paths"] for k, p, _ in e if k in ("read", "write") and guard_of(p)[0] == "mutex")
    sync = sum(1 for ent in table for e in ent["paths"] for k, p, _ in e if k in ("lock", "unlock", "semWait", "semPost"))
    return {"functions": len(table), "paths": sum(len(ent["paths"]) for ent in table), "events": ev, "accesses": acc,
            "protected_accesses": prot, "sync_events": sync,
            "paths_per_function": {ent["c"]: len(ent["paths"]) for ent in table}}


def main(out_path=None):
    table, helpers = analyse()
    emit_lean(table, helpers, out_path)
    return table, helpers


if __name__ == "__main__":
    out = sys.argv[1] if len(sys.argv) > 1 else None
    t, h = main(out)
    import json
    print(json.dumps(stats(t), indent=1))
    for p in explain(t):
        print("PROBLEM:", p)
