"""C07: generator of the differential kernel harness.

generate(out_dir) parses the prototype of every run-time dispatch pointer (common_dsp_rtcd.h / aom_dsp_rtcd.h after
`gcc -E -P`, the same preprocessing as xlate/rtcd.py uses for the tables), matches each table entry against the
handler list below (pointer-name pattern + exact normalised prototype), and writes out_dir/kernels_gen.c:

  * one thunk per driven entry, `th_<ptr>(int variant, Args *a)`, whose `switch` calls the C reference and every
    registered SIMD function DIRECTLY BY NAME (never through the dispatch pointer).  The argument list is derived
    mechanically from the prototype: pointer parameters in order of appearance come from a->p[0..], all other
    (scalar) parameters from a->i[0..]; the return value goes to a->ret (a->dret for double).
  * the table `k_entries` with all 781 entries (driven: handler + thunk + variant names/flag bits + size; not driven: reason).

The shape handlers themselves (input generation = the valid domain, buffers, comparison) are hand-written C in
harness/kernels_shapes.h; harness/kernels.c is the runtime.

Loud failure (KernelProtoError) when: a pointer has no prototype, a parameter type is unknown, a name pattern
matches but the prototype is not the one the handler was written for, an entry is matched by two handlers.
An entry without handler goes to `not_driven` with a reason; driven + not_driven == all entries.
"""
import os
import re
import sys

sys.path.insert(0, os.path.dirname(os.path.abspath(__file__)))
import rtcd  # noqa: E402

from kernel_handlers import HANDLERS  # noqa: E402


class KernelProtoError(Exception):
    pass


HDRS = ["Source/Lib/Common/Codec/common_dsp_rtcd.h", "Source/Lib/Encoder/Codec/aom_dsp_rtcd.h"]
HARNESS = os.path.join(os.path.dirname(os.path.dirname(os.path.abspath(__file__))), "harness")

# parameter types that are passed by value (everything else must contain '*' or '[')
SCALARS = {"int", "unsigned int", "int8_t", "uint8_t", "int16_t", "uint16_t", "int32_t", "uint32_t", "int64_t", "uint64_t",
           "ptrdiff_t", "intptr_t", "size_t", "TxType", "TxSize", "TxClass", "BlockSize", "DIFFWTD_MASK_TYPE", "AomBitDepth"}
POINTER_TYPEDEFS = {"EbByte"}


def split_params(args):
    out, depth, cur = [], 0, ""
    for ch in args:
        if ch in "([":
            depth += 1
        elif ch in ")]":
            depth -= 1
        if ch == "," and depth == 0:
            out.append(cur.strip())
            cur = ""
        else:
            cur += ch
    if cur.strip():
        out.append(cur.strip())
    return out


def param_type(p, ptr):
    """-> (is_pointer, normalised type text without the parameter name)"""
    p = re.sub(r"\s+", " ", p.strip())
    if "(" in p:  # e.g. uint64_t (**mse)[64]
        if "*" not in p:
            raise KernelProtoError("%s: parameter %r not understood" % (ptr, p))
        return True, re.sub(r"\b\w+\s*\)", ")", p, count=1).replace(" ", "")
    arr = ""
    m = re.search(r"(\[.*\])$", p)
    if m:
        arr = m.group(1)
        p = p[:m.start()].strip()
    toks = p.split(" ")
    # drop the parameter name: last identifier, unless the declaration is a bare type
    words = [t for t in re.split(r"(\*)", p.replace(" ", " ")) if t]
    m = re.match(r"^(.*?)(\b[A-Za-z_]\w*)$", p)
    base = p
    if m and m.group(1).strip() and m.group(1).strip() not in ("const", "unsigned", "struct", "const unsigned", "const struct"):
        base = m.group(1).strip()
    t = re.sub(r"\s*\*\s*", "*", base)
    t = re.sub(r"\s+", " ", t).strip()
    is_ptr = ("*" in t) or bool(arr)
    core = re.sub(r"\bconst\b", "", t).replace("*", "").strip()
    core = re.sub(r"\s+", " ", core)
    if not is_ptr:
        if core in POINTER_TYPEDEFS:
            is_ptr = True
        elif core not in SCALARS:
            raise KernelProtoError("%s: unknown by-value parameter type %r in %r" % (ptr, core, p))
    return is_ptr, t + arr


def parse_protos():
    txt = "\n".join(rtcd.preprocess(h, False) for h in HDRS)
    protos = {}
    for m in re.finditer(r"extern\s+([^;()]*?)\(\s*\*\s*(\w+)\s*\)\s*\(([^;]*?)\)\s*;", txt, re.S):
        ret = re.sub(r"\s+", " ", m.group(1).strip())
        name = m.group(2)
        args = re.sub(r"\s+", " ", m.group(3).strip())
        if name in protos and analyse(name, *protos[name])[1] != analyse(name, ret, args)[1]:
            raise KernelProtoError("pointer %s declared twice with different prototypes: %r / %r" % (name, protos[name], (ret, args)))
        protos[name] = (ret, args)
    return protos, txt


def analyse(ptr, ret, args):
    params = []
    for p in split_params(args):
        if p == "void":
            continue
        params.append(param_type(p, ptr))
    sig = "%s(%s)" % (ret, ",".join(t for _, t in params))
    return params, sig


def thunk(ptr, ret, params, fns):
    np_, ni = 0, 0
    argl = []
    for is_ptr, _ in params:
        if is_ptr:
            argl.append("a->p[%d]" % np_)
            np_ += 1
        else:
            argl.append("a->i[%d]" % ni)
            ni += 1
    if np_ > 24 or ni > 24:
        raise KernelProtoError("%s: too many parameters" % ptr)
    call = "%s(" + ", ".join(argl) + ")"
    if ret == "void":
        pre = ""
    elif ret == "double":
        pre = "a->dret = "
    elif ret in SCALARS:
        pre = "a->ret = (int64_t)"
    else:
        raise KernelProtoError("%s: unknown return type %r" % (ptr, ret))
    lines = ["static void th_%s(int v, Args *a) {" % ptr, "    switch (v) {"]
    for i, fn in enumerate(fns):
        lines.append("    case %d: %s%s; break;" % (i, pre, call % fn))
    lines += ["    default: abort();", "    }", "}"]
    return "\n".join(lines)


def cstr(s):
    return "NULL" if s is None else '"%s"' % s.replace("\\", "\\\\").replace('"', '\\"')


def generate(out_dir):
    d = rtcd.parse_all(False)
    entries = d["common"] + d["enc"]
    protos, hdr_txt = parse_protos()
    compiled = []
    for h in HANDLERS:
        compiled.append((re.compile(h["pattern"] + r"\Z"), h))
    driven, not_driven, variants, by_handler = [], [], {}, {}
    thunks, rows, decls = [], [], []
    seen = set()
    for e in entries:
        ptr = e["ptr"]
        if ptr in seen:
            raise KernelProtoError("pointer %s appears twice" % ptr)
        seen.add(ptr)
        if ptr not in protos:
            raise KernelProtoError("dispatch pointer %s has no `extern ret (*ptr)(args);` prototype in %s" % (ptr, HDRS))
        ret, args = protos[ptr]
        params, sig = analyse(ptr, ret, args)
        fns = ([e["c"]] if e["c"] else []) + [fn for _, fn in e["slots"]]
        variants[ptr] = list(fns)
        reason = None
        if e["c"] is None:
            reason = "no C reference registered"
        elif not e["slots"]:
            reason = "no SIMD variant registered in this build"
        elif len(fns) > 6:
            raise KernelProtoError("%s: more than 6 variants" % ptr)
        hit = None
        if reason is None:
            hits = [(rx.match(ptr), h) for rx, h in compiled]
            hits = [(m, h) for m, h in hits if m]
            if hits:
                # several handlers may share a name pattern; the prototype selects exactly one of them
                good = [(m, h) for m, h in hits if sig in h["sigs"]]
                if len(good) > 1:
                    raise KernelProtoError("%s matched by handlers %s" % (ptr, [h["name"] for _, h in good]))
                if not good:
                    raise KernelProtoError("%s: handler(s) %s written for %s but the prototype is %s" % (
                        ptr, [h["name"] for _, h in hits], [sorted(h["sigs"]) for _, h in hits], sig))
                hit = good[0]
            else:
                reason = "no handler"
        if hit is None:
            not_driven.append((ptr, reason))
            rows.append('    { %s, NULL, NULL, NULL, 0, {0}, {0}, 0, 0, {0,0,0,0}, NULL, %s },' % (cstr(ptr), cstr(reason)))
            continue
        m, h = hit
        par = h["params"](m) if h.get("params") else {}
        for fn in fns:
            if not re.search(r"\b%s\s*\(" % re.escape(fn), hdr_txt):
                decls.append("%s %s(%s);" % (ret, fn, args))
        thunks.append(thunk(ptr, ret, params, fns))
        k = list(par.get("k", [])) + [0, 0, 0, 0]
        bits = [-1] + [b for b, _ in e["slots"]]
        rows.append('    { %s, %s, %s, th_%s, %d, {%s}, {%s}, %d, %d, {%d,%d,%d,%d}, %s, NULL },' % (
            cstr(ptr), cstr(h["name"]), h["cfunc"], ptr, len(fns), ", ".join(cstr(f) for f in fns),
            ", ".join(str(b) for b in bits), par.get("w", 0), par.get("h", 0), k[0], k[1], k[2], k[3], cstr(par.get("kind"))))
        driven.append(ptr)
        by_handler.setdefault(h["name"], []).append(ptr)
    if len(driven) + len(not_driven) != len(entries):
        raise KernelProtoError("entry accounting broken")
    out = ["/* GENERATED by xlate/kernel_protos.py -- do not edit. */",
           "#ifndef ARCH_X86_64", "#define ARCH_X86_64 1", "#endif",
           "#ifndef EN_AVX512_SUPPORT", "#define EN_AVX512_SUPPORT 0", "#endif",
           # absolute paths: the generated file lives outside harness/ and must compile without an extra -I
           '#include "%s/kernels_includes.h"' % HARNESS,
           '#include "common_dsp_rtcd.h"', '#include "aom_dsp_rtcd.h"', '#include "%s/kernels.h"' % HARNESS,
           '#include "%s/kernels_shapes.h"' % HARNESS, ""]
    if decls:
        out.append("/* variants not declared by the rtcd headers: declared here with the pointer's prototype */")
        out += sorted(set(decls))
        out.append("")
    out += thunks
    out.append("")
    out.append("/* the C references and the SIMD functions may call other kernels through the dispatch pointers:\n"
               " * all pointers are set to the C functions while a C reference runs, and as the encoder would set them for this CPU\n"
               " * while a SIMD variant runs (see kc_exec2 in kernels.c) */")
    out.append("void k_dispatch(int simd) {\n    CPU_FLAGS f = simd ? get_cpu_flags_to_use() : 0;\n"
               "    setup_common_rtcd_internal(f);\n    setup_rtcd_internal(f);\n}")
    out.append("")
    out.append("const Entry k_entries[] = {")
    out += rows
    out.append("};")
    out.append("const int k_nentries = %d;" % len(entries))
    os.makedirs(out_dir, exist_ok=True)
    path = os.path.join(out_dir, "kernels_gen.c")
    txt = "\n".join(out) + "\n"
    if not os.path.exists(path) or open(path).read() != txt:
        open(path, "w").write(txt)
    return {"driven": driven, "not_driven": not_driven, "variants": variants,
            "domains": {h["name"]: h["domain"] for h in HANDLERS},
            "by_handler": by_handler, "entries": len(entries), "path": path,
            "unused_handlers": [h["name"] for h in HANDLERS if h["name"] not in by_handler]}


def all_sigs():
    d = rtcd.parse_all(False)
    protos, _ = parse_protos()
    return [(e["ptr"], analyse(e["ptr"], *protos[e["ptr"]])[1], [f for _, f in e["slots"]]) for e in d["common"] + d["enc"]]


if __name__ == "__main__":
    if len(sys.argv) > 1 and sys.argv[1] == "--sigs":
        for ptr, sig, fns in all_sigs():
            print(ptr, "|", sig, "|", " ".join(fns))
        sys.exit(0)
    r = generate(sys.argv[1] if len(sys.argv) > 1 else ".")
    print("entries %d driven %d not_driven %d simd_variants_driven %d" % (
        r["entries"], len(r["driven"]), len(r["not_driven"]), sum(len(r["variants"][p]) - 1 for p in r["driven"])))
    for h, ps in sorted(r["by_handler"].items()):
        print("  handler %-28s %3d entries" % (h, len(ps)))
    reasons = {}
    for p, why in r["not_driven"]:
        reasons.setdefault(why, []).append(p)
    for why, ps in sorted(reasons.items()):
        print("  not driven (%s): %d: %s" % (why, len(ps), " ".join(ps)))
    if r["unused_handlers"]:
        print("  handlers matching nothing:", r["unused_handlers"])
