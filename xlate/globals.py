"""Inventory of run-time writable objects with static storage duration in the encoder / decoder libraries (property C17).

Two exact inputs, one approximate:
  * WHAT exists  : every OBJECT symbol of every object file that goes into libSvtAv1Enc.a / libSvtAv1Dec.a and lives in a section
                   with SHF_WRITE|SHF_ALLOC (`.data*`, `.bss*`, `.tbss/.tdata`, COMMON), except `.data.rel.ro*` (const objects that only need
                   load-time relocation).  Source: `readelf -S -s` on the objects listed in build.ninja of `C.ensure_lib("rel")` — exactly what
                   the linker sees, including function-local statics (`name.N`).
  * WHO writes it: each translation unit is compiled by clang-14 to LLVM IR (-O0) with the flags of build.ninja; a flow-insensitive
                   pointer-taint pass per function records stores / memory intrinsics / libc writers through addresses derived from a global
                   (`writers`), through a pointer LOADED from a global (`derefWriters`: the heap object the global owns), and places where the
                   address leaves the analysis (`escapes`: indirect calls, unknown externals, stored as a value).  Addresses passed to / returned
                   from functions defined in the library are followed through per-function summaries (context-insensitive fixpoint over all TUs).
  * approximate  : writes through an escaped address are not followed further; NASM objects are listed but not analysed.

Per-TU summaries are cached under .cache/globals/ keyed by the content of the source file, of every file it included (clang -MD) and the flags,
so a run on an unchanged tree only re-reads the cache; any edited file is re-analysed.
Output: lean/SvtVerif/Gen/Globals.lean (regenerated on every run) and a python dict (for checks/c17.py).
"""
import hashlib
import json
import os
import re
import subprocess
import sys
from concurrent.futures import ProcessPoolExecutor, ThreadPoolExecutor

HERE = os.path.dirname(os.path.abspath(__file__))
VERIF = os.path.dirname(HERE)
REPO = os.environ.get("VERIF_REPO", "/repo")
VERSION = "3"
JOBS = 4

# libc / intrinsic callees: index of the pointer arguments they WRITE through (others are read-only / irrelevant)
KNOWN_WRITES = {"memcpy": [0], "memmove": [0], "memset": [0], "strcpy": [0], "strncpy": [0], "strcat": [0], "fread": [0], "fgets": [0],
                "qsort": [0], "free": [0], "realloc": [0], "sprintf": [0], "snprintf": [0], "vsnprintf": [0], "vsprintf": [0],
                "pthread_mutex_init": [0], "pthread_mutex_lock": [0], "pthread_mutex_unlock": [0], "pthread_mutex_destroy": [0],
                "pthread_once": [0], "sem_init": [0], "sem_post": [0], "sem_wait": [0], "sched_getaffinity": [2], "pthread_getaffinity_np": [2],
                "__isoc99_sscanf": [], "__isoc99_fscanf": [], "strcpy_s": [0], "strncpy_s": [0], "__memcpy_chk": [0], "__memset_chk": [0]}
KNOWN_READONLY = {"printf", "fprintf", "puts", "fputs", "fwrite", "strlen", "strcmp", "strncmp", "memcmp", "fopen", "fclose", "fflush",
                  "atoi", "strtol", "strtoul", "strtoull", "getenv", "pthread_setaffinity_np", "sched_setaffinity", "vfprintf", "abs",
                  "strnlen_s", "strnlen", "log", "exp", "pow", "sqrt", "floor", "ceil", "round", "usleep", "nanosleep", "sched_yield",
                  "pthread_self", "pthread_create", "pthread_join", "clock_gettime", "gettimeofday", "sysconf", "fputc", "putchar", "perror",
                  "__assert_fail", "abort", "exit", "sem_destroy", "sem_timedwait", "sem_trywait", "sem_getvalue", "fileno", "isatty",
                  "pthread_setschedparam", "pthread_attr_init", "pthread_attr_setschedparam", "pthread_attr_setschedpolicy",
                  "pthread_attr_setinheritsched", "pthread_attr_destroy", "geteuid", "pthread_cond_init", "pthread_cond_wait",
                  "pthread_cond_signal", "pthread_cond_broadcast", "pthread_cond_destroy", "pthread_cond_timedwait"}


def sh(cmd, **kw):
    p = subprocess.run(cmd, stdout=subprocess.PIPE, stderr=subprocess.PIPE, **kw)
    return p.returncode, p.stdout.decode("utf-8", "replace"), p.stderr.decode("utf-8", "replace")


# ----------------------------------------------------------------------------------------------- build.ninja
def parse_ninja(bd):
    """-> (objects: {objpath: dict(src, defines, flags, includes, kind)}, libs: {'enc': [objpath], 'dec': [objpath]})"""
    txt = open(os.path.join(bd, "build.ninja")).read()
    objs, libs = {}, {}
    blocks = re.split(r"\n(?=build )", txt)
    for b in blocks:
        m = re.match(r"build (\S+\.o): (\S+) (\S+)", b)
        if m:
            o, rule, src = m.groups()
            d = {"src": src, "kind": "asm" if "ASM_NASM" in rule else "c", "defines": "", "flags": "", "includes": ""}
            for key in ("DEFINES", "FLAGS", "INCLUDES"):
                mm = re.search(r"^\s+%s = (.*)$" % key, b, re.M)
                if mm:
                    d[key.lower()] = mm.group(1).strip()
            objs[o] = d
            continue
        m = re.match(r"build out/libSvtAv1(Enc|Dec)\.a: \S+ (.*?)(?: \|\| .*)?\n", b)
        if m:
            libs[m.group(1).lower()] = [x for x in m.group(2).split() if x.endswith(".o")]
    return objs, libs


def short_src(src):
    for pre in (os.path.join(REPO, ""), "/repo/"):
        if src.startswith(pre):
            src = src[len(pre):]
    src = re.sub(r"^.*?/(Source|third_party)/", r"\1/", src) if not src.startswith(("Source/", "third_party/")) else src
    return src


# ----------------------------------------------------------------------------------------------- symbols
def writable_symbols_all(bd, objlist):
    """{obj: [(name, size, section, bind)]}: OBJECT/TLS/COMMON symbols that live in a writable, allocated, non-relro section.
    One readelf process for all objects (the machine may be heavily loaded: process creation is the expensive part)."""
    res = {}
    for k in range(0, len(objlist), 128):
        chunk = objlist[k:k + 128]
        rc, out, err = sh(["readelf", "-W", "-S", "-s"] + [os.path.join(bd, o) for o in chunk])
        if rc != 0:
            raise RuntimeError("readelf failed: %s" % err[-300:])
        if len(chunk) == 1:
            parts = [(chunk[0], out)]
        else:
            pieces = re.split(r"^File: (.*)$", out, flags=re.M)
            parts = []
            for j in range(1, len(pieces), 2):
                f = pieces[j].strip()
                rel = os.path.relpath(f, bd)
                parts.append((rel, pieces[j + 1]))
        for o, txt in parts:
            res[o] = _parse_readelf(o, txt)
    missing = [o for o in objlist if o not in res]
    if missing:
        raise RuntimeError("readelf printed nothing for %s" % missing[:3])
    return res


def _parse_readelf(obj, out):
    secs = {}
    for m in re.finditer(r"^\s*\[\s*(\d+)\]\s+(\S*)\s+(\S+)\s+[0-9a-f]+\s+[0-9a-f]+\s+[0-9a-f]+\s+[0-9a-f]+\s+([A-Za-z]*)\s", out, re.M):
        secs[m.group(1)] = (m.group(2), m.group(3), m.group(4))
    res = []
    for m in re.finditer(r"^\s*\d+:\s+[0-9a-f]+\s+(\d+|0x[0-9a-f]+)\s+(OBJECT|TLS|COMMON|NOTYPE)\s+(\S+)\s+\S+\s+(\S+)\s+(\S+)\s*$", out, re.M):
        size, typ, bind, ndx, name = m.groups()
        size = int(size, 0)
        if ndx == "COM":
            res.append((name, size, "COMMON", bind))
            continue
        if ndx not in secs or typ == "NOTYPE":
            if typ == "NOTYPE" and ndx in secs and "W" in secs[ndx][2] and "A" in secs[ndx][2] and size == 0 and obj.endswith(".asm.o") \
                    and not secs[ndx][0].startswith(".data.rel.ro") and bind != "SECTION" and name:
                res.append((name, 0, secs[ndx][0], bind))      # NASM data label
            continue
        sname, stype, flags = secs[ndx]
        if "W" in flags and "A" in flags and not sname.startswith(".data.rel.ro"):
            res.append((name, size, sname, bind))
    return res


def writable_symbols(bd, obj):
    return writable_symbols_all(bd, [obj])[obj]


# ----------------------------------------------------------------------------------------------- LLVM IR taint pass
TOK = re.compile(r'[%@](?:[-\w.$]+|"[^"]+")')
HEAD = re.compile(r"^define\b.*?@([-\w.$]+|\"[^\"]+\")\s*\((.*)\)[^()]*\{\s*$")
ASSIGN = re.compile(r"^\s+(%[-\w.$]+) = (\w+)\b(.*)$")
PLAIN = re.compile(r"^\s+(\w+)\b(.*)$")
GDEF = re.compile(r"^@([-\w.$]+|\"[^\"]+\") = (.*)$")


def split_top(s):
    out, depth, cur = [], 0, []
    for ch in s:
        if ch in "([{":
            depth += 1
        elif ch in ")]}":
            depth -= 1
        if ch == "," and depth == 0:
            out.append("".join(cur))
            cur = []
        else:
            cur.append(ch)
    if cur:
        out.append("".join(cur))
    return out


def find_call(rest):
    """rest = text after 'call'/'invoke'.  -> (callee or None, args list, returns_pointer)"""
    # the callee is the token directly followed by '(' at parenthesis depth 0 that is not inside a type
    depth = 0
    i, n = 0, len(rest)
    while i < n:
        ch = rest[i]
        if ch in "([":
            # is there a callee token right before?
            m = re.search(r'([%@](?:[-\w.$]+|"[^"]+"))$', rest[:i])
            if ch == "(" and m and depth == 0:
                # find matching paren
                d, j = 0, i
                while j < n:
                    if rest[j] == "(":
                        d += 1
                    elif rest[j] == ")":
                        d -= 1
                        if d == 0:
                            break
                    j += 1
                pre = rest[:m.start()].strip()
                return m.group(1), split_top(rest[i + 1:j]), pre.endswith("*")
            depth += 1
        elif ch in ")]":
            depth -= 1
        i += 1
    return None, [], False


def analyse_ir(text):
    """-> dict(globals={name: linkage}, funcs={fname: {nparams, events:[...]}})
    event = [kind, src, extra...]; src = ['g',name] | ['d',name] | ['p',k] | ['r',callee]"""
    gl = {}
    funcs = {}
    lines = text.split("\n")
    i, n = 0, len(lines)
    while i < n:
        ln = lines[i]
        if ln.startswith("@"):
            m = GDEF.match(ln)
            if m:
                rest = m.group(2)
                name = m.group(1).strip('"')
                if " global " in " " + rest or rest.startswith("global ") or " constant " in " " + rest or "common " in rest:
                    link = "internal" if re.match(r"(internal|private)\b", rest) else ("external" if rest.startswith("external") else "global")
                    gl[name] = {"linkage": link, "const": bool(re.search(r"\bconstant\b", rest.split("{")[0].split("[")[0] + " " + " ".join(rest.split()[:6])))}
            i += 1
            continue
        if not ln.startswith("define"):
            i += 1
            continue
        m = HEAD.match(ln)
        if not m:
            i += 1
            continue
        fname = m.group(1).strip('"')
        params = [p.strip() for p in split_top(m.group(2))] if m.group(2).strip() else []
        body = []
        i += 1
        while i < n and lines[i] != "}":
            body.append(lines[i])
            i += 1
        funcs[fname] = analyse_fn(fname, params, body)
    return {"globals": gl, "funcs": funcs}


def analyse_fn(fname, params, body):
    taint = {}        # %v -> frozenset of src tuples
    slots = {}        # alloca name -> set of src   (what the local variable may hold)
    alias = {}        # %v -> alloca slot it points into
    for k, p in enumerate(params):
        toks = TOK.findall(p)
        if toks and toks[-1].startswith("%") and "*" in p:
            taint[toks[-1]] = frozenset([("p", k)])
    events = set()

    def tk(tok):
        if tok[0] == "@":
            return frozenset([("g", tok[1:].strip('"'))])
        return taint.get(tok, frozenset())

    def taint_of(s):
        r = frozenset()
        for t in TOK.findall(s):
            x = tk(t)
            if x:
                r = r | x
        return r

    def slot_of(s):
        for t in TOK.findall(s):
            if t in alias:
                return alias[t]
        return None

    parsed = []
    for ln in body:
        m = ASSIGN.match(ln)
        if m:
            parsed.append((m.group(1), m.group(2), m.group(3)))
            continue
        m = PLAIN.match(ln)
        if m:
            parsed.append((None, m.group(1), m.group(2)))
    for _pass in range(4):
        changed = False
        for dst, op, rest in parsed:
            if op == "alloca":
                if dst not in alias:
                    alias[dst] = dst
                    slots.setdefault(dst, set())
                continue
            if op in ("call", "invoke", "tail", "musttail", "notail"):
                if op in ("tail", "musttail", "notail"):
                    rest = re.sub(r"^\s*call\b", "", rest)
                callee, args, retptr = find_call(rest)
                if callee is None:
                    continue
                cname = callee[1:].strip('"') if callee[0] == "@" else None
                if cname and (cname.startswith("llvm.dbg") or cname.startswith("llvm.lifetime")):
                    continue
                for j, a in enumerate(args):
                    ta = taint_of(a)
                    sl = slot_of(a)
                    if sl is not None and cname and not cname.startswith("llvm."):
                        pass      # address of a local passed on: contents unknown afterwards, ignored
                    if not ta:
                        continue
                    for s in ta:
                        if cname is None:
                            events.add(("iarg", s, j))
                        elif cname.startswith("llvm.mem"):
                            if j == 0:
                                events.add(("memw", s))
                        elif cname.startswith("llvm."):
                            pass
                        else:
                            events.add(("arg", s, cname, j))
                if dst:
                    new = frozenset([("r", cname)]) if (cname and retptr and not cname.startswith("llvm.")) else frozenset()
                    if cname and cname.startswith("llvm.") is False and retptr is False:
                        new = frozenset()
                    if taint.get(dst, frozenset()) != new | taint.get(dst, frozenset()):
                        taint[dst] = new | taint.get(dst, frozenset())
                        changed = True
                continue
            if op == "store" or op == "atomicrmw" or op == "cmpxchg":
                parts = split_top(rest)
                if op == "store" and len(parts) >= 2:
                    val, ptr = parts[0], parts[1]
                elif len(parts) >= 2:
                    ptr, val = parts[0], parts[1]
                else:
                    continue
                sl = slot_of(ptr)
                tv = taint_of(val)
                if sl is not None and not taint_of(ptr):
                    if tv and not tv <= slots[sl]:
                        slots[sl] |= tv
                        changed = True
                    continue
                for s in taint_of(ptr):
                    events.add(("store", s))
                valty = val.strip().split(" ")[0] if val.strip() else ""
                if tv and "*" in val.split("%")[0].split("@")[0]:
                    for s in tv:
                        events.add(("stv", s))
                continue
            if op == "load":
                parts = split_top(rest)
                if len(parts) < 2:
                    continue
                ty, ptr = parts[0].strip(), parts[1]
                ty = re.sub(r"^(volatile|atomic)\s+", "", ty)
                sl = slot_of(ptr)
                if sl is not None and not taint_of(ptr):
                    new = frozenset(slots[sl])
                else:
                    new = frozenset()
                    if ty.endswith("*"):
                        for s in taint_of(ptr):
                            new = new | frozenset([("d", s[1]) if s[0] == "g" else s])
                if dst and not new <= taint.get(dst, frozenset()):
                    taint[dst] = new | taint.get(dst, frozenset())
                    changed = True
                continue
            if op == "ret":
                for s in taint_of(rest):
                    events.add(("ret", s))
                continue
            if dst is None:
                continue
            if op in ("icmp", "fcmp"):
                continue
            # getelementptr / bitcast / phi / select / inttoptr / ptrtoint / arithmetic: propagate
            sl = slot_of(rest)
            if sl is not None and op in ("getelementptr", "bitcast") and dst not in alias:
                alias[dst] = sl
                changed = True
            new = taint_of(rest)
            if new and not new <= taint.get(dst, frozenset()):
                taint[dst] = new | taint.get(dst, frozenset())
                changed = True
        if not changed:
            break
    return {"nparams": len(params), "events": sorted([list(e[:1]) + [list(e[1])] + list(e[2:]) for e in events], key=repr)}


# ----------------------------------------------------------------------------------------------- per-TU cache
_SHA = {}


def file_sha(p):
    if p not in _SHA:
        try:
            _SHA[p] = hashlib.sha256(open(p, "rb").read()).hexdigest()
        except OSError:
            _SHA[p] = "missing"
    return _SHA[p]


def tu_key(obj, info):
    src = info["src"]
    flags = [f for f in (info["defines"] + " " + info["flags"] + " " + info["includes"]).split()
             if not re.match(r"-O\d|-g$|-W|-fPIC|-fstack|-flto|-fno-lto|-fvisibility", f)]
    return src, flags, hashlib.sha256((VERSION + obj + src + " ".join(flags)).encode()).hexdigest()[:20]


def tu_cached(cache_dir, obj, info):
    """The cached summary of one TU if the source, every file it included and the flags are unchanged; else None."""
    src, flags, key = tu_key(obj, info)
    meta_p = os.path.join(cache_dir, key + ".json")
    if os.path.exists(meta_p):
        try:
            meta = json.load(open(meta_p))
            if all(file_sha(f) == h for f, h in meta["deps"].items()):
                return meta["summary"]
        except (ValueError, KeyError):
            pass
    return None


def tu_summary(cache_dir, obj, info):
    """Compile + analyse one TU (or load from cache).  Returns the summary dict."""
    c = tu_cached(cache_dir, obj, info)
    if c is not None:
        return c
    src, flags, key = tu_key(obj, info)
    meta_p = os.path.join(cache_dir, key + ".json")
    dep_p = os.path.join(cache_dir, key + ".%d.d" % os.getpid())
    cmd = ["clang-14", "-S", "-emit-llvm", "-O0", "-w", "-o", "-", "-MD", "-MF", dep_p, "-MT", "x"] + flags + [src]
    rc, out, err = sh(cmd)
    if rc != 0:
        raise RuntimeError("clang-14 failed on %s:\n%s" % (src, err[-1500:]))
    deps = {}
    try:
        dtxt = open(dep_p).read().replace("\\\n", " ")
        os.unlink(dep_p)
        for f in dtxt.split(":", 1)[1].split():
            if f.startswith(REPO) or not f.startswith("/usr"):
                deps[os.path.abspath(f)] = file_sha(f)
    except (OSError, IndexError):
        deps[src] = file_sha(src)
    summ = analyse_ir(out)
    tmp = meta_p + ".tmp%d" % os.getpid()
    json.dump({"deps": deps, "summary": summ, "src": src}, open(tmp, "w"))
    os.rename(tmp, meta_p)
    return summ


def _tu_job(a):
    return tu_summary(*a)


# ----------------------------------------------------------------------------------------------- whole-library solve
def solve(tus):
    """tus: {obj: summary}.  Returns {key: dict(writers, deref, escapes)} with key = ('ext', name) or (obj, name) for internals."""
    # function table (internal functions are per TU; external by name).  Name clashes of internal functions across TUs are kept apart.
    ftab = {}
    ext_fn = {}
    for obj, s in tus.items():
        for f, d in s["funcs"].items():
            ftab[(obj, f)] = d
            ext_fn.setdefault(f, []).append(obj)

    def callee_keys(obj, c):
        if (obj, c) in ftab:
            return [(obj, c)]
        return [(o, c) for o in ext_fn.get(c, [])]

    def gkey(obj, name):
        g = tus[obj]["globals"].get(name)
        if g is not None and g["linkage"] == "internal":
            return (obj, name)
        return ("ext", name)

    # param sources: P[(obj,f,k)] = set of base sources ; ret sources R[(obj,f)]
    P, R = {}, {}

    def base(obj, f, s):
        kind = s[0]
        if kind in ("g", "d"):
            return {(kind, gkey(obj, s[1]))}
        if kind == "p":
            return P.get((obj, f, s[1]), set())
        if kind == "r":
            out = set()
            for ck in callee_keys(obj, s[1]):
                out |= R.get(ck, set())
            return out
        return set()

    for _it in range(12):
        changed = False
        for (obj, f), d in ftab.items():
            for e in d["events"]:
                if e[0] == "arg":
                    b = base(obj, f, tuple(e[1]))
                    if not b:
                        continue
                    for ck in callee_keys(obj, e[2]):
                        cur = P.setdefault((ck[0], ck[1], e[3]), set())
                        if not b <= cur:
                            cur |= b
                            changed = True
                elif e[0] == "ret":
                    b = base(obj, f, tuple(e[1]))
                    cur = R.setdefault((obj, f), set())
                    if not b <= cur:
                        cur |= b
                        changed = True
        if not changed:
            break
    res = {}

    def rec(k):
        return res.setdefault(k, {"writers": set(), "deref": set(), "escapes": set()})
    for (obj, f), d in ftab.items():
        for e in d["events"]:
            b = base(obj, f, tuple(e[1]))
            if not b:
                continue
            kind = e[0]
            if kind in ("store", "memw"):
                for (lvl, k) in b:
                    rec(k)["writers" if lvl == "g" else "deref"].add(f)
            elif kind == "arg":
                c = e[2]
                if callee_keys(obj, c):
                    continue
                if c in KNOWN_WRITES:
                    if e[3] in KNOWN_WRITES[c]:
                        for (lvl, k) in b:
                            rec(k)["writers" if lvl == "g" else "deref"].add(f)
                elif c not in KNOWN_READONLY:
                    for (lvl, k) in b:
                        if lvl == "g":
                            rec(k)["escapes"].add("%s->%s" % (f, c))
            elif kind == "iarg":
                for (lvl, k) in b:
                    if lvl == "g":
                        rec(k)["escapes"].add("%s->(indirect)" % f)
            elif kind == "stv":
                for (lvl, k) in b:
                    if lvl == "g":
                        rec(k)["escapes"].add("%s:stored" % f)
    return res


# ----------------------------------------------------------------------------------------------- top level
def inventory(bd, cache_root, log=lambda *a: None):
    objs, libs = parse_ninja(bd)
    cache_dir = os.path.join(cache_root, "globals")
    os.makedirs(cache_dir, exist_ok=True)
    in_lib = {}
    for lib, lst in libs.items():
        for o in lst:
            in_lib.setdefault(o, set()).add(lib)
    if not in_lib:
        raise RuntimeError("build.ninja lists no objects for libSvtAv1Enc.a / libSvtAv1Dec.a")
    syms = {}
    for o, ws in writable_symbols_all(bd, sorted(in_lib)).items():
        if ws:
            syms[o] = ws
    cobjs = [o for o in sorted(in_lib) if o in objs and objs[o]["kind"] == "c"]
    summ, todo = {}, []
    for o in cobjs:
        c = tu_cached(cache_dir, o, objs[o])
        if c is None:
            todo.append(o)
        else:
            summ[o] = c
    log("[globals] %d translation units, %d to (re)analyse" % (len(cobjs), len(todo)))
    if todo:
        with ProcessPoolExecutor(max_workers=JOBS) as ex:
            summ.update(dict(zip(todo, ex.map(_tu_job, [(cache_dir, o, objs[o]) for o in todo], chunksize=2))))
    sol = solve(summ)
    out = []
    for o, ws in sorted(syms.items()):
        src = short_src(objs[o]["src"]) if o in objs else o
        for (name, size, sec, bind) in sorted(ws):
            base = re.sub(r"\.\d+$", "", name)
            g = {"name": base, "symbol": name, "file": src, "size": size, "section": sec, "bind": bind,
                 "lib": "both" if len(in_lib[o]) == 2 else sorted(in_lib[o])[0],
                 "writers": set(), "deref": set(), "escapes": set(), "analysed": o in summ}
            if o in summ:
                keys = []
                gl = summ[o]["globals"]
                if base != name or bind == "LOCAL":
                    # local static: clang names function-local statics `fn.var`
                    keys = [(o, n) for n in gl if (n == base or n.endswith("." + base)) and gl[n]["linkage"] == "internal"]
                    if not keys and base in gl:
                        keys = [("ext", base)]
                else:
                    keys = [("ext", name)]
                for k in keys:
                    r = sol.get(k)
                    if r:
                        g["writers"] |= r["writers"]
                        g["deref"] |= r["deref"]
                        g["escapes"] |= r["escapes"]
                if not keys:
                    g["analysed"] = False
            for k in ("writers", "deref", "escapes"):
                g[k] = sorted(g[k])
            out.append(g)
    return out


def lean_str(s):
    return '"' + s.replace("\\", "\\\\").replace('"', '\\"') + '"'


def lean_list(xs):
    return "[" + ", ".join(lean_str(x) for x in xs) + "]"


def emit_lean(globs, path):
    """Grouped by (file, section, lib, writers, deref, escapes, analysed) so that the classification rules evaluate cheaply."""
    groups = {}
    for g in globs:
        k = (g["file"], g["section"], g["lib"], tuple(g["writers"]), tuple(g["deref"]), tuple(g["escapes"]), g["analysed"])
        groups.setdefault(k, []).append(g)
    L = ["/- GENERATED by xlate/globals.py on every run of checks/c17.py — do not edit.",
         "   Every object with static storage duration in libSvtAv1Enc.a / libSvtAv1Dec.a that lives in a run-time writable section,",
         "   with the functions that write it (LLVM-IR taint pass), write through the pointer it holds (derefWriters) or let its address",
         "   leave the analysis (escapes). -/",
         "import SvtVerif.Model.NonInterf",
         "",
         "namespace SvtVerif.Gen.Globals",
         "open SvtVerif.NonInterf",
         ""]
    names = []
    for gi, (k, gs) in enumerate(sorted(groups.items(), key=lambda kv: (kv[0][0], kv[0][1], kv[1][0]["name"]))):
        file, sec, lib, wr, de, es, an = k
        L.append("def grp%d : Group :=" % gi)
        L.append("  { file := %s, sect := %s, lib := %s, analysed := %s," % (lean_str(file), lean_str(sec), lean_str(lib), "true" if an else "false"))
        L.append("    writers := %s," % lean_list(wr))
        L.append("    derefWriters := %s," % lean_list(de))
        L.append("    escapes := %s," % lean_list(es))
        L.append("    members := [" + ", ".join("(%s, %d)" % (lean_str(g["name"]), g["size"]) for g in gs) + "] }")
        names.append("grp%d" % gi)
    L.append("")
    L.append("def groups : List Group := [" + ", ".join(names) + "]")
    L.append("")
    L.append("/-- the inventory: one `Global` per symbol -/")
    L.append("def all : List Global := groups.flatMap Group.globals")
    L.append("")
    L.append("def count : Nat := %d" % len(globs))
    L.append("")
    L.append("end SvtVerif.Gen.Globals")
    txt = "\n".join(L) + "\n"
    if not os.path.exists(path) or open(path).read() != txt:
        open(path, "w").write(txt)
    return txt


def regenerate(bd, cache_root, lean_dir, log=lambda *a: None):
    globs = inventory(bd, cache_root, log)
    emit_lean(globs, os.path.join(lean_dir, "SvtVerif", "Gen", "Globals.lean"))
    return globs


if __name__ == "__main__":
    sys.path.insert(0, VERIF)
    from checks import common as C
    bd = C.ensure_lib("rel")
    gl = regenerate(bd, C.CACHE, C.LEAN)
    for g in gl:
        if "--all" in sys.argv or g["writers"] or g["deref"]:
            print("%-48s %-40s %-10s %8d  W=%s D=%s E=%s" % (g["name"], g["file"], g["section"], g["size"], g["writers"], g["deref"], g["escapes"][:4]))
    print(len(gl), "globals")
