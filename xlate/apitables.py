"""C14 translator: NULL-guard and lock tables of every EB_API entry point, from clang-14's JSON AST.

For every `EB_API` function defined in EbEncHandle.c / EbDecHandle.c this module runs a small path-sensitive
abstract interpretation over the function body and emits Lean data (`Gen/ApiTables.lean`):

  guard table   one entry per (function, tracked pointer).  Tracked pointers are the pointer parameters and the
                first-level pointers derived from them (`*p`, `p->field`, also through a local alias such as
                `enc_handle = (EbEncHandle*)svt_enc_component->p_component_private`).  Each entry lists, for every
                entry-to-return path (deduplicated), the ordered events of that pointer up to its first dereference
                  chkNonNull   the path took the branch of a NULL test on which the pointer is known non-NULL
                  chkNull      ... on which it is known NULL
                  deref L      `->`, unary `*`, `[]` on the pointer, or passing it to a same-file callee whose own
                               analysis says it dereferences that argument unguarded (line L)
                  escape L     passed to a function defined elsewhere (unknown; counted as a dereference)
                together with the statically known return code of the path (if any).
  lock table    one entry per function: every path as `lock m | unlock m` events (m = canonical text of the mutex
                expression) followed by the return code.

What is understood (anything else raises cfun.Unsupported -- the check then fails loudly):
  statements   compound, decl, if/else, return, expression statements, while/for (0 or 1 iteration), do-while
               (1 iteration), switch (each case as an alternative, fallthrough followed), break, continue, null
  conditions   short-circuit `&&`/`||`/`!`, `p == NULL`, `p != NULL`, `p`, `!p` on tracked pointers (path split and
               fact refinement), comparisons of constant-propagated locals with constants (pruned), literals
  calls        svt_block_on_mutex / svt_release_mutex (lock events); same-file callees are analysed recursively
               for the tracked argument (guard summary) and must be lock-balanced (else Unsupported); `free` does
               not dereference; any other external callee given a tracked pointer directly is an `escape`
Limits (stated in the evidence): loops are unrolled 0/1 times; mutexes taken inside callees of other translation
units (the resource manager's own) are not part of the table; `goto` is refused; pointer arithmetic keeps the fact
of its base pointer; feasibility is only pruned by constants, so the table over-approximates the real paths.
"""
import os
import sys

sys.path.insert(0, os.path.dirname(os.path.abspath(__file__)))
import cfun
from cfun import Unsupported

ENC_SRC = "Source/Lib/Encoder/Globals/EbEncHandle.c"
DEC_SRC = "Source/Lib/Decoder/Codec/EbDecHandle.c"
ENC_API = ["svt_av1_enc_init_handle", "svt_av1_enc_set_parameter", "svt_av1_enc_init", "svt_av1_enc_stream_header",
           "svt_av1_enc_stream_header_release", "svt_av1_enc_eos_nal", "svt_av1_enc_send_picture", "svt_av1_enc_get_packet",
           "svt_av1_enc_release_out_buffer", "svt_av1_get_recon", "svt_av1_enc_get_stream_info", "svt_av1_enc_deinit",
           "svt_av1_enc_deinit_handle"]
DEC_API = ["svt_av1_dec_init_handle", "svt_av1_dec_set_parameter", "svt_av1_dec_init", "svt_av1_dec_frame",
           "svt_av1_dec_get_picture", "svt_av1_dec_deinit", "svt_av1_dec_deinit_handle"]
# Callees looked up on the last translation (a hint only: they are fetched in parallel up front; any other callee the
# analysis meets is still looked up on demand, and a name that no longer exists simply yields "not defined here").
PREFETCH = {ENC_SRC: [
    "cdef_context_ctor", "copy_api_from_app", "copy_frame_buffer", "copy_input_buffer", "copy_metadata_buffer",
    "copy_output_recon_buffer", "create_down_scaled_buf_descs", "create_pa_ref_buf_descs", "create_ref_buf_descs",
    "dlf_context_ctor", "enc_dec_context_ctor", "entropy_coding_context_ctor", "ime_context_ctor",
    "init_svt_av1_encoder_handle", "initial_rate_control_context_ctor", "mode_decision_configuration_context_ctor",
    "motion_estimation_context_ctor", "packetization_context_ctor", "picture_analysis_context_ctor",
    "picture_decision_context_ctor", "picture_manager_context_ctor", "rate_control_context_ctor",
    "resource_coordination_context_ctor", "rest_context_ctor", "source_based_operations_context_ctor",
    "svt_add_metadata", "svt_av1_enc_component_de_init", "svt_enc_handle_ctor", "svt_memcpy", "svt_remove_mem_entry",
    "svt_svt_enc_init_parameter", "un_pack2d",],
            DEC_SRC: [
    "dec_mem_init", "dec_pic_mgr_update_ref_pic", "dec_sync_all_threads", "decode_multiple_obu",
    "init_svt_av1_decoder_handle", "svt_dec_component_de_init", "svt_dec_handle_ctor", "svt_dec_out_buf",
    "svt_svt_dec_set_default_parameter",]}
LOCK_FN, UNLOCK_FN = "svt_block_on_mutex", "svt_release_mutex"
NO_DEREF_EXTERNALS = {"free"}            # free(NULL) is defined
MAX_STATES = 4000


def api_functions_in_source(path):
    """Names following an EB_API marker in the source text (cross-check of the lists above)."""
    import re
    src = open(os.path.join(cfun.REPO, path)).read()
    return re.findall(r"EB_API\s+\w[\w\s\*]*?\b(svt_\w+)\s*\(", src)


# ------------------------------------------------------------------ AST helpers
def strip(n):
    """Remove parens and value-preserving casts."""
    while True:
        k = n.get("kind")
        if k in ("ParenExpr", "ConstantExpr"):
            n = n["inner"][0]
        elif k in ("ImplicitCastExpr", "CStyleCastExpr") and n.get("castKind") in (
                "LValueToRValue", "NoOp", "BitCast", "ArrayToPointerDecay", "IntegralCast", "NullToPointer",
                "PointerToBoolean", "IntegralToBoolean", "FunctionToPointerDecay", "ToVoid", "IntegralToPointer",
                "PointerToIntegral"):
            n = n["inner"][0]
        else:
            return n


def is_null_const(n):
    n = strip(n)
    return n.get("kind") == "IntegerLiteral" and int(n["value"]) == 0


def is_pointer_type(n):
    t = n.get("type", {})
    q = t.get("desugaredQualType") or t.get("qualType", "")
    return q.rstrip().endswith("*")


def is_errtype(n):
    return n.get("type", {}).get("qualType", "").strip() in ("EbErrorType", "enum EbErrorType")


class Src:
    def __init__(self, path):
        self.path = path
        self.data = open(os.path.join(cfun.REPO, path), "rb").read()
        self.nl = [i for i, c in enumerate(self.data) if c == 10]

    def line(self, node):
        import bisect
        loc = node.get("range", {}).get("begin", {})
        off = None
        if "expansionLoc" in loc:
            off = loc["expansionLoc"].get("offset")
        elif "offset" in loc:
            off = loc["offset"]
        if off is None:
            return 0
        return bisect.bisect_left(self.nl, off) + 1


def canon(n):
    """Canonical text of a (mutex / pointer) expression."""
    n = strip(n)
    k = n.get("kind")
    if k == "DeclRefExpr":
        return n["referencedDecl"]["name"]
    if k == "MemberExpr":
        return canon(n["inner"][0]) + ("->" if n.get("isArrow") else ".") + n["name"]
    if k == "ArraySubscriptExpr":
        return "%s[%s]" % (canon(n["inner"][0]), canon(n["inner"][1]))
    if k == "IntegerLiteral":
        return n["value"]
    if k == "UnaryOperator" and n["opcode"] in ("*", "&"):
        return n["opcode"] + canon(n["inner"][0])
    raise Unsupported("cannot name expression of kind %s" % k)


# ------------------------------------------------------------------ abstract state
class St:
    __slots__ = ("facts", "pev", "done", "lev", "consts", "alias")

    def __init__(self):
        self.facts = {}    # key -> 'N' | 'Z'   (absent = unknown)
        self.pev = {}      # key -> tuple of events
        self.done = set()  # keys whose first dereference has been recorded
        self.lev = ()      # lock events
        self.consts = {}   # local integer var -> int (absent = unknown)
        self.alias = {}    # local pointer var -> tracked key

    def copy(self):
        s = St()
        s.facts, s.pev, s.done, s.lev = dict(self.facts), dict(self.pev), set(self.done), self.lev
        s.consts, s.alias = dict(self.consts), dict(self.alias)
        return s

    def key(self):
        return (tuple(sorted(self.facts.items())), tuple(sorted(self.pev.items())), tuple(sorted(self.done)), self.lev,
                tuple(sorted(self.consts.items())), tuple(sorted(self.alias.items())))

    def ev(self, k, e):
        if k in self.done:
            return
        self.pev[k] = self.pev.get(k, ()) + (e,)
        if e[0] in ("deref", "escape"):
            self.done.add(k)


def dedupe(states):
    seen, out = set(), []
    for s in states:
        k = s.key()
        if k not in seen:
            seen.add(k)
            out.append(s)
    if len(out) > MAX_STATES:
        raise Unsupported("more than %d abstract states" % MAX_STATES)
    return out


_STUB = None


def stub_include_dir():
    """Directory holding an EbVersion.h (cmake generates it from EbVersion.h.in; the API files only print the strings)."""
    global _STUB
    if _STUB is None:
        import re
        import tempfile
        import atexit
        import shutil
        _STUB = tempfile.mkdtemp(prefix="c14inc_")
        atexit.register(shutil.rmtree, _STUB, True)
        tpl = os.path.join(cfun.REPO, "Source/Lib/Common/Codec/EbVersion.h.in")
        txt = open(tpl).read() if os.path.exists(tpl) else "#define SVT_AV1_CVS_VERSION \"verif\"\n"
        txt = re.sub(r"@[A-Za-z_0-9]+@", "0", txt)
        open(os.path.join(_STUB, "EbVersion.h"), "w").write(txt)
    return _STUB


_ASTDIR = None


def ast_cache_dir():
    global _ASTDIR
    if _ASTDIR is None:
        import hashlib
        import shutil
        import subprocess
        h = hashlib.sha256()
        for cmd in (["git", "-C", cfun.REPO, "ls-files", "-s", "--", "Source"], ["git", "-C", cfun.REPO, "diff", "HEAD", "--", "Source"]):
            h.update(subprocess.run(cmd, stdout=subprocess.PIPE, stderr=subprocess.DEVNULL).stdout)
        h.update(open(os.path.abspath(__file__), "rb").read())
        root = os.path.join(os.path.dirname(os.path.dirname(os.path.abspath(__file__))), ".cache", "c14_ast")
        d = os.path.join(root, h.hexdigest()[:16])
        if not os.path.isdir(d):
            if os.path.isdir(root):
                for e in os.listdir(root):
                    shutil.rmtree(os.path.join(root, e), ignore_errors=True)
            os.makedirs(d, exist_ok=True)
        _ASTDIR = d
    return _ASTDIR


class Analyzer:
    def __init__(self, path, api):
        self.path = path
        self.src = Src(path)
        self.incdir = stub_include_dir()
        self.enums = cfun.enum_values(self.clang("EbErrorType"))
        if "EB_ErrorBadParameter" not in self.enums:
            raise Unsupported("enum EbErrorType not found in the AST of %s" % path)
        self._fn = {}
        from concurrent.futures import ThreadPoolExecutor
        want = list(api) + [n for n in PREFETCH.get(path, []) if n not in api]
        with ThreadPoolExecutor(max_workers=4) as ex:            # one filtered AST dump per function, four at a time
            for name, node in zip(want, ex.map(self._load, want)):
                self._fn[name] = node
        self.summaries = {}      # (callee, param index) -> 'guarded' | 'derefs'
        self.stack = []
        self.check_mutex_sites(api)

    def clang(self, flt):
        """Filtered clang-14 JSON AST dump (cfun.clang_ast plus the stub directory for the cmake-generated EbVersion.h)."""
        import json
        import subprocess
        cmd = ["clang-14", "-Xclang", "-ast-dump=json", "-fsyntax-only", "-w", "-DSVT_AV1_VERIF",
               "-Xclang", "-ast-dump-filter=" + flt, "-I" + self.incdir]
        cmd += ["-I" + os.path.join(cfun.REPO, d) for d in cfun.INC if os.path.isdir(os.path.join(cfun.REPO, d))]
        cmd.append(os.path.join(cfun.REPO, self.path))
        p = subprocess.run(cmd, stdout=subprocess.PIPE, stderr=subprocess.PIPE)
        if b"fatal error" in p.stderr:
            raise Unsupported("clang could not parse %s: %s" % (self.path, p.stderr.decode()[-400:]))
        txt = p.stdout.decode()
        dec = json.JSONDecoder()
        i, n, objs = 0, len(txt), []
        while i < n:
            j = txt.find("{", i)
            if j < 0:
                break
            nl = txt.rfind("\n", 0, j)
            if txt[nl + 1:j].strip():          # "Dumping <name>:" lines
                i = txt.find("\n", j)
                if i < 0:
                    break
                continue
            o, i = dec.raw_decode(txt, j)
            objs.append(o)
        return objs

    def _load(self, name):
        """FunctionDecl (with body) of `name` in this translation unit, or None.  The JSON of each looked-up function is
        cached under .cache/c14_ast/<hash of the working tree>/ so that only the first run on a tree pays for clang."""
        import json
        cdir = ast_cache_dir()
        cp = os.path.join(cdir, "%s__%s.json" % (os.path.basename(self.path), name))
        if os.path.exists(cp):
            try:
                return json.load(open(cp))
            except ValueError:
                pass
        fns = cfun.find_functions(self.clang(name), name)
        if len(fns) > 1:
            raise Unsupported("%d definitions of %s" % (len(fns), name))
        node = fns[0] if fns else None
        tmp = cp + ".%d.tmp" % os.getpid()
        with open(tmp, "w") as fh:
            json.dump(node, fh)
        os.replace(tmp, cp)
        return node

    def get_fn(self, name):
        if name is None:
            return None
        if name not in self._fn:
            self._fn[name] = self._load(name)
        return self._fn[name]

    def check_mutex_sites(self, api):
        """Every textual mutex call of the file must lie inside an EB_API function (callee lock effects are not modelled)."""
        import re
        ranges = []
        for f in api:
            fn = self._fn.get(f)
            if fn is None:
                raise Unsupported("no definition of %s in %s" % (f, self.path))
            b = fn["range"]["begin"]
            e = fn["range"]["end"]
            ranges.append((b.get("offset", b.get("expansionLoc", {}).get("offset")), e.get("offset", e.get("expansionLoc", {}).get("offset"))))
        for m in re.finditer(rb"\b(svt_block_on_mutex|svt_release_mutex)\s*\(", self.src.data):
            if not any(b is not None and e is not None and b <= m.start() <= e for b, e in ranges):
                ln = self.src.data.count(b"\n", 0, m.start()) + 1
                raise Unsupported("%s:%d: mutex call outside an EB_API function; lock effects of callees are not modelled" % (self.path, ln))

    # ---------------- pointer keys
    def ptr_key(self, n, st):
        n = strip(n)
        k = n.get("kind")
        if k == "DeclRefExpr":
            return st.alias.get(n["referencedDecl"]["name"])      # parameters start as aliases of themselves
        if k == "UnaryOperator" and n["opcode"] == "&":
            t = strip(n["inner"][0])
            if t.get("kind") == "DeclRefExpr" and t["referencedDecl"]["name"] in st.alias:
                return st.alias[t["referencedDecl"]["name"]]      # `&local_alias` handed out: the callee can reach the pointer
            return None
        if k == "UnaryOperator" and n["opcode"] == "*":
            b = self.ptr_key(n["inner"][0], st)
            if b in self.params and is_pointer_type(n):
                return "*" + b
            return None
        if k == "MemberExpr" and n.get("isArrow"):
            b = self.ptr_key(n["inner"][0], st)
            if b in self.params and is_pointer_type(n):
                return b + "->" + n["name"]
            return None
        if k == "BinaryOperator" and n["opcode"] in ("+", "-") and is_pointer_type(n):
            return self.ptr_key(n["inner"][0], st) or self.ptr_key(n["inner"][1], st)
        return None

    def track(self, key):
        if key not in self.tracked:
            self.tracked.append(key)

    # ---------------- constants
    def const_value(self, n, st):
        n = strip(n)
        k = n.get("kind")
        if k == "IntegerLiteral":
            return int(n["value"])
        if k == "DeclRefExpr":
            rd = n["referencedDecl"]
            if rd["kind"] == "EnumConstantDecl":
                return self.enums.get(rd["name"])
            return st.consts.get(rd["name"])
        if k == "UnaryOperator" and n["opcode"] == "-":
            v = self.const_value(n["inner"][0], st)
            return None if v is None else -v
        return None

    # ---------------- expressions (effects only)
    def deref(self, key, st, node, via=None):
        if key is None:
            return
        self.track(key)
        st.ev(key, ("deref", self.src.line(node)))

    def eval(self, n, states):
        """Evaluate expression `n` for its effects in each state; returns list of states."""
        if not isinstance(n, dict) or not n:
            return states
        k = n.get("kind")
        if k in ("IntegerLiteral", "CharacterLiteral", "StringLiteral", "FloatingLiteral", "UnaryExprOrTypeTraitExpr",
                 "PredefinedExpr", "OffsetOfExpr"):
            return states
        if k == "DeclRefExpr":
            return states
        if k in ("ParenExpr", "ConstantExpr", "ImplicitCastExpr", "CStyleCastExpr"):
            return self.eval(n["inner"][0], states)
        if k == "MemberExpr":
            states = self.eval(n["inner"][0], states)
            if n.get("isArrow"):
                for s in states:
                    self.deref(self.ptr_key(n["inner"][0], s), s, n)
            return states
        if k == "ArraySubscriptExpr":
            states = self.eval(n["inner"][0], states)
            states = self.eval(n["inner"][1], states)
            for s in states:
                self.deref(self.ptr_key(n["inner"][0], s), s, n)
            return states
        if k == "UnaryOperator":
            op = n["opcode"]
            a = n["inner"][0]
            if op == "!":
                return [s for s, _ in self.cond(n, states)]
            states = self.eval(a, states)
            if op == "*":
                for s in states:
                    self.deref(self.ptr_key(a, s), s, n)
            elif op == "&":
                t = strip(a)
                if t.get("kind") == "DeclRefExpr":
                    for s in states:
                        s.consts.pop(t["referencedDecl"]["name"], None)      # address taken: value unknown from here
            elif op in ("++", "--"):
                t = strip(a)
                if t.get("kind") == "DeclRefExpr":
                    for s in states:
                        s.consts.pop(t["referencedDecl"]["name"], None)
            return states
        if k in ("BinaryOperator", "CompoundAssignOperator"):
            op = n["opcode"]
            a, b = n["inner"]
            if op in ("&&", "||"):
                return dedupe([s for s, _ in self.cond(n, states)])
            if op == "=":
                states = self.eval(b, states)
                return self.assign(a, b, states)
            states = self.eval(a, states)
            states = self.eval(b, states)
            if k == "CompoundAssignOperator":
                t = strip(a)
                if t.get("kind") == "DeclRefExpr":
                    for s in states:
                        s.consts.pop(t["referencedDecl"]["name"], None)
            return states
        if k == "ConditionalOperator":
            c, a, b = n["inner"]
            out = []
            for s, truth in self.cond(c, states):
                out += self.eval(a if truth else b, [s])
            return dedupe(out)
        if k == "CallExpr":
            return self.call(n, states)
        if k in ("ImplicitValueInitExpr", "GNUNullExpr"):
            return states
        if k in ("InitListExpr", "CompoundLiteralExpr"):
            for c in n.get("inner", []):
                states = self.eval(c, states)
            return states
        if k == "StmtExpr":
            r = self.exec(n["inner"][0], states)
            if r["ret"] or r["brk"] or r["cont"]:
                raise Unsupported("control flow leaves a GNU statement expression at line %d" % self.src.line(n))
            return r["normal"]
        raise Unsupported("expression kind %s at line %d" % (k, self.src.line(n)))

    def assign(self, lhs, rhs, states):
        t = strip(lhs)
        if t.get("kind") == "DeclRefExpr":
            nm = t["referencedDecl"]["name"]
            for s in states:
                v = self.const_value(rhs, s) if is_errtype(t) else None
                if v is None:
                    s.consts.pop(nm, None)
                else:
                    s.consts[nm] = v
                if is_pointer_type(t):
                    kk = self.ptr_key(rhs, s)
                    if kk:
                        s.alias[nm] = kk
                    else:
                        s.alias.pop(nm, None)
            return states
        # store through an lvalue expression: evaluate it (dereferences) and forget facts of what it names
        states = self.eval(lhs, states)
        for s in states:
            kk = self.ptr_key(lhs, s) if is_pointer_type(t) else None
            if kk and kk not in self.params:
                s.facts.pop(kk, None)            # e.g. `*p_handle = malloc(..)`: the derived pointer changes
                if is_null_const(rhs):
                    s.facts[kk] = "Z"
        return states

    def callee_name(self, n):
        c = strip(n["inner"][0])
        if c.get("kind") == "DeclRefExpr":
            return c["referencedDecl"]["name"]
        return None

    def call(self, n, states):
        name = self.callee_name(n)
        args = n["inner"][1:]
        if name is None:
            states = self.eval(n["inner"][0], states)     # call through a function pointer expression
        for a in args:
            states = self.eval(a, states)
        if name in (LOCK_FN, UNLOCK_FN):
            m = canon(args[0])
            for s in states:
                s.lev = s.lev + (("lock" if name == LOCK_FN else "unlock", m),)
            return states
        for i, a in enumerate(args):
            for s in states:
                kk = self.ptr_key(a, s)
                if kk is None:
                    continue
                self.track(kk)
                if name in NO_DEREF_EXTERNALS:
                    continue
                if name not in self.stack and self.get_fn(name) is not None:
                    if self.callee_summary(name, i) == "derefs":
                        s.ev(kk, ("deref", self.src.line(n)))
                elif name is not None and name in self.stack:
                    s.ev(kk, ("escape", self.src.line(n)))
                else:
                    s.ev(kk, ("escape", self.src.line(n)))
        # out-parameters: `&local` handed to a callee makes the local's value unknown (handled in eval of '&')
        return states

    # ---------------- conditions
    def cond(self, n, states):
        """-> list of (state, truth)."""
        if not states:
            return []
        t = n
        while t.get("kind") in ("ParenExpr", "ConstantExpr") or (
                t.get("kind") in ("ImplicitCastExpr", "CStyleCastExpr") and t.get("castKind") in (
                    "IntegralToBoolean", "PointerToBoolean", "IntegralCast", "NoOp")):
            t = t["inner"][0]
        k = t.get("kind")
        if k == "IntegerLiteral":
            return [(s, int(t["value"]) != 0) for s in states]
        if k == "UnaryOperator" and t["opcode"] == "!":
            return [(s, not tr) for s, tr in self.cond(t["inner"][0], states)]
        if k == "BinaryOperator" and t["opcode"] in ("&&", "||"):
            a, b = t["inner"]
            out = []
            for s, tr in self.cond(a, states):
                if (t["opcode"] == "&&") == tr:
                    out += self.cond(b, [s])
                else:
                    out.append((s, tr))
            return out
        if k == "BinaryOperator" and t["opcode"] in ("==", "!="):
            a, b = t["inner"]
            eq = t["opcode"] == "=="
            for x, y in ((a, b), (b, a)):
                if is_null_const(y):
                    out = []
                    for s in self.eval(x, states):
                        kk = self.ptr_key(x, s)
                        if kk is not None:
                            out += [(s2, isnull == eq) for s2, isnull in self.null_test(kk, s)]
                        elif self.const_value(x, s) is not None:
                            out.append((s, (self.const_value(x, s) == 0) == eq))
                        else:
                            out += [(s, True), (s.copy(), False)]
                    return out
            out = []
            for s in self.eval(b, self.eval(a, states)):
                va, vb = self.const_value(a, s), self.const_value(b, s)
                if va is not None and vb is not None:
                    out.append((s, (va == vb) == eq))
                else:
                    out += [(s, True), (s.copy(), False)]
            return out
        # pointer in boolean context
        out = []
        for s in self.eval(t, states):
            kk = self.ptr_key(t, s)
            if kk is not None:
                out += [(s2, not isnull) for s2, isnull in self.null_test(kk, s)]
            else:
                v = self.const_value(t, s)
                if v is not None:
                    out.append((s, v != 0))
                else:
                    out += [(s, True), (s.copy(), False)]
        return out

    def null_test(self, key, s):
        """-> list of (state, pointer_is_null)."""
        self.track(key)
        f = s.facts.get(key)
        if f == "N":
            return [(s, False)]
        if f == "Z":
            return [(s, True)]
        a, b = s, s.copy()
        a.facts[key] = "N"
        a.ev(key, ("chkNonNull",))
        b.facts[key] = "Z"
        b.ev(key, ("chkNull",))
        return [(a, False), (b, True)]

    # ---------------- statements
    def exec(self, n, states):
        """-> dict(normal=[..], brk=[..], cont=[..], ret=[(state, code)])"""
        R = {"normal": [], "brk": [], "cont": [], "ret": []}
        if not states:
            return R
        k = n.get("kind") if isinstance(n, dict) else None
        if not n or k == "NullStmt":
            R["normal"] = states
            return R
        if k == "CompoundStmt":
            cur = states
            for c in n.get("inner", []):
                r = self.exec(c, cur)
                for x in ("brk", "cont", "ret"):
                    R[x] += r[x]
                cur = dedupe(r["normal"])
                if not cur:
                    break
            R["normal"] = cur
            return R
        if k == "DeclStmt":
            cur = states
            for v in n.get("inner", []):
                if v.get("kind") != "VarDecl":
                    continue
                init = [c for c in v.get("inner", []) if c.get("kind") not in ("FullComment",)]
                if init:
                    cur = self.eval(init[0], cur)
                    for s in cur:
                        val = self.const_value(init[0], s) if is_errtype(v) else None
                        if val is not None:
                            s.consts[v["name"]] = val
                        if is_pointer_type(v):
                            kk = self.ptr_key(init[0], s)
                            if kk:
                                self.track(kk)
                                s.alias[v["name"]] = kk
            R["normal"] = cur
            return R
        if k == "ReturnStmt":
            inner = n.get("inner", [])
            cur = self.eval(inner[0], states) if inner else states
            for s in cur:
                R["ret"].append((s, self.const_value(inner[0], s) if inner else 0))
            return R
        if k == "IfStmt":
            parts = n["inner"]
            th = parts[1]
            el = parts[2] if len(parts) > 2 else None
            tstates, fstates = [], []
            for s, tr in self.cond(parts[0], states):
                (tstates if tr else fstates).append(s)
            r1 = self.exec(th, dedupe(tstates))
            r2 = self.exec(el, dedupe(fstates)) if el is not None else {"normal": dedupe(fstates), "brk": [], "cont": [], "ret": []}
            for x in R:
                R[x] = r1[x] + r2[x]
            R["normal"] = dedupe(R["normal"])
            return R
        if k in ("WhileStmt", "ForStmt", "DoStmt"):
            if k == "ForStmt":
                init, _, c, inc, body = (n["inner"] + [{}] * 5)[:5]
                if init:
                    states = self.exec(init, states)["normal"]
            elif k == "WhileStmt":
                c, body = n["inner"][0], n["inner"][1]
                inc = None
            else:
                body, c = n["inner"][0], n["inner"][1]
                inc = None
            exits = []
            if k == "DoStmt":
                enter = states
            else:
                enter = []
                for s, tr in (self.cond(c, states) if c else [(s, True) for s in states]):
                    (enter if tr else exits).append(s)
            r = self.exec(body, dedupe(enter))
            R["ret"] += r["ret"]
            exits += r["brk"]
            after = r["normal"] + r["cont"]
            if inc:
                after = self.eval(inc, after)
            # leave after this iteration whatever the condition says (bounded unrolling), still evaluating it
            if c:
                exits += [s for s, _ in self.cond(c, dedupe(after))]
            else:
                exits += after
            R["normal"] = dedupe(exits)
            return R
        if k == "SwitchStmt":
            states = self.eval(n["inner"][0], states)
            body = n["inner"][1]
            items = body.get("inner", []) if body.get("kind") == "CompoundStmt" else [body]
            # flatten `case A: case B: stmt`
            flat = []
            for it in items:
                while it.get("kind") in ("CaseStmt", "DefaultStmt"):
                    flat.append(("label", it.get("kind")))
                    it = it["inner"][-1]
                flat.append(("stmt", it))
            has_default = any(x == ("label", "DefaultStmt") for x in flat)
            exits = [] if has_default else [s.copy() for s in states]
            for i, x in enumerate(flat):
                if x[0] != "label" or (i > 0 and flat[i - 1][0] == "label"):
                    continue
                cur = [s.copy() for s in states]
                for y in flat[i:]:
                    if y[0] == "label":
                        continue
                    r = self.exec(y[1], cur)
                    R["ret"] += r["ret"]
                    R["cont"] += r["cont"]
                    exits += r["brk"]
                    cur = r["normal"]
                    if not cur:
                        break
                exits += cur
            R["normal"] = dedupe(exits)
            return R
        if k == "BreakStmt":
            R["brk"] = states
            return R
        if k == "ContinueStmt":
            R["cont"] = states
            return R
        if k in ("GotoStmt", "LabelStmt", "IndirectGotoStmt"):
            raise Unsupported("goto/label at line %d" % self.src.line(n))
        if k in ("GCCAsmStmt", "MSAsmStmt"):
            raise Unsupported("inline asm")
        # expression statement
        R["normal"] = self.eval(n, states)
        return R

    # ---------------- whole functions
    def run_function(self, name, only_param=None):
        fn = self.get_fn(name)
        if fn is None:
            raise Unsupported("no definition of %s in %s" % (name, self.path))
        saved = getattr(self, "params", None), getattr(self, "tracked", None)
        pv = [p for p in fn.get("inner", []) if p.get("kind") == "ParmVarDecl"]
        self.params = [p["name"] for p in pv if is_pointer_type(p) and "name" in p]
        if only_param is not None:
            self.params = [pv[only_param]["name"]] if only_param < len(pv) and is_pointer_type(pv[only_param]) and "name" in pv[only_param] else []
        self.tracked = list(self.params)
        self.stack.append(name)
        try:
            body = [c for c in fn["inner"] if c.get("kind") == "CompoundStmt"][0]
            s0 = St()
            s0.alias = {p: p for p in self.params}
            r = self.exec(body, [s0])
            rets = list(r["ret"]) + [(s, 0 if "void" in fn["type"]["qualType"].split("(")[0] else None) for s in r["normal"]]
            if r["brk"] or r["cont"]:
                raise Unsupported("break/continue outside loop in %s" % name)
        finally:
            self.stack.pop()
        params, tracked = self.params, self.tracked
        self.params, self.tracked = saved
        return params, tracked, rets, [p.get("name") for p in pv]

    def callee_summary(self, name, idx):
        key = (name, idx)
        if key not in self.summaries:
            self.summaries[key] = "derefs"        # pessimistic while in progress
            params, tracked, rets, _ = self.run_function(name, only_param=idx)
            if not params:
                self.summaries[key] = "guarded"
            else:
                p = params[0]
                ok = all(path_guarded(s.pev.get(p, ())) for s, _ in rets)
                self.summaries[key] = "guarded" if ok else "derefs"
        return self.summaries[key]

    def tables(self, name):
        params, tracked, rets, allparams = self.run_function(name)
        guards = []
        for key in tracked:
            paths = []
            for s, code in rets:
                p = (s.pev.get(key, ()), code)
                if p not in paths:
                    paths.append(p)
            guards.append({"fn": name, "ptr": key, "derived": key not in params, "paths": paths})
        lpaths = []
        for s, code in rets:
            p = (s.lev, code, tuple(sorted(k for k, f in s.facts.items() if f == "Z" and k in params)))
            if p not in lpaths:
                lpaths.append(p)
        return guards, {"fn": name, "paths": lpaths}, allparams


def path_guarded(evs):
    st = "U"
    for e in evs:
        if e[0] == "chkNonNull":
            return True
        if e[0] == "chkNull":
            st = "Z"
        else:
            return False
    return True


def run_null(evs):
    for e in evs:
        if e[0] == "chkNonNull":
            return "infeasible"
        if e[0] in ("deref", "escape"):
            return "access"
    return "returns"


def classify(gtab):
    """The translator's own reading of the guard table (re-checked against the Lean definitions by Props/C14)."""
    res = {"guarded": [], "unguarded": [], "null_error": [], "guarded_derived": [], "unguarded_derived": []}
    for g in gtab:
        if g["derived"]:
            ok = all(path_guarded(evs) for evs, _ in g["paths"])
            res["guarded_derived" if ok else "unguarded_derived"].append((g["fn"], g["ptr"]))
            continue
        if all(path_guarded(evs) for evs, _ in g["paths"]):
            res["guarded"].append((g["fn"], g["ptr"]))
            rets = [code for evs, code in g["paths"] if run_null(evs) == "returns"]
            if rets and rets[0] is not None and all(r == rets[0] for r in rets) and (rets[0] & 0xFFFFFFFF) != 0:
                res["null_error"].append((g["fn"], g["ptr"], rets[0] & 0xFFFFFFFF))
        else:
            res["unguarded"].append((g["fn"], g["ptr"]))
    return res


# ------------------------------------------------------------------ Lean output
def lean_str(s):
    return '"' + s.replace("\\", "\\\\").replace('"', '\\"') + '"'


def lean_code(c):
    return "none" if c is None else "(some %d)" % (c & 0xFFFFFFFF)


def lean_pev(e):
    if e[0] in ("chkNonNull", "chkNull"):
        return "." + e[0]
    return "(.%s %d)" % (e[0], e[1])


def lean_lev(e):
    return "(.%s %s)" % (e[0], lean_str(e[1]))


def generate():
    """-> (lean_text, stats)"""
    out = []
    stats = {"functions": 0, "pointers": 0, "guard_paths": 0, "lock_paths": 0, "params": 0, "derived": 0, "per_function": {}}
    gtab, ltab = [], []
    for path, names, comp in ((ENC_SRC, ENC_API, "enc"), (DEC_SRC, DEC_API, "dec")):
        in_src = api_functions_in_source(path)
        missing = [f for f in in_src if f not in names]
        if missing:
            raise Unsupported("EB_API functions in %s that the translator does not know: %s" % (path, missing))
        gone = [f for f in names if f not in in_src]
        if gone:
            raise Unsupported("EB_API functions expected in %s but not found: %s" % (path, gone))
        an = Analyzer(path, names)
        for f in names:
            g, l, allparams = an.tables(f)
            gtab += g
            ltab.append(l)
            stats["functions"] += 1
            stats["per_function"][f] = {"pointers": [x["ptr"] for x in g], "guard_paths": sum(len(x["paths"]) for x in g),
                                        "lock_paths": len(l["paths"])}
            stats["pointers"] += len(g)
            stats["params"] += len([x for x in g if not x["derived"]])
            stats["derived"] += len([x for x in g if x["derived"]])
            stats["guard_paths"] += sum(len(x["paths"]) for x in g)
            stats["lock_paths"] += len(l["paths"])
    out.append("/- GENERATED by xlate/apitables.py from %s and %s -- do not edit; regenerated on every run of checks/c14.py -/" % (ENC_SRC, DEC_SRC))
    out.append("import SvtVerif.Model.ApiProto\n")
    out.append("namespace Gen.ApiTables\nopen ApiProto\n")
    out.append("/-- NULL-guard table: per (function, pointer) every path's events of that pointer up to its first dereference. -/")
    out.append("def guards : List GuardEntry := [")
    rows = []
    for g in gtab:
        ps = ",\n      ".join("⟨[%s], %s⟩" % (", ".join(lean_pev(e) for e in evs), lean_code(code)) for evs, code in g["paths"])
        rows.append("  { fn := %s, ptr := %s, derived := %s, paths := [\n      %s] }" % (
            lean_str(g["fn"]), lean_str(g["ptr"]), "true" if g["derived"] else "false", ps))
    out.append(",\n".join(rows))
    out.append("]\n")
    out.append("/-- Lock table: per function every entry-to-return path's mutex events and return code. -/")
    out.append("def locks : List LockEntry := [")
    rows = []
    for l in ltab:
        ps = ",\n      ".join("⟨[%s], %s, [%s]⟩" % (", ".join(lean_lev(e) for e in evs), lean_code(code), ", ".join(lean_str(x) for x in nulls))
                               for evs, code, nulls in l["paths"])
        rows.append("  { fn := %s, paths := [\n      %s] }" % (lean_str(l["fn"]), ps))
    out.append(",\n".join(rows))
    out.append("]\n")
    out.append("def tables : Tables := { guards := guards, locks := locks }\n")
    cls = classify(gtab)
    stats["guarded_params"] = ["%s(%s)" % x for x in cls["guarded"]]
    stats["unguarded_params"] = ["%s(%s)" % x for x in cls["unguarded"]]
    stats["null_error_params"] = ["%s(%s)=%x" % x for x in cls["null_error"]]
    out.append("/-- Parameters the translator classifies as guarded (every access preceded by a successful non-NULL test).  Checked in Props/C14. -/")
    out.append("def guardedParams : List (String × String) := [\n  %s]\n" % ",\n  ".join("(%s, %s)" % (lean_str(f), lean_str(p)) for f, p in cls["guarded"]))
    out.append("/-- Parameters with a path on which a NULL argument is dereferenced.  Checked (with the witness) in Props/C14. -/")
    out.append("def unguardedParams : List (String × String) := [\n  %s]\n" % ",\n  ".join("(%s, %s)" % (lean_str(f), lean_str(p)) for f, p in cls["unguarded"]))
    out.append("/-- First-level derived pointers (`*p`, `p->field`) that are dereferenced on some path without a NULL test. -/")
    out.append("def unguardedDerived : List (String × String) := [\n  %s]\n" % ",\n  ".join("(%s, %s)" % (lean_str(f), lean_str(p)) for f, p in cls["unguarded_derived"]))
    out.append("def guardedDerived : List (String × String) := [\n  %s]\n" % ",\n  ".join("(%s, %s)" % (lean_str(f), lean_str(p)) for f, p in cls["guarded_derived"]))
    stats["unguarded_derived"] = ["%s(%s)" % x for x in cls["unguarded_derived"]]
    stats["guarded_derived"] = ["%s(%s)" % x for x in cls["guarded_derived"]]
    out.append("/-- Guarded parameters for which every path a NULL argument can take returns the same non-zero code. -/")
    out.append("def nullErrorParams : List (String × String × Nat) := [\n  %s]\n" % ",\n  ".join("(%s, %s, %d)" % (lean_str(f), lean_str(p), c) for f, p, c in cls["null_error"]))
    out.append("end Gen.ApiTables\n")
    return "\n".join(out), stats, gtab, ltab


def main(dst):
    text, stats, gtab, ltab = generate()
    if not os.path.exists(dst) or open(dst).read() != text:
        with open(dst, "w") as fh:
            fh.write(text)
    return stats, gtab, ltab


if __name__ == "__main__":
    text, stats, gtab, ltab = generate()
    if len(sys.argv) > 1:
        open(sys.argv[1], "w").write(text)
    else:
        sys.stdout.write(text)
    sys.stderr.write(repr(stats) + "\n")
