"""C07 handler specs, group 'pix' (see kernel_handlers.py): pack/unpack/convert, residual, distortion, sse, averages, utilities.
C side: harness/kshapes_pix.h"""

BLK = "the 22 AV1 block sizes 4x4..128x128"
ANY = "arbitrary pointer offsets, strides w, w+1, w+odd, large"


def register(H):
    k = lambda *v: (lambda m: dict(k=list(v)))  # noqa: E731

    H("residual8", r"svt_residual_kernel8bit", "void(uint8_t*,uint32_t,uint8_t*,uint32_t,int16_t*,uint32_t,uint32_t,uint32_t)", "h_two_in_one_out",
      "residual = input - pred, 8-bit: %s; any uint8; %s" % (BLK, ANY), k(0))
    H("residual16", r"svt_residual_kernel16bit", "void(uint16_t*,uint32_t,uint16_t*,uint32_t,int16_t*,uint32_t,uint32_t,uint32_t)", "h_two_in_one_out",
      "residual = input - pred, 16-bit samples < 2^bd, bd in {8,10}: %s; %s" % (BLK, ANY), k(1))
    H("picture_average", r"svt_picture_average_kernel", "void(EbByte,uint32_t,EbByte,uint32_t,EbByte,uint32_t,uint32_t,uint32_t)", "h_two_in_one_out",
      "rounded average of two 8-bit blocks: %s; %s" % (BLK, ANY), k(2))
    H("unpack_avg", r"svt_unpack_avg", "void(uint16_t*,uint32_t,uint16_t*,uint32_t,uint8_t*,uint32_t,uint32_t,uint32_t)", "h_two_in_one_out",
      "average of two 10-bit blocks reduced to 8 bit: block sizes up to 64x64 (widths 4..64: TEST_AVG_SIZES of test/PackUnPackTest.cc; the pointer has no "
      "caller in the encoder); samples < 1024 (C truncates v>>2 to uint8, larger values are not 10-bit data); %s" % ANY, k(3))
    H("unpack_avg_safe_sub", r"svt_unpack_avg_safe_sub", "void(uint16_t*,uint32_t,uint16_t*,uint32_t,uint8_t*,uint32_t,uint8_t,uint32_t,uint32_t)", "h_two_in_one_out",
      "as unpack_avg, widths 8..64, sub_pred in {0,1}; with sub_pred=1 the strides passed are twice the strides of a 2h-row block (rows 0,2,..,2h-2 and 2h-1 are "
      "written; the unit test only uses sub_pred=0; no caller in the encoder)", k(4))
    H("picture_average_1line", r"svt_picture_average_kernel1_line", "void(EbByte,EbByte,EbByte,uint32_t)", "h_avg_line",
      "rounded average of two 8-bit lines: width in {4,8,16,32,64} (the widths the SSE2 kernel implements; no caller in the encoder), any offsets")

    H("un_pack8", r"svt_un_pack8_bit_data", "void(uint16_t*,uint32_t,uint8_t*,uint32_t,uint32_t,uint32_t)", "h_one_in_one_out",
      "10-bit -> 8-bit (v>>2): %s plus 68x64,72x64,80x64,96x64 (TEST_COMMON_SIZES) and some w%%4==0/h even sizes; samples < 1024; %s; no caller in the encoder" % (BLK, ANY), k(0))
    H("convert_8_to_16", r"svt_convert_8bit_to_16bit", "void(uint8_t*,uint32_t,uint16_t*,uint32_t,uint32_t,uint32_t)", "h_one_in_one_out",
      "8-bit -> 16-bit copy: %s plus w%%4==0 / h even sizes; %s" % (BLK, ANY), k(1))
    H("convert_16_to_8", r"svt_convert_16bit_to_8bit", "void(uint16_t*,uint32_t,uint8_t*,uint32_t,uint32_t,uint32_t)", "h_one_in_one_out",
      "16-bit -> 8-bit copy of 8-bit content: samples <= 255 (C truncates, SIMD saturates; the callers convert 8-bit pictures held in 16-bit buffers); sizes as convert_8_to_16", k(2))
    H("copy_rect8_8_to_16", r"svt_copy_rect8_8bit_to_16bit", "void(uint16_t*,int32_t,const uint8_t*,int32_t,int32_t,int32_t)", "h_one_in_one_out",
      "CDEF copy_sb8_16: v rows x h columns 8-bit -> 16-bit; sizes as convert_8_to_16 (h = columns multiple of 4, v even); %s" % ANY, k(3))

    PK = "void(uint8_t*,uint32_t,uint8_t*,uint16_t*,uint32_t,uint32_t,uint32_t,uint32_t)"
    H("compressed_packmsb", r"svt_compressed_packmsb", PK, "h_pack",
      "8-bit + compressed 2-bit (4 pels/byte) -> 10-bit: width in {32,64} (compressed_pack_sb sends other widths to C), height even 2..64; %s" % ANY, k(0))
    H("pack2d", r"svt_pack2d_16_bit_src_mul4", PK, "h_pack",
      "8-bit + 2-bit (bits 7..6 of one byte per pel) -> 10-bit: width multiple of 4, height even (guard in pack2d_src), sizes 4x2..128x128; %s" % ANY, k(1))
    H("un_pack2d", r"svt_un_pack2d_16_bit_src_mul4", "void(uint16_t*,uint32_t,uint8_t*,uint8_t*,uint32_t,uint32_t,uint32_t,uint32_t)", "h_pack",
      "10-bit -> 8-bit + 2-bit planes: width multiple of 4, height even (guard in un_pack2d), samples < 1024, outn non-NULL; %s" % ANY, k(2))
    H("c_pack", r"svt_c_pack", "void(const uint8_t*,uint32_t,uint8_t*,uint32_t,uint8_t*,uint32_t,uint32_t)", "h_pack",
      "2-bit plane (one byte per pel) -> compressed 4 pels/byte: width in {32,64}, height even 2..64 (TEST_PACK_SIZES; no caller in the encoder); local_cache is scratch", k(3))

    H("full_distortion32", r"svt_full_distortion_kernel32_bits", "void(int32_t*,uint32_t,int32_t*,uint32_t,uint64_t[DIST_CALC_TOTAL],uint32_t,uint32_t)", "h_coeff_dist",
      "sum of squared coefficient differences / energies (uint64 result[2]): the 19 transform sizes and their versions capped at 32; coefficients in +-(2^18-1); strides w or larger", k(0))
    H("full_distortion_cbf_zero32", r"svt_full_distortion_kernel_cbf_zero32_bits", "void(int32_t*,uint32_t,uint64_t[DIST_CALC_TOTAL],uint32_t,uint32_t)", "h_coeff_dist",
      "as full_distortion32 without reconstructed coefficients", k(1))

    SD = "uint64_t(uint8_t*,uint32_t,uint32_t,uint8_t*,int32_t,uint32_t,uint32_t,uint32_t)"
    SZ = BLK + " plus widths 12,20,24,28,36,44,96,100 and odd heights (test/SpatialFullDistortionTest.cc: width multiple of 4 in 4..128)"
    H("spatial_full_distortion", r"svt_spatial_full_distortion_kernel", SD, "h_sum2", "8-bit SSE with pointer offsets: %s; any uint8; %s" % (SZ, ANY), k(0))
    H("full_distortion16", r"svt_full_distortion_kernel16_bits", SD, "h_sum2", "16-bit SSE (uint16 buffers passed as uint8_t*, offsets in samples): %s; samples < 2^bd, bd in {8,10}" % SZ, k(1))
    SSE = "int64_t(const uint8_t*,int,const uint8_t*,int,int,int)"
    H("aom_sse", r"svt_aom_sse", SSE, "h_sum2", "8-bit SSE w x h: %s (the only caller passes block dimensions; other widths with h%%4!=0 make the AVX2 code read further rows); %s" % (BLK, ANY), k(2))
    H("aom_highbd_sse", r"svt_aom_highbd_sse", SSE, "h_sum2", "10-bit SSE (uint16 buffers cast to uint8_t*): %s; samples < 1024" % BLK, k(3))
    H("variance_highbd", r"variance_highbd", "uint32_t(const uint16_t*,int,const uint16_t*,int,int,int,uint32_t*)", "h_sum2",
      "10-bit variance + sse: 16x16 and 32x32 only (the temporal-filter callers' sizes; the AVX2 function implements only these: switch(w) + assert); samples < 1024; %s" % ANY, k(4))
    H("mse16x16", r"svt_aom_mse16x16", "uint32_t(const uint8_t*,int32_t,const uint8_t*,int32_t,uint32_t*)", "h_sum2", "8-bit 16x16 MSE (+*sse); %s" % ANY, k(6))
    H("highbd_8_mse16x16", r"svt_aom_highbd_8_mse16x16", "void(const uint8_t*,int32_t,const uint8_t*,int32_t,uint32_t*)", "h_sum2",
      "16x16 MSE of 8-bit content in 16-bit buffers (CONVERT_TO_BYTEPTR), samples <= 255", k(7))

    H("subtract_block", r"svt_aom_subtract_block", "void(int,int,int16_t*,ptrdiff_t,const uint8_t*,ptrdiff_t,const uint8_t*,ptrdiff_t)", "h_subtract_block",
      "diff = src - pred (rows, cols first): %s; diff/pred stride w or larger with 8-byte aligned rows start, src anywhere" % BLK, k(0))
    H("highbd_subtract_block", r"svt_aom_highbd_subtract_block", "void(int,int,int16_t*,ptrdiff_t,const uint8_t*,ptrdiff_t,const uint8_t*,ptrdiff_t,int)", "h_subtract_block",
      "as subtract_block with uint16 samples < 2^bd (buffers cast to uint8_t*, as the callers do), bd in {8,10}", k(1))

    H("sum_squares_i16", r"aom_sum_squares_i16", "uint64_t(const int16_t*,uint32_t)", "h_reduce1d",
      "sum of squares of n int16 residuals: n in 1..16384 (all residues mod 64), values in +-4095 (differences of <= 12-bit samples; the full int16 range is left out)", k(0))
    H("satd", r"svt_aom_satd", "int(const TranLow*,int)", "h_reduce1d", "sum of |coeff|: length in {16,64,256,1024}, coefficients in +-(2^18-1)", k(1))
    H("block_error", r"svt_av1_block_error", "int64_t(const TranLow*,const TranLow*,intptr_t,int64_t*)", "h_reduce1d",
      "sum (coeff-dqcoeff)^2 and sum coeff^2: n in {16,..,1024} (multiples of 16); coeff in +-255*128 (the only caller, get_quantize_error in tpl, passes the "
      "16x16 Hadamard transform of an 8-bit residual), dqcoeff = coeff, 0, or coeff quantised with a step q in 4..1336 clamped to int16 (larger values are "
      "left out: C multiplies in int and the AVX2 code packs both inputs to int16)", k(2))

    H("log2f", r"svt_log2f", "uint32_t(uint32_t)", "h_log2f", "floor(log2 x) for x in 1..2^32-1 (powers of two, +-1, random); x = 0 left out (C result is undefined behaviour: (uint32_t)log2(0))")
    H("memcpy", r"svt_memcpy", "void(void*,void const*,size_t)", "h_memcpy", "non-overlapping copy, size 0..5000, any alignment")
    H("initialize_buffer_32bits", r"svt_initialize_buffer_32bits", "void(uint32_t*,uint32_t,uint32_t,uint32_t)", "h_init32",
      "fill count128*4+count32 uint32 with a value: the callers' (21,1), (64,0) and random count128 < 100, count32 < 4; 16-byte aligned pointer")
