"""Enumerate the members of EbSvtAv1EncConfiguration from the current header (clang AST).
Emits an X-macro header for the C harnesses and returns the field list for the Lean generators."""
import os, re, sys
sys.path.insert(0, os.path.dirname(os.path.abspath(__file__)))
import cfun

_cache = {}


def fields(struct="EbSvtAv1EncConfiguration", header="Source/API/EbSvtAv1Enc.h"):
    """-> list of dicts {name, ctype:(kind,bits), qual, array:int|None, struct:bool}"""
    key = (struct, header)
    if key in _cache:
        return _cache[key]
    objs = cfun.clang_ast(header, flt=struct)
    rec = None

    def walk(n):
        nonlocal rec
        if n.get("kind") == "RecordDecl" and n.get("completeDefinition") and any(c.get("kind") == "FieldDecl" for c in n.get("inner", [])):
            if n.get("name") == struct or rec is None:
                rec = n
        for c in n.get("inner", []):
            walk(c)
    for o in objs:
        walk(o)
    if rec is None:
        raise cfun.Unsupported("struct %s not found" % struct)
    res = []
    for f in rec["inner"]:
        if f.get("kind") != "FieldDecl":
            continue
        q = f["type"].get("desugaredQualType") or f["type"]["qualType"]
        qual = f["type"]["qualType"]
        m = re.match(r"(.*)\[(\d+)\]$", q)
        arr = None
        base = q
        if m:
            base, arr = m.group(1).strip(), int(m.group(2))
        ct = cfun.ctype({"qualType": base}) if base in cfun.TYPES else (
            cfun.ctype({"qualType": re.sub(r"\[\d+\]$", "", qual).strip()}))
        is_struct = ("struct" in base) or (ct[0] == "E" and not base.startswith("enum") and re.sub(r"\[\d+\]$", "", qual).strip() in ("SvtAv1FixedBuf", "PredictionStructureConfigEntry"))
        if base.startswith("enum") or ct[0] == "E" and not is_struct:
            ct = ("U", 32)
        res.append({"name": f["name"], "ctype": ct, "qual": re.sub(r"\[\d+\]$", "", qual).strip(), "array": arr, "struct": is_struct})
    _cache[key] = res
    return res


def xmacro_header():
    out = ["/* GENERATED from /repo Source/API/EbSvtAv1Enc.h by xlate/cfgfields.py */\n"]
    out.append("#define CFG_SCALARS(X) \\\n")
    for f in fields():
        if not f["struct"] and f["array"] is None:
            out.append("  X(%s) \\\n" % f["name"])
    out.append("\n#define CFG_ARRAYS(X) \\\n")
    for f in fields():
        if not f["struct"] and f["array"] is not None:
            out.append("  X(%s, %d) \\\n" % (f["name"], f["array"]))
    out.append("\n")
    return "".join(out)


if __name__ == "__main__":
    for f in fields():
        print(f)
    print(xmacro_header())
