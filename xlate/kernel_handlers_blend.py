"""C07 handler specs, group 'blend' (see kernel_handlers.py). register(H) adds the handlers."""

BLEND_COMMON = ("mask values 0..64 (random, all 0, all 64, checker, ramp, 63..64, outliers, 0..1); sources at element offsets 0..32 with strides "
                "w, w+1, w+odd, large; dst separate, dst==src0 or dst==src1 (same stride) as in test/EbBlend_a64_mask*_test.cc and the OBMC callers")


def register(H):
    # ---------------------------------------------------------------- blend_a64 family
    H("blend_a64_mask", r"svt_aom_blend_a64_mask",
      "void(uint8_t*,uint32_t,const uint8_t*,uint32_t,const uint8_t*,uint32_t,const uint8_t*,uint32_t,int,int,int,int)", "h_blend_mask",
      "8-bit blend with 2-D mask: the 22 AV1 block sizes plus 2x2,2x4,4x2,2x8,8x2 (C-fallback path), subx,suby in {0,1}^2 (mask is (w<<subx) x (h<<suby), "
      "any stride >= its width), any uint8 samples; " + BLEND_COMMON,
      lambda m: dict(k=[0]))
    H("blend_a64_mask_hbd", r"svt_aom_highbd_blend_a64_mask",
      "void(uint8_t*,uint32_t,const uint8_t*,uint32_t,const uint8_t*,uint32_t,const uint8_t*,uint32_t,int,int,int,int,int)", "h_blend_mask",
      "16-bit blend with 2-D mask: as blend_a64_mask with samples < 2^bd, bd in {8,10,12}; the uint8_t* arguments are uint16_t* cast plainly "
      "(both the C reference and svt_aom_highbd_blend_a64_mask_8bit_sse4_1 cast back with (uint16_t*), no CONVERT_TO_BYTEPTR)",
      lambda m: dict(k=[1]))
    H("blend_a64_d16_lbd", r"svt_aom_lowbd_blend_a64_d16_mask",
      "void(uint8_t*,uint32_t,const CONV_BUF_TYPE*,uint32_t,const CONV_BUF_TYPE*,uint32_t,const uint8_t*,uint32_t,int,int,int,int,ConvolveParams*)",
      "h_blend_mask",
      "8-bit masked compound from CONV_BUF_TYPE sources: the 22 AV1 block sizes (w,h >= 4 as asserted), subw,subh in {0,1}^2, sources in [0, 2^14-1] "
      "(test/EbBlend_a64_mask_test.cc; superset of the compound convolve output), ConvolveParams round_0=3, round_1=7 (get_conv_params_no_round, compound); "
      "dst never aliases a source; mask 0..64; arbitrary offsets/strides",
      lambda m: dict(k=[2]))
    H("blend_a64_d16_hbd", r"svt_aom_highbd_blend_a64_d16_mask",
      "void(uint8_t*,uint32_t,const CONV_BUF_TYPE*,uint32_t,const CONV_BUF_TYPE*,uint32_t,const uint8_t*,uint32_t,int,int,int,int,ConvolveParams*,const int)",
      "h_blend_mask",
      "16-bit masked compound from CONV_BUF_TYPE sources: as blend_a64_d16_lbd with bd in {8,10,12}, sources in [0,2^14-1] for bd 8 and [0,2^16-1] for bd 10/12 "
      "(unit test ranges), round_0 = 3 (5 for bd 12), round_1 = 7; dst is uint16_t* cast plainly",
      lambda m: dict(k=[3]))
    BL1 = "void(uint8_t*,uint32_t,const uint8_t*,uint32_t,const uint8_t*,uint32_t,const uint8_t*,int,int)"
    BL1H = "void(uint8_t*,uint32_t,const uint8_t*,uint32_t,const uint8_t*,uint32_t,const uint8_t*,int,int,int)"
    BL1W = "void(uint16_t*,uint32_t,const uint16_t*,uint32_t,const uint16_t*,uint32_t,const uint8_t*,int,int,int)"
    D1 = ("1-D mask blend (hmask: mask[w], vmask: mask[h]): w,h in {2,4,..,128}^2 (test/EbBlend_a64_mask_1d_test.cc; OBMC uses 2..64), half of the cases with "
          "dst==src0 as OBMC calls it; ")
    H("blend_a64_hvmask", r"svt_aom_blend_a64_(?P<d>h|v)mask", BL1, "h_blend_1d", D1 + "any uint8 samples; " + BLEND_COMMON,
      lambda m: dict(k=[1 if m.group("d") == "v" else 0, 0]))
    H("blend_a64_hvmask_hbd8", r"svt_aom_highbd_blend_a64_(?P<d>h|v)mask_8bit", BL1H, "h_blend_1d",
      D1 + "uint16 samples < 2^bd behind plainly cast uint8_t*, bd in {8,10,12}; " + BLEND_COMMON,
      lambda m: dict(k=[1 if m.group("d") == "v" else 0, 1]))
    # ---------------------------------------------------------------- compound diff-weighted masks, wedge helpers
    DW = ("DIFFWTD_38 / DIFFWTD_38_INV mask (w*h contiguous output at 16-byte multiples: seg_mask is DECLARE_ALIGNED(16)); the 22 AV1 block sizes "
          "(test/CompoundUtilTest.cc; the encoder only uses >= 8x8 luma blocks); sources at element offsets 0..32, strides w, w+1, w+odd, large; "
          "patterns lo/hi/checker/ramp/random/outlier/near and src1 = src0 +- small (around the /16 steps); ")
    H("diffwtd_mask", r"svt_av1_build_compound_diffwtd_mask", "void(uint8_t*,DIFFWTD_MASK_TYPE,const uint8_t*,int,const uint8_t*,int,int,int)", "h_diffwtd",
      DW + "any uint8 samples", lambda m: dict(k=[0]))
    H("diffwtd_mask_hbd", r"svt_av1_build_compound_diffwtd_mask_highbd",
      "void(uint8_t*,DIFFWTD_MASK_TYPE,const uint8_t*,int,const uint8_t*,int,int,int,int)", "h_diffwtd",
      DW + "uint16 samples < 2^bd behind plainly cast uint8_t* (C and SIMD both cast with (uint16_t*)), bd in {8,10,12} (encoder passes 10; the unit test only feeds 8-bit values)",
      lambda m: dict(k=[1]))
    H("diffwtd_mask_d16", r"svt_av1_build_compound_diffwtd_mask_d16",
      "void(uint8_t*,DIFFWTD_MASK_TYPE,const CONV_BUF_TYPE*,int,const CONV_BUF_TYPE*,int,int,int,ConvolveParams*,int)", "h_diffwtd",
      DW + "CONV_BUF_TYPE sources in [0,2^14-1] (bd 8) / [0,2^16-1] (bd 10,12) = the unit test's in_precision; ConvolveParams round_0 3 (5 for bd 12), round_1 7",
      lambda m: dict(k=[2]))
    WD = ("N = 64,128,..,16384 (bw*bh) and random multiples of 64 (SIMD requires N % 64 == 0; callers assert N >= 64); residual magnitudes <= 255, 1023 "
          "(8/10-bit encoder) and 4095 (13-bit signed, test/WedgeUtilTest.cc); arrays contiguous at arbitrary element offsets; ")
    H("wedge_sse", r"svt_av1_wedge_sse_from_residuals", "uint64_t(const int16_t*,const int16_t*,const uint8_t*,int)", "h_wedge",
      WD + "mask 0..64 (random / constant 0 / 64 / checker / ramp / 63..64)", lambda m: dict(k=[0]))
    H("wedge_delta_squares", r"svt_av1_wedge_compute_delta_squares", "void(int16_t*,const int16_t*,const int16_t*,int)", "h_wedge",
      WD + "d == a in place (as pick_wedge calls it: ds = residual0) and d separate", lambda m: dict(k=[1]))
    H("wedge_sign", r"svt_av1_wedge_sign_from_residuals", "int8_t(const int16_t*,const uint8_t*,int,int64_t)", "h_wedge",
      WD + "N <= 8128 (assert N < 8192 in the SIMD; encoder N <= 1024); ds = C delta-squares of two residual arrays; limit = 32*(sum r0^2 - sum r1^2) as pick_wedge, "
      "and the exact accumulator value -1/0/+1 (decision boundary); mask 0..64", lambda m: dict(k=[2]))
    # ---------------------------------------------------------------- chroma from luma
    CP = ("CfL prediction: ac buffer int16 with row pitch CFL_BUF_LINE=32 (32-byte aligned), values in +-8*(2^bd-1) (sub-sampled luma minus its average); "
          "pred = constant DC block (the SIMD reads only pred[0] / the first row: cfl_prediction and the coding loops always run it on a DC_PRED chroma prediction; "
          "test/intrapred_cfl_test.cc states the same assumption), value 0 / max / random; dst == pred in place or a separate buffer; alpha_q3 in -16..16; "
          "chroma sizes = tx sizes with w,h in {4,8,16,32} (encoder: <= 16x16; 2-wide sizes of the unit test left out: never produced); arbitrary pred/dst offsets and strides; ")
    H("cfl_predict_lbd", r"svt_cfl_predict_lbd", "void(const int16_t*,uint8_t*,int32_t,uint8_t*,int32_t,int32_t,int32_t,int32_t,int32_t)", "h_cfl_predict",
      CP + "bit_depth = 8", lambda m: dict(k=[0]))
    H("cfl_predict_hbd", r"svt_cfl_predict_hbd", "void(const int16_t*,uint16_t*,int32_t,uint16_t*,int32_t,int32_t,int32_t,int32_t,int32_t)", "h_cfl_predict",
      CP + "bit_depth in {8,10,12} (encoder passes 10)", lambda m: dict(k=[1]))
    CS = ("CfL 4:2:0 luma sub-sampling: luma w,h in {4,8,16,32,64}^2 (encoder: {8,16,32}^2; test/intrapred_cfl_test.cc: block sizes up to 64 wide; h <= 64 so that the "
          "output fits the 32x32 ac buffer), input at any offset/stride, output int16 rows of pitch 32 (w/2 x h/2 written, 32-byte aligned); ")
    H("cfl_subsample_lbd", r"svt_cfl_luma_subsampling_420_lbd", "void(const uint8_t*,int32_t,int16_t*,int32_t,int32_t)", "h_cfl_subsample",
      CS + "any uint8 samples", lambda m: dict(k=[0]))
    H("cfl_subsample_hbd", r"svt_cfl_luma_subsampling_420_hbd", "void(const uint16_t*,int32_t,int16_t*,int32_t,int32_t)", "h_cfl_subsample",
      CS + "samples < 2^bd, bd in {8,10,12}", lambda m: dict(k=[1]))
    H("cfl_subtract_average", r"svt_subtract_average", "void(int16_t*,int32_t,int32_t,int32_t,int32_t)", "h_cfl_subavg",
      "CfL average removal in place on the 32-pitch ac buffer: tx sizes with w,h in {4,8,16,32}; values in [0, 8*(2^bd-1)], bd 8/10/12 (output range of the luma "
      "sub-sampling; the SIMD adds row pairs in unsigned 16 bit); round_offset = w*h/2, num_pel_log2 = log2(w*h) as all callers pass")
    # ---------------------------------------------------------------- motion estimation / mode decision SAD kernels
    NXM = "uint32_t(const uint8_t*,uint32_t,const uint8_t*,uint32_t,uint32_t,uint32_t)"
    H("nxm_sad", r"svt_nxm_sad_kernel", NXM, "h_nxm_sad",
      "SAD of a w x h block (ME search-centre / decimated-SB SAD): w in {4,8,16,24,32,40,48,56,64} (SB widths at the picture edge are multiples of 8; 4 is handled by the "
      "kernel), h in {4,8,..,32,48,64} (multiples of 4: sb_height/2 of a multiple-of-8 height; the w=4/8 SIMD paths require h%4==0; odd heights of test/SadTest.cc "
      "(16x5, 16x10, 32x10) left out: not produced by the callers); any uint8 samples, any pointer offset, strides w, w+1, w+odd, large (callers pass 2*stride)",
      lambda m: dict(k=[0]))
    H("nxm_sad_sub_sampled", r"svt_nxm_sad_kernel_sub_sampled", NXM, "h_nxm_sad",
      "SAD of a w x h block (MD fast cost, luma and chroma): the 22 AV1 block sizes (4x4..128x128; chroma = the same set) plus the 24/48-wide sizes of test/SadTest.cc; "
      "any uint8 samples, any offset/stride",
      lambda m: dict(k=[1]))
    H("sad_16b", r"sad_16b_kernel", "uint32_t(uint16_t*,uint32_t,uint16_t*,uint32_t,uint32_t,uint32_t)", "h_nxm_sad",
      "16-bit SAD of a w x h block: sizes as nxm_sad_sub_sampled (w%4==0; h%4==0 which the 4-wide tail needs), samples < 2^bd, bd in {8,10,12} (encoder: 10), any offset/stride",
      lambda m: dict(k=[2]))
    H("sad_loop", r"svt_sad_loop_kernel",
      "void(uint8_t*,uint32_t,uint8_t*,uint32_t,uint32_t,uint32_t,uint64_t*,int16_t*,int16_t*,uint32_t,int16_t,int16_t)", "h_sad_loop",
      "HME full search: best (sad, x, y) over search_w x search_h positions, first minimum in raster order; block sizes of HME level 0/1/2 = the 64x64 SB clipped at "
      "the right/bottom picture edge (picture dimensions are multiples of 8) at 1/4, 1/2, full size: w,h in {2..16 step 2}, {4..32 step 4}, {8..64 step 8}, the height "
      "also halved (sub-SAD search: odd heights at level 0); widths with an own SIMD path: 6 heights each, the others (2,10,14,20,28,40,56: generalised path): all 8 + 3 halved; "
      "search_w in 1..40 (multiples of 8 and every remainder mod 8; <= 17 for blocks >= 1024 samples), search_h 1..5 (1..2 for big blocks) -- budget, test/SadTest.cc goes "
      "to 640x400; ref_stride = src_stride_raw or 2*src_stride_raw; any uint8 samples incl. flat areas (all positions tie), src=255/ref=0 (16-bit accumulator saturation "
      "paths), checker, random, near, a planted exact / near match; x/y_search_center pre-set to random values; any pointer offsets, src stride w, w+1, w+odd, large. "
      "KNOWN FAIL inside this domain: blocks 8xH and 24xH with H > 32 (sse4_1 and avx2) and 40xH (H >= 48), 56xH (H >= 40) (avx2) when the minimum SAD needs more than "
      "16 bits per partial accumulator (mean abs difference above ~128..204): HME level 2 of right-edge SBs with full-SAD search")
    BS = ("best-SAD start values: MAX_SAD_VALUE=128*128*255 (encoder initialisation), 0x7FFFFFFF (test/SadTest.cc: must stay below 2^31, the SIMD compares signed), 0, "
          "and values equal to / +-1 around / random around the SAD that the call computes (both outcomes of the strict <); best-MV start values any uint32; "
          "mv = (y<<18)|(uint16)(x<<2) with |x|,|y| <= 1024 integer pel, or 0; ")
    H("ext_sad_8x8_16x16", r"svt_ext_sad_calculation_8x8_16x16",
      "void(uint8_t*,uint32_t,uint8_t*,uint32_t,uint32_t*,uint32_t*,uint32_t*,uint32_t*,uint32_t,uint32_t*,uint32_t*,uint8_t)", "h_ext_sad_8x8_16x16",
      "ME: 8x8 and 16x16 SADs of one 16x16 block at one search position, sub_sad in {0,1}; " + BS +
      "src at 16-sample multiples with stride 64 (the 64x64 SB buffer) or any stride, ref anywhere; any uint8 samples, near matches")
    H("ext_sad_32x32_64x64", r"svt_ext_sad_calculation_32x32_64x64", "void(uint32_t*,uint32_t*,uint32_t*,uint32_t*,uint32_t*,uint32_t,uint32_t*)", "h_ext_sad_32_64",
      "ME: 32x32/64x64 SADs from 16 16x16 SADs in [0, 16*16*255] (also ranges 0..255 and 0..4000: ties); " + BS, lambda m: dict(k=[0]))
    H("ext_eight_sad_32x32_64x64", r"svt_ext_eight_sad_calculation_32x32_64x64",
      "void(uint32_t[16][8],uint32_t*,uint32_t*,uint32_t*,uint32_t*,uint32_t,uint32_t[4][8])", "h_ext_sad_32_64",
      "ME: as ext_sad_32x32_64x64 for 8 consecutive horizontal search positions (p_sad16x16[16][8] -> p_sad32x32[4][8]; best MV x + 4*position); " + BS,
      lambda m: dict(k=[1]))
    H("ext_all_sad_8x8_16x16", r"svt_ext_all_sad_calculation_8x8_16x16",
      "void(uint8_t*,uint32_t,uint8_t*,uint32_t,uint32_t,uint32_t*,uint32_t*,uint32_t*,uint32_t*,uint32_t[16][8],uint32_t[64][8],uint8_t)", "h_ext_all_sad",
      "ME: all 8x8 and 16x16 SADs of a 64x64 source block at 8 consecutive horizontal search positions (ref 71x64), sub_sad in {0,1}; " + BS +
      "best arrays all MAX_SAD_VALUE / all around the computed SADs / mixed; src stride 64 (64-byte aligned SB buffer) or any stride/offset; "
      "any uint8 samples, the source block planted (exact or +-2 noise) at one of the positions")
    # ---------------------------------------------------------------- picture statistics
    MS = "any uint8 samples (extremes, checker, column/row stripes, ramps, random, near-flat); any pointer offset; strides 8.., odd, and picture-like (2048.., 8512); "
    H("mean_square_8x8", r"svt_compute_mean_square_values_8x8", "uint64_t(uint8_t*,uint32_t,uint32_t,uint32_t)", "h_mean8x8",
      "mean of squares of an 8x8 block << 16: " + MS + "input_area_width = input_area_height = 8 (the only values the callers pass; the SIMD ignores them)",
      lambda m: dict(k=[0]))
    H("sub_mean_8x8", r"svt_compute_sub_mean_8x8", "uint64_t(uint8_t*,uint16_t)", "h_mean8x8",
      "sum of rows 0,2,4,6 of an 8x8 block << 3: " + MS + "stride < 65536 (uint16_t)", lambda m: dict(k=[1]))
    H("interm_var_four8x8", r"svt_compute_interm_var_four8x8", "void(uint8_t*,uint16_t,uint64_t*,uint64_t*)", "h_mean8x8",
      "sub-sampled mean and mean of squares of four horizontally adjacent 8x8 blocks (32x8 input): " + MS + "stride < 65536", lambda m: dict(k=[2]))
    H("haar_ac_sad_8x8", r"svt_av1_haar_ac_sad_8x8_uint8_input", "int(uint8_t*,int,int)", "h_haar",
      "AC energy of the 8x8 5/3 wavelet: hbd=0 with any uint8 samples (the only mode the encoder uses: firstpass.c) and hbd=1 with CONVERT_TO_BYTEPTR "
      "10/12-bit samples (test/dwt_test.cc covers 10 bit); any offset, strides 8.., odd, picture-like")
    H("cross_correlation", r"svt_av1_compute_cross_correlation", "double(unsigned char*,int,int,int,unsigned char*,int,int,int)", "h_cross_corr",
      "normalised cross correlation of two 13x13 windows (return value double, compared bit-exactly): images of 13..52 x 13..32 with any stride/offset, "
      "window centres at eligible points (x,y >= 6, x+6 < width, y+6 < height as is_eligible_point requires); any uint8 samples incl. flat windows "
      "(var2 = 0: inf/NaN in both) and correlated windows (im2 window = im1 window + noise)")
    H("calc_frame_error", r"svt_av1_calc_frame_error", "int64_t(const uint8_t*const,int,const uint8_t*const,int,int,int)", "h_frame_error",
      "sum of error_measure(dst - ref): block sizes of warp_error (<= 32x32, any w,h incl. 1 and odd; ref stride 32) and larger areas up to 176x20 / 80x48 "
      "(whole pictures as in svt_av1_frame_error / test/frame_error_test.cc left out: budget; the kernel is a plain sum over 16x4 tiles + remainders); "
      "any uint8 samples, any offset/stride")
    H("gradient_hist", r"svt_av1_get_gradient_hist", "void(const uint8_t*,int,int,int,uint64_t*)", "h_gradient_hist",
      "gradient-angle histogram of a block: (rows, cols) = the 22 AV1 block sizes (test/EbHighbdIntraPredictionTests.cc; the only caller, angle_estimation, "
      "is itself unused in this encoder version), any stride/offset, any uint8 samples incl. tiny gradients (dx or dy = 0); hist[8] accumulated on top of "
      "zeros or random start values")
    H("blend_a64_hvmask_hbd16",r"svt_aom_highbd_blend_a64_(?P<d>h|v)mask_16bit", BL1W, "h_blend_1d",
      D1 + "uint16 samples < 2^bd, bd in {8,10,12}; " + BLEND_COMMON,
      lambda m: dict(k=[1 if m.group("d") == "v" else 0, 1]))
