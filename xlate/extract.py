"""Extract the source text of a C function from /repo via clang's AST source ranges, so a harness
can compile *the code that is there now* for `static` functions without linking the library."""
import os, sys
sys.path.insert(0, os.path.dirname(os.path.abspath(__file__)))
import cfun


def _off(loc):
    if "offset" in loc:
        return loc["offset"], loc.get("tokLen", 1)
    for k in ("expansionLoc", "spellingLoc"):
        if k in loc and "offset" in loc[k]:
            return loc[k]["offset"], loc[k].get("tokLen", 1)
    raise cfun.Unsupported("no offset in location")


def function_text(path, name, rename=None, defined_in=None):
    """`defined_in`: file holding the definition when it is a header included by `path`."""
    full = path if os.path.isabs(path) else os.path.join(cfun.REPO, path)
    objs = cfun.clang_ast(full, flt=name)
    if defined_in:
        full = defined_in if os.path.isabs(defined_in) else os.path.join(cfun.REPO, defined_in)
    fns = cfun.find_functions(objs, name)
    if len(fns) != 1:
        raise cfun.Unsupported("%s: expected exactly one definition of %s, found %d" % (path, name, len(fns)))
    fn = fns[0]
    b, _ = _off(fn["range"]["begin"])
    e, tl = _off(fn["range"]["end"])
    src = open(full, "rb").read()
    text = src[b:e + tl].decode("utf-8", "replace")
    if name not in text.split("{")[0] or not text.rstrip().endswith("}"):
        raise cfun.Unsupported("source range of %s in %s does not look like its definition" % (name, full))
    if rename:
        import re
        text = re.sub(r"\b%s\b" % re.escape(name), rename, text, count=1)
    return text
