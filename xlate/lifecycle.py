"""lifecycle.py — constructor / destructor tables of the encoder library -> lean/SvtVerif/Gen/Lifecycle.lean (C15, C16).

Source level, not AST level: the allocation discipline of SVT-AV1 lives in macros (EB_NEW, EB_MALLOC*, EB_CREATE_*,
EB_DELETE*, EB_FREE*, EB_DESTROY_*; EbObject.h, EbMalloc.h, EbThreads.h, EbDefinitions.h) which the clang AST shows only
expanded.  Each .c file is run through `gcc -E -fdirectives-only` (conditionals and includes resolved, macros NOT
expanded), the main file's lines are kept, and a small statement parser (blocks, if/else, loops, calls, assignments,
returns) walks every `*_ctor` / `*_dctor` pair.

For a class X (functions X_ctor, X_dctor) the translator emits
  pre   : constructor events that precede `obj->dctor = X_dctor` in source order
  post  : events after it (loops / branches are flattened: the Lean semantics lets a script run `post` events in any
          order and number, which covers every path)
  rels  : the destructor's releases, each with the members it dereferences without a NULL test (`needs`)
Events: alloc member kind | new member class | call | failRet   (Model/Unwind.lean `Ev`).

Member identity is the access path from the object with local aliases resolved (`ctx = obj->priv` => `priv.x`), array
subscripts normalised to `[]`.  What is NOT tracked: the values of counts / conditions (a release guarded by an
ownership flag counts as a release; a loop count in the destructor is assumed to equal the one in the constructor),
aliasing between different objects.

The translator REFUSES (raises cfun.Unsupported) on statement shapes it does not understand inside a ctor/dctor, unless
the class is in the reviewed ALLOW list below (then the class is reported as `not covered`, with the reason).
"""
import os
import re
import subprocess
import sys

sys.path.insert(0, os.path.dirname(os.path.abspath(__file__)))
import cfun
from cfun import Unsupported

REPO = cfun.REPO
SRC_DIRS = ["Source/Lib/Common/Codec", "Source/Lib/Encoder/Codec", "Source/Lib/Encoder/Globals"]

# ---------------------------------------------------------------------------------------------- macro tables
# fallible creation macros: name -> (kind, index of the target argument, extra element slot created too?)
ALLOC = {
    "EB_MALLOC": ("heap", 0), "EB_CALLOC": ("heap", 0), "EB_MALLOC_ARRAY": ("heap", 0), "EB_CALLOC_ARRAY": ("heap", 0),
    "EB_ALLOC_PTR_ARRAY": ("heap", 0), "EB_MALLOC_ALIGNED": ("aligned", 0), "EB_MALLOC_ALIGNED_ARRAY": ("aligned", 0),
    "EB_CALLOC_ALIGNED_ARRAY": ("aligned", 0), "EB_CREATE_MUTEX": ("mutex", 0), "EB_CREATE_SEMAPHORE": ("semaphore", 0),
    "EB_CREATE_THREAD": ("thread", 0),
}
ALLOC2 = {   # two primitives: the array and its element(s)
    "EB_MALLOC_2D": ("heap", "heap"), "EB_CALLOC_2D": ("heap", "heap"), "EB_CREATE_THREAD_ARRAY": ("heap", "thread"),
}
# release macros: name -> which slots of the path P are released: "self" = P, "elems" = P[]
RELEASE = {
    "EB_FREE": ["self"], "EB_FREE_ARRAY": ["self"], "EB_FREE_ALIGNED": ["self"], "EB_FREE_ALIGNED_ARRAY": ["self"],
    "EB_DESTROY_MUTEX": ["self"], "EB_DESTROY_SEMAPHORE": ["self"], "EB_DESTROY_THREAD": ["self"],
    "EB_DELETE": ["self"], "EB_FREE_2D": ["self", "elems"], "EB_FREE_PTR_ARRAY": ["self", "elems"],
    "EB_DELETE_PTR_ARRAY": ["self", "elems"], "EB_DESTROY_THREAD_ARRAY": ["self", "elems"], "free": ["self"],
}
# release macros that test their (array) argument for NULL before touching the elements
NULLSAFE_ARRAY = {"EB_FREE_2D", "EB_FREE_PTR_ARRAY", "EB_DELETE_PTR_ARRAY", "EB_DESTROY_THREAD_ARRAY"}

# classes the translator cannot model; they are listed in the evidence as NOT COVERED (reviewed by hand)
ALLOW = {
    # name: reason
    "downscaled_source_buffer_desc": "not a class constructor: builds three picture buffers into caller-supplied out-parameters "
                                     "(EbPictureControlSet.c:1020); exercised by fault injection only",
}

KINDS = ["heap", "aligned", "mutex", "semaphore", "thread"]

# functions that continue the construction of an object after its constructor: class -> [(function, local variable that is the object)]
EXTRA_CTORS = {
    "svt_enc_handle": [("svt_av1_enc_init", "enc_handle_ptr")],
}


# ---------------------------------------------------------------------------------------------- source access
def strip_comments(src):
    out = []
    i, n = 0, len(src)
    while i < n:
        c = src[i]
        if src.startswith("//", i):
            while i < n and src[i] != "\n":
                i += 1
        elif src.startswith("/*", i):
            j = src.find("*/", i + 2)
            j = n if j < 0 else j + 2
            out.append(re.sub(r"[^\n]", " ", src[i:j]))
            i = j
        elif c == '"' or c == "'":
            q = c
            j = i + 1
            while j < n and src[j] != q:
                j += 2 if src[j] == "\\" else 1
            out.append(q + " " * (j - i - 1) + q)     # blank string contents (keeps length)
            i = j + 1
        else:
            out.append(c)
            i += 1
    return "".join(out)


_DIRCACHE = {}
_STUB = []


def stub_dir():
    """EbVersion.h is generated by cmake; an empty stand-in is enough for the preprocessor"""
    if not _STUB:
        import tempfile
        d = tempfile.mkdtemp(prefix="lifecycle_stub_")
        open(os.path.join(d, "EbVersion.h"), "w").write("#define SVT_AV1_CVS_VERSION \"verif\"\n")
        _STUB.append(d)
    return _STUB[0]


_HDR = []


def headers_digest():
    """one digest over every header the preprocessor can see (conditionals depend on them)"""
    if not _HDR:
        import hashlib
        h = hashlib.sha256()
        for d in cfun.INC:
            full = os.path.join(REPO, d)
            if os.path.isdir(full):
                for fn in sorted(os.listdir(full)):
                    if fn.endswith(".h"):
                        h.update(fn.encode())
                        h.update(open(os.path.join(full, fn), "rb").read())
        _HDR.append(h.hexdigest())
    return _HDR[0]


def directives_only(relpath):
    """Main-file text after conditional compilation (macros unexpanded), line numbers preserved."""
    if relpath in _DIRCACHE:
        return _DIRCACHE[relpath]
    path = os.path.join(REPO, relpath)
    import hashlib
    cdir = os.path.join(os.path.dirname(os.path.dirname(os.path.abspath(__file__))), ".cache", "lifecycle")
    ckey = hashlib.sha256(open(path, "rb").read() + headers_digest().encode() + b"v1").hexdigest()[:24]
    cpath = os.path.join(cdir, ckey + ".txt")
    if os.path.exists(cpath):
        _DIRCACHE[relpath] = open(cpath).read()
        return _DIRCACHE[relpath]
    cmd = ["gcc", "-E", "-fdirectives-only", "-DSVT_AV1_VERIF", "-w", "-I" + stub_dir()]
    cmd += ["-I" + os.path.join(REPO, d) for d in cfun.INC if os.path.isdir(os.path.join(REPO, d))]
    cmd.append(path)
    p = subprocess.run(cmd, stdout=subprocess.PIPE, stderr=subprocess.PIPE)
    if p.returncode != 0:
        raise Unsupported("gcc -E -fdirectives-only failed for %s: %s" % (relpath, p.stderr.decode()[-400:]))
    lines = {}
    cur_file, cur_line = None, 0
    for ln in p.stdout.decode("utf-8", "replace").split("\n"):
        m = re.match(r'#\s+(\d+)\s+"([^"]*)"', ln)
        if m:
            cur_line, cur_file = int(m.group(1)), m.group(2)
            continue
        if cur_file == path and not ln.startswith("#"):
            lines[cur_line] = ln
        elif cur_file == path and ln.startswith("#define"):
            pass
        cur_line += 1
    n = max(lines) if lines else 0
    txt = "\n".join(lines.get(i, "") for i in range(1, n + 1))
    txt = strip_comments(txt)
    _DIRCACHE[relpath] = txt
    try:
        os.makedirs(cdir, exist_ok=True)
        tmp = cpath + ".%d.tmp" % os.getpid()
        open(tmp, "w").write(txt)
        os.replace(tmp, cpath)
        # keep the cache small: drop the oldest entries beyond 600 files
        ents = sorted((os.path.getmtime(os.path.join(cdir, e)), e) for e in os.listdir(cdir) if e.endswith(".txt"))
        for _, e in ents[:-600]:
            os.unlink(os.path.join(cdir, e))
    except OSError:
        pass
    return txt


FUNC_RE = re.compile(r"^[ \t]*((?:[A-Za-z_]\w*[ \t\*]+)+?)\**([A-Za-z_]\w*)\s*\(([^;{}()]*(?:\([^()]*\)[^;{}()]*)*)\)\s*\{", re.M)
QUALIFIERS = {"static", "inline", "INLINE", "extern", "EB_API", "const", "AOM_INLINE", "AOM_FORCE_INLINE", "EB_EXTERN", "__inline", "struct", "unsigned"}


def match_brace(txt, i):
    """i = index of '{' ; returns index just past the matching '}'."""
    depth = 0
    n = len(txt)
    while i < n:
        c = txt[i]
        if c == "{":
            depth += 1
        elif c == "}":
            depth -= 1
            if depth == 0:
                return i + 1
        i += 1
    raise Unsupported("unbalanced braces")


class Func:
    def __init__(self, file, name, rettype, params, body, line, endline):
        self.file, self.name, self.rettype, self.params, self.body, self.line, self.endline = file, name, rettype, params, body, line, endline


def functions_of(relpath):
    txt = directives_only(relpath)
    res = []
    for m in FUNC_RE.finditer(txt):
        name = m.group(2)
        if name in ("if", "for", "while", "switch", "return", "sizeof", "do", "else"):
            continue
        words = re.sub(r"\s+", " ", m.group(1).replace("*", " * ")).split()
        if any(w in ("else", "return", "do", "case", "goto", "typedef") for w in words):
            continue
        rettype = " ".join(w for w in words if w not in QUALIFIERS).replace(" *", "*").strip()
        if not rettype:
            continue
        ob = m.end() - 1
        try:
            cb = match_brace(txt, ob)
        except Unsupported:
            continue
        params = [p.strip() for p in split_args(m.group(3))] if m.group(3).strip() not in ("", "void") else []
        line = txt.count("\n", 0, m.start(2)) + 1
        res.append(Func(relpath, name, rettype, params, txt[ob:cb], txt.count("\n", 0, ob) + 1, txt.count("\n", 0, cb) + 1))
    return res


def split_args(s):
    args, depth, cur = [], 0, []
    for ch in s:
        if ch in "([{":
            depth += 1
        elif ch in ")]}":
            depth -= 1
        if ch == "," and depth == 0:
            args.append("".join(cur))
            cur = []
        else:
            cur.append(ch)
    if "".join(cur).strip() or args:
        args.append("".join(cur))
    return [a.strip() for a in args]


def param_name(p):
    m = re.search(r"([A-Za-z_]\w*)\s*(?:\[[^\]]*\])?\s*$", p)
    return m.group(1) if m else None


# ---------------------------------------------------------------------------------------------- statement parser
class Stmt:
    def __init__(self, kind, line, **kw):
        self.kind, self.line = kind, line
        self.__dict__.update(kw)

    def __repr__(self):
        return "Stmt(%s@%d %s)" % (self.kind, self.line, {k: v for k, v in self.__dict__.items() if k not in ("kind", "line")})


class Parser:
    """Statements of one function body (text starts at '{').  line0 = line number of body[0]."""

    def __init__(self, body, line0, where):
        self.s, self.i, self.line0, self.where = body, 0, line0, where

    def line(self, i=None):
        return self.line0 + self.s.count("\n", 0, self.i if i is None else i)

    def ws(self):
        while self.i < len(self.s) and self.s[self.i].isspace():
            self.i += 1

    def peek_word(self):
        self.ws()
        m = re.match(r"[A-Za-z_]\w*", self.s[self.i:])
        return m.group(0) if m else None

    def paren(self):
        """consume a balanced (...) starting at self.i; return inner text"""
        self.ws()
        if self.s[self.i] != "(":
            raise Unsupported("%s: expected '(' at line %d" % (self.where, self.line()))
        depth, j = 0, self.i
        while j < len(self.s):
            if self.s[j] == "(":
                depth += 1
            elif self.s[j] == ")":
                depth -= 1
                if depth == 0:
                    inner = self.s[self.i + 1:j]
                    self.i = j + 1
                    return inner
            j += 1
        raise Unsupported("%s: unbalanced parenthesis at line %d" % (self.where, self.line()))

    def until_semicolon(self):
        depth, j = 0, self.i
        while j < len(self.s):
            ch = self.s[j]
            if ch in "([{":
                depth += 1
            elif ch in ")]}":
                depth -= 1
            elif ch == ";" and depth == 0:
                t = self.s[self.i:j]
                self.i = j + 1
                return t
            j += 1
        raise Unsupported("%s: missing ';' at line %d" % (self.where, self.line()))

    def block(self):
        self.ws()
        assert self.s[self.i] == "{"
        self.i += 1
        stmts = []
        while True:
            self.ws()
            if self.i >= len(self.s):
                raise Unsupported("%s: unterminated block" % self.where)
            if self.s[self.i] == "}":
                self.i += 1
                return stmts
            stmts.append(self.stmt())

    def stmt(self):
        self.ws()
        ln = self.line()
        if self.s[self.i] == "{":
            return Stmt("block", ln, body=self.block())
        if self.s[self.i] == ";":
            self.i += 1
            return Stmt("empty", ln)
        w = self.peek_word()
        if w == "if":
            self.i += 2
            cond = self.paren()
            then = self.stmt()
            els = None
            save = self.i
            if self.peek_word() == "else":
                self.i += 4
                els = self.stmt()
            else:
                self.i = save
            return Stmt("if", ln, cond=cond, then=then, els=els)
        if w in ("for", "while"):
            self.i += len(w)
            head = self.paren()
            body = self.stmt()
            return Stmt("loop", ln, head=head, body=body, word=w)
        if w == "do":
            self.i += 2
            body = self.stmt()
            if self.peek_word() != "while":
                raise Unsupported("%s: do without while at line %d" % (self.where, ln))
            self.i += 5
            head = self.paren()
            self.until_semicolon()
            return Stmt("loop", ln, head=head, body=body, word="do")
        if w == "return":
            self.i += 6
            e = self.until_semicolon().strip()
            return Stmt("return", ln, expr=e)
        if w == "switch":
            self.i += 6
            cond = self.paren()
            body = self.stmt()
            return Stmt("if", ln, cond="/*switch*/ " + cond, then=body, els=None, is_switch=True)
        if w in ("case", "default"):
            j = self.i
            depth = 0
            while j < len(self.s):
                ch = self.s[j]
                if ch in "([":
                    depth += 1
                elif ch in ")]":
                    depth -= 1
                elif ch == "?" :
                    raise Unsupported("%s: conditional expression in a case label at line %d" % (self.where, ln))
                elif ch == ":" and depth == 0:
                    break
                j += 1
            self.i = j + 1
            return Stmt("empty", ln)
        if w == "goto":
            raise Unsupported("%s: '%s' statement at line %d" % (self.where, w, ln))
        if w in ("break", "continue"):
            self.until_semicolon()
            return Stmt("jump", ln, word=w)
        text = self.until_semicolon()
        return classify_simple(text.strip(), ln)


CALL_RE = re.compile(r"^([A-Za-z_]\w*)\s*\((.*)\)$", re.S)
ASSIGN_RE = re.compile(r"^(.*?[^=!<>+\-*/|&^%])\s*(?:[+\-*/|&^%]|<<|>>)?=(?!=)\s*(.*)$", re.S)


def classify_simple(text, ln):
    m = CALL_RE.match(text)
    if m and balanced(m.group(2)):
        return Stmt("call", ln, name=m.group(1), args=split_args(m.group(2)), text=text, lhs=None)
    m = re.match(r"^\(\s*void\s*\)\s*(.*)$", text, re.S)
    if m:
        return Stmt("other", ln, text=text)
    m = ASSIGN_RE.match(text)
    if m and balanced(m.group(1)):
        lhs, rhs = m.group(1).strip(), m.group(2).strip()
        # declaration with initialiser: "Type *name = expr"
        dm = re.match(r"^(?:const\s+|struct\s+|unsigned\s+|volatile\s+)*[A-Za-z_]\w*(?:\s+const)?[\s\*]+(?:const\s+)?([A-Za-z_]\w*)$", lhs)
        decl = None
        if dm and not re.match(r"^(return|else)$", lhs.split()[0]):
            decl, lhs = dm.group(1), dm.group(1)
        cm = CALL_RE.match(rhs)
        if cm and balanced(cm.group(2)):
            return Stmt("call", ln, name=cm.group(1), args=split_args(cm.group(2)), text=text, lhs=lhs, decl=decl)
        return Stmt("assign", ln, lhs=lhs, rhs=rhs, decl=decl, text=text)
    return Stmt("other", ln, text=text)


def balanced(s):
    d = 0
    for ch in s:
        if ch in "([{":
            d += 1
        elif ch in ")]}":
            d -= 1
            if d < 0:
                return False
    return d == 0


# ---------------------------------------------------------------------------------------------- access paths
TOK_RE = re.compile(r"\s*(->|\.|\[|\]|\(|\)|\*|&|[A-Za-z_]\w*|\d+|.)")


def strip_casts(e):
    e = e.strip()
    while True:
        m = re.match(r"^\(\s*(?:const\s+|struct\s+|unsigned\s+)*[A-Za-z_]\w*\s*\**\s*(?:const\s*)?\**\s*\)\s*(.+)$", e, re.S)
        if m and balanced(m.group(1)):
            e = m.group(1).strip()
            continue
        if e.startswith("(") and e.endswith(")") and balanced(e[1:-1]):
            e = e[1:-1].strip()
            continue
        return e


class Path:
    """root variable + list of (sep, name) with sep in {'->', '.', '[]'} ; name None for '[]'"""

    def __init__(self, root, steps, elem_ptr=False):
        self.root, self.steps, self.elem_ptr = root, steps, elem_ptr
        self.deref_root = False      # written `(*root)...`: root must be an address alias

    def key(self):
        out = []
        for sep, name in self.steps:
            if sep == "[]":
                out.append("[]")
            else:
                out.append(("." if out else "") + name)
        return "".join(out)


def parse_path(expr):
    """`a->b.c[i]->d` -> Path('a', [('->','b'),('.','c'),('[]',None),('->','d')]); None when not a pure access chain.
    `&chain` is the chain (address of an embedded member); `chain + index` is `chain[]` (pointer to an element)."""
    e = strip_casts(expr)
    if e.startswith("&"):
        e = strip_casts(e[1:])
    dm = re.match(r"^\(\s*\*\s*([A-Za-z_]\w*)\s*\)(.*)$", e, re.S) or re.match(r"^\*\s*([A-Za-z_]\w*)\s*()$", e)
    if dm:
        inner = parse_path(dm.group(1) + dm.group(2))
        if inner is not None:
            inner.deref_root = True
        return inner
    pm = re.match(r"^([A-Za-z_]\w*(?:\s*(?:->|\.)\s*[A-Za-z_]\w*|\s*\[[^\[\]]*\])*)\s*\+\s*([A-Za-z_]\w*|\d+)$", e)
    if pm:
        base = parse_path(pm.group(1))
        if base is not None:
            return Path(base.root, base.steps + [("[]", None)], elem_ptr=True)
    m = re.match(r"^([A-Za-z_]\w*)", e)
    if not m:
        return None
    root = m.group(1)
    i = m.end()
    steps = []
    n = len(e)
    while i < n:
        while i < n and e[i].isspace():
            i += 1
        if i >= n:
            break
        if e.startswith("->", i):
            mm = re.match(r"->\s*([A-Za-z_]\w*)", e[i:])
            if not mm:
                return None
            steps.append(("->", mm.group(1)))
            i += mm.end()
        elif e[i] == ".":
            mm = re.match(r"\.\s*([A-Za-z_]\w*)", e[i:])
            if not mm:
                return None
            steps.append((".", mm.group(1)))
            i += mm.end()
        elif e[i] == "[":
            depth, j = 0, i
            while j < n:
                if e[j] == "[":
                    depth += 1
                elif e[j] == "]":
                    depth -= 1
                    if depth == 0:
                        break
                j += 1
            if j >= n:
                return None
            steps.append(("[]", None))
            i = j + 1
        else:
            return None
    return Path(root, steps)


CHAIN_RE = re.compile(r"(?<![\w>.])([A-Za-z_]\w*)((?:\s*(?:->|\.)\s*[A-Za-z_]\w*|\s*\[[^\[\]]*(?:\[[^\[\]]*\][^\[\]]*)*\])+)")


def chains_in(expr):
    """all access chains (as Path) occurring in an expression"""
    res = []
    for m in CHAIN_RE.finditer(expr):
        p = parse_path(m.group(0))
        if p:
            res.append(p)
    return res


# ---------------------------------------------------------------------------------------------- class extraction
class ClassInfo:
    def __init__(self, name):
        self.name = name
        self.ctor = self.dctor = None
        self.pre, self.post = [], []          # events: dict(kind=.., member=.., cls=.., line=.., inloop=..)
        self.has_dctor_assign = False
        self.dctor_name = None
        self.rels = []                        # dict(slot=member or None, needs=[members], line=.., macro=..)
        self.notes = []
        self.members = []                     # member keys in order of first appearance
        self.status = "ok"                    # ok | refused:<why> | allow:<why>
        self.helper_inlined = []
        self.extra_ranges = []

    def member(self, key):
        if key not in self.members:
            self.members.append(key)
        return self.members.index(key)


class Env:
    """alias environment of one function: local variable -> (member path key, by_addr)
    key '' = the object itself.  by_addr: the variable holds the ADDRESS of that member (`&obj->m`, `obj->arr + i`),
    so `var->f` is `m.f`; otherwise it holds the member's pointer VALUE and `var->f` dereferences the member."""

    def __init__(self, root_vars):
        self.alias = {}
        for k, v in dict(root_vars).items():
            self.alias[k] = v if isinstance(v, tuple) else (v, False)
        self.locals_alloc = {}            # local var -> pending event (allocated, not yet linked to a member)

    def bind(self, var, key, by_addr=False):
        self.alias[var] = (key, by_addr)

    def resolve(self, path):
        """Path -> member key relative to the object, or None if not rooted at the object"""
        if path is None or path.root not in self.alias:
            return None
        prefix = self.alias[path.root][0]
        if path.deref_root and not self.alias[path.root][1]:
            return None
        k = path.key()
        if prefix and k:
            return prefix + (k if k.startswith("[]") else "." + k)
        return prefix or k

    def needs_of(self, path, allocated):
        """member keys dereferenced when evaluating `path` as an lvalue (all proper pointer prefixes)"""
        if path is None or path.root not in self.alias:
            return []
        prefix, by_addr = self.alias[path.root]
        needs = []
        cur = prefix
        first = True
        for sep, name in path.steps:
            if sep == "->":
                if first and by_addr:
                    # address alias: var->f is member.f ; an element address computed from an allocated array
                    # touches the array's memory
                    if cur.endswith("[]") and cur[:-2] in allocated:
                        needs.append(cur[:-2])
                elif cur:         # dereference of member `cur`
                    needs.append(cur)
                cur = (cur + "." if cur else "") + name
            elif sep == ".":
                cur = (cur + "." if cur else "") + name
            else:                 # []
                if cur and cur in allocated:
                    needs.append(cur)
                cur = cur + "[]"
            first = False
        return needs


def find_classes(funcs_by_name):
    classes = {}
    for name, f in funcs_by_name.items():
        m = re.match(r"^(.*)_ctor(\d*)$", name)
        if m and f.rettype == "EbErrorType":
            cn = m.group(1) + m.group(2)
            classes.setdefault(cn, ClassInfo(cn)).ctor = f
    for name, f in funcs_by_name.items():
        m = re.match(r"^(.*)_dctor(\d*)$", name)
        if m and m.group(1) + m.group(2) in classes:
            classes[m.group(1) + m.group(2)].dctor = f
    return classes


class Translator:
    def __init__(self):
        self.funcs = {}
        self.fallible = set()
        rels = []
        macro_re = re.compile(r"\b(EB_NEW|EB_NO_THROW_NEW|%s)\b" % "|".join(list(ALLOC) + list(ALLOC2) + [m for m in RELEASE if m != "free"]))
        for d in SRC_DIRS:
            full = os.path.join(REPO, d)
            for fn in sorted(os.listdir(full)):
                if fn.endswith(".c"):
                    raw = open(os.path.join(full, fn), errors="replace").read()
                    for m in re.finditer(r"\bEbErrorType\s+([A-Za-z_]\w*)\s*\(", raw):
                        self.fallible.add(m.group(1))
                    if macro_re.search(raw) or re.search(r"_d?ctor\d*\s*\(", raw) or "EB_GET_FULL_OBJECT" in raw:
                        rels.append(os.path.join(d, fn))
        macro_ret_re = re.compile(r"\b(EB_NEW|%s)\s*\(" % "|".join(list(ALLOC) + list(ALLOC2)))
        self.macro_ret_re = macro_ret_re
        from concurrent.futures import ThreadPoolExecutor
        with ThreadPoolExecutor(max_workers=4) as ex:
            allf = list(ex.map(functions_of, rels))
        self.files = rels
        for fl in allf:
            for f in fl:
                if f.name not in self.funcs or f.name.endswith(("_ctor", "_dctor")):
                    self.funcs[f.name] = f
                if f.rettype == "EbErrorType" or (f.rettype in ("int", "int32_t") and macro_ret_re.search(f.body)):
                    self.fallible.add(f.name)
        self.classes = find_classes(self.funcs)
        self.refused = {}

    # ---- constructor ----
    def ctor_events(self, ci):
        f = ci.ctor
        if not f.params:
            raise Unsupported("%s: constructor without parameters" % f.name)
        root = param_name(f.params[0])
        env = Env({root: ""})
        st = {"dctor_seen": False, "allocated": set()}
        body = Parser(f.body, f.line, f.name).block()
        self.walk_ctor(ci, f, body, env, st, inloop=False, depth=0)
        for fn, var in EXTRA_CTORS.get(ci.name, []):
            g = self.funcs.get(fn)
            if g is None:
                raise Unsupported("%s: continuation function %s not found" % (ci.name, fn))
            env2 = Env({var: ""})
            env2.locals_alloc = env.locals_alloc
            ci.helper_inlined.append(fn)
            ci.extra_ranges.append((g.file, g.line, g.endline))
            self.walk_ctor(ci, g, Parser(g.body, g.line, g.name).block(), env2, st, inloop=False, depth=0)
        for v, ev in env.locals_alloc.items():
            ci.notes.append("local `%s` allocated at line %d is never stored in a member (leaks on a later failure unless returned)" % (v, ev["line"]))
            ci.status = "refused:local allocation `%s` not linked to a member" % v

    def emit(self, ci, st, ev):
        ev.setdefault("in_fn", st.get("cur_fn"))
        ev.setdefault("in_file", st.get("cur_file"))
        (ci.post if st["dctor_seen"] else ci.pre).append(ev)

    def walk_ctor(self, ci, f, stmts, env, st, inloop, depth):
        for si, s in enumerate(stmts):
            st["cur_fn"], st["cur_file"] = f.name, f.file
            st["rest"] = stmts[si + 1:]
            st["inloop"] = inloop
            if s.kind == "block":
                self.walk_ctor(ci, f, s.body, env, st, inloop, depth)
            elif s.kind == "if":
                self.walk_ctor(ci, f, [s.then], env, st, inloop, depth)
                if s.els is not None:
                    self.walk_ctor(ci, f, [s.els], env, st, inloop, depth)
            elif s.kind == "loop":
                self.walk_ctor(ci, f, [s.body], env, st, True, depth)
            elif s.kind == "return":
                e = strip_casts(s.expr)
                if re.match(r"^EB_Error(?!None)\w+$", e) or e in ("EB_Corrupt_Frame",):
                    self.emit(ci, st, dict(kind="failRet", line=s.line))
                elif e in ("EB_ErrorNone", "return_error", "err", "ret", "res", "error", "0", "") or re.match(r"^\w+$", e):
                    pass           # early success return / propagated code: covered by `stop` anywhere in the script
                else:
                    raise Unsupported("%s:%d: return expression `%s`" % (f.name, s.line, e))
            elif s.kind == "assign":
                lp = parse_path(s.lhs)
                lk = env.resolve(lp)
                rhs = strip_casts(s.rhs)
                if lk is not None:
                    if lk == "dctor":
                        st["dctor_seen"] = True
                        ci.has_dctor_assign = True
                        ci.dctor_name = rhs
                        continue
                # linking a local allocation to a member:  obj->m = local;
                if lk is not None and re.match(r"^[A-Za-z_]\w*$", rhs) and rhs in env.locals_alloc:
                    ev = env.locals_alloc.pop(rhs)
                    ev["member"] = lk
                    st["allocated"].add(lk)
                    env.bind(rhs, lk)
                    continue
                # alias: local = obj->path  (pointer into the object)
                if s.decl or (lp and not lp.steps and lp.root not in env.alias):
                    rp = parse_path(rhs)
                    rk = env.resolve(rp)
                    if rk is not None and lp and not lp.steps:
                        env.bind(lp.root, rk, rhs.startswith("&") or rp.elem_ptr)
                        continue
                # obj->m = obj->other (pointer copy inside the object): no ownership change tracked
            elif s.kind == "call":
                self.ctor_call(ci, f, s, env, st, inloop, depth)
            # other / empty / jump: nothing

    def target_key(self, ci, f, s, env, st, arg, kind_for_local=None):
        p = parse_path(arg)
        k = env.resolve(p)
        if k is not None and k != "":
            return k, None
        if p is not None and not p.steps and p.root not in env.alias:
            return None, p.root          # plain local variable
        if p is not None and p.root in env.alias and k == "":
            raise Unsupported("%s:%d: allocation into the object pointer itself `%s`" % (f.name, s.line, arg))
        return None, None

    def ctor_call(self, ci, f, s, env, st, inloop, depth):
        name, args = s.name, s.args
        if name in ALLOC or name in ALLOC2:
            key, local = self.target_key(ci, f, s, env, st, args[0])
            kinds = [ALLOC[name][0]] if name in ALLOC else list(ALLOC2[name])
            if key is None and local is None:
                raise Unsupported("%s:%d: %s target `%s` is neither a member nor a local" % (f.name, s.line, name, args[0]))
            if key is None:
                if name in ALLOC2:
                    raise Unsupported("%s:%d: %s into a local" % (f.name, s.line, name))
                ev = dict(kind="alloc", member=None, akind=kinds[0], line=s.line, inloop=inloop, macro=name, local=local)
                env.locals_alloc[local] = ev
                self.emit(ci, st, ev)
                return
            if inloop and "[]" not in key:
                raise Unsupported("%s:%d: scalar member `%s` allocated inside a loop (would be overwritten)" % (f.name, s.line, key))
            st["allocated"].add(key)
            self.emit(ci, st, dict(kind="alloc", member=key, akind=kinds[0], line=s.line, inloop=inloop, macro=name))
            if name in ALLOC2:
                st["allocated"].add(key + "[]")
                self.emit(ci, st, dict(kind="alloc", member=key + "[]", akind=kinds[1], line=s.line, inloop=True, macro=name))
            return
        if name in ("EB_NEW", "EB_NO_THROW_NEW"):
            key, local = self.target_key(ci, f, s, env, st, args[0])
            ctor = args[1].strip()
            cm = re.match(r"^(.*)_ctor(\d*)$", ctor)
            if not cm or cm.group(1) + cm.group(2) not in self.classes:
                raise Unsupported("%s:%d: EB_NEW with unknown constructor `%s`" % (f.name, s.line, ctor))
            if key is None and local is None:
                raise Unsupported("%s:%d: EB_NEW target `%s` is neither a member nor a local" % (f.name, s.line, args[0]))
            if name == "EB_NO_THROW_NEW":
                raise Unsupported("%s:%d: EB_NO_THROW_NEW" % (f.name, s.line))
            ev = dict(kind="new", member=key, cls=cm.group(1) + cm.group(2), line=s.line, inloop=inloop, macro=name)
            if key is None:
                ev["local"] = local
                env.locals_alloc[local] = ev
            else:
                if inloop and "[]" not in key:
                    raise Unsupported("%s:%d: scalar member `%s` constructed inside a loop (would be overwritten)" % (f.name, s.line, key))
                st["allocated"].add(key)
            self.emit(ci, st, ev)
            return
        if name == "EB_REALLOC_ARRAY":
            raise Unsupported("%s:%d: EB_REALLOC_ARRAY in a constructor" % (f.name, s.line))
        if name in RELEASE:
            raise Unsupported("%s:%d: release macro %s inside a constructor" % (f.name, s.line, name))
        if name in [param_name(p) for p in f.params] and self.result_checked(s, st, f):
            self.emit(ci, st, dict(kind="call", line=s.line, fn="(*%s)" % name, inloop=inloop))
            return
        if name in self.fallible:
            callee = self.funcs.get(name)
            # helper working on the same object: inline (bounded depth)
            if callee is not None and callee.params and depth < 3:
                amap = {}
                for pi, a in enumerate(args[:len(callee.params)]):
                    ak = env.resolve(parse_path(a))
                    if ak is not None:
                        amap[param_name(callee.params[pi])] = (ak, strip_casts(a).startswith("&"))
                if amap and not name.endswith("_ctor"):
                    sub_env = Env(amap)
                    body = Parser(callee.body, callee.line, callee.name).block()
                    ci.helper_inlined.append(name)
                    checked = self.result_checked(s, st, f)
                    if not checked and self.can_fail_alloc(name):
                        ci.notes.append("line %d: result of %s() is ignored although it can fail by allocation" % (s.line, name))
                        self.emit(ci, st, dict(kind="ignored", line=s.line, fn=name))
                    self.walk_ctor(ci, callee, body, sub_env, st, inloop, depth + 1)
                    for v, ev in sub_env.locals_alloc.items():
                        ci.status = "refused:local allocation `%s` in helper %s not linked to a member" % (v, name)
                    return
            if not self.result_checked(s, st, f):
                if self.can_fail_alloc(name):
                    ci.notes.append("line %d: result of %s() is ignored although it can fail by allocation" % (s.line, name))
                    self.emit(ci, st, dict(kind="ignored", line=s.line, fn=name))
                return
            self.emit(ci, st, dict(kind="call", line=s.line, fn=name, inloop=inloop))
            return
        # infallible / unknown call: nothing

    def closure(self, name, depth=0, seen=None):
        """functions mentioned (called, or passed as constructor / creator arguments) from `name`, transitively"""
        seen = seen if seen is not None else set()
        if name in seen or depth > 8:
            return seen
        g = self.funcs.get(name)
        if g is None:
            return seen
        seen.add(name)
        for m in set(re.findall(r"\b([A-Za-z_]\w*)\b", g.body)):
            if m in self.funcs and m not in seen:
                self.closure(m, depth + 1, seen)
        return seen

    def swallow_groups(self):
        """{(file, function that discards the error code): set of functions in which a failure is then swallowed}"""
        groups = {}
        for ci in self.classes.values():
            for e in ci.pre + ci.post:
                if e["kind"] == "ignored":
                    key = (os.path.basename(e.get("in_file") or ci.ctor.file), e.get("in_fn") or ci.ctor.name)
                    groups.setdefault(key, set()).update(self.closure(e["fn"]))
        return groups

    def can_fail_alloc(self, name, depth=0, seen=None):
        """does `name` (transitively, bounded) contain an allocation macro, i.e. can the fail-the-k-th hook make it fail?"""
        seen = seen if seen is not None else set()
        if name in seen or depth > 4:
            return False
        seen.add(name)
        g = self.funcs.get(name)
        if g is None:
            return False
        if self.macro_ret_re.search(g.body):
            return True
        for m in re.finditer(r"\b([A-Za-z_]\w*)\s*\(", g.body):
            if m.group(1) in self.fallible and m.group(1) != name and self.can_fail_alloc(m.group(1), depth + 1, seen):
                return True
        return False

    def result_checked(self, s, st=None, f=None):
        """is the error code of this call looked at?  `x = f(..)` counts only if `x` is tested or returned before it
        can be overwritten: later in the same block, or (outside loops) anywhere later in the function"""
        if re.match(r"^return\b", s.text.lstrip()):
            return True
        if s.lhs is None:
            return False
        if not re.match(r"^[A-Za-z_]\w*$", s.lhs) or st is None:
            return True
        var = s.lhs

        def uses(stmts):
            for t in stmts:
                if t.kind == "if" and re.search(r"\b%s\b" % var, t.cond):
                    return True
                if t.kind == "return" and re.search(r"\b%s\b" % var, t.expr):
                    return True
                if t.kind == "call" and t.name in ("EB_CHECK_MEM",) and re.search(r"\b%s\b" % var, t.text):
                    return True
                if t.kind == "block" and uses(t.body):
                    return True
                if t.kind in ("assign", "call") and t.lhs == var:
                    return False            # overwritten first
            return None
        r = uses(st.get("rest", []))
        if r is not None:
            return r
        if st.get("inloop"):
            return False
        # not in a loop, nothing in the rest of the block: follow the function's statements in source order
        flat = st.get("flat", {}).get(f.name if f is not None else None)
        if flat is None and f is not None:
            flat = []

            def fl(stmts):
                for t in stmts:
                    flat.append(t)
                    if t.kind == "block":
                        fl(t.body)
                    elif t.kind == "if":
                        fl([t.then])
                        if t.els is not None:
                            fl([t.els])
                    elif t.kind == "loop":
                        fl([t.body])
            fl(Parser(f.body, f.line, f.name).block())
            st.setdefault("flat", {})[f.name] = flat
        if flat:
            after = [t for t in flat if (t.line, id(t)) > (s.line, 0) and t.line > s.line]
            for t in after:
                if t.kind == "if" and re.search(r"\b%s\b" % var, t.cond):
                    return True
                if t.kind == "return" and re.search(r"\b%s\b" % var, t.expr):
                    return True
                if t.kind in ("assign", "call") and getattr(t, "lhs", None) == var:
                    return False
            return False
        return True

    # ---- destructor ----
    def dctor_rels(self, ci, allocated, pre_members):
        f = ci.dctor
        root = param_name(f.params[0]) if f.params else None
        env = Env({root: ""} if root else {})
        body = Parser(f.body, f.line, f.name).block()
        self.walk_dctor(ci, f, body, env, allocated, pre_members, guards=frozenset(), inloop=False, depth=0)

    def norm_needs(self, ci, needs, guards, pre_members):
        """needs as slots of THIS class: a path running through a member object (created by EB_NEW) stops at that
        member (the object exists => its own constructor completed); members this class never creates (plain
        pointers copied from elsewhere) are outside the ownership model and only noted."""
        out = []
        for n in needs:
            cut = n
            for obj_slot in self.cur_new_slots:
                if n != obj_slot and n.startswith(obj_slot) and n[len(obj_slot)] in ".[":
                    # keep the shortest enclosing member object
                    if len(obj_slot) < len(cut) or cut == n:
                        cut = obj_slot
            if cut in guards or cut in pre_members:
                continue
            if cut not in self.cur_allocated:
                note = "dctor dereferences `%s`, which this constructor does not create (not modelled)" % cut
                if note not in ci.notes:
                    ci.notes.append(note)
                continue
            out.append(cut)
        return sorted(set(out))

    def add_need_action(self, ci, f, line, needs, guards, pre_members, why):
        needs = self.norm_needs(ci, needs, guards, pre_members)
        if needs:
            ci.rels.append(dict(slot=None, needs=needs, line=line, macro=why))

    def cond_guards(self, cond, env):
        """member keys known non-NULL when `cond` is true (top-level && conjuncts that are pointer tests)"""
        g = set()
        for part in re.split(r"&&", cond):
            part = strip_casts(part.strip())
            m = re.match(r"^(.+?)\s*!=\s*(?:NULL|0|\(\s*\w+\s*\*\s*\)\s*NULL)$", part)
            if m:
                part = strip_casts(m.group(1))
            if part.startswith("!"):
                continue
            k = env.resolve(parse_path(part))
            if k:
                g.add(k)
        return g

    def cond_neg_guards(self, cond, env):
        """member keys known non-NULL when `cond` is FALSE: `!p`, `p == NULL` (top-level || disjuncts)"""
        g = set()
        for part in re.split(r"\|\|", cond):
            part = strip_casts(part.strip())
            m = re.match(r"^(.+?)\s*==\s*(?:NULL|0)$", part)
            if m:
                k = env.resolve(parse_path(strip_casts(m.group(1))))
            elif part.startswith("!"):
                k = env.resolve(parse_path(strip_casts(part[1:])))
            else:
                k = None
            if k:
                g.add(k)
        return g

    def walk_dctor(self, ci, f, stmts, env, allocated, pre_members, guards, inloop, depth):
        guards = set(guards)
        for s in stmts:
            if s.kind == "block":
                self.walk_dctor(ci, f, s.body, env, allocated, pre_members, guards, inloop, depth)
            elif s.kind == "if":
                self.cond_needs(ci, f, s.line, s.cond, env, allocated, guards, pre_members)
                g2 = guards | self.cond_guards(s.cond, env)
                self.walk_dctor(ci, f, [s.then], env, allocated, pre_members, g2, inloop, depth)
                if s.els is not None:
                    self.walk_dctor(ci, f, [s.els], env, allocated, pre_members, guards | self.cond_neg_guards(s.cond, env), inloop, depth)
                # `if (!p) return;`  /  `if (p == NULL) return;`  => p is non-NULL afterwards
                if s.els is None and self.is_return(s.then):
                    guards |= self.cond_neg_guards(s.cond, env)
                    if not self.cond_neg_guards(s.cond, env):
                        ci.notes.append("dctor line %d: early return under `%s` (releases below are conditional)" % (s.line, s.cond.strip()[:60]))
            elif s.kind == "loop":
                self.expr_needs(ci, f, s.line, s.head, env, allocated, guards, pre_members, "loop-header")
                self.walk_dctor(ci, f, [s.body], env, allocated, pre_members, guards, True, depth)
            elif s.kind == "return":
                pass
            elif s.kind == "assign":
                lp = parse_path(s.lhs)
                rhs = strip_casts(s.rhs)
                rk = env.resolve(parse_path(rhs))
                if lp is not None and not lp.steps and rk is not None and (s.decl or lp.root not in env.alias):
                    # alias; evaluating the rhs may dereference
                    self.expr_needs(ci, f, s.line, rhs, env, allocated, guards, pre_members, "alias")
                    env.bind(lp.root, rk, rhs.startswith("&") or parse_path(rhs).elem_ptr)
                else:
                    self.expr_needs(ci, f, s.line, s.rhs, env, allocated, guards, pre_members, "assignment")
                    self.expr_needs(ci, f, s.line, s.lhs, env, allocated, guards, pre_members, "assignment", lvalue=True)
            elif s.kind == "call":
                self.dctor_call(ci, f, s, env, allocated, pre_members, guards, inloop, depth)
            elif s.kind == "other":
                self.expr_needs(ci, f, s.line, s.text, env, allocated, guards, pre_members, "expression")

    def cond_needs(self, ci, f, line, cond, env, allocated, guards, pre_members):
        """dereferences made by evaluating a condition, honouring short-circuit evaluation of a pure `||` or pure `&&` chain"""
        def top_split(c, op):
            parts, depth, cur, i = [], 0, [], 0
            while i < len(c):
                ch = c[i]
                if ch in "([":
                    depth += 1
                elif ch in ")]":
                    depth -= 1
                if depth == 0 and c.startswith(op, i):
                    parts.append("".join(cur))
                    cur = []
                    i += 2
                    continue
                cur.append(ch)
                i += 1
            parts.append("".join(cur))
            return parts
        ors, ands = top_split(cond, "||"), top_split(cond, "&&")
        g = set(guards)
        if len(ors) > 1 and all(len(top_split(p, "&&")) == 1 for p in ors):
            for part in ors:
                self.expr_needs(ci, f, line, part, env, allocated, g, pre_members, "if-condition")
                g |= self.cond_neg_guards(part, env)      # the next disjunct runs only when this one is false
        elif len(ands) > 1 and all(len(top_split(p, "||")) == 1 for p in ands):
            for part in ands:
                self.expr_needs(ci, f, line, part, env, allocated, g, pre_members, "if-condition")
                g |= self.cond_guards(part, env)          # the next conjunct runs only when this one is true
        else:
            self.expr_needs(ci, f, line, cond, env, allocated, g, pre_members, "if-condition")

    def is_return(self, s):
        if s.kind == "return":
            return True
        if s.kind == "block" and s.body and s.body[-1].kind == "return":
            return True
        return False

    def expr_needs(self, ci, f, line, expr, env, allocated, guards, pre_members, why, lvalue=False):
        """record dereferences made by evaluating an expression (reads: every pointer prefix of every chain)"""
        needs = []
        for p in chains_in(expr):
            if p.root not in env.alias:
                continue
            needs += env.needs_of(p, allocated)
        self.add_need_action(ci, f, line, needs, guards, pre_members, why)

    def dctor_call(self, ci, f, s, env, allocated, pre_members, guards, inloop, depth):
        name, args = s.name, s.args
        if name in RELEASE:
            p = parse_path(args[0])
            key = env.resolve(p)
            if key is None:
                # release of something not rooted at the object (a local alias we could not resolve)
                raise Unsupported("%s:%d: %s(%s): target is not a member of the object" % (f.name, s.line, name, args[0]))
            needs = env.needs_of(p, allocated)
            # count / extra arguments may dereference too
            for a in args[1:]:
                for q in chains_in(a):
                    if q.root in env.alias:
                        needs += env.needs_of(q, allocated)
            needs = self.norm_needs(ci, needs, guards, pre_members)
            if key == "":
                # EB_FREE(obj) of the object itself inside its own dctor (thread contexts free `priv` = their alias)
                raise Unsupported("%s:%d: %s of the object itself" % (f.name, s.line, name))
            for which in RELEASE[name]:
                k = key if which == "self" else key + "[]"
                ci.rels.append(dict(slot=k, needs=needs, line=s.line, macro=name))
            return
        callee = self.funcs.get(name)
        if callee is not None and depth < 3 and callee.params:
            amap = {}
            for pi, a in enumerate(args[:len(callee.params)]):
                ak = env.resolve(parse_path(a))
                if ak is not None:
                    amap[param_name(callee.params[pi])] = (ak, strip_casts(a).startswith("&"))
            if amap and (callee.rettype == "void" or name.endswith("_dctor")) and self.mentions_release(callee):
                for a in args:
                    self.expr_needs(ci, f, s.line, a, env, allocated, guards, pre_members, "argument")
                sub_env = Env(amap)
                body = Parser(callee.body, callee.line, callee.name).block()
                ci.helper_inlined.append(name)
                self.walk_dctor(ci, callee, body, sub_env, allocated, pre_members, guards, inloop, depth + 1)
                return
        for a in args:
            self.expr_needs(ci, f, s.line, a, env, allocated, guards, pre_members, "argument")

    def mentions_release(self, callee):
        return any(re.search(r"\b%s\s*\(" % m, callee.body) for m in RELEASE if m != "free") or re.search(r"\bfree\s*\(", callee.body)

    # ---- driver ----
    def translate_class(self, ci):
        self.ctor_events(ci)
        allocated = set(e["member"] for e in ci.pre + ci.post if e.get("member"))
        pre_members = set(e["member"] for e in ci.pre if e.get("member"))
        self.cur_allocated = allocated
        self.cur_new_slots = sorted(set(e["member"] for e in ci.pre + ci.post if e["kind"] == "new" and e.get("member")), key=len)
        if ci.dctor is not None:
            self.dctor_rels(ci, allocated, pre_members)
        if ci.has_dctor_assign and ci.dctor is None:
            dn = ci.dctor_name
            if dn in self.funcs:
                ci.dctor = self.funcs[dn]
                self.dctor_rels(ci, allocated, pre_members)
            else:
                raise Unsupported("%s: dctor `%s` assigned but not found" % (ci.name, dn))
        if ci.has_dctor_assign and ci.dctor is not None and ci.dctor_name and ci.dctor_name != ci.dctor.name:
            if ci.dctor_name in self.funcs:
                ci.dctor = self.funcs[ci.dctor_name]
                ci.rels = []
                self.dctor_rels(ci, allocated, pre_members)
        # `new`/ignored before the dctor assignment are outside the model
        for e in ci.pre:
            if e["kind"] == "new":
                raise Unsupported("%s:%d: EB_NEW before the dctor assignment" % (ci.ctor.name, e["line"]))

    def run(self):
        order = sorted(self.classes)
        for name in order:
            ci = self.classes[name]
            try:
                self.translate_class(ci)
            except Unsupported as e:
                if name in ALLOW:
                    ci.status = "allow:" + ALLOW[name]
                    ci.notes.append(str(e))
                else:
                    ci.status = "refused:" + str(e)
        return self


# ---------------------------------------------------------------------------------------------- kernels / shutdown
def kernel_table(tr):
    """kernel thread functions started by svt_av1_enc_init, the fifo each blocks on, and the resources deinit shuts down"""
    init = tr.funcs.get("svt_av1_enc_init")
    deinit = tr.funcs.get("svt_av1_enc_deinit")
    if init is None or deinit is None:
        raise Unsupported("svt_av1_enc_init / svt_av1_enc_deinit not found")
    shut = re.findall(r"svt_shutdown_process\(\s*\w+\s*->\s*(\w+)\s*\)", deinit.body)
    if not shut:
        raise Unsupported("svt_av1_enc_deinit: no svt_shutdown_process(handle->...) calls found")
    kernels = []
    for m in re.finditer(r"\bEB_CREATE_THREAD(_ARRAY)?\s*\(", init.body):
        depth, j = 0, m.end() - 1
        while True:
            if init.body[j] == "(":
                depth += 1
            elif init.body[j] == ")":
                depth -= 1
                if depth == 0:
                    break
            j += 1
        args = split_args(init.body[m.end():j])
        fn = args[2 if m.group(1) else 1].strip()
        k = tr.funcs.get(fn)
        if k is None:
            raise Unsupported("kernel function %s (started by svt_av1_enc_init) not found" % fn)
        lm = re.search(r"\bfor\s*\(\s*;\s*;\s*\)\s*\{", k.body)
        if not lm:
            raise Unsupported("%s: no `for (;;)` main loop" % fn)
        lb = lm.end() - 1
        le = match_brace(k.body, lb)
        loop = k.body[lb:le]
        calls = [c for c in re.findall(r"\b([A-Za-z_]\w*)\s*\(", loop) if c not in ("if", "for", "while", "switch", "return", "sizeof")]
        blocking = [c for c in calls if c in ("EB_GET_FULL_OBJECT", "svt_get_full_object", "svt_get_empty_object", "svt_block_on_semaphore", "svt_block_on_mutex")]
        gf = re.search(r"EB_GET_FULL_OBJECT\s*\(\s*(\w+)\s*->\s*(\w+)", loop)
        first_full = bool(blocking) and blocking[0] == "EB_GET_FULL_OBJECT" and gf is not None
        src = None
        if gf:
            fifo = gf.group(2)
            pat = re.compile(r"->\s*%s\s*=\s*svt_system_resource_get_consumer_fifo\(\s*\w+\s*->\s*(\w+)" % re.escape(fifo))
            cands = [g for g in tr.funcs.values() if g.file == k.file] + list(tr.funcs.values())
            for g in cands:
                mm = pat.search(g.body)
                if mm:
                    src = mm.group(1)
                    break
        kernels.append(dict(name=fn, file=k.file, line=k.line, get_full_first=first_full, input=src or "?",
                            get_empty=len([c for c in calls if c == "svt_get_empty_object"]),
                            other_full=len([c for c in calls if c in ("EB_GET_FULL_OBJECT", "svt_get_full_object")]) - (1 if gf else 0)))
    return kernels, shut


def py_obligations(ci):
    """the three per-class obligations, evaluated here as well (Props/C16 proves that Lean's evaluation agrees)"""
    def ev_ok(e):
        return e["kind"] in ("alloc", "new", "call", "failRet")
    pre = [e for e in ci.pre if ev_ok(e)]
    post = [e for e in ci.post if ev_ok(e)]
    # preOK: (call|failRet)* alloc?
    pre_ok = True
    for i, e in enumerate(pre):
        if e["kind"] == "alloc":
            pre_ok = (i == len(pre) - 1)
            break
        if e["kind"] == "new":
            pre_ok = False
            break
    created = [e["member"] for e in pre + post if e["kind"] in ("alloc", "new")]
    dctor_first = pre_ok and (not created or ci.has_dctor_assign)
    released = set(r["slot"] for r in ci.rels if r["slot"])
    covered = all(m in released for m in created)
    null_tol = all(not r["needs"] for r in ci.rels)
    return dctor_first, covered, null_tol


# ---------------------------------------------------------------------------------------------- Lean output
def lean_str(s):
    return '"' + s.replace("\\", "\\\\").replace('"', '\\"') + '"'


def emit_lean(tr, out_path):
    covered = [n for n in sorted(tr.classes) if tr.classes[n].status == "ok"]
    # a class that constructs a non-covered class cannot be modelled either
    changed = True
    while changed:
        changed = False
        for n in list(covered):
            ci = tr.classes[n]
            for e in ci.pre + ci.post:
                if e["kind"] == "new" and e["cls"] not in covered:
                    ci.status = "refused:constructs non-covered class %s" % e["cls"]
                    covered.remove(n)
                    changed = True
                    break
    index = {n: i for i, n in enumerate(covered)}
    L = []
    L.append("/- GENERATED by xlate/lifecycle.py from the constructor / destructor pairs of the encoder library")
    L.append("   (Source/Lib/Common/Codec, Source/Lib/Encoder/Codec, Source/Lib/Encoder/Globals). Regenerated on every run; do not edit.")
    L.append("   One `ClassDef` per `X_ctor` / `X_dctor` pair; members are numbered per class (names in the comment). -/")
    L.append("import SvtVerif.Model.Unwind")
    L.append("")
    L.append("namespace Lifecycle")
    L.append("open Unwind")
    L.append("")
    for n in covered:
        ci = tr.classes[n]
        for e in ci.pre + ci.post:
            if e.get("member"):
                ci.member(e["member"])
        for r in ci.rels:
            if r["slot"]:
                ci.member(r["slot"])
            for x in r["needs"]:
                ci.member(x)
    for n in covered:
        ci = tr.classes[n]

        def ev(e):
            if e["kind"] == "alloc":
                return ".alloc %d .%s" % (ci.member(e["member"]), e["akind"])
            if e["kind"] == "new":
                return ".new %d %d" % (ci.member(e["member"]), index[e["cls"]])
            if e["kind"] == "call":
                return ".call"
            if e["kind"] == "failRet":
                return ".failRet"
            return None
        pre = [ev(e) for e in ci.pre if ev(e)]
        post = [ev(e) for e in ci.post if ev(e)]
        rels = ["⟨%s, [%s]⟩" % ("some %d" % ci.member(r["slot"]) if r["slot"] else "none",
                                 ", ".join(str(ci.member(x)) for x in r["needs"])) for r in ci.rels]
        L.append("/-- `%s` (%s:%d%s)" % (ci.ctor.name, ci.ctor.file, ci.ctor.line,
                                        (", `%s` :%d" % (ci.dctor.name, ci.dctor.line)) if ci.dctor else ", no destructor"))
        L.append("    members: %s" % (", ".join("%d=%s" % (i, m) for i, m in enumerate(ci.members)) or "(none)"))
        lines = ["%s@%d" % (e["kind"] if e["kind"] != "alloc" else e["macro"], e["line"]) for e in ci.pre + ci.post]
        L.append("    ctor event lines: %s" % (" ".join(lines) or "(none)"))
        for note in ci.notes:
            L.append("    note: %s" % note.replace("-/", "- /"))
        L.append("-/")
        L.append("def c%d : ClassDef :=" % index[n])
        L.append("  { name := %s," % lean_str(n))
        L.append("    pre := [%s]," % ", ".join(pre))
        L.append("    hasDctor := %s," % ("true" if ci.has_dctor_assign else "false"))
        L.append("    post := [%s]," % ", ".join(post))
        L.append("    rels := [%s]," % ", ".join(rels))
        L.append("    swallow := %d }" % len([e for e in ci.pre + ci.post if e["kind"] == "ignored"]))
        L.append("")
    L.append("def table : Table := [%s]" % ", ".join("c%d" % i for i in range(len(covered))))
    L.append("")
    bad = []
    for n in covered:
        d, c, t = py_obligations(tr.classes[n])
        if not (d and c and t):
            bad.append((index[n], n, d, c, t))
    L.append("/-- classes that fail one of the three obligations, as evaluated by the translator")
    for i, n, d, c, t in bad:
        L.append("    %d = %s: dctorFirst=%s covered=%s nullTol=%s" % (i, n, d, c, t))
    L.append("    (Props/C16 `bad_classes_agree` proves that the Lean evaluation of the table gives the same list) -/")
    L.append("def expectedBad : List Nat := [%s]" % ", ".join(str(b[0]) for b in bad))
    L.append("")
    sw = [(index[n], n) for n in covered if any(e["kind"] == "ignored" for e in tr.classes[n].pre + tr.classes[n].post)]
    L.append("/-- classes whose constructor discards an error code of a callee that can fail by allocation: %s -/" % ", ".join("%d=%s" % x for x in sw))
    L.append("def expectedSwallowers : List Nat := [%s]" % ", ".join(str(x[0]) for x in sw))
    L.append("")
    raw = []
    for n in covered:
        ci = tr.classes[n]
        for r in ci.rels:
            if r["macro"] == "free" and r["slot"]:
                raw.append((index[n], ci.member(r["slot"])))
    L.append("/-- (class, slot) released with a primitive that does not reset the member to NULL (`free(obj->m)`):")
    L.append("    a second release of such a slot would be a double free -/")
    L.append("def rawReleases : List (Nat × Nat) := [%s]" % ", ".join("(%d, %d)" % x for x in sorted(set(raw))))
    L.append("")
    kernels, shut = kernel_table(tr)
    L.append("/-- a kernel thread function started by `svt_av1_enc_init`: `getFullFirst` = the first blocking call of its")
    L.append("    `for (;;)` loop is `EB_GET_FULL_OBJECT` (which returns from the thread function on EB_NoErrorFifoShutdown);")
    L.append("    `input` = the handle member (system resource) whose consumer fifo it waits on; `getEmpty` = number of")
    L.append("    `svt_get_empty_object` calls inside the loop (blocking producer side, NOT woken by shutdown) -/")
    L.append("structure Kernel where")
    L.append("  name : String")
    L.append("  getFullFirst : Bool")
    L.append("  input : String")
    L.append("  getEmpty : Nat")
    L.append("  deriving Repr, DecidableEq")
    L.append("")
    L.append("def kernels : List Kernel := [")
    for ki, k in enumerate(kernels):
        L.append("  ⟨%s, %s, %s, %d⟩%s -- %s:%d" % (lean_str(k["name"]), "true" if k["get_full_first"] else "false", lean_str(k["input"]),
                                                  k["get_empty"], "," if ki + 1 < len(kernels) else "", os.path.basename(k["file"]), k["line"]))
    L.append("]")
    L.append("")
    L.append("/-- resources passed to `svt_shutdown_process` by `svt_av1_enc_deinit` (EbEncHandle.c) -/")
    L.append("def shutdownList : List String := [%s]" % ", ".join(lean_str(x) for x in shut))
    L.append("")
    L.append("def memberNames : List (List String) := [")
    L.append(",\n".join("  [%s]" % ", ".join(lean_str(m) for m in tr.classes[n].members) for n in covered))
    L.append("]")
    L.append("")
    L.append("end Lifecycle")
    txt = "\n".join(L) + "\n"
    if out_path:
        os.makedirs(os.path.dirname(out_path), exist_ok=True)
        if not os.path.exists(out_path) or open(out_path).read() != txt:
            open(out_path, "w").write(txt)
    return covered, index, txt


def summary(tr, covered):
    res = {"classes_found": len(tr.classes), "covered": len(covered), "not_covered": {}, "notes": {}, "event_lines": {}}
    for n, ci in sorted(tr.classes.items()):
        if n not in covered:
            res["not_covered"][n] = ci.status
        if ci.notes:
            res["notes"][n] = ci.notes
        if n in covered:
            res["event_lines"][n] = {"file": ci.ctor.file, "ctor": [ci.ctor.line, ci.ctor.endline],
                                     "lines": sorted(set(e["line"] for e in ci.pre + ci.post if e["kind"] in ("alloc", "new"))),
                                     "helpers": ci.helper_inlined}
    return res


def main(out_path=None):
    tr = Translator().run()
    covered, index, txt = emit_lean(tr, out_path)
    refused = [n for n, ci in tr.classes.items() if ci.status.startswith("refused")]
    if refused:
        raise Unsupported("lifecycle translator refuses %d class(es) that are not on the reviewed allow-list:\n%s" % (
            len(refused), "\n".join("  %s: %s" % (n, tr.classes[n].status) for n in sorted(refused))))
    return tr, covered, index


if __name__ == "__main__":
    out = sys.argv[1] if len(sys.argv) > 1 else None
    tr = Translator().run()
    covered, index, txt = emit_lean(tr, out)
    s = summary(tr, covered)
    print("classes found %d, covered %d" % (s["classes_found"], s["covered"]))
    for n, why in sorted(s["not_covered"].items()):
        print("NOT COVERED %s: %s" % (n, why))
    for n, notes in sorted(s["notes"].items()):
        for x in notes:
            print("note %s: %s" % (n, x))
