"""C07 handler specs, group 'pred' (see kernel_handlers.py). register(H) adds the handlers."""

DR_DOMAIN = (
    "directional intra prediction zone %s, %s: arguments derived as build_intra_predictors%s does: all 19 tx sizes; p_angle = base angle "
    "(45,67,90,113,135,157,180,203) + 3*angle_delta, delta -3..3, restricted to the zone; dx/dy from eb_dr_intra_derivative; upsample flags = 0 "
    "(edge filter off) or use_intra_edge_upsample(..) with filt_type 0/1; above/left = 16-byte aligned 160-sample array + 16; valid edge samples "
    "[-1..n-1] ([-2..2n-2] when upsampled), n = bw+bh (z1 above / z3 left) or bw / bh (z2), in [0,2^bd-1] with shared top-left sample; the rest of "
    "both arrays is random garbage (uninitialised stack in the encoder; the unused edge of z1/z3 is all garbage); dst at any sample offset, "
    "strides W, W+1, W+odd, large; %s. Left out: angles other than the 56 coded ones (the unit test also runs all 3..87 table entries)")

QPROTO = ("void(const TranLow*,intptr_t,const int16_t*,const int16_t*,const int16_t*,const int16_t*,TranLow*,TranLow*,const int16_t*,"
          "uint16_t*,const int16_t*,const int16_t*%s)")


def register(H):
    for z in (1, 2, 3):
        extra = ",int32_t" if z == 2 else ""
        H("dr_pred_z%d" % z, r"svt_av1_dr_prediction_z%d" % z,
          "void(uint8_t*,ptrdiff_t,int32_t,int32_t,const uint8_t*,const uint8_t*,int32_t,int32_t,int32_t%s)" % extra, "h_dr_pred",
          DR_DOMAIN % (z, "8-bit", "", "bd=8"), (lambda zz: (lambda m: dict(k=[zz, 0])))(z))
        H("dr_pred_hbd_z%d" % z, r"svt_av1_highbd_dr_prediction_z%d" % z,
          "void(uint16_t*,ptrdiff_t,int32_t,int32_t,const uint16_t*,const uint16_t*,int32_t,int32_t,int32_t,int32_t%s)" % extra, "h_dr_pred",
          DR_DOMAIN % (z, "16-bit", "_high",
                       ("bd in {8,10} (the encoder's bit depths). bd=12 left out: outside the encoder's domain (encoder_bit_depth must be 8 or 10; the "
                        "decoder forces the C function) and the AVX2 12-bit 4xN path without upsampling is wrong (uses highbd_even_odd_maskx instead of "
                        "highbd_load_maskx); KPRED_Z2_BD12=1 adds the bd=12 cases" if z == 2 else
                        "bd in {8,10,12} (the kernel ignores bd; the encoder itself only uses 8/10)") + "; garbage elements are any uint16"),
          (lambda zz: (lambda m: dict(k=[zz, 1])))(z))

    EDGE = ("in place on p = (16-byte aligned 160-sample edge array) + 15 (= above_row-1 / left_col-1 as in build_intra_predictors); sz = 4k+1, "
            "k=1..32 (n_top_px + 1 + (need_right ? txh : 0) with picture dimensions aligned to 8 as in the encoder; the decoder's other sz values "
            "are left out); strength 0..3; p[0..sz-1] in [0,2^bd-1], rest of the array random garbage. Compared: the whole array after the call "
            "EXCEPT the clobber zone p[-1], p[sz..sz+15 bytes]: the SSE4.1 variant overwrites these with p[0] / p[sz-1] while C leaves them "
            "untouched (benign: still inside the callers' arrays and never read as valid samples afterwards; KPRED_STRICT=1 compares them too)")
    H("intra_edge_filter", r"svt_av1_filter_intra_edge", "void(uint8_t*,int32_t,int32_t)", "h_intra_edge",
      "8-bit intra edge filter " + EDGE, lambda m: dict(k=[0, 0]))
    H("intra_edge_filter_hbd", r"svt_av1_filter_intra_edge_high", "void(uint16_t*,int32_t,int32_t)", "h_intra_edge",
      "16-bit intra edge filter, bd in {8,10,12} " + EDGE, lambda m: dict(k=[0, 1]))
    H("intra_edge_upsample", r"svt_av1_upsample_intra_edge", "void(uint8_t*,int32_t)", "h_intra_edge",
      "8-bit intra edge upsampling in place on p = (16-byte aligned 160-sample array) + 16: sz in {4,8,12,16} (bw + (need_right ? bh : 0) with "
      "bw+bh <= 16); p[-1..sz-1] any uint8, rest random garbage. Compared: whole array after the call EXCEPT the clobber zone p[2sz-1..29] "
      "(p[2sz-1..61] for sz=16) that the SSE4.1 variant fills with interpolated garbage beyond the valid result p[-2..2sz-2] "
      "(benign: beyond the samples any predictor reads; KPRED_STRICT=1 compares it too)", lambda m: dict(k=[1, 0]))

    H("cdef_find_dir", r"svt_cdef_find_dir", "int32_t(const uint16_t*,int32_t,int32_t*,int32_t)", "h_cdef_find_dir",
      "CDEF direction search on one 8x8 block -> (direction, *var): samples in [0, 2^(8+coeff_shift)-1], coeff_shift in {0,2} (encoder bit depth 8/10); "
      "stride = CDEF_BSTRIDE (144, the only stride svt_cdef_filter_fb passes) and, additionally, arbitrary strides; any sample offset; content: "
      "extremes, checker, columns/rows, ramp, random, level+noise of 1..bd bits (as test/CdefTest.cc), oriented stripes. Left out: coeff_shift 4 (12-bit)")
    H("cdef_filter_block", r"svt_cdef_filter_block",
      "void(uint8_t*,uint16_t*,int32_t,const uint16_t*,int32_t,int32_t,int32_t,int32_t,int32_t,int32_t,int32_t)", "h_cdef_filter_block",
      "CDEF filter of one block as svt_cdef_filter_fb calls it: (dst8, coeff_shift 0) or (dst16, coeff_shift 0/2), the other dst NULL; bsize 8x8 / 4x4 "
      "(the encoder's 4:2:0 luma / chroma) and 4x8 / 8x4 (4:2:2 / 4:4:0, decoder only); in = 16-bit CDEF_BSTRIDE buffer (32-byte aligned, block at column "
      "8 + k*W) with samples in [0, 2^(8+shift)-1]; CDEF_VERY_LARGE in whole border sides (3 rows / 8 columns, corners following their sides) or in one "
      "corner alone; pri_strength = level<<shift, level 0..15, for chroma, adjust_strength(level<<shift, var) = ((level<<shift)*(4+i)+8)>>4, i 0..12, or 0 "
      "for luma; sec_strength in {0,1,2,4}<<shift; dir 0..7 (0 when level is 0); damping = 3..6 + shift - (chroma), sec_damping = pri_damping (1/8 of the "
      "cases: independent, as the unit test); dst packed (dstride = W) or picture stride, any sample offset. Left out: coeff_shift 4 (12-bit)")
    DIST = ("CDEF search distortion: dst = %s source picture area of 8x8 (or 16x16 for 128x128 superblocks) units of bsize, any stride/offset; src = packed "
            "filtered blocks (32-byte aligned); dlist = raster-ordered subset of the units (all / one / random), cdef_count 1..256; (bsize, pli) = all of "
            "{8x8,4x4,4x8,8x4} x {0,1,2} (encoder: (8x8,0), (4x4,1), (4x4,2)); samples in [0, 2^(8+coeff_shift)-1], %s; return value (uses double "
            "arithmetic for luma 8x8) compared exactly")
    H("cdef_dist_8bit", r"svt_compute_cdef_dist_8bit", "uint64_t(const uint8_t*,int32_t,const uint8_t*,const CdefList*,int32_t,BlockSize,int32_t,int32_t)",
      "h_cdef_dist", DIST % ("8-bit", "coeff_shift 0"), lambda m: dict(k=[0]))
    H("cdef_dist_16bit", r"svt_compute_cdef_dist_16bit", "uint64_t(const uint16_t*,int32_t,const uint16_t*,const CdefList*,int32_t,BlockSize,int32_t,int32_t)",
      "h_cdef_dist", DIST % ("16-bit", "coeff_shift in {0,2}"), lambda m: dict(k=[1]))
    H("cdef_search_one_dual", r"svt_search_one_dual", "uint64_t(int*,int*,int,uint64_t(**)[64],int,int,int)", "h_cdef_search_dual",
      "CDEF joint luma/chroma strength search step as joint_strength_search_dual calls it: nb_strengths 0..7, lev0/lev1[0..nb_strengths-1] in "
      "[0,end_gi), rest of the 16-entry arrays garbage, only lev[nb_strengths] may be written; start_gi = 0, end_gi in {64,32,20,10} "
      "(nb_cdef_strengths[]); sb_count 0..120; mse[2][sb_count][64] with entries < end_gi in [0, 2^8..2^40] (zero, equal, random, near-equal -> ties) "
      "and entries >= end_gi random 64-bit garbage (never written by the search). Left out: distortions >= 2^62 (AVX2 uses 2^62 as infinity, C 2^63; "
      "unreachable), start_gi != 0")

    QDOM = ("%s as av1_quantize_inv_quantize calls it: all tx sizes %s, tx types as for fwd_txfm, n_coeffs = av1_get_max_eob, log_scale = "
            "av1_get_tx_scale_tab[tx_size], scan/iscan = av1_scan_orders[tx_size][tx_type]; zbin/round%s/quant%s/quant_shift/dequant = the [qindex] rows "
            "(8 x int16, 16-byte aligned, DC + 7 x AC) of the Quants/Dequants built by svt_av1_build_quantizer(bd,0,..,0), qindex 0..255, plane y/u/v; "
            "qm_ptr = iqm_ptr = NULL (gqmatrix[NUM_QM_LEVELS-1] is NULL; with matrices the C function is called directly); coefficients = C forward "
            "transform (+ svt_handle_transform packing for 64-point sizes) of a residual in +-((2^bd-1)>>{0,2,4,6}), or sparse / dense synthetic "
            "coefficients of magnitude 0..4*dequant placed around the zbin and dequant/2 thresholds, or all zero; %s; coeff/qcoeff/dqcoeff 32-byte "
            "aligned (multiples of 16 coefficients in 64-byte aligned encoder buffers; the AVX2 *_quantize_b use aligned loads/stores); outputs qcoeff, "
            "dqcoeff (n_coeffs each) and uint16 eob. Left out: non-zero delta_q (use_fixed_qindex_offsets), quantisation matrices, bd=12")
    H("quantize_b", r"svt_aom_quantize_b", QPROTO % ",const QmVal*,const QmVal*,const int32_t", "h_quantize",
      QDOM % ("8-bit quantizer (zbin)", "", "", "", "bd=8 tables"), lambda m: dict(k=[0, 0]))
    H("quantize_b_hbd", r"svt_aom_highbd_quantize_b", QPROTO % ",const QmVal*,const QmVal*,const int32_t", "h_quantize",
      QDOM % ("high-bit-depth quantizer (zbin)", "", "", "", "bd=10 with 10-bit tables and bd=8 with 8-bit tables (16-bit pipeline)"), lambda m: dict(k=[1, 0]))
    for nm, ls, which in (("", 0, "with log_scale 0"), ("_32x32", 1, "with log_scale 1 (32x32,16x32,32x16,16x64,64x16)"), ("_64x64", 2, "with log_scale 2 (64x64,32x64,64x32)")):
        H("quantize_fp" + nm, r"svt_av1_quantize_fp" + nm, QPROTO % "", "h_quantize",
          QDOM % ("8-bit fast quantizer (fp)", which, "_fp", "_fp", "bd=8 tables (coefficients of 8-bit content fit int16, which the AVX2 variant relies on)"),
          (lambda l: (lambda m: dict(k=[2, l])))(ls))
    H("quantize_fp_hbd", r"svt_av1_highbd_quantize_fp", QPROTO % ",int16_t", "h_quantize",
      QDOM % ("high-bit-depth fast quantizer (fp)", "", "_fp", "_fp", "bd=10 with 10-bit tables and bd=8 with 8-bit tables (16-bit pipeline)"), lambda m: dict(k=[3, 0]))

    H("txb_init_levels", r"svt_av1_txb_init_levels", "void(const TranLow*const,const int32_t,const int32_t,uint8_t*const)", "h_txb_init_levels",
      "levels map of a quantised block: width x height = get_txb_wide/high of every tx size (14 distinct, 64 -> 32); coeff = width*height int32 levels: "
      "zero, small, around the INT8_MAX clamp, large (+-32767), sparse mixtures; levels = unaligned uint8 buffer + TX_PAD_TOP*(width+TX_PAD_HOR); "
      "compared: the padded area 2 rows above .. 4 rows below; NOT compared: the TX_PAD_END (16) bytes after it, which C zeroes and the AVX2 variant "
      "never writes (no consumer reads them as data; KPRED_STRICT=1 compares them too); coeff at any int32 offset. Left out: levels <= -32768, where "
      "the AVX2 variant stores 128 instead of 127 (int16 abs overflow) -- unreachable: |coefficient| < 2^(bd+7), dequant >= 4 (KPRED_TXB_WIDE=1 generates +-2^20)")
    H("nz_map_contexts", r"svt_av1_get_nz_map_contexts", "void(const uint8_t*const,const int16_t*const,const uint16_t,const TxSize,const TxClass,int8_t*const)",
      "h_nz_map_contexts",
      "coefficient contexts: all 19 tx sizes, tx class 2D / HORIZ / VERT through a tx type the encoder uses for that size (fwd_txfm rule), scan = "
      "av1_scan_orders[size][type].scan, eob in {1, 2, n, random, short, n/8+short}; levels = output of the C svt_av1_txb_init_levels on a block that is "
      "zero at scan positions >= eob and non-zero at eob-1, with the TX_PAD_END bytes random (the AVX2 txb_init_levels leaves them uninitialised); "
      "coeff_contexts 16-byte aligned (asserted by the SSE2 code). Compared: coeff_contexts at scan "
      "positions < eob (the outputs) -- the SSE2 variant also computes every other position of the width*height array, which C leaves untouched "
      "(benign: the callers' arrays hold MAX_TX_SQUARE entries and only positions < eob are read; KPRED_STRICT=1 compares them too)")
    PAL = ("palette %s (dim %d): n = rows*cols of a palette block (8x8..64x64 and frame-edge partial blocks; multiples of 64, the AVX2 code needs n %% 16 == 0), "
           "data = samples in [0,2^bd-1], bd 8/10, with %s distinct colours (uniform / clustered / extremes, independent or in runs), %s; indices = "
           "n bytes at any offset; %s")
    H("k_means_dim1", r"svt_av1_k_means_dim1", "void(const int*,int*,uint8_t*,int,int,int)", "h_palette",
      PAL % ("k-means", 1, "3..64", "k 2..8 <= colours, initial centroids lb+(2i+1)(ub-lb)/k/2 as search_palette_luma, max_itr 50",
             "outputs centroids[0..k-1] and indices (empty clusters are re-seeded by the deterministic LCG seeded with data[0], identical in C and AVX2)"),
      lambda m: dict(k=[0, 1]))
    H("calc_indices_dim1", r"svt_av1_calc_indices_dim1", "void(const int*,const int*,uint8_t*,int,int)", "h_palette",
      PAL % ("index assignment", 1, "2..64", "k 2..8 sorted duplicate-free centroids in range (palette_rd_y after av1_remove_duplicates)", "output indices"),
      lambda m: dict(k=[1, 1]))
    H("k_means_dim2", r"svt_av1_k_means_dim2", "void(const int*,int*,uint8_t*,int,int,int)", "h_palette",
      PAL % ("k-means", 2, "3..64", "(u,v) pairs; NOT CALLED by this encoder (no chroma palette search) -- domain modelled on dim 1 / libaom's chroma search",
             "outputs centroids[0..2k-1] and indices"), lambda m: dict(k=[0, 2]))
    H("calc_indices_dim2", r"svt_av1_calc_indices_dim2", "void(const int*,const int*,uint8_t*,int,int)", "h_palette",
      PAL % ("index assignment", 2, "2..64", "(u,v) pairs, k 2..8 centroids in range; NOT CALLED by this encoder -- modelled on dim 1", "output indices"),
      lambda m: dict(k=[1, 2]))

    H("filter_intra_pred",r"svt_av1_filter_intra_predictor", "void(uint8_t*,ptrdiff_t,TxSize,const uint8_t*,const uint8_t*,int32_t)", "h_filter_intra",
      "filter-intra predictor (8-bit): the 14 tx sizes with w,h <= 32 (filter intra is only allowed for blocks up to 32x32), 5 modes; "
      "above[-1..w-1], left[0..h-1] any uint8 in 16-byte aligned arrays + 16, left[-1]=above[-1], rest garbage; dst any offset / stride")
