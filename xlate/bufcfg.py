"""C05: regenerate lean/SvtVerif/Gen/BufCfg.lean from /repo (clang-14 JSON AST + a source scan).

Part 1 (translation).  `load_default_buffer_configuration_settings` and `set_parent_pcs`
(Source/Lib/Encoder/Globals/EbEncHandle.c) are translated into Lean `Int` terms with cfun's expression translator
(explicit wraps at every conversion).  The statement level is a symbolic execution into SSA form: every
assignment whose value is not atomic becomes a Lean `def v<k>_<name>`, whose parameters are exactly the
entities its body mentions (`cc` = the local `core_count`, `inp` = the members read, `lpCount`/`numGroups`
= the operating-system answers).  So a member whose value cannot depend on the core count is a `def` that
does not even take `cc` -- which is what makes the non-interference theorems of Props/C05.lean `rfl`.

The function is cut at the last assignment to the local `core_count`:
    coreCount lpCount numGroups inp      = the statements up to the cut (they must not write a member)
    bufCfgCore cc inp : Out              = the statements after the cut, `core_count` being the parameter `cc`
    bufCfg lpCount numGroups inp         = bufCfgCore (coreCount lpCount numGroups inp) inp
The cut is refused (cfun.Unsupported) if any other local computed before it is still read after it.

Environment: `get_num_processors()` -> `lpCount`, the file-static `num_groups` -> `numGroups`,
`get_cpu_flags_to_use()` / `get_cpu_flags()` -> members `env_cpu_flags_to_use` / `env_cpu_flags` of `Inputs`.
Preprocessor: clang sees the `__linux__` branches and is given cmake's definitions for this file (ARCH_X86_64=1 ...).

Part 2 (reads).  Every textual access `->m` / `.m` (comments and string literals stripped) under
Source/Lib/Encoder to a member `m` that the translation found to depend on `cc`, or to one of the three
configuration members that feed `coreCount`/thread affinity, outside the translated function, is listed
as (file, function, member, read|write).  Props/C05.lean requires every entry to be classified.

Anything outside the whitelist raises cfun.Unsupported: the translator refuses rather than approximates.
"""
import json
import os
import re
import sys
import tempfile
from concurrent.futures import ThreadPoolExecutor
sys.path.insert(0, os.path.dirname(os.path.abspath(__file__)))
import cfun
cfun.CAP_VARIABLE_SHIFTS = True          # same convention as xlate/config.py (see DESIGN 10.2)
from cfun import Unsupported, ident, ctype, wrap, fits

SRC = "Source/Lib/Encoder/Globals/EbEncHandle.c"
FUNC = "load_default_buffer_configuration_settings"
HELPER = "set_parent_pcs"
CUT_VAR = "core_count"
BASE = "scs_ptr"
ENV_CALLS = {"get_num_processors": ("lpCount", None),
             "get_cpu_flags": ("inp.env_cpu_flags", ("env_cpu_flags", ("U", 64))),
             "get_cpu_flags_to_use": ("inp.env_cpu_flags_to_use", ("env_cpu_flags_to_use", ("U", 64)))}
GLOBALS = {"num_groups": "numGroups"}
LOG_CALLS = ("svt_log", "SVT_LOG", "SVT_ERROR", "SVT_WARN", "printf", "fprintf")
# configuration members that select the core count / the thread affinity
SOURCES = ["logical_processors", "target_socket", "unpin"]
SCAN_ROOT = "Source/Lib/Encoder"
# the definitions cmake passes when it compiles this file (build.ninja: DEFINES of EbEncHandle.c.o); without ARCH_X86_64
# clang would see the `#else` branch of the cpu-flags block at the end of the function
CMAKE_DEFINES = ("ARCH_X86_64=1", "EN_AVX512_SUPPORT=0", "SAFECLIB_STR_NULL_SLACK=1")
UNINIT = "<uninitialised>"
DEAD = "<computed-before-the-cut>"


def repo():
    return os.environ.get("VERIF_REPO", "/repo")


# --------------------------------------------------------------------------------------------- AST access
def load_asts():
    """Three clang runs (filtered dumps are ~6 MB instead of ~600 MB): the function, the helper, and an
    enum probe that makes clang itself evaluate every enumeration constant the two functions mention."""
    src = os.path.join(repo(), SRC)
    cfun.REPO = repo()
    with ThreadPoolExecutor(max_workers=2) as ex:
        fa = ex.submit(cfun.clang_ast, src, FUNC, CMAKE_DEFINES)
        fb = ex.submit(cfun.clang_ast, src, HELPER, CMAKE_DEFINES)
        a, b = fa.result(), fb.result()
    fns = cfun.find_functions(a, FUNC)
    hs = cfun.find_functions(b, HELPER)
    if len(fns) != 1 or len(hs) != 1:
        raise Unsupported("expected exactly one definition each of %s and %s (found %d, %d)" % (FUNC, HELPER, len(fns), len(hs)))
    names = set()

    def walk(n):
        if isinstance(n, dict):
            rd = n.get("referencedDecl")
            if n.get("kind") == "DeclRefExpr" and rd and rd.get("kind") == "EnumConstantDecl":
                names.add(rd["name"])
            for c in n.get("inner", []):
                walk(c)
    walk(fns[0])
    walk(hs[0])
    enums = {}
    if names:
        with tempfile.TemporaryDirectory() as td:
            p = os.path.join(td, "enum_probe.c")
            with open(p, "w") as fh:
                fh.write('#include "%s"\nenum verif_enum_probe_c05 {\n%s\n};\n' % (
                    src, ",\n".join("  verif_probe_%s = (%s)" % (nm, nm) for nm in sorted(names))))
            objs = cfun.clang_ast(p, "verif_enum_probe_c05", CMAKE_DEFINES)
        for k, v in cfun.enum_values(objs).items():
            if k.startswith("verif_probe_"):
                enums[k[len("verif_probe_"):]] = v
        missing = names - set(enums)
        if missing:
            raise Unsupported("enum constants not evaluated by clang: %s" % sorted(missing))
    return fns[0], hs[0], enums


class Lines:
    """byte offset in SRC -> line number (clang's JSON gives offsets on every location, lines only on change)"""

    def __init__(self):
        data = open(os.path.join(repo(), SRC), "rb").read()
        self.starts = [0]
        for i, b in enumerate(data):
            if b == 10:
                self.starts.append(i + 1)

    def of(self, node):
        import bisect
        r = node.get("range", {}).get("begin", {})
        r = r.get("expansionLoc", r)
        off = r.get("offset")
        if off is None or r.get("file") or r.get("includedFrom"):
            return 0
        return bisect.bisect_right(self.starts, off)


def strip_casts(n):
    while n.get("kind") in ("ImplicitCastExpr", "ParenExpr", "CStyleCastExpr") and n.get("inner"):
        n = n["inner"][0]
    return n


def strip_parens(n):
    while n.get("kind") == "ParenExpr":
        n = n["inner"][0]
    return n


def callee_name(n):
    c = n["inner"][0]
    while c.get("kind") in ("ImplicitCastExpr", "ParenExpr"):
        c = c["inner"][0]
    return c.get("referencedDecl", {}).get("name")


ASSIGN_OPS = ("=", "+=", "-=", "*=", "/=", "&=", "|=")


def is_assign(n):
    return n.get("kind") in ("BinaryOperator", "CompoundAssignOperator") and n.get("opcode") in ASSIGN_OPS


def assigns_local(n, name):
    if not isinstance(n, dict):
        return False
    if is_assign(n) or (n.get("kind") == "UnaryOperator" and n.get("opcode") in ("++", "--")):
        t = strip_parens(n["inner"][0])
        if t.get("kind") == "DeclRefExpr" and t["referencedDecl"]["name"] == name:
            return True
    if n.get("kind") == "VarDecl" and n.get("name") == name:
        return True
    return any(assigns_local(c, name) for c in n.get("inner", []))


# --------------------------------------------------------------------------------------------- symbolic execution
ATOM = re.compile(r"^(\(-?\d+ : Int\)|inp\.\w+|cc|lpCount|numGroups|\([vp]\d+_\w+( (cc|inp|lpCount|numGroups))*\)|[vp]\d+_\w+)$")
PARAMS = [("lpCount", "Int"), ("numGroups", "Int"), ("cc", "Int"), ("inp", "Inputs")]


def params_of(body):
    return [p for p, _ in PARAMS if re.search(r"(?<![\w.])%s(?![\w])" % p, body)]


class Exec(cfun.Ctx):
    def __init__(self, enums, helper_fn, lines):
        super().__init__(enums=enums)
        self.store = {}            # "local:x" / "f:<member path>" / "f:<member path>[i]"  ->  Lean term
        self.types = {}            # key -> ctype
        self.inputs = {}           # member path -> ctype   (read before any write)
        self.written = []          # member keys in order of first write
        self.defs = []             # (name, params, body, comment)
        self.locals = []           # declared locals in order
        self.phase = "p"           # 'p' before the cut, 'v' after
        self.early = []            # (condition term, return value term)
        self.helper_fn = helper_fn
        self.helper = None         # (lean text, [member names read through the pointer argument], scalar params)
        self.lines = lines
        self.cur_line = 0
        self.n = 0

    # ---- naming
    def name(self, hint, term, ty="Int"):
        if ATOM.match(term):
            return term
        self.n += 1
        nm = "%s%d_%s" % (self.phase, self.n, ident(hint))
        ps = params_of(term)
        self.defs.append((nm, ps, term, "%s:%d  %s" % (os.path.basename(SRC), self.cur_line, hint), ty))
        return "(%s %s)" % (nm, " ".join(ps)) if ps else nm

    # ---- reads
    def read_var(self, name, node):
        k = "local:" + name
        if k in self.store:
            t = self.store[k]
            if t == UNINIT:
                raise Unsupported("line %d: read of local `%s` that may be uninitialised" % (self.cur_line, name))
            if t == DEAD:
                raise Unsupported("line %d: local `%s` was computed from the processor count before the `%s` cut and is read after it"
                                  % (self.cur_line, name, CUT_VAR))
            return t
        if name in GLOBALS:
            if self.phase != "p":
                raise Unsupported("line %d: `%s` read after the `%s` cut" % (self.cur_line, name, CUT_VAR))
            return GLOBALS[name]
        raise Unsupported("line %d: read of variable `%s` (not a local, not a modelled global)" % (self.cur_line, name))

    def member_key(self, path, node):
        if not path.startswith(BASE + "_"):
            raise Unsupported("line %d: member access `%s` is not through `%s`" % (self.cur_line, path, BASE))
        q = node.get("type", {}).get("desugaredQualType") or node.get("type", {}).get("qualType", "")
        if "[" in q or "*" in q or ctype(node)[0] not in ("U", "S"):
            raise Unsupported("line %d: member `%s` of non-integer type `%s` used as a value" % (self.cur_line, path, q))
        return path[len(BASE) + 1:]

    def read_member(self, path, node):
        f = self.member_key(path, node)
        k = "f:" + f
        if k in self.store:
            return self.store[k]
        self.inputs.setdefault(f, ctype(node))
        return "inp." + ident(f)

    def call(self, name, node):
        if name in ENV_CALLS:
            if len(node["inner"]) != 1:
                raise Unsupported("environment call %s with arguments" % name)
            term, inp = ENV_CALLS[name]
            if inp:
                self.inputs.setdefault(inp[0], inp[1])
            elif self.phase != "p":
                raise Unsupported("line %d: %s() called after the `%s` cut" % (self.cur_line, name, CUT_VAR))
            return term
        if name == HELPER:
            return self.call_helper(node)
        return None

    def call_helper(self, node):
        """set_parent_pcs(&scs_ptr->static_config, core_count, scs_ptr->input_resolution)"""
        if self.helper is None:
            hcx = HelperCtx(self.enums)
            text, names = cfun.translate_function(self.helper_fn, "setParentPcs", hcx,
                                                  doc="%s:%d set_parent_pcs (pointer argument: never NULL at its only call site, which passes `&scs_ptr->static_config`)"
                                                      % (SRC, self.lines.of(self.helper_fn)))
            params = [p for p in self.helper_fn["inner"] if p.get("kind") == "ParmVarDecl"]
            self.helper = (text, names, params, dict(hcx.free))
        text, names, params, free = self.helper
        args = node["inner"][1:]
        if len(args) != len(params):
            raise Unsupported("call of %s with %d arguments" % (HELPER, len(args)))
        env = {}
        for p, a in zip(params, args):
            if ctype(p)[0] == "P":
                t = strip_casts(a)
                if not (t.get("kind") == "UnaryOperator" and t.get("opcode") == "&"):
                    raise Unsupported("pointer argument of %s is not `&member`" % HELPER)
                path = cfun.member_path(strip_casts(t["inner"][0]))
                if path is None:
                    raise Unsupported("pointer argument of %s" % HELPER)
                for fp, ty in free.items():
                    if not fp.startswith(p["name"] + "_"):
                        raise Unsupported("%s reads `%s`, which is not a member of its pointer parameter" % (HELPER, fp))
                    member = fp[len(p["name"]) + 1:]
                    fake = {"type": {"qualType": {("U", 32): "uint32_t", ("S", 32): "int32_t", ("U", 8): "uint8_t", ("S", 8): "int8_t",
                                                  ("U", 16): "uint16_t", ("S", 16): "int16_t", ("U", 64): "uint64_t", ("S", 64): "int64_t"}.get(ty, "?")}}
                    env[ident(fp)] = self.read_member(path + "_" + member, fake)
            else:
                e = cfun.expr(a, self)
                if not fits(ctype(a), ctype(p)):
                    e = wrap(ctype(p), e)
                env[ident(p["name"])] = e
        missing = [x for x in names if x not in env]
        if missing:
            raise Unsupported("%s parameters without an argument: %s" % (HELPER, missing))
        return "(setParentPcs %s)" % " ".join(env[x] for x in names)

    # ---- writes
    def lval(self, n):
        n = strip_parens(n)
        k = n.get("kind")
        if k == "DeclRefExpr":
            nm = n["referencedDecl"]["name"]
            if "local:" + nm not in self.store:
                raise Unsupported("line %d: assignment to `%s`, which is not a local" % (self.cur_line, nm))
            return "local:" + nm, ctype(n), nm
        if k == "MemberExpr":
            p = cfun.member_path(n)
            if p is None:
                raise Unsupported("line %d: assignment target" % self.cur_line)
            f = self.member_key(p, n)
            return "f:" + f, ctype(n), f
        if k == "ArraySubscriptExpr":
            base, idx = n["inner"]
            b = strip_casts(base)
            i = cfun.literal_value(strip_casts(idx))
            p = cfun.member_path(b) if b.get("kind") == "MemberExpr" else None
            if p is None or i is None or not p.startswith(BASE + "_"):
                raise Unsupported("line %d: array element assignment with a non-constant index or a non-member base" % self.cur_line)
            q = b.get("type", {}).get("desugaredQualType") or b.get("type", {}).get("qualType", "")
            m = re.search(r"\[(\d+)\]", q)
            if not m or not (0 <= i < int(m.group(1))):
                raise Unsupported("line %d: constant index %d outside `%s`" % (self.cur_line, i, q))
            if ctype(n)[0] not in ("U", "S"):
                raise Unsupported("line %d: array element of non-integer type" % self.cur_line)
            f = "%s[%d]" % (p[len(BASE) + 1:], i)
            return "f:" + f, ctype(n), f
        raise Unsupported("line %d: lvalue kind %s" % (self.cur_line, k))

    def current(self, key, hint, lty):
        """value of an lvalue being read-modified"""
        if key in self.store:
            t = self.store[key]
            if t in (UNINIT, DEAD):
                raise Unsupported("line %d: read-modify-write of `%s` (%s)" % (self.cur_line, hint, t))
            return t
        if key.startswith("f:") and "[" not in key:
            self.inputs.setdefault(key[2:], lty)
            return "inp." + ident(key[2:])
        raise Unsupported("line %d: read-modify-write of `%s`" % (self.cur_line, hint))

    def assign(self, n):
        """assignment expression -> (value term, C type of the value)"""
        lhs_n, rhs_n = n["inner"]
        op = n["opcode"]
        key, lty, hint = self.lval(lhs_n)
        inner = strip_parens(rhs_n)
        if is_assign(inner):                                   # x += (y = e)
            val, vty = self.assign(inner)
        else:
            val, vty = cfun.expr(rhs_n, self), ctype(rhs_n)
        if op == "=":
            if not fits(vty, lty):
                val = wrap(lty, val)
        else:
            if n.get("kind") != "CompoundAssignOperator":
                raise Unsupported("compound assignment node kind")
            clt, crt = ctype(n["computeLHSType"]), ctype(n["computeResultType"])
            if clt[0] not in ("U", "S") or crt != clt:
                raise Unsupported("line %d: compound assignment computed at %s/%s" % (self.cur_line, clt, crt))
            cur = self.current(key, hint, lty)
            if not fits(lty, clt):
                cur = wrap(clt, cur)
            if not fits(vty, clt):
                val = wrap(clt, val)
            bop = op[:-1]
            if bop in ("+", "-", "*"):
                val = wrap(clt, "(%s %s %s)" % (cur, bop, val))
            elif bop == "/":
                val = wrap(clt, "(CSem.cdiv %s %s)" % (cur, val))
            elif bop in ("&", "|") and clt == ("U", 64):
                val = "(CSem.%sU64 %s %s)" % ({"&": "and", "|": "or"}[bop], cur, val)
            elif bop in ("&", "|") and clt == ("U", 32):
                val = "(CSem.%sU32 %s %s)" % ({"&": "and", "|": "or"}[bop], cur, val)
            else:
                raise Unsupported("line %d: compound assignment %s at %s" % (self.cur_line, op, clt))
            if not fits(clt, lty):
                val = wrap(lty, val)
        val = self.name(hint, val)
        self.store[key] = val
        self.types[key] = lty
        if key.startswith("f:"):
            if self.phase == "p":
                raise Unsupported("line %d: member `%s` written before the `%s` cut" % (self.cur_line, hint, CUT_VAR))
            if key not in self.written:
                self.written.append(key)
        return val, lty

    def merge(self, c, st_then, st_else, base):
        keys = list(dict.fromkeys(list(st_then.keys()) + list(st_else.keys())))
        out = {}
        cname = None
        for k in keys:
            a, b = st_then.get(k), st_else.get(k)
            if a == b:
                out[k] = a
                continue
            for side in (a, b):
                if side is None and k.startswith("f:"):
                    # written on one path only: the other path keeps the caller's value
                    if "[" in k:
                        raise Unsupported("array cell %s assigned on one path only" % k)
                    self.inputs.setdefault(k[2:], self.types[k])
            a = a if a is not None else ("inp." + ident(k[2:]) if k.startswith("f:") else UNINIT)
            b = b if b is not None else ("inp." + ident(k[2:]) if k.startswith("f:") else UNINIT)
            if UNINIT in (a, b):
                out[k] = UNINIT
                continue
            if DEAD in (a, b):
                out[k] = DEAD
                continue
            if cname is None:
                cname = c
            out[k] = self.name(k.split(":", 1)[1], "(if %s then %s else %s)" % (cname, a, b))
        return out

    def run(self, lst, top=False):
        for idx, s in enumerate(lst):
            if not s:
                continue
            k = s.get("kind")
            ln = self.lines.of(s)
            if ln:
                self.cur_line = ln
            if k == "CompoundStmt":
                self.run(s.get("inner", []))
            elif k == "NullStmt":
                pass
            elif k == "DeclStmt":
                for v in s.get("inner", []):
                    if v.get("kind") != "VarDecl":
                        raise Unsupported("line %d: declaration of %s" % (self.cur_line, v.get("kind")))
                    vt = ctype(v)
                    if vt[0] not in ("U", "S"):
                        raise Unsupported("line %d: local `%s` of non-integer type" % (self.cur_line, v["name"]))
                    init = [c for c in v.get("inner", []) if c.get("kind") not in ("FullComment",)]
                    key = "local:" + v["name"]
                    if v["name"] not in self.locals:
                        self.locals.append(v["name"])
                    self.types[key] = vt
                    if init:
                        e = cfun.expr(init[0], self)
                        if not fits(ctype(init[0]), vt):
                            e = wrap(vt, e)
                        self.store[key] = self.name(v["name"], e)
                    else:
                        self.store[key] = UNINIT
            elif is_assign(s):
                self.assign(s)
            elif k == "IfStmt":
                p = s["inner"]
                th = p[1]
                el = p[2] if len(p) > 2 else None
                if cfun.has_return(th) or (el is not None and cfun.has_return(el)):
                    # only `if (c) return E;` at the top level of the function, before any member is written
                    t = th["inner"][0] if th.get("kind") == "CompoundStmt" and len(th.get("inner", [])) == 1 else th
                    if not (top and el is None and t.get("kind") == "ReturnStmt" and t.get("inner") and not self.written):
                        raise Unsupported("line %d: early return in a form that is not modelled" % self.cur_line)
                    c = self.name("early_return_cond", cfun.cond(p[0], self), "Bool")
                    self.early.append((c, cfun.expr(t["inner"][0], self), self.cur_line))
                    continue
                c = cfun.cond(p[0], self)
                if len(c) > 60:
                    c = self.name("cond", c, "Bool")
                base = dict(self.store)
                self.run([th])
                st_then = self.store
                self.store = dict(base)
                if el is not None:
                    self.run([el])
                st_else = self.store
                self.store = self.merge(c, st_then, st_else, base)
            elif k == "CallExpr":
                if callee_name(s) not in LOG_CALLS:
                    raise Unsupported("line %d: call statement to %s" % (self.cur_line, callee_name(s)))
            elif k == "ReturnStmt":
                if not (top and idx == len(lst) - 1 and s.get("inner")):
                    raise Unsupported("line %d: return statement that is not the last statement" % self.cur_line)
                self.store["return"] = cfun.expr(s["inner"][0], self)
            else:
                raise Unsupported("line %d: statement kind %s" % (self.cur_line, k))


class HelperCtx(cfun.Ctx):
    """set_parent_pcs: its pointer parameter is tested (`if (config)`); the only call site passes the address of a member."""

    def __init__(self, enums):
        super().__init__(enums=enums)

    def read_var(self, name, node):
        if ctype(node)[0] == "P":
            return "(1 : Int)"
        return ident(name)


# --------------------------------------------------------------------------------------------- source scan (reads of geometry members)
def strip_c(src):
    """comments and string/char literals -> spaces (newlines kept)"""
    out = []
    i, n = 0, len(src)
    while i < n:
        c = src[i]
        if src.startswith("//", i):
            while i < n and src[i] != "\n":
                out.append(" ")
                i += 1
        elif src.startswith("/*", i):
            j = src.find("*/", i + 2)
            j = n if j < 0 else j + 2
            out.append("".join(ch if ch == "\n" else " " for ch in src[i:j]))
            i = j
        elif c in "\"'":
            q = c
            out.append(" ")
            i += 1
            while i < n and src[i] != q:
                if src[i] == "\\":
                    out.append(" ")
                    i += 1
                out.append("\n" if i < n and src[i] == "\n" else " ")
                i += 1
            out.append(" ")
            i += 1
        else:
            out.append(c)
            i += 1
    return "".join(out)


FUNC_HEAD = re.compile(r"([A-Za-z_]\w*)\s*\([^;{}]*\)\s*$")


def functions_of(text):
    """[(name, start offset of body, end offset)] for brace blocks at depth 0 preceded by `name(...)`."""
    res = []
    depth = 0
    start = None
    name = None
    last_stmt_end = 0
    for i, ch in enumerate(text):
        if ch == "{":
            if depth == 0:
                head = text[last_stmt_end:i]
                m = FUNC_HEAD.search(head.rstrip())
                name = m.group(1) if m else None
                start = i
            depth += 1
        elif ch == "}":
            depth -= 1
            if depth == 0:
                if name and name not in ("if", "for", "while", "switch"):
                    res.append((name, start, i))
                last_stmt_end = i + 1
            if depth < 0:
                depth = 0
        elif ch == ";" and depth == 0:
            last_stmt_end = i + 1
    return res


def scan_accesses(members):
    root = os.path.join(repo(), SCAN_ROOT)
    pat = re.compile(r"(?:->|\.)\s*(%s)\b" % "|".join(sorted(members, key=len, reverse=True)))
    found = {}          # (file, function, member, kind) -> [lines]
    nfiles = 0
    for dp, _dn, fns in sorted(os.walk(root)):
        for fn in sorted(fns):
            if not fn.endswith((".c", ".h")):
                continue
            nfiles += 1
            path = os.path.join(dp, fn)
            raw = open(path, errors="replace").read()
            if not any(m in raw for m in members):
                continue
            text = strip_c(raw)
            funcs = functions_of(text)
            rel = os.path.relpath(path, os.path.join(repo(), "Source/Lib"))
            for m in pat.finditer(text):
                pos = m.start()
                fname = "<file scope>"
                for nm, a, b in funcs:
                    if a <= pos <= b:
                        fname = nm
                        break
                if fname == FUNC and rel.endswith(os.path.basename(SRC)):
                    continue
                rest = text[m.end():m.end() + 200]
                mm = re.match(r"\s*(\[[^\]]*\])?\s*(=(?!=)|\+=|-=|\*=|/=|&=|\|=|\+\+|--)", rest)
                if mm and mm.group(2) == "=":
                    kind = "write"
                elif mm:
                    kind = "read"          # read-modify-write counts as a read
                else:
                    kind = "read"
                line = text.count("\n", 0, pos) + 1
                found.setdefault((rel, fname, m.group(1), kind), []).append(line)
    return found, nfiles


# --------------------------------------------------------------------------------------------- emission
def lean_str(s):
    return json.dumps(s, ensure_ascii=True)


def field_ident(f):
    return ident(f.replace("[", "_").replace("]", ""))


def generate():
    fn, helper, enums = load_asts()
    lines = Lines()
    ex = Exec(enums, helper, lines)
    body = [c for c in fn["inner"] if c.get("kind") == "CompoundStmt"][0].get("inner", [])
    params = [p for p in fn["inner"] if p.get("kind") == "ParmVarDecl"]
    if [p["name"] for p in params] != [BASE]:
        raise Unsupported("%s parameters are %s" % (FUNC, [p["name"] for p in params]))
    cut = max([i for i, s in enumerate(body) if assigns_local(s, CUT_VAR)], default=None)
    if cut is None:
        raise Unsupported("no assignment to local `%s` in %s" % (CUT_VAR, FUNC))
    ex.run(body[:cut + 1], top=True)
    if ex.early or ex.written or "return" in ex.store:
        raise Unsupported("return or member write before the `%s` cut" % CUT_VAR)
    core_term = ex.store["local:" + CUT_VAR]
    core_line = lines.of(body[cut])
    for k in list(ex.store):
        if k != "local:" + CUT_VAR and ex.store[k] not in (UNINIT,) and re.search(r"\b(lpCount|numGroups)\b", ex.store[k]):
            ex.store[k] = DEAD
    ex.store["local:" + CUT_VAR] = "cc"
    pre_defs, ex.defs = ex.defs, []
    pre_inputs = list(ex.inputs)
    ex.phase = "v"
    ex.run(body[cut + 1:], top=True)
    if "return" not in ex.store:
        raise Unsupported("%s does not end in a return statement" % FUNC)
    for nm, ps, *_ in ex.defs:
        if "lpCount" in ps or "numGroups" in ps:
            raise Unsupported("definition %s after the cut depends on the processor count directly" % nm)

    out_fields = [(k[2:], ex.types[k], ex.store[k]) for k in ex.written]
    core_dep = [f for f, _t, term in out_fields if "cc" in params_of(term)]
    members_dep = sorted(set(re.sub(r"\[\d+\]$", "", f) for f in core_dep))
    # member names as they appear in source text (`static_config_x` is `static_config.x`)
    scan_members = sorted(set(m.split("static_config_")[-1] for m in members_dep) | set(SOURCES))
    found, nfiles = scan_accesses(scan_members)

    o = []
    o.append("/- GENERATED by xlate/bufcfg.py from /repo %s (clang-14 JSON AST; functions %s and %s) and a scan of %s.\n"
             "   Do not edit.  Preprocessor branches as clang sees them on this host (__linux__, ARCH_X86_64).\n"
             "   `cc` is the local `core_count` after its last assignment (line %d). -/\n"
             "import SvtVerif.CSem\nset_option linter.unusedVariables false\nset_option maxRecDepth 4000\nnamespace Gen.BufCfg\n\n"
             % (SRC, FUNC, HELPER, SCAN_ROOT, core_line))
    o.append("/-- members (and environment answers) the function reads before writing them -/\nstructure Inputs where\n")
    for f, t in ex.inputs.items():
        o.append("  %s : Int := 0   -- %s%d\n" % (ident(f), "uint" if t[0] == "U" else "int", t[1]))
    o.append("  deriving Repr\n\n")
    o.append("/-- one field per member (array cell) the function writes -/\nstructure Out where\n")
    for f, t, _ in out_fields:
        o.append("  %s : Int   -- %s%d %s\n" % (field_ident(f), "uint" if t[0] == "U" else "int", t[1], f))
    o.append("  deriving Repr\n\n")
    o.append("inductive FieldName where\n")
    for f, _t, _ in out_fields:
        o.append("  | %s\n" % field_ident(f))
    o.append("  deriving DecidableEq, Repr\n\n")
    o.append("def FieldName.all : List FieldName := [%s]\n\n" % ", ".join("." + field_ident(f) for f, _, _ in out_fields))
    o.append("def FieldName.cName : FieldName → String\n")
    for f, _t, _ in out_fields:
        o.append("  | .%s => %s\n" % (field_ident(f), lean_str(f)))
    o.append("\n/-- width in bits and signedness (true = unsigned) of the C member -/\ndef FieldName.cType : FieldName → Nat × Bool\n")
    for f, t, _ in out_fields:
        o.append("  | .%s => (%d, %s)\n" % (field_ident(f), t[1], "true" if t[0] == "U" else "false"))
    o.append("\ndef Out.get (o : Out) : FieldName → Int\n")
    for f, _t, _ in out_fields:
        o.append("  | .%s => o.%s\n" % (field_ident(f), field_ident(f)))
    o.append("\n")
    o.append(ex.helper[0] if ex.helper else "")
    o.append("\n")

    def emit_defs(defs):
        for d in defs:
            nm, ps, body_, cm = d[:4]
            ty = d[4] if len(d) > 4 else "Int"
            sig = " ".join("(%s : %s)" % (p, dict(PARAMS)[p]) for p in ps)
            o.append("/-- %s -/\ndef %s %s: %s :=\n  %s\n\n" % (cm, nm, sig + " " if sig else "", ty, body_))

    emit_defs(pre_defs)
    o.append("/-- %s:%d-%d  the value of the local `core_count` that the rest of the function uses -/\n"
             "def coreCount (lpCount numGroups : Int) (inp : Inputs) : Int :=\n  %s\n\n" % (SRC, lines.of(body[0]), core_line, core_term))
    emit_defs(ex.defs)
    o.append("/-- the members after the call when it runs to its end (no member is written on the early-return path) -/\n"
             "def bufCfgCore (cc : Int) (inp : Inputs) : Out :=\n  { %s }\n\n"
             % ",\n    ".join("%s := %s" % (field_ident(f), term) for f, _t, term in out_fields))
    ret = ex.store["return"]
    for c, v, _ln in reversed(ex.early):
        ret = "(if %s then %s else %s)" % (c, v, ret)
    o.append("/-- the function's return value (EbErrorType) -/\ndef returnCodeCore (cc : Int) (inp : Inputs) : Int :=\n  %s\n\n" % ret)
    o.append("/-- true iff one of the early `return`s (lines %s) is taken; no member is written then -/\n"
             "def earlyReturnCore (cc : Int) (inp : Inputs) : Bool :=\n  %s\n\n"
             % (", ".join(str(l) for _c, _v, l in ex.early) or "none", " || ".join(c for c, _v, _l in ex.early) or "false"))
    o.append("def bufCfg (lpCount numGroups : Int) (inp : Inputs) : Out := bufCfgCore (coreCount lpCount numGroups inp) inp\n"
             "def returnCode (lpCount numGroups : Int) (inp : Inputs) : Int := returnCodeCore (coreCount lpCount numGroups inp) inp\n"
             "def earlyReturn (lpCount numGroups : Int) (inp : Inputs) : Bool := earlyReturnCore (coreCount lpCount numGroups inp) inp\n\n")
    o.append("/-- final values of the function's locals (as functions of `cc` and the inputs) -/\nstructure Locals where\n")
    loc = [(l, ex.store["local:" + l]) for l in ex.locals if ex.store.get("local:" + l) not in (None, UNINIT, DEAD) and l != CUT_VAR]
    for l, _ in loc:
        o.append("  %s : Int\n" % ident(l))
    o.append("\ndef localsCore (cc : Int) (inp : Inputs) : Locals :=\n  { %s }\n\n" % ",\n    ".join("%s := %s" % (ident(l), t) for l, t in loc))
    member_names = set(ident(f) for f, _t, _ in out_fields) | set(ident(re.sub(r"\[\d+\]$", "", f)) for f, _t, _ in out_fields)
    mem_defs, loc_defs, cond_defs = [], [], []
    for d in pre_defs + ex.defs:
        hint = d[3].split("  ", 1)[1]
        if len(d) > 4 and d[4] == "Bool":
            cond_defs.append(d[0])
        elif ident(hint) in member_names:
            mem_defs.append(d[0])
        else:
            loc_defs.append(d[0])
    for mname, lst, what in (("bufcfg_unfold_members", mem_defs, "the successive values of members"),
                             ("bufcfg_unfold_locals", loc_defs, "the successive values of locals"),
                             ("bufcfg_unfold_conds", cond_defs, "named branch conditions")):
        o.append("/-- unfold the generated definitions of %s (their numbering is not stable, proofs go through this macro) -/\n"
                 "macro \"%s\" : tactic => `(tactic| repeat (delta %s))\n\n" % (what, mname, " ".join(lst) if lst else "id"))
    o.append("/-- members whose generated value mentions `cc` (syntactic dependence on the core count) -/\n"
             "def coreDependent : List FieldName := [%s]\n\n" % ", ".join("." + field_ident(f) for f in core_dep))
    o.append("/-- names of the members read (`Inputs`), as C paths below `scs_ptr->` -/\ndef inputNames : List String := %s\n\n"
             % json.dumps([f for f in ex.inputs]))
    o.append("/-- the members read by the part before the cut (`coreCount`) -/\ndef coreCountInputNames : List String := %s\n\n" % json.dumps(pre_inputs))
    # driver support
    o.append("def Inputs.setField (i : Inputs) (name : String) (v : Int) : Option Inputs :=\n")
    first = True
    for f in ex.inputs:
        o.append("  %s name == %s then some { i with %s := v }\n" % ("if" if first else "else if", lean_str(f), ident(f)))
        first = False
    o.append("  else none\n\n" if not first else "  none\n\n")
    o.append("def Out.dump (o : Out) : List (String × Int) :=\n  FieldName.all.map (fun f => (f.cName, o.get f))\n\n")
    # reads
    o.append("/-- textual accesses (`->m`, `.m`) under %s to the core-dependent members and to %s, outside %s;\n"
             "    (file below Source/Lib, enclosing function, member, read|write).  Lines at generation time are in the comments. -/\n"
             "def scannedMembers : List String := %s\n\ndef geometryAccesses : List (String × String × String × String) := [\n"
             % (SCAN_ROOT, ", ".join(SOURCES), FUNC, json.dumps(scan_members)))
    ents = sorted(found.items())
    o.append("\n".join("  (%s, %s, %s, %s)%s   -- lines %s" % (lean_str(k[0]), lean_str(k[1]), lean_str(k[2]), lean_str(k[3]),
                                                              "," if i + 1 < len(ents) else "", " ".join(str(x) for x in v))
                       for i, (k, v) in enumerate(ents)))
    # a trailing comment after the last element must not swallow the bracket
    o.append("\n  ]\n\ndef filesScanned : Nat := %d\n\nend Gen.BufCfg\n" % nfiles)
    info = {"inputs": list(ex.inputs), "out": [f for f, _, _ in out_fields], "core_dep": core_dep, "scan_members": scan_members,
            "accesses": [(k, v) for k, v in ents], "ndefs": len(pre_defs) + len(ex.defs), "files_scanned": nfiles,
            "early_returns": len(ex.early), "locals": [l for l, _ in loc], "out_types": {f: t for f, t, _ in out_fields},
            "input_types": dict(ex.inputs), "enums": enums}
    return "".join(o), info


def c_expr(f):
    """member path below scs_ptr (as used for field names) -> C expression on `scs`"""
    if f.startswith("static_config_"):
        return "scs->static_config." + f[len("static_config_"):]
    return "scs->" + f


def harness_header(info):
    """X-macro table for harness/bufcfg.c: the members the translated function reads and writes"""
    o = ["/* GENERATED by xlate/bufcfg.py -- members read / written by %s */\n" % FUNC]
    o.append("#define BUFCFG_INPUTS(X) \\\n")
    for f in info["inputs"]:
        if not f.startswith("env_"):
            o.append("    X(%s, \"%s\") \\\n" % (c_expr(f), f))
    o.append("\n#define BUFCFG_OUTPUTS(XU, XS) \\\n")
    for f in info["out"]:
        o.append("    %s(%s, \"%s\") \\\n" % ("XU" if info["out_types"][f][0] == "U" else "XS", c_expr(f), f))
    o.append("\n")
    return "".join(o)


def main(dst):
    txt, info = generate()
    old = open(dst).read() if os.path.exists(dst) else None
    if old != txt:
        with open(dst, "w") as fh:
            fh.write(txt)
    return info


if __name__ == "__main__":
    here = os.path.dirname(os.path.dirname(os.path.abspath(__file__)))
    info = main(sys.argv[1] if len(sys.argv) > 1 else os.path.join(here, "lean/SvtVerif/Gen/BufCfg.lean"))
    print("inputs:", info["inputs"])
    print("out fields:", len(info["out"]), "core-dependent:", len(info["core_dep"]), "defs:", info["ndefs"])
    print("scan members:", info["scan_members"])
    print("accesses:", len(info["accesses"]), "in", info["files_scanned"], "files")
