"""C12/C13: regenerate lean/SvtVerif/Gen/Config.lean from EbEncHandle.c (clang AST):
   svt_svt_enc_init_parameter, set_default_configuration_parameters, copy_api_from_app, verify_settings and the
   helpers they call.  Refuses (cfun.Unsupported) on anything outside the whitelist.
   * `pred_struct` (array of PredictionStructureConfigEntry) is modelled element-wise: Lean structure `PredEntry` with the members
     of the C struct, `List PredEntry` of the declared length; the EB_MEMCPY of copy_api_from_app is a bounded prefix copy
     (`copyPrefixE`, out-of-bounds counts recorded in `oob`).
   * A top-level statement of verify_settings that is not a pure `if (cond) { log; return_error = BadParameter; }` tree (the
     manual-prediction-structure block: nested `for` loops, loop-local flags, a write into the configuration copy) is translated
     as a whole by the state-passing translator (cstate.block) into a helper `h_verify_settings_block<k> : Scs -> (return_error, oob)`;
     the rule fires iff return_error ends non-zero."""
import json
import os
import re
import sys
sys.path.insert(0, os.path.dirname(os.path.abspath(__file__)))
import cfun
cfun.CAP_VARIABLE_SHIFTS = True
import cstate
import symexec
import cfgfields
from cfun import Unsupported, ident

SRC = "Source/Lib/Encoder/Globals/EbEncHandle.c"
STRUCT_MEMBERS = {"rc_twopass_stats_in": ["buf", "sz"]}
# member arrays of structs that are modelled element-wise: member -> (C struct name, Lean structure name)
STRUCT_ARRAYS = {"pred_struct": ("PredictionStructureConfigEntry", "PredEntry")}


def first_string(n):
    if n.get("kind") == "StringLiteral":
        return n.get("value", "")
    for c in n.get("inner", []):
        if c:
            s = first_string(c)
            if s:
                return s
    return ""


class Gen:
    def __init__(self):
        self.objs = cfun.clang_ast(SRC)
        self.enums = cfun.enum_values(self.objs)
        self.cfg = cstate.StructVar("c", "Cfg", "")
        self.scs = cstate.StructVar("s", "Scs", "")
        self.scs.has_oob = True
        self.helpers = []          # lean text
        self.helper_names = {}     # C name -> lean name
        self.helper_reads = {}
        self.opaque = []
        self.struct_defs = {}      # Lean structure name -> {member: ("int", ctype) | ("list", ctype, len)}
        self.struct_ctype = {}     # Lean structure name -> C struct name
        self.verify_oob = []       # oob terms of verify_settings blocks translated as state-passing helpers
        self.block_helpers = {}
        for f in cfgfields.fields():
            if f["struct"] and f["name"] in STRUCT_ARRAYS and f["array"]:
                cname, lname = STRUCT_ARRAYS[f["name"]]
                if f["qual"] != cname:
                    raise Unsupported("member %s is no longer an array of %s" % (f["name"], cname))
                mem = {}
                for m in cfgfields.fields(cname):
                    if m["struct"]:
                        raise Unsupported("nested struct member %s.%s" % (cname, m["name"]))
                    mem[m["name"]] = ("int", m["ctype"]) if m["array"] is None else ("list", m["ctype"], m["array"])
                self.struct_defs[lname] = mem
                self.struct_ctype[lname] = cname
                self.cfg.fields[f["name"]] = ("structlist", lname, f["array"])
                self.scs.fields["static_config_" + f["name"]] = ("structlist", lname, f["array"])
                continue
            if f["struct"]:
                for m in STRUCT_MEMBERS.get(f["name"], []):
                    self.cfg.fields[f["name"] + "_" + m] = ("int", ("S", 64))
                    self.scs.fields["static_config_" + f["name"] + "_" + m] = ("int", ("S", 64))
                if f["name"] not in STRUCT_MEMBERS:
                    # struct(-array) member whose contents are not modelled: one opaque tag = the byte it was filled with
                    self.cfg.fields[f["name"]] = ("blob", ("U", 8))
                    self.opaque.append("member %s: contents not modelled (opaque fill tag)" % f["name"])
                continue
            ent = ("int", f["ctype"]) if f["array"] is None else ("list", f["ctype"], f["array"])
            self.cfg.fields[f["name"]] = ent
            self.scs.fields["static_config_" + f["name"]] = ent

    def fn(self, name):
        fns = cfun.find_functions(self.objs, name)
        if len(fns) != 1:
            raise Unsupported("expected one definition of %s, found %d" % (name, len(fns)))
        return fns[0]

    def ctx(self, bases):
        cx = cstate.SCtx(enums=self.enums)
        cx.bases = bases
        cx.return_wrap = None
        cx.stmt_calls = {"memset": self.st_memset, "memcpy": self.st_memcpy, "svt_memcpy_app": self.st_memcpy,
                         "svt_memcpy": self.st_memcpy}
        cx.struct_members = {}
        cx.struct_defs = self.struct_defs
        for b in bases:
            for sname, ms in STRUCT_MEMBERS.items():
                pre = "static_config_" if bases[b] is self.scs and not b.endswith("static_config") else ""
                cx.struct_members["%s_%s%s" % (b, pre, sname)] = ms
        for cname in ("use_input_stat", "use_output_stat", "compute_default_intra_period", "compute_default_look_ahead",
                      "cap_look_ahead_distance"):
            cx.user_calls[cname] = self.scs_helper_call
        cx.user_calls["verify_hme_dimension"] = self.hme_call
        cx.user_calls["verify_hme_dimension_l1_l2"] = self.hme_call
        return cx

    # ---- helpers taking the SCS (or &scs->static_config) and returning a value
    def scs_helper_call(self, node, cx):
        name = cstate.callee_name(node)
        if name not in self.helper_names:
            self.helper_names[name] = "h_" + name
            f = self.fn(name)
            params = [p for p in f["inner"] if p.get("kind") == "ParmVarDecl"]
            if len(params) != 1:
                raise Unsupported("helper %s arity" % name)
            pq = params[0]["type"]["qualType"]
            base = {params[0]["name"]: self.scs}
            hcx = self.ctx(base)
            if "EbSvtAv1EncConfiguration" in pq:
                hcx.aliases[params[0]["name"]] = "S_static_config"
                hcx.bases = {"S": self.scs}
            body = [c for c in f["inner"] if c.get("kind") == "CompoundStmt"][0]
            term = cstate.block(body.get("inner", []), hcx, None, "  ")
            self.helpers.append("/-- %s:%s -/\ndef h_%s (s : Scs) : Int :=\n  %s\n" % (SRC, name, name, term))
            self.helper_reads[name] = sorted(hcx.reads)
        # the helper sees the SCS as it is *now*: under symbolic execution that is `s` updated with the store
        store = getattr(cx, "store", {})
        ups = ["%s := %s" % (k.split(".", 1)[1], store[k]) for k in self.helper_reads[name] if k in store and store[k] != k]
        arg = self.scs.var if not ups else "{ %s with %s }" % (self.scs.var, ", ".join(ups))
        return "(h_%s %s)" % (name, arg)

    def hme_call(self, node, cx):
        name = cstate.callee_name(node)
        if name not in self.helper_names:
            self.helper_names[name] = "h_" + name
            f = self.fn(name)
            params = [p for p in f["inner"] if p.get("kind") == "ParmVarDecl"]
            hcx = self.ctx({})
            sig = []
            for p in params:
                if cfun.ctype(p)[0] == "P":
                    hcx.list_vars[p["name"]] = ident(p["name"])
                    sig.append("(%s : List Int)" % ident(p["name"]))
                else:
                    sig.append("(%s : Int)" % ident(p["name"]))
            body = [c for c in f["inner"] if c.get("kind") == "CompoundStmt"][0]
            term = cstate.block(body.get("inner", []), hcx, None, "  ")
            self.helpers.append("/-- %s:%s -/\ndef h_%s %s : Int :=\n  %s\n" % (SRC, name, name, " ".join(sig), term))
        args = " ".join(cfun.expr(a, cx) for a in node["inner"][1:])
        return "(h_%s %s)" % (name, args)

    # ---- a top-level statement of verify_settings that is not a pure rejection tree
    def block_helper(self, n, cx, idx, store_mode):
        name = "h_verify_settings_block%d" % idx
        if name not in self.block_helpers:
            hcx = self.ctx({"scs_ptr": self.scs})
            hcx.aliases = dict(cx.aliases)
            hcx.local_defs = dict(cx.local_defs)
            hcx.declared = ["return_error"]
            term = cstate.block([n], hcx, "(return_error, s.oob)", "  ")
            self.helpers.append("/-- %s:verify_settings, statement %d translated as a whole (state-passing): returns (return_error, s.oob);\n"
                                "    `return_error` starts at 0 = EB_ErrorNone and the statement rejects iff it ends non-zero -/\n"
                                "def %s (s : Scs) : Int × Int :=\n  let return_error : Int := (0 : Int)\n  %s\n" % (SRC, idx, name, term))
            self.block_helpers[name] = sorted(hcx.reads)
        if not store_mode:
            return "((%s s).1 != 0)" % name
        store = cx.store
        ups = ["%s := %s" % (k.split(".", 1)[1], store[k]) for k in self.block_helpers[name] if k in store and store[k] != k]
        arg = self.scs.var if not ups else "{ %s with %s }" % (self.scs.var, ", ".join(ups))
        self.verify_oob.append("(%s %s).2" % (name, arg))
        return "((%s %s).1 != 0)" % (name, arg)

    # ---- memset / memcpy on member arrays
    def _arr(self, n, cx):
        t = cstate.strip_casts(n)
        if t.get("kind") == "UnaryOperator" and t.get("opcode") == "&":
            t = cstate.strip_casts(t["inner"][0])
        if t.get("kind") == "ArraySubscriptExpr":
            t = cstate.strip_casts(t["inner"][0])
        p = cfun.member_path(t, cx.aliases)
        if p is None:
            raise Unsupported("memcpy/memset operand")
        sv, f = cx.split(p)
        if sv is None:
            raise Unsupported("memcpy/memset operand base %s" % p)
        return sv, f, t

    def st_memset(self, s, cx, ind):
        sv, f, t = self._arr(s["inner"][1], cx)
        cx.read_member(cfun.member_path(t, cx.aliases), t)
        ent = sv.fields[f]
        val = cfun.expr(s["inner"][2], cx)
        size = cstate.strip_casts(s["inner"][3])
        if ent[0] != "list" or size.get("kind") != "UnaryExprOrTypeTraitExpr":
            raise Unsupported("memset form")
        return "let %s := { %s with %s := List.replicate %d %s }\n%s" % (sv.var, sv.var, ident(f), ent[2], val, ind)

    def st_memcpy(self, s, cx, ind):
        dsv, df, dt = self._arr(s["inner"][1], cx)
        ssv, sf, st = self._arr(s["inner"][2], cx)
        if dsv.fields[df][0] == "structlist":
            raise Unsupported("memcpy of a struct array inside a helper function")
        cx.read_member(cfun.member_path(dt, cx.aliases), dt)
        cx.read_member(cfun.member_path(st, cx.aliases), st)
        ent = dsv.fields[df]
        size = s["inner"][3]
        # N * sizeof(T) with constant N == array length
        txt = json.dumps(size)
        m = re.search(r'"kind": "IntegerLiteral".*?"value": "(\d+)"', txt)
        if ent[0] != "list" or not m or int(m.group(1)) != ent[2]:
            raise Unsupported("memcpy size is not the whole destination array")
        return "let %s := { %s with %s := %s.%s }\n%s" % (dsv.var, dsv.var, ident(df), ssv.var, ident(sf), ind)

    # ---- the functions, by symbolic execution (symexec.py): per-field normal form
    def sym(self, bases):
        cx = symexec.Sym(enums=self.enums)
        base = self.ctx(bases)
        cx.bases, cx.user_calls = bases, base.user_calls
        cx.struct_members = base.struct_members
        cx.struct_defs = self.struct_defs
        cx.struct_ctype = self.struct_ctype
        return cx

    def body_of(self, name):
        f = self.fn(name)
        return [c for c in f["inner"] if c.get("kind") == "CompoundStmt"][0].get("inner", [])

    def with_update(self, var, store):
        items = [(k.split(".", 1)[1], v) for k, v in store.items() if k.startswith(var + ".")]
        if not items:
            return var
        return "{ %s with\n    %s }" % (var, ",\n    ".join("%s := %s" % kv for kv in items))

    def init_param(self):
        cx = self.sym({"config_ptr": self.cfg})
        stm = self.body_of("svt_svt_enc_init_parameter")
        # the NULL-pointer guard `if (!config_ptr) {...return}` is about the pointer, not the contents
        stm = [x for x in stm if not (x.get("kind") == "IfStmt" and cfun.has_return(x) and "config_ptr" in json.dumps(x["inner"][0]))]
        symexec.run(stm, cx, self.opaque)
        self.init_assigned = [k.split(".", 1)[1] for k in cx.store if k.startswith("c.")]
        return ("/-- %s:svt_svt_enc_init_parameter — members never assigned keep the caller's value -/\n"
                "def initParam (c : Cfg) : Cfg :=\n  %s\n" % (SRC, self.with_update("c", cx.store)))

    def set_defaults(self):
        cx = self.sym({"scs_ptr": self.scs})
        symexec.run(self.body_of("set_default_configuration_parameters"), cx, self.opaque)
        self.store_defaults = dict(cx.store)
        return "/-- %s:set_default_configuration_parameters -/\ndef setDefaults (s : Scs) : Scs :=\n  %s\n" % (SRC, self.with_update("s", cx.store))

    def copy_api(self):
        cx = self.sym({"scs_ptr": self.scs, "config_struct": self.cfg})
        symexec.run(self.body_of("copy_api_from_app"), cx, self.opaque)
        txt = "/-- %s:copy_api_from_app -/\ndef copyApi (s : Scs) (c : Cfg) : Scs :=\n  %s\n" % (SRC, self.with_update("s", cx.store))
        # the composition set_default_configuration_parameters ; copy_api_from_app as svt_av1_enc_set_parameter runs it
        cx2 = self.sym({"scs_ptr": self.scs, "config_struct": self.cfg})
        cx2.store = dict(self.store_defaults)
        symexec.run(self.body_of("copy_api_from_app"), cx2, self.opaque)
        self.store_effective = {k: v for k, v in cx2.store.items() if k.startswith("s.")}
        return txt

    def verify(self, store=None):
        f = self.fn("verify_settings")
        if store is None:
            cx = self.ctx({"scs_ptr": self.scs})
        else:
            cx = self.sym({"scs_ptr": self.scs})
            cx.store = dict(store)
        body = [c for c in f["inner"] if c.get("kind") == "CompoundStmt"][0]
        checks = []

        def is_reject_assign(n):
            if n.get("kind") == "BinaryOperator" and n.get("opcode") == "=":
                lhs = cstate.strip_casts(n["inner"][0])
                if lhs.get("kind") == "DeclRefExpr" and lhs["referencedDecl"]["name"] == "return_error":
                    rhs = cstate.strip_casts(n["inner"][1])
                    if rhs.get("kind") == "DeclRefExpr" and rhs["referencedDecl"]["name"] == "EB_ErrorBadParameter":
                        return True
                    raise Unsupported("return_error assigned something other than EB_ErrorBadParameter")
            return False

        def rej(n):
            """Bool term: executing n sets return_error."""
            if not n:
                return "false"
            k = n.get("kind")
            if k == "CompoundStmt":
                ts = [t for t in (rej(c) for c in n.get("inner", [])) if t != "false"]
                return "false" if not ts else ts[0] if len(ts) == 1 else "(" + " || ".join(ts) + ")"
            if k == "IfStmt":
                p = n["inner"]
                c = cfun.cond(p[0], cx)
                a = rej(p[1])
                b = rej(p[2]) if len(p) > 2 else "false"
                if a == "false" and b == "false":
                    return "false"
                if b == "false":
                    return c if a == "true" else "(%s && %s)" % (c, a)
                if a == "false":
                    return "((! %s) && %s)" % (c, b)
                return "(if %s then %s else %s)" % (c, a, b)
            if is_reject_assign(n):
                return "true"
            if k == "CallExpr" and cstate.callee_name(n) in cstate.LOG_CALLS:
                return "false"
            if k == "NullStmt":
                return "false"
            raise Unsupported("verify_settings: statement kind %s not understood" % k)

        def top(n, guard):
            k = n.get("kind")
            if k == "DeclStmt":
                for v in n.get("inner", []):
                    init = [c for c in v.get("inner", []) if c.get("kind") not in ("FullComment",)]
                    if cfun.ctype(v)[0] == "P":
                        cstate.block([{"kind": "DeclStmt", "inner": [v]}], cx, "()", "")   # alias (config = &scs_ptr->static_config)
                    elif v["name"] != "return_error":
                        e = cfun.expr(init[0], cx)
                        if not cfun.fits(cfun.ctype(init[0]), cfun.ctype(v)):
                            e = cfun.wrap(cfun.ctype(v), e)
                        cx.local_defs[v["name"]] = e
                return
            if k == "ReturnStmt":
                return
            if k == "IfStmt" and len(n["inner"]) == 2 and n["inner"][1].get("kind") == "CompoundStmt" and \
                    sum(1 for c in n["inner"][1]["inner"] if c.get("kind") == "IfStmt") > 1:
                try:
                    g = cfun.cond(n["inner"][0], cx)
                    saved = len(checks)
                    for c in n["inner"][1]["inner"]:
                        top(c, (guard + [g]))
                    return
                except Unsupported:
                    del checks[saved:]
                    raise
            label = re.sub(r"\s+", " ", first_string(n).strip('"').replace("\\n", " ").replace("\\t", " ")).strip()
            label = re.sub(r"^Error\s*[Ii]nstance\s*%u\s*:\s*", "", label)
            saved_locals = dict(cx.local_defs)
            try:
                t = rej(n)
            except Unsupported as e:
                # not a pure `if (cond) { log; return_error = BadParameter; }` tree (loops, loop-local flags, writes into the
                # configuration copy): translate the whole statement as a state-passing helper  s |-> (return_error, s.oob)
                cx.local_defs.clear()
                cx.local_defs.update(saved_locals)
                t = self.block_helper(n, cx, len(checks), store is not None)
            if t == "false":
                return
            if guard:
                t = "(%s && %s)" % (" && ".join(guard), t)
            checks.append((label, t))

        for st in body.get("inner", []):
            top(st, [])
        self.nchecks = len(checks)
        self.check_labels = [l for l, _ in checks]
        if store is None:
            out = ["/-- %s:verify_settings — one entry per rejecting statement: (log text, does it fire) -/\ndef verifyChecks : List (String × (Scs → Bool)) := [\n" % SRC]
            out.append(",\n".join("  (%s, fun s => %s)" % (json.dumps(l, ensure_ascii=True), t) for l, t in checks))
            out.append("]\n\n/-- verify_settings returns EB_ErrorNone -/\ndef verify (s : Scs) : Bool := verifyChecks.all (fun p => ! p.2 s)\n")
            return "".join(out)
        out = []
        for i, (l, t) in enumerate(checks):
            out.append("/-- fires ⇔ `%s` -/\ndef rej%d (s : Scs) (c : Cfg) : Bool :=\n  %s\n\n" % (l.replace("-/", "- /"), i, t))
        out.append("/-- verify_settings ∘ copy_api_from_app ∘ set_default_configuration_parameters, each rejecting statement as a\n"
                   "    closed condition over the prior SCS state `s` and the caller's configuration `c` -/\n"
                   "def rejectChecks : List (String × (Scs → Cfg → Bool)) := [\n")
        out.append(",\n".join("  (%s, rej%d)" % (json.dumps(l, ensure_ascii=True), i) for i, (l, _) in enumerate(checks)))
        out.append("]\n")
        return "".join(out)

    def structure(self, sv):
        """Emitted as a structure extending parts of <= 60 members each: compiled Lean allocates one object per
        (sub)structure and objects with more than ~127 boxed fields crash the 4.33 runtime allocator."""
        flds = []
        for f, ent in sv.fields.items():
            if ent[0] in ("int", "blob"):
                flds.append("  %s : Int := 0\n" % ident(f))
            elif ent[0] == "structlist":
                flds.append("  %s : List %s := List.replicate %d {}\n" % (ident(f), ent[1], ent[2]))
            else:
                flds.append("  %s : List Int := List.replicate %d 0\n" % (ident(f), ent[2] or 0))
        if sv is self.scs:
            flds.append("  oob : Int := 0   -- set to 1 when the C code would write outside a member array\n")
        parts = [flds[i:i + 60] for i in range(0, len(flds), 60)]
        out = []
        for i, p in enumerate(parts):
            out.append("structure %sPart%d where\n%s\n" % (sv.type_name, i, "".join(p)))
        out.append("structure %s extends %s\n" % (sv.type_name, ", ".join("%sPart%d" % (sv.type_name, i) for i in range(len(parts)))))
        return "".join(out)

    def struct_decls(self):
        """Lean structures for the elements of modelled struct arrays + fill / bounded copy / range predicate."""
        out = []
        for lname, mem in self.struct_defs.items():
            flds, fill, wt = [], [], []
            for m, ent in mem.items():
                k, n = ent[1]
                lo, hi = (0, 2 ** n - 1) if k in ("U", "E") else (-(2 ** (n - 1)), 2 ** (n - 1) - 1)
                fv = "CSem.fillS %d b" % n if k == "S" else "CSem.fillU %d b" % n
                if ent[0] == "int":
                    flds.append("  %s : Int := 0\n" % ident(m))
                    fill.append("%s := %s" % (ident(m), fv))
                    wt.append("(%d ≤ e.%s ∧ e.%s ≤ %d)" % (lo, ident(m), ident(m), hi))
                else:
                    flds.append("  %s : List Int := List.replicate %d 0\n" % (ident(m), ent[2]))
                    fill.append("%s := List.replicate %d (%s)" % (ident(m), ent[2], fv))
                    wt.append("(e.%s.length = %d ∧ ∀ v ∈ e.%s, %d ≤ v ∧ v ≤ %d)" % (ident(m), ent[2], ident(m), lo, hi))
            out.append("/-- one element of a member array of `%s` (Source/API/EbSvtAv1Enc.h) -/\nstructure %s where\n%s\n"
                       "instance : Inhabited %s := ⟨{}⟩\n\n"
                       "/-- the element after `memset(.., b, ..)` -/\ndef %s.fill (b : Int) : %s :=\n  { %s }\n\n"
                       "/-- every member holds a value of its C type -/\ndef %s.WellTyped (e : %s) : Prop :=\n  %s\n\n"
                       "instance : DecidablePred %s.WellTyped := fun e => by unfold %s.WellTyped; infer_instance\n\n"
                       % (self.struct_ctype[lname], lname, "".join(flds), lname, lname, lname, ", ".join(fill), lname, lname,
                          " ∧\n  ".join(wt), lname, lname))
        if self.struct_defs:
            out.append("/-- `memcpy(&dst[0], &src[0], n * sizeof(element))` on in-bounds elements (out-of-bounds counts are tracked separately) -/\n"
                       "def copyPrefixE {α : Type} [Inhabited α] (n : Int) (src dst : List α) : List α :=\n"
                       "  (List.range n.toNat).foldl (fun d i => d.set i (src.getD i default)) dst\n\n")
        return "".join(out)

    def typed_pred(self, sv, name):
        """Range predicate: every member holds a value of its C type (one named field per member)."""
        flds = []
        for f, ent in sv.fields.items():
            if ent[0] == "structlist":
                flds.append("  %s : x.%s.length = %d ∧ ∀ e ∈ x.%s, e.WellTyped\n" % (ident(f), ident(f), ent[2], ident(f)))
                continue
            k, n = ent[1]
            if k == "P":
                continue
            lo, hi = (0, 2 ** n - 1) if k in ("U", "E") else (-(2 ** (n - 1)), 2 ** (n - 1) - 1)
            if ent[0] in ("int", "blob"):
                flds.append("  %s : %d ≤ x.%s ∧ x.%s ≤ %d\n" % (ident(f), lo, ident(f), ident(f), hi))
            else:
                flds.append("  %s : x.%s.length = %d ∧ ∀ v ∈ x.%s, %d ≤ v ∧ v ≤ %d\n" % (ident(f), ident(f), ent[2], ident(f), lo, hi))
        return "/-- every member holds a value of its C type -/\nstructure %s (x : %s) : Prop where\n%s" % (name, sv.type_name, "".join(flds))

    def generate(self):
        ip = self.init_param()
        sd = self.set_defaults()
        ca = self.copy_api()
        vf = self.verify()
        rc = self.verify(store=self.store_effective)
        oob = self.store_effective.get("s.oob", "s.oob")
        oob_all = "(%s) != 0" % oob + "".join(" ||\n  (%s) != 0" % t for t in self.verify_oob)
        hdr = ("/- GENERATED by xlate/config.py from /repo %s (clang-14 JSON AST). Do not edit.\n"
               "   Opaque (modelled as inputs, not translated):\n%s -/\nimport SvtVerif.CSem\nset_option linter.unusedVariables false\n"
               "set_option maxRecDepth 4000\nnamespace Gen.Config\n\n"
               % (SRC, "".join("     * %s\n" % o for o in sorted(set(self.opaque)))))
        parts = [hdr, self.struct_decls(), self.structure(self.cfg), "\n", self.structure(self.scs), "\n",
                 self.typed_pred(self.cfg, "Cfg.WellTyped"), "\n", self.typed_pred(self.scs, "Scs.WellTyped"), "\n"]
        parts += [h + "\n" for h in self.helpers]
        parts += [ip, "\n", sd, "\n", ca, "\n", vf, "\n", rc, "\n",
                  "/-- what svt_av1_enc_set_parameter decides (EB_ErrorNone ⇔ true), in normal form -/\n"
                  "def setParameterAccepts (s0 : Scs) (c : Cfg) : Bool := rejectChecks.all (fun p => ! p.2 s0 c)\n\n"
                  "/-- the same, computed the way the C code does (used by the driver to cross-check the normal form) -/\n"
                  "def setParameterAcceptsOperational (s0 : Scs) (c : Cfg) : Bool := verify (copyApi (setDefaults s0) c)\n\n"
                  "/-- copy_api_from_app (or a translated loop of verify_settings) would write (or read) outside a member array -/\n"
                  "def setParameterOob (s : Scs) (c : Cfg) : Bool :=\n  %s\n\n" % oob_all,
                  "def cfgFieldNames : List String := %s\n\n" % json.dumps([ident(f) for f in self.cfg.fields]),
                  "def initAssigned : List String := %s\n\n" % json.dumps(self.init_assigned),
                  self.setter(), "\n", self.getter(), "\n", self.filler(), "\n",
                  "end Gen.Config\n"]
        return "".join(parts)

    def setter(self):
        out = ["/-- set a member by name (driver line protocol); arrays as `name[i]` -/\ndef Cfg.setField (c : Cfg) (name : String) (idx : Nat) (v : Int) : Option Cfg :=\n"]
        first = True
        for f, ent in self.cfg.fields.items():
            kw = "if" if first else "else if"
            first = False
            if ent[0] == "structlist":
                # element members by flattened name: `<arr>_<member>[i]`, list members `<arr>_<member>[i*len+j]`
                for m, ment in self.struct_defs[ent[1]].items():
                    nm = json.dumps("%s_%s" % (f, m))
                    if ment[0] == "int":
                        out.append("  %s name == %s then some { c with %s := c.%s.set idx { (c.%s.getD idx default) with %s := v } }\n"
                                   % (kw, nm, ident(f), ident(f), ident(f), ident(m)))
                    else:
                        out.append("  %s name == %s then some { c with %s := c.%s.set (idx / %d) { (c.%s.getD (idx / %d) default) with %s := (c.%s.getD (idx / %d) default).%s.set (idx %% %d) v } }\n"
                                   % (kw, nm, ident(f), ident(f), ment[2], ident(f), ment[2], ident(m), ident(f), ment[2], ident(m), ment[2]))
                    kw = "else if"
            elif ent[0] in ("int", "blob"):
                out.append("  %s name == %s then some { c with %s := v }\n" % (kw, json.dumps(f), ident(f)))
            else:
                out.append("  %s name == %s then some { c with %s := c.%s.set idx v }\n" % (kw, json.dumps(f), ident(f), ident(f)))
        out.append("  else none\n")
        return "".join(out)

    def filler(self):
        out = ["/-- the configuration object after `memset(&cfg, b, sizeof cfg)` -/\ndef Cfg.fillByte (b : Int) : Cfg :=\n  {"]
        items = []
        for f, ent in self.cfg.fields.items():
            if ent[0] == "structlist":
                items.append("%s := List.replicate %d (%s.fill b)" % (ident(f), ent[2], ent[1]))
                continue
            k, n = ent[1]
            v = "CSem.fillS %d b" % n if k == "S" else "CSem.fillU %d b" % n
            items.append("%s := %s" % (ident(f), v) if ent[0] in ("int", "blob") else "%s := List.replicate %d (%s)" % (ident(f), ent[2], v))
        out.append(",\n   ".join(items))
        out.append(" }\n")
        return "".join(out)

    def getter(self):
        out = ["/-- all members as `name value` lines (arrays one line per element) -/\ndef Cfg.dump (c : Cfg) : List (String × Int) :=\n  ["]
        items = []
        for f, ent in self.cfg.fields.items():
            if ent[0] in ("blob", "structlist"):
                continue
            if ent[0] == "int":
                items.append("(%s, c.%s)" % (json.dumps(f), ident(f)))
            else:
                for i in range(ent[2]):
                    items.append("(%s, c.%s.getD %d 0)" % (json.dumps("%s[%d]" % (f, i)), ident(f), i))
        out.append(",\n   ".join(items))
        out.append("]\n")
        return "".join(out)


def main(dst):
    g = Gen()
    txt = g.generate()
    old = open(dst).read() if os.path.exists(dst) else None
    if old != txt:
        open(dst, "w").write(txt)
    return g


if __name__ == "__main__":
    g = main(sys.argv[1] if len(sys.argv) > 1 else "/verif/lean/SvtVerif/Gen/Config.lean")
    print("checks:", g.nchecks, "opaque:", g.opaque)
