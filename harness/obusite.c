/*
 * C02 unit harness for the OBU size-field reservation: runs the REAL framing code on chosen header / payload sizes
 * (in particular on both sides of the LEB128 length boundaries 127/128 and 16383/16384) and prints the bytes, with the
 * same line protocol as `svtmodel obu` (ops SITE ...).
 *
 *   MM <hdrhex> <payloadhex>    buffer = hdr ++ payload ++ 16 zero bytes;
 *                               L = obu_mem_move(|hdr|, |payload|, buf)        (static: source text extracted from
 *                                                                              EbEntropyCoding.c into obusite_extracted.inc)
 *                               write_uleb_obu_size(|hdr|, |payload|, buf)     (libSvtAv1Enc.a)
 *                               -> MM L=<L> rc=<rc> len=<|hdr|+|payload|+L> hex=<first len bytes>
 *   META <sz> <seed>            one ITU-T T.35 metadata item with sz seeded payload bytes through the real
 *                               write_metadata_av1 (write_obu_header, write_obu_metadata, obu_mem_move, write_uleb_obu_size)
 *                               -> META sz=<sz> len=<bytes written> hdr=<hex of the OBU header> payload=<hex of the OBU payload as
 *                                  write_obu_metadata wrote it: type, data, trailing 0x80> hex=<all bytes written>
 *   (`-` stands for an empty hex string.)
 */
#include <stdio.h>
#include <stdlib.h>
#include <string.h>
#include <stdint.h>
#include "EbDefinitions.h"
#include "EbSvtAv1Enc.h"
#include "EbSvtAv1Metadata.h"
#include "EbBitstreamUnit.h"
#include "EbEntropyCodingObject.h"
#include "EbEntropyCoding.h"

size_t svt_aom_uleb_size_in_bytes(uint64_t value);
#include "obusite_extracted.inc"           /* static size_t obu_mem_move(uint32_t, uint32_t, uint8_t *) */

static int hexv(int c) { return c >= '0' && c <= '9' ? c - '0' : c >= 'a' && c <= 'f' ? c - 'a' + 10 : c >= 'A' && c <= 'F' ? c - 'A' + 10 : -1; }
static size_t unhex(const char *s, uint8_t *out) {
    size_t n = 0;
    if (!strcmp(s, "-")) return 0;
    while (s[0] && s[1] && hexv(s[0]) >= 0 && hexv(s[1]) >= 0) { out[n++] = (uint8_t)(hexv(s[0]) * 16 + hexv(s[1])); s += 2; }
    return n;
}
static void puthex(const uint8_t *p, size_t n) { for (size_t i = 0; i < n; i++) printf("%02x", p[i]); }
static uint64_t rnd(uint64_t *s) {
    uint64_t z = (*s += 0x9E3779B97F4A7C15ull);
    z = (z ^ (z >> 30)) * 0xBF58476D1CE4E5B9ull; z = (z ^ (z >> 27)) * 0x94D049BB133111EBull; return z ^ (z >> 31);
}

int main(void) {
    char  *line = NULL;
    size_t cap  = 0;
    while (getline(&line, &cap, stdin) > 0) {
        size_t len = strlen(line);
        while (len && (line[len - 1] == '\n' || line[len - 1] == '\r')) line[--len] = 0;
        char *op = strtok(line, " ");
        if (!op) continue;
        if (!strcmp(op, "MM")) {
            char *hs = strtok(NULL, " "), *ps = strtok(NULL, " ");
            if (!hs || !ps) { printf("MM bad-op\n"); continue; }
            uint8_t *buf = calloc(strlen(hs) / 2 + strlen(ps) / 2 + 64, 1);
            size_t   h = unhex(hs, buf), p = unhex(ps, buf + h);
            size_t   L  = obu_mem_move((uint32_t)h, (uint32_t)p, buf);
            int      rc = write_uleb_obu_size((uint32_t)h, (uint32_t)p, buf);
            printf("MM L=%zu rc=%d len=%zu hex=", L, rc, h + p + L);
            puthex(buf, h + p + L);
            printf("\n");
            free(buf);
        } else if (!strcmp(op, "META")) {
            char *a = strtok(NULL, " "), *b = strtok(NULL, " ");
            if (!a || !b) { printf("META bad-op\n"); continue; }
            size_t   sz = strtoull(a, NULL, 10);
            uint64_t s  = strtoull(b, NULL, 10);
            uint8_t *data = malloc(sz ? sz : 1);
            for (size_t i = 0; i < sz; i++) data[i] = (uint8_t)rnd(&s);
            SvtMetadataArrayT *arr = svt_metadata_array_alloc(1);
            arr->metadata_array[0] = svt_metadata_alloc(EB_AV1_METADATA_TYPE_ITUT_T35, data, sz);
            OutputBitstreamUnit unit; memset(&unit, 0, sizeof(unit));
            unit.size = (uint32_t)(sz + 64);
            unit.buffer_begin_av1 = calloc(unit.size, 1);
            unit.buffer_av1 = unit.buffer_begin_av1;
            Bitstream bs; memset(&bs, 0, sizeof(bs));
            bs.output_bitstream_ptr = &unit;
            EbErrorType e = write_metadata_av1(&bs, arr, EB_AV1_METADATA_TYPE_ITUT_T35);
            size_t n = (size_t)(unit.buffer_av1 - unit.buffer_begin_av1);
            printf("META sz=%zu err=%x len=%zu hdr=%02x payload=%02x", sz, (unsigned)e, n, unit.buffer_begin_av1[0], (unsigned)EB_AV1_METADATA_TYPE_ITUT_T35);
            puthex(data, sz);
            printf("80 hex=");
            puthex(unit.buffer_begin_av1, n);
            printf("\n");
            svt_metadata_array_free(&arr);
            free(unit.buffer_begin_av1); free(data);
        } else printf("bad-op\n");
    }
    free(line);
    return 0;
}
