/*
 * Common preamble of harness/reorder.c and harness/packetize.c: the real headers, the few symbols the extracted
 * `static` functions of EbPacketizationProcess.c reference besides the structs (stubbed), then the extracted text.
 * Stubs: encode_td_av1, bitstream_get_bytes_count/bitstream_copy (3-byte frame header), svt_av1_get_time,
 *   svt_av1_compute_overall_elapsed_time_ms, EB_MALLOC bookkeeping (svt_add_mem_entry/...), svt_log (counts calls).
 */
#ifndef PKTZ_STUBS_H
#define PKTZ_STUBS_H
#include <stdio.h>
#include <stdlib.h>
#include <string.h>
#include <stdint.h>
#include "EbDefinitions.h"
#include "EbSvtAv1Enc.h"
#include "EbSystemResourceManager.h"
#include "EbEncodeContext.h"
#include "EbPacketizationReorderQueue.h"
#include "EbEntropyCodingObject.h"
#include "EbTime.h"
#include "EbLog.h"
#include "EbSvtAv1ErrorCodes.h"
#include "EbMalloc.h"

#define TD_SIZE 2
typedef struct PacketizationContext PacketizationContext; /* only passed through as (void) */
void   encode_td_av1(uint8_t *p) { p[0] = 0x12; p[1] = 0x00; }
int    bitstream_get_bytes_count(const Bitstream *b) { (void)b; return 3; }
void   bitstream_copy(const Bitstream *b, void *dest, int size) { (void)b; memset(dest, 0x33, size); }
void   svt_av1_get_time(uint64_t *const s, uint64_t *const us) { *s = 0; *us = 0; }
double svt_av1_compute_overall_elapsed_time_ms(const uint64_t a, const uint64_t b, const uint64_t c, const uint64_t d) {
    (void)a; (void)b; (void)c; (void)d; return 0.0;
}
void   svt_print_alloc_fail(const char *file, int line) { fprintf(stderr, "alloc fail %s:%d\n", file, line); }
void   svt_add_mem_entry(void *ptr, EbPtrType type, size_t count, const char *file, uint32_t line) { (void)ptr; (void)type; (void)count; (void)file; (void)line; }
void   svt_remove_mem_entry(void *ptr, EbPtrType type) { (void)ptr; (void)type; }
static unsigned long svt_errors_logged;
void   svt_log(SvtLogLevel level, const char *tag, const char *format, ...) { (void)level; (void)tag; (void)format; svt_errors_logged++; }
#include "pktz_extracted.inc"

#endif
