/*
 * C22 (queue part) unit harness: drives the REAL packetization reorder-queue index arithmetic
 *   get_reorder_queue_pos / get_reorder_queue_entry / count_frames_in_next_tu / release_frames
 * (source text extracted from /repo/Source/Lib/Encoder/Codec/EbPacketizationProcess.c by
 * harness/pktz_extract.py into pktz_extracted.inc) on generated arrival orders, at the real depth
 * PACKETIZATION_REORDER_QUEUE_MAX_DEPTH, with the real EncodeContext / PacketizationReorderEntry /
 * EbObjectWrapper / EbBufferHeaderType structs from the real headers.
 *
 * stdin : one op per line  `D a0 a1 a2 ...`   (D must equal the real depth; a_i = decode_order of the
 *         i-th picture reaching packetization_kernel; every frame shown => one frame per temporal unit)
 * stdout: one line per op  `<clobbered 0|1> <count> o0 o1 ...`  (pts of the released output buffers in
 *         release order) -- the same canonical line as `svtmodel reorder`.
 *         `bad-depth` if D differs from the real depth.
 *         followed by a comment line `# pn-mismatch op=<line index> count=.. first=..` when the entry bookkeeping `picture_number += DEPTH`
 *         (release_frames l.588) disagrees with the decode_order written into that entry (must never happen
 *         for window-respecting arrival orders).
 *
 * Hand-copied from packetization_kernel (not a function, cannot be extracted):
 *   insert  l.654-657, 828, 833:  entry = queue[decode_order % DEPTH]; entry->show_frame = ..; entry->output_stream_wrapper_ptr = wrapper;
 *   drain   l.883-909:            while ((frames = count_frames_in_next_tu(ctx, &bytes))) { ...; release_frames(ctx, frames); }
 */
#include "pktz_stubs.h"

static EncodeContext *new_ctx(void) {
    EncodeContext *c = (EncodeContext *)calloc(1, sizeof(*c));
    c->packetization_reorder_queue =
        (PacketizationReorderEntry **)calloc(PACKETIZATION_REORDER_QUEUE_MAX_DEPTH, sizeof(PacketizationReorderEntry *));
    for (uint32_t i = 0; i < PACKETIZATION_REORDER_QUEUE_MAX_DEPTH; i++) {
        /* as packetization_reorder_entry_ctor (EbPacketizationReorderQueue.c:20) + EbEncodeContext.c:150-158 */
        c->packetization_reorder_queue[i] = (PacketizationReorderEntry *)calloc(1, sizeof(PacketizationReorderEntry));
        c->packetization_reorder_queue[i]->picture_number = i;
    }
    c->packetization_reorder_queue_head_index = 0;
    return c;
}
static void free_ctx(EncodeContext *c) {
    for (uint32_t i = 0; i < PACKETIZATION_REORDER_QUEUE_MAX_DEPTH; i++) free(c->packetization_reorder_queue[i]);
    free(c->packetization_reorder_queue);
    free(c);
}

int main(void) {
    char  *line = NULL;
    size_t cap  = 0;
    unsigned long opno = 0;
    while (getline(&line, &cap, stdin) > 0) {
        char *p = line, *e;
        long  D = strtol(p, &e, 10);
        if (e == p) continue;
        p = e;
        if (D != PACKETIZATION_REORDER_QUEUE_MAX_DEPTH) { printf("bad-depth\n"); opno++; continue; }
        size_t n = 0, acap = 1024;
        uint64_t *arr = (uint64_t *)malloc(acap * sizeof(uint64_t));
        for (;;) {
            unsigned long long v = strtoull(p, &e, 10);
            if (e == p) break;
            if (n == acap) { acap *= 2; arr = (uint64_t *)realloc(arr, acap * sizeof(uint64_t)); }
            arr[n++] = v; p = e;
        }
        EncodeContext      *ctx  = new_ctx();
        EbObjectWrapper    *wr   = (EbObjectWrapper *)calloc(n ? n : 1, sizeof(EbObjectWrapper));
        EbBufferHeaderType *hdr  = (EbBufferHeaderType *)calloc(n ? n : 1, sizeof(EbBufferHeaderType));
        int64_t            *out  = (int64_t *)malloc((n ? n : 1) * sizeof(int64_t));
        size_t              nout = 0;
        int                 clobbered = 0;
        unsigned long long  pn_mismatch = 0, first_bad = 0;
        for (size_t k = 0; k < n; k++) {
            uint64_t decode_order = arr[k];
            /* l.654-657 */
            int32_t queue_entry_index = decode_order % PACKETIZATION_REORDER_QUEUE_MAX_DEPTH;
            PacketizationReorderEntry *queue_entry_ptr = ctx->packetization_reorder_queue[queue_entry_index];
            /* instrumentation only: the C code has no such test */
            if (queue_entry_ptr->output_stream_wrapper_ptr != NULL) clobbered = 1;
            if (queue_entry_ptr->picture_number != decode_order) { if (!pn_mismatch) first_bad = decode_order; pn_mismatch++; }
            hdr[k].pts = (int64_t)decode_order; hdr[k].n_filled_len = 0; hdr[k].flags = 0;
            wr[k].object_ptr = (EbPtr)&hdr[k];
            queue_entry_ptr->show_frame = EB_TRUE;                          /* l.828 */
            queue_entry_ptr->has_show_existing = EB_FALSE;                  /* l.829 */
            queue_entry_ptr->output_stream_wrapper_ptr = &wr[k];            /* l.833 */
            /* l.883-909 */
            uint32_t frames, total_bytes;
            while ((frames = count_frames_in_next_tu(ctx, &total_bytes))) {
                queue_entry_ptr = get_reorder_queue_entry(ctx, frames - 1);
                EbBufferHeaderType *o = (EbBufferHeaderType *)queue_entry_ptr->output_stream_wrapper_ptr->object_ptr;
                if (nout < n) out[nout] = o->pts;
                nout++;
                release_frames(ctx, frames);
            }
        }
        printf("%d %zu", clobbered, nout);
        for (size_t k = 0; k < nout && k < n; k++) printf(" %lld", (long long)out[k]);
        printf("\n");
        if (pn_mismatch) printf("# pn-mismatch op=%lu count=%llu first=%llu\n", opno, pn_mismatch, first_bad);
        opno++;
        free(out); free(hdr); free(wr); free(arr); free_ctx(ctx);
    }
    free(line);
    return 0;
}
