/*
 * C07a micro-harness: executes the REAL x86 instructions (through the compiler intrinsics), the REAL load/store helpers
 * of /repo (EbMemory_AVX2.h, synonyms.h — included, they are static inline) and the REAL library kernels
 * (svt_residual_kernel8bit_{c,avx2}, svt_picture_average_kernel_{c,sse2_intrin} from libSvtAv1Enc.a) on op lines read
 * from stdin; one canonical output line per op line.  The Lean model (lean/Driver/SimdA.lean, `svtmodel simda`) reads
 * the same lines and must print the same lines.
 *
 * Build: gcc -O1 -mavx2 -msse4.1 <inc_flags()> harness/simd_ops_a.c <libSvtAv1Enc.a> -lpthread -lm
 *
 * All hex strings are MEMORY DUMPS: two lowercase hex digits per byte, in address order ("-" = empty).
 *
 *  I sub_epi16 <a> <b>              _mm_sub_epi16 (16-byte operands) / _mm256_sub_epi16 (32-byte operands)
 *  I avg_epu8 <a> <b>               _mm_avg_epu8
 *  I unpacklo_epi8_256 <a> <b>      _mm256_unpacklo_epi8
 *  I unpackhi_epi8_256 <a> <b>      _mm256_unpackhi_epi8
 *  I permute4x64_epi64 <imm> <a>    _mm256_permute4x64_epi64(a, imm)
 *  I castsi256_si128 <a>            _mm256_castsi256_si128
 *  I extracti128_si256 <imm> <a>    _mm256_extracti128_si256(a, imm)
 *  I setr_m128i <lo> <hi>           _mm256_setr_m128i
 *  I setzero_256                    _mm256_setzero_si256
 *  I insert_epi32 <imm> <a> <v>     _mm_insert_epi32(a, *(int32_t *)v, imm), v = 4 bytes
 *  I loadh_pd <a> <mem>             _mm_loadh_pd(a, (double *)mem), mem = 8 bytes
 *  I load <nbytes> <mem>            4: _mm_cvtsi32_si128(*(int32_t *)mem) 8: _mm_loadl_epi64 16: _mm_loadu_si128 32: _mm256_loadu_si256
 *  I store8 <nbytes> <a>            4: *(uint32_t *)p = _mm_cvtsi128_si32(a) 8: _mm_storel_epi64 16: _mm_storeu_si128;
 *                                   -> dump of a 24-byte buffer pre-filled with a5, p = buffer + 4
 *  I store16 <n> <a>                4: _mm_storel_epi64 8: _mm_storeu_si128 16: _mm256_storeu_si256 to an int16_t buffer;
 *                                   -> dump of a 24-element int16_t buffer pre-filled with a5a5, p = buffer + 4
 *  I storeh16 <a>                   _mm_storeh_pd((double *)p, a), same buffer
 *  H load_u8_4x4 <stride> <mem>     load_u8_4x4_avx2(mem, stride)
 *  H load_u8_8x4 <stride> <mem>     load_u8_8x4_avx2(mem, stride)
 *  H loadu_u8_16x2 <stride> <mem>   loadu_u8_16x2_avx2(mem, stride)
 *  H store_s16_4x2 <stride> <a>     store_s16_4x2_sse2(a, p, stride) -> dump of int16_t[stride+12] (a5a5), p = buffer + 4
 *  H storeu_s16_8x2 <stride> <a>    storeu_s16_8x2_avx2(a, p, stride) -> dump of int16_t[stride+16] (a5a5), p = buffer + 4
 *  K resid8 <c|avx2> w h is ps rs <input> <pred>
 *        -> dump of int16_t[rs*h + w + 16] pre-filled with a5a5, residual = buffer + 8
 *  K avg <c|sse2> w h st0 st1 ds <src0> <src1>
 *        -> dump of uint8_t[ds*h + w + 16] pre-filled with a5, dst = buffer + 8
 *  K avg1 <c|sse2> w <src0> <src1>
 *        svt_picture_average_kernel1_line_{c,sse2_intrin}(src0, src1, dst, w)
 *        -> dump of uint8_t[w + 16] pre-filled with a5, dst = buffer + 8
 *  anything else -> "bad-op"
 *
 * Input buffers are malloc'ed with exactly the given number of bytes (so an over-read is visible to ASan/valgrind).
 */
#define _GNU_SOURCE
#include <stdio.h>
#include <stdlib.h>
#include <string.h>
#include <stdint.h>
#include <immintrin.h>
/* declared in common_dsp_rtcd.h only under ARCH_X86_64; used by an (unused here) inline helper of synonyms.h */
void svt_memcpy_intrin_sse(void *dst_ptr, void const *src_ptr, size_t size);
#include "EbMemory_AVX2.h"
#include "synonyms.h"

void svt_residual_kernel8bit_c(uint8_t *input, uint32_t input_stride, uint8_t *pred, uint32_t pred_stride,
                               int16_t *residual, uint32_t residual_stride, uint32_t area_width, uint32_t area_height);
void svt_residual_kernel8bit_avx2(uint8_t *input, uint32_t input_stride, uint8_t *pred, uint32_t pred_stride,
                                  int16_t *residual, uint32_t residual_stride, uint32_t area_width, uint32_t area_height);
void svt_picture_average_kernel_c(uint8_t *src0, uint32_t src0_stride, uint8_t *src1, uint32_t src1_stride, uint8_t *dst,
                                  uint32_t dst_stride, uint32_t area_width, uint32_t area_height);
void svt_picture_average_kernel_sse2_intrin(uint8_t *src0, uint32_t src0_stride, uint8_t *src1, uint32_t src1_stride,
                                            uint8_t *dst, uint32_t dst_stride, uint32_t area_width, uint32_t area_height);

void svt_picture_average_kernel1_line_c(uint8_t *src0, uint8_t *src1, uint8_t *dst, uint32_t area_width);
void svt_picture_average_kernel1_line_sse2_intrin(uint8_t *src0, uint8_t *src1, uint8_t *dst, uint32_t area_width);

static int hexv(int c) {
    if (c >= '0' && c <= '9') return c - '0';
    if (c >= 'a' && c <= 'f') return c - 'a' + 10;
    if (c >= 'A' && c <= 'F') return c - 'A' + 10;
    return -1;
}

/* parse a hex dump into an exactly-sized malloc'ed buffer; returns NULL on error; *n = number of bytes */
static uint8_t *parse_hex(const char *s, size_t *n) {
    size_t len = strlen(s);
    if (strcmp(s, "-") == 0) { *n = 0; return (uint8_t *)malloc(1); }
    if (len % 2) return NULL;
    uint8_t *b = (uint8_t *)malloc(len / 2 ? len / 2 : 1);
    for (size_t i = 0; i < len / 2; i++) {
        int x = hexv(s[2 * i]), y = hexv(s[2 * i + 1]);
        if (x < 0 || y < 0) { free(b); return NULL; }
        b[i] = (uint8_t)(16 * x + y);
    }
    *n = len / 2;
    return b;
}

static void dump(const void *p, size_t n) {
    static const char d[] = "0123456789abcdef";
    const uint8_t *b = (const uint8_t *)p;
    char *out = (char *)malloc(2 * n + 2);
    for (size_t i = 0; i < n; i++) { out[2 * i] = d[b[i] >> 4]; out[2 * i + 1] = d[b[i] & 15]; }
    out[2 * n] = '\n'; out[2 * n + 1] = 0;
    fputs(out, stdout);
    free(out);
}

#define C4(f, i) f(i) f(i + 1) f(i + 2) f(i + 3)
#define C16(f, i) C4(f, i) C4(f, i + 4) C4(f, i + 8) C4(f, i + 12)
#define C64(f, i) C16(f, i) C16(f, i + 16) C16(f, i + 32) C16(f, i + 48)
#define C256(f) C64(f, 0) C64(f, 64) C64(f, 128) C64(f, 192)

static __m256i permute4x64(__m256i a, int imm) {
    switch (imm & 255) {
#define P(i) case (i): return _mm256_permute4x64_epi64(a, (i));
        C256(P)
#undef P
    }
    return a;
}
static __m128i extracti128(__m256i a, int imm) {
    /* the instruction uses imm8[0] only; compilers require a 1-bit immediate */
    return (imm & 1) ? _mm256_extracti128_si256(a, 1) : _mm256_extracti128_si256(a, 0);
}
static __m128i insert_epi32(__m128i a, int32_t v, int imm) {
    switch (imm & 3) {
    case 0: return _mm_insert_epi32(a, v, 0);
    case 1: return _mm_insert_epi32(a, v, 1);
    case 2: return _mm_insert_epi32(a, v, 2);
    default: return _mm_insert_epi32(a, v, 3);
    }
}

#define MAXW 16
static int split(char *line, char **w) {
    int n = 0;
    char *save = NULL;
    for (char *t = strtok_r(line, " \t\r\n", &save); t && n < MAXW; t = strtok_r(NULL, " \t\r\n", &save)) w[n++] = t;
    return n;
}

static int bad(void) { puts("bad-op"); return 0; }

static int do_I(int n, char **w) {
    const char *op = w[1];
    size_t la = 0, lb = 0;
    uint8_t *a = NULL, *b = NULL;
    int ok = 0;
    if (!strcmp(op, "setzero_256") && n == 2) {
        __m256i r = _mm256_setzero_si256();
        dump(&r, 32);
        return 1;
    }
    if ((!strcmp(op, "sub_epi16") || !strcmp(op, "avg_epu8") || !strcmp(op, "unpacklo_epi8_256") ||
         !strcmp(op, "unpackhi_epi8_256") || !strcmp(op, "setr_m128i") || !strcmp(op, "loadh_pd")) && n == 4) {
        a = parse_hex(w[2], &la); b = parse_hex(w[3], &lb);
        if (a && b) {
            if (!strcmp(op, "sub_epi16") && la == 16 && lb == 16) {
                __m128i r = _mm_sub_epi16(_mm_loadu_si128((__m128i *)a), _mm_loadu_si128((__m128i *)b));
                dump(&r, 16); ok = 1;
            } else if (!strcmp(op, "sub_epi16") && la == 32 && lb == 32) {
                __m256i r = _mm256_sub_epi16(_mm256_loadu_si256((__m256i *)a), _mm256_loadu_si256((__m256i *)b));
                dump(&r, 32); ok = 1;
            } else if (!strcmp(op, "avg_epu8") && la == 16 && lb == 16) {
                __m128i r = _mm_avg_epu8(_mm_loadu_si128((__m128i *)a), _mm_loadu_si128((__m128i *)b));
                dump(&r, 16); ok = 1;
            } else if (!strcmp(op, "unpacklo_epi8_256") && la == 32 && lb == 32) {
                __m256i r = _mm256_unpacklo_epi8(_mm256_loadu_si256((__m256i *)a), _mm256_loadu_si256((__m256i *)b));
                dump(&r, 32); ok = 1;
            } else if (!strcmp(op, "unpackhi_epi8_256") && la == 32 && lb == 32) {
                __m256i r = _mm256_unpackhi_epi8(_mm256_loadu_si256((__m256i *)a), _mm256_loadu_si256((__m256i *)b));
                dump(&r, 32); ok = 1;
            } else if (!strcmp(op, "setr_m128i") && la == 16 && lb == 16) {
                __m256i r = _mm256_setr_m128i(_mm_loadu_si128((__m128i *)a), _mm_loadu_si128((__m128i *)b));
                dump(&r, 32); ok = 1;
            } else if (!strcmp(op, "loadh_pd") && la == 16 && lb == 8) {
                __m128i r = _mm_castpd_si128(_mm_loadh_pd(_mm_castsi128_pd(_mm_loadu_si128((__m128i *)a)), (double *)(void *)b));
                dump(&r, 16); ok = 1;
            }
        }
    } else if ((!strcmp(op, "permute4x64_epi64") || !strcmp(op, "extracti128_si256")) && n == 4) {
        int imm = atoi(w[2]);
        a = parse_hex(w[3], &la);
        if (a && la == 32) {
            if (!strcmp(op, "permute4x64_epi64")) {
                __m256i r = permute4x64(_mm256_loadu_si256((__m256i *)a), imm);
                dump(&r, 32);
            } else {
                __m128i r = extracti128(_mm256_loadu_si256((__m256i *)a), imm);
                dump(&r, 16);
            }
            ok = 1;
        }
    } else if (!strcmp(op, "castsi256_si128") && n == 3) {
        a = parse_hex(w[2], &la);
        if (a && la == 32) {
            __m128i r = _mm256_castsi256_si128(_mm256_loadu_si256((__m256i *)a));
            dump(&r, 16); ok = 1;
        }
    } else if (!strcmp(op, "insert_epi32") && n == 5) {
        int imm = atoi(w[2]);
        a = parse_hex(w[3], &la); b = parse_hex(w[4], &lb);
        if (a && b && la == 16 && lb == 4) {
            __m128i r = insert_epi32(_mm_loadu_si128((__m128i *)a), *(int32_t *)b, imm);
            dump(&r, 16); ok = 1;
        }
    } else if (!strcmp(op, "load") && n == 4) {
        size_t nb = (size_t)atoi(w[2]);
        a = parse_hex(w[3], &la);
        if (a && la == nb) {
            if (nb == 4) { __m128i r = _mm_cvtsi32_si128(*(int32_t *)a); dump(&r, 16); ok = 1; }
            else if (nb == 8) { __m128i r = _mm_loadl_epi64((__m128i *)a); dump(&r, 16); ok = 1; }
            else if (nb == 16) { __m128i r = _mm_loadu_si128((__m128i *)a); dump(&r, 16); ok = 1; }
            else if (nb == 32) { __m256i r = _mm256_loadu_si256((__m256i *)a); dump(&r, 32); ok = 1; }
        }
    } else if (!strcmp(op, "store8") && n == 4) {
        int nb = atoi(w[2]);
        a = parse_hex(w[3], &la);
        if (a && la == 16 && (nb == 4 || nb == 8 || nb == 16)) {
            uint8_t buf[24];
            memset(buf, 0xA5, sizeof buf);
            __m128i r = _mm_loadu_si128((__m128i *)a);
            if (nb == 4) *(uint32_t *)(buf + 4) = (uint32_t)_mm_cvtsi128_si32(r);
            else if (nb == 8) _mm_storel_epi64((__m128i *)(buf + 4), r);
            else _mm_storeu_si128((__m128i *)(buf + 4), r);
            dump(buf, 24); ok = 1;
        }
    } else if (!strcmp(op, "store16") && n == 4) {
        int ne = atoi(w[2]);
        a = parse_hex(w[3], &la);
        if (a && ((ne == 4 && la == 16) || (ne == 8 && la == 16) || (ne == 16 && la == 32))) {
            int16_t buf[24];
            memset(buf, 0xA5, sizeof buf);
            if (ne == 4) _mm_storel_epi64((__m128i *)(buf + 4), _mm_loadu_si128((__m128i *)a));
            else if (ne == 8) _mm_storeu_si128((__m128i *)(buf + 4), _mm_loadu_si128((__m128i *)a));
            else _mm256_storeu_si256((__m256i *)(buf + 4), _mm256_loadu_si256((__m256i *)a));
            dump(buf, sizeof buf); ok = 1;
        }
    } else if (!strcmp(op, "storeh16") && n == 3) {
        a = parse_hex(w[2], &la);
        if (a && la == 16) {
            int16_t buf[24];
            memset(buf, 0xA5, sizeof buf);
            _mm_storeh_pd((double *)(void *)(buf + 4), _mm_castsi128_pd(_mm_loadu_si128((__m128i *)a)));
            dump(buf, sizeof buf); ok = 1;
        }
    }
    free(a); free(b);
    return ok;
}

static int do_H(int n, char **w) {
    const char *op = w[1];
    if (n != 4) return 0;
    long stride = atol(w[2]);
    size_t la = 0;
    uint8_t *a = parse_hex(w[3], &la);
    int ok = 0;
    if (!a || stride < 0) { free(a); return 0; }
    if (!strcmp(op, "load_u8_4x4") && la >= (size_t)(3 * stride + 4)) {
        __m256i r = load_u8_4x4_avx2(a, stride);
        dump(&r, 32); ok = 1;
    } else if (!strcmp(op, "load_u8_8x4") && la >= (size_t)(3 * stride + 8)) {
        __m256i r = load_u8_8x4_avx2(a, stride);
        dump(&r, 32); ok = 1;
    } else if (!strcmp(op, "loadu_u8_16x2") && la >= (size_t)(stride + 16)) {
        __m256i r = loadu_u8_16x2_avx2(a, stride);
        dump(&r, 32); ok = 1;
    } else if (!strcmp(op, "store_s16_4x2") && la == 16) {
        size_t ne = (size_t)stride + 12;
        int16_t *buf = (int16_t *)malloc(ne * 2);
        memset(buf, 0xA5, ne * 2);
        store_s16_4x2_sse2(_mm_loadu_si128((__m128i *)a), buf + 4, stride);
        dump(buf, ne * 2); free(buf); ok = 1;
    } else if (!strcmp(op, "storeu_s16_8x2") && la == 32) {
        size_t ne = (size_t)stride + 16;
        int16_t *buf = (int16_t *)malloc(ne * 2);
        memset(buf, 0xA5, ne * 2);
        storeu_s16_8x2_avx2(_mm256_loadu_si256((__m256i *)a), buf + 4, stride);
        dump(buf, ne * 2); free(buf); ok = 1;
    }
    free(a);
    return ok;
}

static int do_K1(int n, char **w) {
    if (n != 6) return 0;
    const char *v = w[2];
    uint32_t W = (uint32_t)strtoul(w[3], 0, 10);
    size_t la = 0, lb = 0;
    uint8_t *a = parse_hex(w[4], &la), *b = parse_hex(w[5], &lb);
    int ok = 0;
    if (a && b && (!strcmp(v, "c") || !strcmp(v, "sse2"))) {
        size_t ne = (size_t)W + 16;
        uint8_t *buf = (uint8_t *)malloc(ne);
        memset(buf, 0xA5, ne);
        if (!strcmp(v, "c")) svt_picture_average_kernel1_line_c(a, b, buf + 8, W);
        else svt_picture_average_kernel1_line_sse2_intrin(a, b, buf + 8, W);
        dump(buf, ne); free(buf); ok = 1;
    }
    free(a); free(b);
    return ok;
}

static int do_K(int n, char **w) {
    if (n >= 2 && !strcmp(w[1], "avg1")) return do_K1(n, w);
    if (n != 10) return 0;
    const char *k = w[1], *v = w[2];
    uint32_t W = (uint32_t)strtoul(w[3], 0, 10), H = (uint32_t)strtoul(w[4], 0, 10);
    uint32_t s0 = (uint32_t)strtoul(w[5], 0, 10), s1 = (uint32_t)strtoul(w[6], 0, 10), s2 = (uint32_t)strtoul(w[7], 0, 10);
    size_t la = 0, lb = 0;
    uint8_t *a = parse_hex(w[8], &la), *b = parse_hex(w[9], &lb);
    int ok = 0;
    if (a && b) {
        size_t ne = (size_t)s2 * H + W + 16;
        if (!strcmp(k, "resid8") && (!strcmp(v, "c") || !strcmp(v, "avx2"))) {
            int16_t *buf = (int16_t *)malloc(ne * 2);
            memset(buf, 0xA5, ne * 2);
            if (!strcmp(v, "c")) svt_residual_kernel8bit_c(a, s0, b, s1, buf + 8, s2, W, H);
            else svt_residual_kernel8bit_avx2(a, s0, b, s1, buf + 8, s2, W, H);
            dump(buf, ne * 2); free(buf); ok = 1;
        } else if (!strcmp(k, "avg") && (!strcmp(v, "c") || !strcmp(v, "sse2"))) {
            uint8_t *buf = (uint8_t *)malloc(ne);
            memset(buf, 0xA5, ne);
            if (!strcmp(v, "c")) svt_picture_average_kernel_c(a, s0, b, s1, buf + 8, s2, W, H);
            else svt_picture_average_kernel_sse2_intrin(a, s0, b, s1, buf + 8, s2, W, H);
            dump(buf, ne); free(buf); ok = 1;
        }
    }
    free(a); free(b);
    return ok;
}

int main(void) {
    char *line = NULL;
    size_t cap = 0;
    char *w[MAXW];
    while (getline(&line, &cap, stdin) > 0) {
        int n = split(line, w);
        if (n == 0) continue;
        int ok = 0;
        if (n >= 2 && !strcmp(w[0], "I")) ok = do_I(n, w);
        else if (n >= 2 && !strcmp(w[0], "H")) ok = do_H(n, w);
        else if (n >= 2 && !strcmp(w[0], "K")) ok = do_K(n, w);
        if (!ok) bad();
    }
    free(line);
    return 0;
}
