/* qp_e2e — C18: drives the REAL SVT-AV1 encoder for the quantizer-bounds property; complements enc_e2e with what that driver
 * does not do: (a) a per-picture QP in the input buffer header (`use_qp_file` path, qp_on_the_fly), (b) two-pass encodes
 * (first pass with rc_firstpass_stats_out, stats fetched with svt_av1_enc_get_stream_info, second pass with rc_twopass_stats_in).
 *
 *   qp_e2e key=value ...      one (1- or 2-pass) encode per process; canonical lines on stdout, same PKT/HEX/HDRHEX/SETPARAM/ERR/END
 *                             format as enc_e2e (parsed by checks/common.py:parse_e2e), plus
 *   PASS1 setparam=<hex> packets=<n> stats_bytes=<n>     result of the first pass (passes=2)
 *   INQP <picture> <qp>                                   the qp written into the input header of picture <picture> (inqp >= 0)
 * keys: w h n bd content(0 noise,1 flat,2 gradient,4 moving blocks) seed hex watchdog
 *       passes: 1 single pass | 2 first pass (not reported) then second pass (reported) | -1 first pass only, reported
 *       inqp: -1 none (header qp 0) | 0..255 constant | 1000 seeded random 0..70 per picture | 1001 (7*f) % 64
 *       cfg.<member>=v  applied after the library defaults in every pass (source size, bit depth, enc_mode 8, 4 threads are set first)
 * Exit code: 0 normal; 3 watchdog (prints TIMEOUT).
 */
#include <stdio.h>
#include <stdlib.h>
#include <string.h>
#include <stdint.h>
#include <unistd.h>
#include <signal.h>
#include <inttypes.h>
#include "EbSvtAv1Enc.h"
#include "cfg_fields.h"

typedef struct { uint64_t s; } Rng;
static uint64_t rnd(Rng *r) {
    uint64_t z = (r->s += 0x9E3779B97F4A7C15ull);
    z = (z ^ (z >> 30)) * 0xBF58476D1CE4E5B9ull;
    z = (z ^ (z >> 27)) * 0x94D049BB133111EBull;
    return z ^ (z >> 31);
}
static uint64_t fnv(const uint8_t *p, size_t n) {
    uint64_t h = 0xcbf29ce484222325ull;
    for (size_t i = 0; i < n; i++) { h ^= p[i]; h *= 0x100000001b3ull; }
    return h;
}
typedef struct { int w, h, n, bd, content, passes, hex, watchdog, inqp; uint64_t seed; } Params;
static Params P;
static int g_argc; static char **g_argv;

static long long parse_ll(const char *s) { return s[0] == '-' ? strtoll(s, NULL, 10) : (long long)strtoull(s, NULL, 10); }
static int set_cfg_field(EbSvtAv1EncConfiguration *c, const char *name, long long v) {
#define X(f) if (!strcmp(name, #f)) { c->f = v; return 1; }
    CFG_SCALARS(X)
#undef X
    { char base[128]; int idx;
      if (sscanf(name, "%127[^[][%d]", base, &idx) == 2) {
#define X(f, n) if (!strcmp(base, #f) && idx >= 0 && idx < n) { c->f[idx] = v; return 1; }
          CFG_ARRAYS(X)
#undef X
      } }
    return 0;
}
static uint32_t hash3(uint64_t seed, int f, int p, int x, int y) {
    uint64_t z = seed ^ ((uint64_t)f << 40) ^ ((uint64_t)p << 36) ^ ((uint64_t)y << 18) ^ (uint64_t)x;
    z += 0x9E3779B97F4A7C15ull; z = (z ^ (z >> 30)) * 0xBF58476D1CE4E5B9ull;
    z = (z ^ (z >> 27)) * 0x94D049BB133111EBull; return (uint32_t)(z ^ (z >> 31));
}
static int sample_at(int f, int p, int x, int y) {
    int maxv = (1 << P.bd) - 1;
    int sx = p ? x * 2 : x, sy = p ? y * 2 : y;
    switch (P.content) {
    case 0: return hash3(P.seed, f, p, x, y) & maxv;
    case 1: return p ? (maxv + 1) / 2 : ((60 + 3 * f) << (P.bd - 8)) & maxv;
    case 2: return ((sx + 2 * sy + 5 * f) << (P.bd - 8)) & maxv;
    default: {
        int bx = (sx + 3 * f) >> 4, by = (sy + f) >> 4;
        int base = (hash3(P.seed, 0, p, bx, by) & 0xff) << (P.bd - 8);
        int tex = (hash3(P.seed, 0, p, sx + 3 * f, sy + f) & 7) << (P.bd - 8);
        int v = base + tex; return v > maxv ? maxv : v; }
    }
}
static int in_qp(int f) {
    if (P.inqp < 0) return 0;
    if (P.inqp == 1000) { Rng r = {P.seed ^ 0x51F0 ^ ((uint64_t)f << 20)}; return (int)(rnd(&r) % 71); }
    if (P.inqp == 1001) return (7 * f) % 64;
    return P.inqp;
}
static void on_timeout(int sig) { (void)sig; static const char m[] = "TIMEOUT\n"; if (write(1, m, sizeof(m) - 1)) {} _exit(3); }

/* one pass; report != 0 prints the canonical lines.  Returns number of packets, -1 on set_parameter rejection / init failure. */
static int one_pass(int first_pass, const SvtAv1FixedBuf *stats_in, SvtAv1FixedBuf *stats_out, int report, EbErrorType *sp) {
    static EbSvtAv1EncConfiguration cfg;
    EbComponentType *h = NULL;
    memset(&cfg, 0, sizeof(cfg));
    EbErrorType e = svt_av1_enc_init_handle(&h, NULL, &cfg);
    if (e != EB_ErrorNone) { printf("ERR init_handle %x\n", e); return -1; }
    cfg.source_width = P.w; cfg.source_height = P.h; cfg.encoder_bit_depth = P.bd; cfg.enc_mode = 8; cfg.logical_processors = 4;
    for (int i = 1; i < g_argc; i++) {
        if (strncmp(g_argv[i], "cfg.", 4)) continue;
        char *eq = strchr(g_argv[i], '='); if (!eq) continue;
        *eq = 0;
        if (!set_cfg_field(&cfg, g_argv[i] + 4, parse_ll(eq + 1)) && report) printf("ERR unknown-config-field %s\n", g_argv[i] + 4);
        *eq = '=';
    }
    if (first_pass) cfg.rc_firstpass_stats_out = 1;
    if (stats_in) cfg.rc_twopass_stats_in = *stats_in;
    e = svt_av1_enc_set_parameter(h, &cfg);
    *sp = e;
    if (report) printf("SETPARAM %x\n", e);
    if (e != EB_ErrorNone) { svt_av1_enc_deinit_handle(h); return -1; }
    e = svt_av1_enc_init(h);
    if (e != EB_ErrorNone) { printf("ERR enc_init %x\n", e); svt_av1_enc_deinit(h); svt_av1_enc_deinit_handle(h); return -1; }
    if (report) {
        EbBufferHeaderType *sh = NULL;
        if (svt_av1_enc_stream_header(h, &sh) == EB_ErrorNone && sh) {
            printf("HDR %u %016" PRIx64 "\n", sh->n_filled_len, fnv(sh->p_buffer, sh->n_filled_len));
            if (P.hex) { printf("HDRHEX "); for (uint32_t i = 0; i < sh->n_filled_len; i++) printf("%02x", sh->p_buffer[i]); printf("\n"); }
            svt_av1_enc_stream_header_release(sh);
        }
    }
    int bps = P.bd > 8 ? 2 : 1, cw = P.w / 2, ch = P.h / 2, npk = 0, eos = 0;
    size_t ysz = (size_t)P.w * P.h * bps, csz = (size_t)cw * ch * bps;
    uint8_t *pl[3] = {malloc(ysz), malloc(csz), malloc(csz)};
    for (int f = 0; f <= P.n; f++) {
        EbBufferHeaderType in; EbSvtIOFormat io;
        memset(&in, 0, sizeof(in)); memset(&io, 0, sizeof(io));
        in.size = sizeof(in); in.pic_type = EB_AV1_INVALID_PICTURE;
        if (f == P.n) { in.flags = EB_BUFFERFLAG_EOS; in.p_buffer = NULL; }
        else {
            for (int p = 0; p < 3; p++) {
                int W = p ? cw : P.w, H = p ? ch : P.h;
                for (int y = 0; y < H; y++) for (int x = 0; x < W; x++) {
                    int v = sample_at(f, p, x, y);
                    if (bps == 1) pl[p][(size_t)y * W + x] = (uint8_t)v; else ((uint16_t *)pl[p])[(size_t)y * W + x] = (uint16_t)v;
                }
            }
            io.luma = pl[0]; io.cb = pl[1]; io.cr = pl[2]; io.y_stride = P.w; io.cb_stride = cw; io.cr_stride = cw;
            io.width = P.w; io.height = P.h; io.color_fmt = EB_YUV420; io.bit_depth = P.bd > 8 ? EB_TEN_BIT : EB_EIGHT_BIT;
            in.p_buffer = (uint8_t *)&io; in.n_filled_len = (uint32_t)(ysz + 2 * csz); in.n_alloc_len = in.n_filled_len;
            in.pts = f; in.qp = (uint32_t)in_qp(f); in.p_app_private = (void *)(intptr_t)(1000 + f);
            if (report && P.inqp >= 0) printf("INQP %d %u\n", f, in.qp);
        }
        e = svt_av1_enc_send_picture(h, &in);
        if (e != EB_ErrorNone) printf("ERR send_picture %x\n", e);
        for (;;) {
            EbBufferHeaderType *b = NULL;
            e = svt_av1_enc_get_packet(h, &b, (uint8_t)(f == P.n && !eos));
            if (e == EB_NoErrorEmptyQueue || b == NULL) { if (f == P.n && !eos && e != EB_NoErrorEmptyQueue) { printf("ERR get_packet %x\n", e); eos = 1; } break; }
            if (report) {
                printf("PKT %d %" PRId64 " %" PRId64 " %u %u %u %u %016" PRIx64 " %u %u %u %" PRIdPTR "\n", npk, b->pts, b->dts, b->flags, b->pic_type,
                       b->qp, b->n_filled_len, fnv(b->p_buffer, b->n_filled_len), b->luma_sse, b->cb_sse, b->cr_sse, (intptr_t)b->p_app_private);
                if (b->flags & ~(uint32_t)(EB_BUFFERFLAG_EOS | EB_BUFFERFLAG_SHOW_EXT | EB_BUFFERFLAG_HAS_TD | EB_BUFFERFLAG_IS_ALT_REF))
                    printf("ERR error-packet flags=%08x\n", b->flags);
                if (P.hex) { printf("HEX %d ", npk); for (uint32_t i = 0; i < b->n_filled_len; i++) printf("%02x", b->p_buffer[i]); printf("\n"); }
            }
            npk++;
            if (b->flags & EB_BUFFERFLAG_EOS) eos = 1;
            svt_av1_enc_release_out_buffer(&b);
            if (f == P.n && eos) break;
        }
    }
    if (stats_out) {
        SvtAv1FixedBuf s; memset(&s, 0, sizeof(s));
        e = svt_av1_enc_get_stream_info(h, SVT_AV1_STREAM_INFO_FIRST_PASS_STATS_OUT, &s);
        if (e != EB_ErrorNone || !s.buf || !s.sz) { printf("ERR get_stream_info %x sz=%" PRIu64 "\n", e, (uint64_t)s.sz); stats_out->buf = NULL; stats_out->sz = 0; }
        else { stats_out->buf = malloc(s.sz); memcpy(stats_out->buf, s.buf, s.sz); stats_out->sz = s.sz; }
    }
    e = svt_av1_enc_deinit(h); if (e != EB_ErrorNone) printf("ERR enc_deinit %x\n", e);
    e = svt_av1_enc_deinit_handle(h); if (e != EB_ErrorNone) printf("ERR enc_deinit_handle %x\n", e);
    free(pl[0]); free(pl[1]); free(pl[2]);
    return npk;
}

int main(int argc, char **argv) {
    memset(&P, 0, sizeof(P));
    P.w = 128; P.h = 64; P.n = 6; P.bd = 8; P.content = 4; P.passes = 1; P.hex = 1; P.watchdog = 240; P.inqp = -1; P.seed = 1;
    g_argc = argc; g_argv = argv;
    for (int i = 1; i < argc; i++) {
        char *eq = strchr(argv[i], '='); if (!eq) continue;
        *eq = 0; const char *k = argv[i]; long long v = parse_ll(eq + 1);
#define PAR(name) if (!strcmp(k, #name)) P.name = (int)v;
        PAR(w) PAR(h) PAR(n) PAR(bd) PAR(content) PAR(passes) PAR(hex) PAR(watchdog) PAR(inqp)
#undef PAR
        if (!strcmp(k, "seed")) P.seed = strtoull(eq + 1, NULL, 10);
        *eq = '=';
    }
    signal(SIGALRM, on_timeout); alarm(P.watchdog);
    setvbuf(stdout, NULL, _IOFBF, 1 << 20);
    EbErrorType sp = EB_ErrorNone;
    int npk;
    if (P.passes == 2) {
        SvtAv1FixedBuf stats; memset(&stats, 0, sizeof(stats));
        int n1 = one_pass(1, NULL, &stats, 0, &sp);
        printf("PASS1 setparam=%x packets=%d stats_bytes=%" PRIu64 "\n", sp, n1, (uint64_t)stats.sz);
        if (n1 < 0 || !stats.sz) { printf("END first-pass-failed\n"); fflush(stdout); return 0; }
        npk = one_pass(0, &stats, NULL, 1, &sp);
    } else if (P.passes == -1) {
        SvtAv1FixedBuf stats; memset(&stats, 0, sizeof(stats));
        npk = one_pass(1, NULL, &stats, 1, &sp);
        printf("PASS1 setparam=%x packets=%d stats_bytes=%" PRIu64 "\n", sp, npk, (uint64_t)stats.sz);
    } else npk = one_pass(0, NULL, NULL, 1, &sp);
    if (npk < 0) printf("END rejected\n"); else printf("END packets=%d recons=0 decoded=0\n", npk);
    fflush(stdout);
    return 0;
}
