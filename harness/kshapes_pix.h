/* C07 harness shape handlers, group 'pix': pack/unpack/convert, residual, distortion, sse, averages, small utilities.
 * Included by kernels_shapes.h */
#ifndef VERIF_KSHAPES_PIX_H
#define VERIF_KSHAPES_PIX_H

/* the 22 AV1 block sizes (w,h) */
static const int k_blk[22][2] = { {4,4},{4,8},{8,4},{8,8},{8,16},{16,8},{16,16},{16,32},{32,16},{32,32},{32,64},{64,32},{64,64},
                                  {64,128},{128,64},{128,128},{4,16},{16,4},{8,32},{32,8},{16,64},{64,16} };
/* the 19 transform sizes are the block sizes with both dimensions <= 64 */
static inline int k_is_tx(int i) { return k_blk[i][0] <= 64 && k_blk[i][1] <= 64; }

/* ------------------------------------------------------------------ two 2-D inputs -> one 2-D output, generic driver
 * kind: 0 residual8 (u8,u8 -> i16)  1 residual16 (u16,u16 -> i16, values < 2^bd)  2 picture_average (u8,u8 -> u8)
 *       3 unpack_avg (u16 10-bit,u16 10-bit -> u8)  4 unpack_avg_safe_sub (same + sub_pred flag) */
static void h_two_in_one_out(Cx *cx, const Entry *e) {
    const int kind = e->k[0];
    for (int pass = 0; pass < cx->passes; pass++)
        for (int zi = 0; zi < 22; zi++)
            for (int sub = 0; sub < (kind == 4 ? 2 : 1); sub++)
                for (int bdi = 0; bdi < (kind == 1 ? 2 : 1); bdi++)
                    for (int pat = 0; pat < KP2_N; pat++) {
                        const int W = k_blk[zi][0], H = k_blk[zi][1];
                        if ((kind == 3 || kind == 4) && (W > 64 || H > 64)) continue;   /* TEST_AVG_SIZES: up to 64x64 */
                        if (kind == 4 && W < 8) continue;                                /* safe_sub: widths 8..64 */
                        if (K_SKIP2(pass, pat)) continue;
                        if (!kc_case(cx)) continue;
                        const int ein = (kind == 0 || kind == 2) ? 1 : 2, eout = (kind <= 1) ? 2 : 1;
                        const int bd = kind == 1 ? (bdi ? 10 : 8) : kind >= 3 ? 10 : 8;
                        const int64_t hi = (1 << bd) - 1;
                        const int rows = sub ? 2 * H : H;      /* sub_pred: the caller passes doubled strides over a 2H-row block */
                        int s0 = k_stride_any(cx, (int)kr_n(cx, 4), W), s1 = k_stride_any(cx, (int)kr_n(cx, 4), W), sd = k_stride_any(cx, (int)kr_n(cx, 4), W);
                        int pa, pb; kp2(pat, &pa, &pb);
                        kc_par(cx, "w", W); kc_par(cx, "h", H); kc_par(cx, "bd", bd); kc_par(cx, "sub_pred", sub);
                        kc_par(cx, "stride0", s0); kc_par(cx, "stride1", s1); kc_par(cx, "dstride", sd); kc_par(cx, "pat", pat);
                        cx->next_off = (int)kr_n(cx, 32);
                        Buf *a0 = kb(cx, "in0", KB_IN, ein, 0, W, rows, s0);
                        cx->next_off = (int)kr_n(cx, 32);
                        Buf *a1 = kb(cx, "in1", KB_IN, ein, 0, W, rows, s1);
                        cx->next_off = (int)kr_n(cx, 32);
                        Buf *d = kb(cx, "out", KB_OUT, eout, kind <= 1, W, rows, sd);
                        kb_fill(cx, a0, pa, 0, hi); kb_fill(cx, a1, pb, 0, hi);
                        Args a; memset(&a, 0, sizeof(a));
                        a.p[0] = a0->p; a.p[1] = a1->p; a.p[2] = d->p;
                        const int m = sub ? 2 : 1;
                        a.i[0] = s0 * m; a.i[1] = s1 * m; a.i[2] = sd * m;
                        if (kind == 4) { a.i[3] = sub; a.i[4] = W; a.i[5] = H; }
                        else { a.i[3] = W; a.i[4] = H; }
                        kc_exec(cx, &a);
                    }
}

/* svt_picture_average_kernel1_line(src0, src1, dst, width) */
static void h_avg_line(Cx *cx, const Entry *e) {
    (void)e;
    static const int ws[] = { 4, 8, 16, 32, 64 };   /* the SSE2 kernel implements exactly these widths (PU widths; test/PictureOperatorTest.cc) */
    for (int pass = 0; pass < cx->passes; pass++)
        for (int wi = 0; wi < KARRAY(ws) + 2; wi++)
            for (int pat = 0; pat < KP2_N; pat++) {
                if (K_SKIP2(pass, pat)) continue;
                if (!kc_case(cx)) continue;
                const int W = ws[wi < KARRAY(ws) ? wi : (int)kr_n(cx, KARRAY(ws))];
                int pa, pb; kp2(pat, &pa, &pb);
                kc_par(cx, "w", W); kc_par(cx, "pat", pat);
                cx->next_off = (int)kr_n(cx, 32); Buf *a0 = kb(cx, "src0", KB_IN, 1, 0, W, 1, W);
                cx->next_off = (int)kr_n(cx, 32); Buf *a1 = kb(cx, "src1", KB_IN, 1, 0, W, 1, W);
                cx->next_off = (int)kr_n(cx, 32); Buf *d = kb(cx, "dst", KB_OUT, 1, 0, W, 1, W);
                kb_fill(cx, a0, pa, 0, 255); kb_fill(cx, a1, pb, 0, 255);
                Args a; memset(&a, 0, sizeof(a));
                a.p[0] = a0->p; a.p[1] = a1->p; a.p[2] = d->p; a.i[0] = W;
                kc_exec(cx, &a);
            }
}

/* ------------------------------------------------------------------ one 2-D input -> one 2-D output
 * kind: 0 un_pack8_bit_data (u16 10-bit -> u8 = v>>2)   1 convert_8bit_to_16bit   2 convert_16bit_to_8bit (values <= 255)
 *       3 copy_rect8_8bit_to_16bit (dst,dstride,src,sstride,v,h)  */
static void h_one_in_one_out(Cx *cx, const Entry *e) {
    const int kind = e->k[0];
    static const int extra[][2] = { {68,64},{72,64},{80,64},{96,64},{12,16},{20,16},{24,8},{28,16},{40,8},{48,48},{56,24},{8,2},{16,2},{64,2},{8,6},{32,10} };
    static const int pats[] = { KP_LO, KP_HI, KP_CHECK, KP_RAMP, KP_RAND, KP_OUTLIER, KP_COLS, KP_ROWS };
    for (int pass = 0; pass < cx->passes; pass++)
        for (int zi = 0; zi < 22 + KARRAY(extra); zi++)
            for (int pi = 0; pi < KARRAY(pats); pi++) {
                const int pat = pats[pi];
                if (K_SKIP1(pass, pat)) continue;
                if (!kc_case(cx)) continue;
                const int W = zi < 22 ? k_blk[zi][0] : extra[zi - 22][0], H = zi < 22 ? k_blk[zi][1] : extra[zi - 22][1];
                const int ein = (kind == 0 || kind == 2) ? 2 : 1, eout = (kind == 1 || kind == 3) ? 2 : 1;
                const int64_t hi = kind == 0 ? 1023 : 255;
                int ss = k_stride_any(cx, (int)kr_n(cx, 4), W), sd = k_stride_any(cx, (int)kr_n(cx, 4), W);
                kc_par(cx, "w", W); kc_par(cx, "h", H); kc_par(cx, "sstride", ss); kc_par(cx, "dstride", sd); kc_par(cx, "pat", pat);
                cx->next_off = (int)kr_n(cx, 32);
                Buf *s = kb(cx, "src", KB_IN, ein, 0, W, H, ss);
                cx->next_off = (int)kr_n(cx, 32);
                Buf *d = kb(cx, "dst", KB_OUT, eout, 0, W, H, sd);
                kb_fill(cx, s, pat, 0, hi);
                Args a; memset(&a, 0, sizeof(a));
                if (kind == 3) { a.p[0] = d->p; a.p[1] = s->p; a.i[0] = sd; a.i[1] = ss; a.i[2] = H; a.i[3] = W; }
                else { a.p[0] = s->p; a.p[1] = d->p; a.i[0] = ss; a.i[1] = sd; a.i[2] = W; a.i[3] = H; }
                kc_exec(cx, &a);
            }
}

/* ------------------------------------------------------------------ 10-bit pack / unpack
 * kind 0: svt_compressed_packmsb(in8,in8_stride,inn,out16,inn_stride,out_stride,w,h)  w in {32,64} (compressed_pack_sb), 2-bit data 4 pels/byte
 * kind 1: svt_pack2d_16_bit_src_mul4 (same prototype)                                w%4==0, h even (pack2d_src), n-bit data in bits 7..6 of a byte per pel
 * kind 2: svt_un_pack2d_16_bit_src_mul4(in16,in_stride,out8,outn,out8_stride,outn_stride,w,h)   w%4==0, h even (un_pack2d)
 * kind 3: svt_c_pack(inn,inn_stride,in_compn,out_stride,local_cache,w,h)             w in {32,64} (test/PackUnPackTest.cc; no caller in the encoder) */
static void h_pack(Cx *cx, const Entry *e) {
    const int kind = e->k[0];
    static const int szA[][2] = { {32,2},{32,8},{32,16},{32,32},{32,64},{64,2},{64,16},{64,32},{64,64},{32,6},{64,10},{32,0},{64,0} };
    static const int szB[][2] = { {4,4},{4,8},{8,4},{8,8},{16,16},{4,16},{16,4},{16,8},{8,16},{32,32},{32,8},{16,32},{8,32},{32,16},{16,64},{64,16},
                                  {64,64},{64,32},{32,64},{128,128},{68,64},{72,64},{80,64},{96,64},{64,128},{128,64},{12,2},{20,6},{4,2},{8,2},{0,0},{0,0} };
    const int nA = KARRAY(szA), nB = KARRAY(szB);
    const int useA = (kind == 0 || kind == 3);
    static const int pats[] = { KP_LO, KP_HI, KP_CHECK, KP_RAMP, KP_RAND, KP_OUTLIER };
    for (int pass = 0; pass < cx->passes; pass++)
        for (int zi = 0; zi < (useA ? nA : nB); zi++)
            for (int pi = 0; pi < KARRAY(pats); pi++) {
                const int pat = pats[pi];
                if (K_SKIP1(pass, pat)) continue;
                if (!kc_case(cx)) continue;
                int W = useA ? szA[zi][0] : szB[zi][0], H = useA ? szA[zi][1] : szB[zi][1];
                if (H == 0) { if (!useA) W = 4 * (1 + (int)kr_n(cx, 32)); H = 2 * (1 + (int)kr_n(cx, 32)); }
                kc_par(cx, "w", W); kc_par(cx, "h", H); kc_par(cx, "pat", pat);
                Args a; memset(&a, 0, sizeof(a));
                if (kind == 0 || kind == 1) {
                    const int NW = kind == 0 ? W / 4 : W;
                    int s8 = k_stride_any(cx, (int)kr_n(cx, 4), W), sn = k_stride_any(cx, (int)kr_n(cx, 4), NW), so = k_stride_any(cx, (int)kr_n(cx, 4), W);
                    kc_par(cx, "in8_stride", s8); kc_par(cx, "inn_stride", sn); kc_par(cx, "out_stride", so);
                    cx->next_off = (int)kr_n(cx, 32); Buf *i8 = kb(cx, "in8", KB_IN, 1, 0, W, H, s8);
                    cx->next_off = (int)kr_n(cx, 32); Buf *in = kb(cx, "inn", KB_IN, 1, 0, NW, H, sn);
                    cx->next_off = (int)kr_n(cx, 32); Buf *o = kb(cx, "out16", KB_OUT, 2, 0, W, H, so);
                    kb_fill(cx, i8, pat, 0, 255); kb_fill(cx, in, KP_RAND, 0, 255);
                    a.p[0] = i8->p; a.p[1] = in->p; a.p[2] = o->p;
                    a.i[0] = s8; a.i[1] = sn; a.i[2] = so; a.i[3] = W; a.i[4] = H;
                } else if (kind == 2) {
                    int si = k_stride_any(cx, (int)kr_n(cx, 4), W), s8 = k_stride_any(cx, (int)kr_n(cx, 4), W), sn = k_stride_any(cx, (int)kr_n(cx, 4), W);
                    kc_par(cx, "in_stride", si); kc_par(cx, "out8_stride", s8); kc_par(cx, "outn_stride", sn);
                    cx->next_off = (int)kr_n(cx, 32); Buf *i16 = kb(cx, "in16", KB_IN, 2, 0, W, H, si);
                    cx->next_off = (int)kr_n(cx, 32); Buf *o8 = kb(cx, "out8", KB_OUT, 1, 0, W, H, s8);
                    cx->next_off = (int)kr_n(cx, 32); Buf *on = kb(cx, "outn", KB_OUT, 1, 0, W, H, sn);
                    kb_fill(cx, i16, pat, 0, 1023);
                    a.p[0] = i16->p; a.p[1] = o8->p; a.p[2] = on->p;
                    a.i[0] = si; a.i[1] = s8; a.i[2] = sn; a.i[3] = W; a.i[4] = H;
                } else {
                    int si = k_stride_any(cx, (int)kr_n(cx, 4), W), so = k_stride_any(cx, (int)kr_n(cx, 4), W / 4);
                    kc_par(cx, "inn_stride", si); kc_par(cx, "out_stride", so);
                    cx->next_off = (int)kr_n(cx, 32); Buf *in = kb(cx, "inn", KB_IN, 1, 0, W, H, si);
                    cx->next_off = (int)kr_n(cx, 32); Buf *o = kb(cx, "in_compn", KB_OUT, 1, 0, W / 4, H, so);
                    Buf *lc = kb(cx, "local_cache", KB_SCRATCH, 1, 0, 128 * 128, 1, 128 * 128);
                    kb_fill(cx, in, pat, 0, 255);
                    a.p[0] = in->p; a.p[1] = o->p; a.p[2] = lc->p;
                    a.i[0] = si; a.i[1] = so; a.i[2] = W; a.i[3] = H;
                }
                kc_exec(cx, &a);
            }
}

/* ------------------------------------------------------------------ transform-domain distortion
 * kind 0: svt_full_distortion_kernel32_bits(coeff,stride,recon_coeff,stride,uint64 result[2],w,h)
 * kind 1: svt_full_distortion_kernel_cbf_zero32_bits(coeff,stride,result[2],w,h)
 * sizes: transform sizes with both dimensions capped at 32 as well as uncapped; coefficients in +-(2^18-1) */
static void h_coeff_dist(Cx *cx, const Entry *e) {
    const int kind = e->k[0];
    const int64_t mx = (1 << 18) - 1;
    for (int pass = 0; pass < cx->passes; pass++)
        for (int zi = 0; zi < 22; zi++)
            for (int cap = 0; cap < 2; cap++)
                for (int pat = 0; pat < KP2_N + 4; pat++) {
                    if (!k_is_tx(zi)) continue;
                    int W = k_blk[zi][0], H = k_blk[zi][1];
                    if (cap && W < 64 && H < 64) continue;
                    if (cap) { if (W > 32) W = 32; if (H > 32) H = 32; }
                    if (pat < KP2_N && K_SKIP2(pass, pat)) continue;
                    if (!kc_case(cx)) continue;
                    int s0 = kr_n(cx, 2) ? W : k_stride_any(cx, (int)kr_n(cx, 4), W), s1 = kr_n(cx, 2) ? W : k_stride_any(cx, (int)kr_n(cx, 4), W);
                    int pa, pb; kp2(pat, &pa, &pb);
                    kc_par(cx, "w", W); kc_par(cx, "h", H); kc_par(cx, "stride0", s0); kc_par(cx, "stride1", s1); kc_par(cx, "pat", pat);
                    cx->next_off = 4 * (int)kr_n(cx, 8); Buf *c0 = kb(cx, "coeff", KB_IN, 4, 1, W, H, s0);
                    kb_fill(cx, c0, pa, -mx, mx);
                    Args a; memset(&a, 0, sizeof(a));
                    a.p[0] = c0->p; a.i[0] = s0;
                    if (kind == 0) {
                        cx->next_off = 4 * (int)kr_n(cx, 8); Buf *c1 = kb(cx, "recon_coeff", KB_IN, 4, 1, W, H, s1);
                        kb_fill(cx, c1, pb, -mx, mx);
                        if (pat >= KP2_N) {
                            /* realistic blocks: coefficients of amplitude 2^10..2^17, reconstruction = coefficients quantised with a step
                             * q in 8..7312 (AV1 ac_q up to 1828*4 at 10 bit), a quarter of them zeroed (RDOQ) */
                            static const int amps[4] = { 1 << 10, 1 << 13, 1 << 15, 1 << 17 };
                            const int amp = amps[pat - KP2_N], q = 8 + (int)kr_n(cx, 7305);
                            kc_par(cx, "amp", amp); kc_par(cx, "q", q);
                            kb_fill(cx, c0, KP_OUTLIER, -amp, amp);
                            for (int y = 0; y < H; y++)
                                for (int x = 0; x < W; x++) {
                                    int64_t c = kb_get(c0, x, y), ab = c < 0 ? -c : c;
                                    int64_t d = kr_n(cx, 4) == 0 ? 0 : ((ab + q / 2) / q) * q;
                                    kb_set(c1, x, y, c < 0 ? -d : d);
                                }
                        }
                        Buf *r = kb(cx, "distortion_result", KB_OUT, 8, 0, 2, 1, 2);
                        a.p[1] = c1->p; a.p[2] = r->p; a.i[1] = s1; a.i[2] = W; a.i[3] = H;
                    } else {
                        Buf *r = kb(cx, "distortion_result", KB_OUT, 8, 0, 2, 1, 2);
                        a.p[1] = r->p; a.i[1] = W; a.i[2] = H;
                    }
                    kc_exec(cx, &a);
                }
}

/* ------------------------------------------------------------------ sums over two 2-D inputs (return value [+ *sse])
 * kind 0: svt_spatial_full_distortion_kernel(input,in_off,in_stride,recon,rec_off,rec_stride,w,h)   8-bit
 * kind 1: svt_full_distortion_kernel16_bits (same prototype, buffers are uint16 cast to uint8_t*, offsets in samples)  values < 2^bd
 * kind 2: svt_aom_sse(a,as,b,bs,w,h)  kind 3: svt_aom_highbd_sse (CONVERT_TO_BYTEPTR, 10-bit)
 * kind 4: variance_highbd(a,as,b,bs,w,h,*sse) 10-bit      kind 5: sad_16b_kernel is handled by another group
 * kind 6: svt_aom_mse16x16(a,as,b,bs,*sse)->uint  kind 7: svt_aom_highbd_8_mse16x16 (void, BYTEPTR, values <= 255) */
static void h_sum2(Cx *cx, const Entry *e) {
    const int kind = e->k[0];
    static const int extra[][2] = { {12,16},{20,16},{24,16},{28,16},{96,128},{4,32},{36,4},{100,7},{128,1},{8,3},{16,5},{32,1},{64,9},{44,44},{0,0},{0,0} };
    /* svt_aom_sse / svt_aom_highbd_sse: the only caller (model_rd_for_sb, EbEncInterPrediction.c) passes block dimensions; the AVX2 code
     * handles other widths 4 rows at a time */
    const int nsz = (kind >= 6) ? 1 : kind == 4 ? 2 : (kind == 2 || kind == 3) ? 22 : 22 + KARRAY(extra);
    for (int pass = 0; pass < cx->passes; pass++)
        for (int zi = 0; zi < nsz; zi++)
            for (int bdi = 0; bdi < (kind == 1 ? 2 : 1); bdi++)
                for (int pat = 0; pat < KP2_N; pat++) {
                    if (K_SKIP2(pass, pat)) continue;
                    if (!kc_case(cx)) continue;
                    int W, H;
                    if (kind >= 6) { W = 16; H = 16; }
                    else if (kind == 4) {   /* variance_highbd: callers (temporal filter) use 16x16 and 32x32; the AVX2 function implements only these */
                        W = H = zi ? 32 : 16;
                    }
                    else if (zi < 22) { W = k_blk[zi][0]; H = k_blk[zi][1]; }
                    else { W = extra[zi - 22][0]; H = extra[zi - 22][1]; if (!W) { W = 4 * (1 + (int)kr_n(cx, 32)); H = 1 + (int)kr_n(cx, 128); } }
                    /* full-loop distortion: cropped tx sizes are multiples of 4 in both directions (aligned_width/height are multiples of 8);
                     * the AVX2 kernels process two rows per iteration */
                    if (kind <= 1) H = (H + 3) & ~3;
                    const int elem = (kind == 0 || kind == 2 || kind == 6) ? 1 : 2;
                    const int bd = kind == 1 ? (bdi ? 10 : 8) : (kind == 3 || kind == 4) ? 10 : 8;
                    const int64_t hi = (1 << bd) - 1;
                    int s0 = k_stride_any(cx, (int)kr_n(cx, 4), W), s1 = k_stride_any(cx, (int)kr_n(cx, 4), W);
                    int pa, pb; kp2(pat, &pa, &pb);
                    kc_par(cx, "w", W); kc_par(cx, "h", H); kc_par(cx, "bd", bd); kc_par(cx, "stride0", s0); kc_par(cx, "stride1", s1); kc_par(cx, "pat", pat);
                    cx->next_off = (int)kr_n(cx, 32); Buf *b0 = kb(cx, "a", KB_IN, elem, 0, W, H, s0);
                    cx->next_off = (int)kr_n(cx, 32); Buf *b1 = kb(cx, "b", KB_IN, elem, 0, W, H, s1);
                    kb_fill(cx, b0, pa, 0, hi); kb_fill(cx, b1, pb, 0, hi);
                    Args a; memset(&a, 0, sizeof(a));
                    if (kind <= 1) {
                        /* the kernel adds the offsets itself: pass pointers moved back by a random offset */
                        int o0 = (int)kr_n(cx, 64), o1 = (int)kr_n(cx, 64);
                        kc_par(cx, "in_offset", o0); kc_par(cx, "rec_offset", o1);
                        a.p[0] = b0->p - (size_t)o0 * elem; a.p[1] = b1->p - (size_t)o1 * elem;
                        a.i[0] = o0; a.i[1] = s0; a.i[2] = o1; a.i[3] = s1; a.i[4] = W; a.i[5] = H;
                    } else {
                        const int byteptr = (kind == 7);   /* svt_aom_highbd_sse takes plain uint16 buffers cast to uint8_t* */
                        a.p[0] = byteptr ? K_BYTEPTR(b0->p) : b0->p; a.p[1] = byteptr ? K_BYTEPTR(b1->p) : b1->p;
                        a.i[0] = s0; a.i[1] = s1;
                        if (kind == 2 || kind == 3) { a.i[2] = W; a.i[3] = H; }
                        if (kind == 4) { a.i[2] = W; a.i[3] = H; }
                        if (kind == 4 || kind >= 6) { Buf *sse = kb(cx, "sse", KB_OUT, 4, 0, 1, 1, 1); a.p[2] = sse->p; }
                    }
                    kc_exec(cx, &a);
                }
}

/* ------------------------------------------------------------------ svt_aom_subtract_block(rows,cols,diff,dstride,src,sstride,pred,pstride[,bd]) */
static void h_subtract_block(Cx *cx, const Entry *e) {
    const int hbd = e->k[0], elem = hbd ? 2 : 1;
    for (int pass = 0; pass < cx->passes; pass++)
        for (int zi = 0; zi < 22; zi++)
            for (int bdi = 0; bdi < (hbd ? 2 : 1); bdi++)
                for (int pat = 0; pat < KP2_N; pat++) {
                    if (K_SKIP2(pass, pat)) continue;
                    if (!kc_case(cx)) continue;
                    const int W = k_blk[zi][0], H = k_blk[zi][1];
                    const int bd = hbd ? (bdi ? 10 : 8) : 8;
                    const int64_t hi = (1 << bd) - 1;
                    int sd = kr_n(cx, 2) ? W : k_stride_any(cx, (int)kr_n(cx, 4), W), ss = k_stride_any(cx, (int)kr_n(cx, 4), W), sp = kr_n(cx, 2) ? W : k_stride_any(cx, (int)kr_n(cx, 4), W);
                    int pa, pb; kp2(pat, &pa, &pb);
                    kc_par(cx, "w", W); kc_par(cx, "h", H); kc_par(cx, "bd", bd); kc_par(cx, "dstride", sd); kc_par(cx, "sstride", ss); kc_par(cx, "pstride", sp); kc_par(cx, "pat", pat);
                    cx->next_off = 4 * (int)kr_n(cx, 8); Buf *d = kb(cx, "diff", KB_OUT, 2, 1, W, H, sd);
                    cx->next_off = (int)kr_n(cx, 32); Buf *s = kb(cx, "src", KB_IN, elem, 0, W, H, ss);
                    cx->next_off = 4 * (int)kr_n(cx, 8); Buf *p = kb(cx, "pred", KB_IN, elem, 0, W, H, sp);
                    kb_fill(cx, s, pa, 0, hi); kb_fill(cx, p, pb, 0, hi);
                    Args a; memset(&a, 0, sizeof(a));
                    a.p[0] = d->p; a.p[1] = s->p; a.p[2] = p->p;   /* highbd: plain uint16 buffers cast to uint8_t* (no CONVERT_TO_BYTEPTR) */
                    a.i[0] = H; a.i[1] = W; a.i[2] = sd; a.i[3] = ss; a.i[4] = sp; a.i[5] = bd;
                    kc_exec(cx, &a);
                }
}

/* ------------------------------------------------------------------ 1-D coefficient / residual reductions
 * kind 0: aom_sum_squares_i16(src,n)                 residual-like values +-4095, n = 1..64 and w*h of the block sizes
 * kind 1: svt_aom_satd(coeff,length)                 length in {16,64,256,1024}; coefficients of a Hadamard/transform: +-(2^18-1)
 * kind 2: svt_av1_block_error(coeff,dqcoeff,n,*ssz)  n = tx block sizes (16..4096 capped 1024); coefficients +-(2^18-1) */
static void h_reduce1d(Cx *cx, const Entry *e) {
    const int kind = e->k[0];
    static const int n0[] = { 1, 2, 3, 7, 8, 15, 16, 31, 32, 33, 63, 64, 65, 100, 127, 128, 256, 512, 1024, 2048, 4096, 8192, 16384, 0, 0, 0 };
    static const int n1[] = { 16, 64, 256, 1024 };
    static const int n2[] = { 16, 32, 64, 128, 256, 512, 1024 };
    const int *ns = kind == 0 ? n0 : kind == 1 ? n1 : n2;
    const int nn = kind == 0 ? KARRAY(n0) : kind == 1 ? KARRAY(n1) : KARRAY(n2);
    static const int pats[] = { KP_ZERO, KP_LO, KP_HI, KP_CHECK, KP_RAMP, KP_RAND, KP_OUTLIER, KP_NEAR, KP_CONST };
    for (int pass = 0; pass < cx->passes; pass++)
        for (int ni = 0; ni < nn; ni++)
            for (int pi = 0; pi < KARRAY(pats); pi++) {
                const int pat = pats[pi];
                if (K_SKIP1(pass, pat)) continue;
                if (!kc_case(cx)) continue;
                int n = ns[ni]; if (!n) n = 1 + (int)kr_n(cx, 5000);
                kc_par(cx, "n", n); kc_par(cx, "pat", pat);
                Args a; memset(&a, 0, sizeof(a));
                if (kind == 0) {
                    cx->next_off = (int)kr_n(cx, 16);
                    Buf *s = kb(cx, "src", KB_IN, 2, 1, n, 1, n);
                    kb_fill(cx, s, pat, -4095, 4095);
                    a.p[0] = s->p; a.i[0] = n;
                } else {
                    /* block_error: the only caller (get_quantize_error, tpl) passes the 16x16 Hadamard transform of an 8-bit residual
                     * (|coeff| <= 255*128) and its svt_av1_quantize_fp reconstruction; C multiplies in int, AVX2 packs to int16 */
                    const int64_t mx = kind == 1 ? (1 << 18) - 1 : 255 * 128;
                    Buf *c = kb(cx, "coeff", KB_IN, 4, 1, n, 1, n);
                    kb_fill(cx, c, pat, -mx, mx);
                    a.p[0] = c->p;
                    if (kind == 1) a.i[0] = n;
                    else {
                        Buf *dq = kb(cx, "dqcoeff", KB_IN, 4, 1, n, 1, n);
                        int p2 = (int)kr_n(cx, 4);
                        int q = 4 + (int)kr_n(cx, 1333);
                        kc_par(cx, "dqmode", p2); kc_par(cx, "q", q);
                        for (int i = 0; i < n; i++) {
                            int32_t cv; memcpy(&cv, c->p + 4 * i, 4);
                            int32_t ab = cv < 0 ? -cv : cv, dv;
                            if (p2 == 0) dv = cv;
                            else if (p2 == 1) dv = 0;
                            else { dv = ((ab + (int)kr_n(cx, q)) / q) * q; if (dv > 32767) dv = 32767; if (cv < 0) dv = -dv; }
                            memcpy(dq->p + 4 * i, &dv, 4);
                        }
                        Buf *ssz = kb(cx, "ssz", KB_OUT, 8, 1, 1, 1, 1);
                        a.p[1] = dq->p; a.p[2] = ssz->p; a.i[0] = n;
                    }
                }
                kc_exec(cx, &a);
            }
}

/* ------------------------------------------------------------------ small utilities */
/* svt_log2f(x): floor(log2 x) */
static void h_log2f(Cx *cx, const Entry *e) {
    (void)e;
    for (int pass = 0; pass < cx->passes; pass++)
        for (int k = 0; k < 200; k++) {
            if (pass > 0 && k < 100) continue;
            if (!kc_case(cx)) continue;
            uint32_t x;
            if (k < 32) x = 1u << k;
            else if (k < 64) x = (1u << (k - 32)) - 1u;
            else if (k < 96) x = (1u << (k - 64)) + 1u;
            else if (k < 100) x = (uint32_t)(k - 96) + 1u;
            else x = (uint32_t)kr(cx) >> kr_n(cx, 32);
            if (x == 0) x = 1;
            if (k == 99) x = 0;    /* x = 0: (uint32_t)log2(0) is undefined behaviour in the C reference, BSR leaves the result undefined */
            kc_par(cx, "x", x);
            if (x == 0 && !cx->ext) { kc_exclude(cx); continue; }
            Args a; memset(&a, 0, sizeof(a)); a.i[0] = x;
            kc_exec(cx, &a);
        }
}
/* svt_memcpy(dst,src,size): non-overlapping, any alignment, size 0..5000 */
static void h_memcpy(Cx *cx, const Entry *e) {
    (void)e;
    static const int ns[] = { 0, 1, 2, 3, 4, 7, 8, 15, 16, 17, 31, 32, 33, 63, 64, 65, 127, 128, 129, 255, 256, 1000, 1024, 4096, -1, -1, -1, -1, -1, -1 };
    for (int pass = 0; pass < cx->passes; pass++)
        for (int ni = 0; ni < KARRAY(ns); ni++) {
            if (pass > 0 && ns[ni] >= 0) continue;
            if (!kc_case(cx)) continue;
            int n = ns[ni] >= 0 ? ns[ni] : (int)kr_n(cx, 5000);
            kc_par(cx, "size", n);
            cx->next_off = (int)kr_n(cx, 64); Buf *s = kb(cx, "src", KB_IN, 1, 0, n ? n : 1, 1, n ? n : 1);
            cx->next_off = (int)kr_n(cx, 64); Buf *d = kb(cx, "dst", KB_OUT, 1, 0, n ? n : 1, 1, n ? n : 1);
            if (!n) kb_area(d, 0, 0, 0, 1);
            Args a; memset(&a, 0, sizeof(a)); a.p[0] = d->p; a.p[1] = s->p; a.i[0] = n;
            kc_exec(cx, &a);
        }
}
/* svt_initialize_buffer_32bits(pointer,count128,count32,value): callers use (21,1) and (64,0); 16-byte aligned arrays */
static void h_init32(Cx *cx, const Entry *e) {
    (void)e;
    static const int cs[][2] = { {21,1},{64,0},{1,0},{0,1},{0,3},{1,1},{2,2},{5,3},{16,0},{-1,-1},{-1,-1},{-1,-1} };
    for (int pass = 0; pass < cx->passes; pass++)
        for (int ci = 0; ci < KARRAY(cs); ci++) {
            if (pass > 0 && cs[ci][0] >= 0) continue;
            if (!kc_case(cx)) continue;
            int c128 = cs[ci][0] >= 0 ? cs[ci][0] : (int)kr_n(cx, 100), c32 = cs[ci][0] >= 0 ? cs[ci][1] : (int)kr_n(cx, 4);
            if (c128 + c32 == 0) c32 = 1;
            const int n = c128 * 4 + c32;
            uint32_t val = kr_n(cx, 3) == 0 ? 0 : kr_n(cx, 2) ? 0xFFFFFFFFu : (uint32_t)kr(cx);
            kc_par(cx, "count128", c128); kc_par(cx, "count32", c32); kc_par(cx, "value", val);
            cx->next_align = 16;
            Buf *d = kb(cx, "pointer", KB_OUT, 4, 0, n, 1, n);
            Args a; memset(&a, 0, sizeof(a)); a.p[0] = d->p; a.i[0] = c128; a.i[1] = c32; a.i[2] = val;
            kc_exec(cx, &a);
        }
}

#endif
