/* C07 harness shape handlers: OBMC sad / variance / sub-pixel variance, loop filters. Included by kernels_shapes.h */
#ifndef VERIF_KSHAPES_OBMC_H
#define VERIF_KSHAPES_OBMC_H

/* wsrc/mask as produced by calc_target_weighted_pred (EbMotionEstimation / obmc): mask = product of two 0..64 obmc masks
 * (0..4096); wsrc = 4096*src - sum of neighbour predictions weighted with (4096-mask): -(4096-mask)*255 .. 4096*255.
 * (test/OBMC*Test.cc uses wsrc = rnd8 * rnd(0..4096), mask = rnd(0..4096), a subset.) */
static void k_obmc_fill(Cx *cx, Buf *ws, Buf *mk, int pat, int n) {
    int pa, pb; kp2(pat, &pa, &pb);
    kb_fill(cx, mk, pb, 0, 4096);
    kb_fill(cx, ws, pa, -255 * 4096, 255 * 4096);
    int32_t *w = (int32_t *)ws->p; const int32_t *m = (const int32_t *)mk->p;
    for (int i = 0; i < n; i++) { int32_t lo = -(4096 - m[i]) * 255; if (w[i] < lo) w[i] = lo; }
}

/* k[0]: 0 obmc_sad (pre,stride,wsrc,mask)->uint ; 1 obmc_variance (..,*sse) ; 2 obmc_sub_pixel_variance (pre,stride,xoff,yoff,wsrc,mask,*sse) */
static void h_obmc(Cx *cx, const Entry *e) {
    const int W = e->w, H = e->h, kind = e->k[0];
    for (int pass = 0; pass < cx->passes; pass++)
        for (int si = 0; si < 4; si++)
            for (int oi = 0; oi < (kind == 2 ? 4 : 1); oi++)
                for (int pat = 0; pat < KP2_N; pat++) {
                    if (K_SKIP2(pass, pat)) continue;
                    if (!kc_case(cx)) continue;
                    const int PW = W + (kind == 2 ? 1 : 0), PH = H + (kind == 2 ? 1 : 0);
                    int ps = k_stride_any(cx, si, PW);
                    int xo = 0, yo = 0;
                    if (kind == 2) {   /* BIL_SUBPEL_SHIFTS = 8 */
                        xo = oi == 0 ? 0 : oi == 1 ? (int)kr_n(cx, 8) : oi == 2 ? 0 : (int)kr_n(cx, 8);
                        yo = oi == 0 ? 0 : oi == 1 ? 0 : (int)kr_n(cx, 8);
                        if (oi == 3) { xo = 1 + (int)kr_n(cx, 7); yo = 1 + (int)kr_n(cx, 7); }
                    }
                    kc_par(cx, "w", W); kc_par(cx, "h", H); kc_par(cx, "pre_stride", ps); kc_par(cx, "pat", pat);
                    if (kind == 2) { kc_par(cx, "xoffset", xo); kc_par(cx, "yoffset", yo); }
                    cx->next_off = (int)kr_n(cx, 64);
                    Buf *pre = kb(cx, "pre", KB_IN, 1, 0, PW, PH, ps);
                    Buf *ws = kb(cx, "wsrc", KB_IN, 4, 1, W * H, 1, W * H);
                    Buf *mk = kb(cx, "mask", KB_IN, 4, 1, W * H, 1, W * H);
                    int pp = (int)kr_n(cx, 5);
                    kb_fill(cx, pre, pp == 0 ? KP_LO : pp == 1 ? KP_HI : pp == 2 ? KP_CHECK : KP_RAND, 0, 255);
                    k_obmc_fill(cx, ws, mk, pat, W * H);
                    Args a; memset(&a, 0, sizeof(a));
                    a.p[0] = pre->p; a.p[1] = ws->p; a.p[2] = mk->p;
                    a.i[0] = ps;
                    if (kind >= 1) { Buf *sse = kb(cx, "sse", KB_OUT, 4, 0, 1, 1, 1); a.p[3] = sse->p; }
                    if (kind == 2) { a.i[1] = xo; a.i[2] = yo; }
                    kc_exec(cx, &a);
                }
}

/* ------------------------------------------------------------------ loop filters
 * k[0]: 0 horizontal (edge between rows -1 and 0, 4 columns), 1 vertical (edge between columns -1 and 0, 4 rows)
 * k[1]: filter length 4/6/8/14 ; k[2]: 0 8-bit, 1 16-bit (extra bd argument)
 * thresholds as test/DeblockTest.cc (spec 7.14): blimit 0..3*63+4, limit 0..63, thresh 0..63>>4, each replicated
 * into a 16-byte aligned array of 16 (LoopFilterThresh.mblim/lim/hev_thr) */
static void h_lpf(Cx *cx, const Entry *e) {
    const int vert = e->k[0], len = e->k[1], hbd = e->k[2], elem = hbd ? 2 : 1;
    static const int bds[3] = { 8, 10, 12 };
    static const int pats[] = { KP_LO, KP_HI, KP_CHECK, KP_RAMP, KP_RAND, KP_OUTLIER, KP_NEAR, KP_CONST, KP_COLS, KP_ROWS, KP_NEAR, KP_NEAR };
    for (int pass = 0; pass < cx->passes; pass++)
        for (int bdi = 0; bdi < (hbd ? 3 : 1); bdi++)
            for (int ti = 0; ti < 6; ti++)
                for (int pi = 0; pi < KARRAY(pats); pi++) {
                    const int pat = pats[pi];
                    if (K_SKIP1(pass, pat)) continue;
                    if (!kc_case(cx)) continue;
                    const int bd = hbd ? bds[bdi] : 8;
                    const int64_t mx = (1 << bd) - 1;
                    const int half = len == 14 ? 7 : len == 6 ? 3 : len == 8 ? 4 : 2;
                    const int BW = 40, BH = 40;
                    int stride = ti & 1 ? BW + (int)kr_n(cx, 200) : BW;
                    int bl, li, th;
                    switch (ti) {
                    case 0: bl = 3 * 63 + 4; li = 63; th = 0; break;          /* filter always on, no hev */
                    case 1: bl = 0; li = 0; th = 3; break;                   /* filter off unless flat */
                    default: bl = (int)kr_n(cx, 3 * 63 + 5); li = (int)kr_n(cx, 64); th = (int)kr_n(cx, 64) >> 4; break;
                    }
                    kc_par(cx, "vertical", vert); kc_par(cx, "len", len); kc_par(cx, "bd", bd); kc_par(cx, "stride", stride);
                    kc_par(cx, "blimit", bl); kc_par(cx, "limit", li); kc_par(cx, "thresh", th); kc_par(cx, "pat", pat);
                    Buf *s = kb(cx, "s", KB_INOUT, elem, 0, BW, BH, stride);
                    cx->next_align = 16; Buf *b0 = kb(cx, "blimit", KB_IN, 1, 0, 16, 1, 16);
                    cx->next_align = 16; Buf *b1 = kb(cx, "limit", KB_IN, 1, 0, 16, 1, 16);
                    cx->next_align = 16; Buf *b2 = kb(cx, "thresh", KB_IN, 1, 0, 16, 1, 16);
                    kb_fill(cx, b0, KP_LO, bl, bl); kb_fill(cx, b1, KP_LO, li, li); kb_fill(cx, b2, KP_LO, th, th);
                    /* near-flat content makes the flat/flat2 branches reachable: KP_NEAR with a small spread */
                    if (pat == KP_NEAR) {
                        int64_t mid = kr_range(cx, 0, mx), sp = 1 + (int64_t)kr_n(cx, 1 << (bd - 5));
                        int64_t lo = mid - sp < 0 ? 0 : mid - sp, hi = mid + sp > mx ? mx : mid + sp;
                        kb_fill(cx, s, KP_RAND, lo, hi);
                        if (kr_n(cx, 2)) {   /* a step across the edge */
                            int64_t lo2 = kr_range(cx, 0, mx); int64_t hi2 = lo2 + sp > mx ? mx : lo2 + sp;
                            if (vert) kb_fill_rect(cx, s, 20, 0, BW - 20, BH, KP_RAND, lo2, hi2);
                            else kb_fill_rect(cx, s, 0, 20, BW, BH - 20, KP_RAND, lo2, hi2);
                        }
                    } else kb_fill(cx, s, pat, 0, mx);
                    if (vert) kb_area(s, 20 - half, 20, 2 * half, 4); else kb_area(s, 20, 20 - half, 4, 2 * half);
                    Args a; memset(&a, 0, sizeof(a));
                    a.p[0] = s->p + ((size_t)20 * stride + 20) * elem; a.p[1] = b0->p; a.p[2] = b1->p; a.p[3] = b2->p;
                    a.i[0] = stride; a.i[1] = bd;
                    kc_exec(cx, &a);
                }
}

#endif
