/* dec_toolcount — C20: feeds encoder packets to the REAL SVT-AV1 decoder frame by frame and prints, for every frame,
 * the per-block coding-tool usage counters of the guarded hook in EbDecParseBlock.c
 * (/verif/hooks/hook-dec-toolcount.patch, `svt_av1_verif_dec_toolcount`).
 *
 *   stdin lines:   RESET <w> <h> <bd>      (re)create the decoder for a new stream
 *                  PKT <i> <hex>           one packet; cut after every OBU_FRAME / OBU_FRAME_HEADER, each piece is
 *                                          given to svt_av1_dec_frame; the counters are read and reset after each piece
 *   stdout lines:  HOOK present=<0|1>
 *                  TC pkt=<i> k=<frame in packet> show_existing=<0|1> c=<v0,...,v18>     (see the hook for the indices)
 *                  DPK pkt=<i> frames=<n> err=<0|1|2>
 * Without the hook (the symbol is a weak reference) every TC line is omitted and `HOOK present=0` is printed: the
 * check then reports the block-level part as not covered.
 */
#include <stdio.h>
#include <stdlib.h>
#include <string.h>
#include <stdint.h>
#include <unistd.h>
#include "EbSvtAv1Dec.h"
#include "EbDecHandle.h"

extern void svt_av1_verif_dec_toolcount(uint64_t *out, int n, int reset) __attribute__((weak));
#define NC 19

static EbComponentType *dh;

static void dec_close(void) {
    if (dh) { svt_av1_dec_deinit(dh); svt_av1_dec_deinit_handle(dh); dh = NULL; }
}
static int dec_open(int w, int h, int bd) {
    EbSvtAv1DecConfiguration dc;
    memset(&dc, 0, sizeof(dc));
    dec_close();
    if (svt_av1_dec_init_handle(&dh, NULL, &dc) != EB_ErrorNone) return 0;
    dc.max_picture_width = w; dc.max_picture_height = h;
    dc.max_bit_depth = bd > 8 ? EB_TEN_BIT : EB_EIGHT_BIT; dc.max_color_format = EB_YUV420;
    dc.threads = 1; dc.is_16bit_pipeline = 0; dc.skip_film_grain = 0; dc.eight_bit_output = 0;
    if (svt_av1_dec_set_parameter(dh, &dc) != EB_ErrorNone) return 0;
    if (svt_av1_dec_init(dh) != EB_ErrorNone) return 0;
    return 1;
}
static int hexval(int c) {
    if (c >= '0' && c <= '9') return c - '0';
    if (c >= 'a' && c <= 'f') return c - 'a' + 10;
    if (c >= 'A' && c <= 'F') return c - 'A' + 10;
    return -1;
}
static size_t unhex(const char *s, uint8_t *out) {
    size_t n = 0;
    while (hexval(s[0]) >= 0 && hexval(s[1]) >= 0) { out[n++] = (uint8_t)(hexval(s[0]) * 16 + hexval(s[1])); s += 2; }
    return n;
}
/* length of the OBU starting at p (header + size field + payload); *type receives obu_type; 0 on error */
static size_t obu_len(const uint8_t *p, size_t avail, int *type) {
    size_t pos = 1, sz = 0;
    int    i;
    if (avail < 2) return 0;
    *type = (p[0] >> 3) & 15;
    if (p[0] & 4) pos++;
    if (!(p[0] & 2)) return 0;
    for (i = 0; i < 8 && pos < avail; i++) {
        uint8_t b = p[pos++];
        sz |= (size_t)(b & 0x7f) << (7 * i);
        if (!(b & 0x80)) break;
    }
    if (pos + sz > avail) return 0;
    return pos + sz;
}

int main(void) {
    char * line = NULL;
    size_t cap  = 0;
    int    hook = svt_av1_verif_dec_toolcount != NULL;
    printf("HOOK present=%d\n", hook);
    while (getline(&line, &cap, stdin) > 0) {
        size_t   len = strlen(line);
        uint8_t *buf = malloc(len / 2 + 16);
        if (!strncmp(line, "RESET", 5)) {
            int w = 64, h = 64, bd = 8;
            sscanf(line + 5, "%d %d %d", &w, &h, &bd);
            printf("reset %s\n", dec_open(w, h, bd) ? "ok" : "failed");
            if (hook) svt_av1_verif_dec_toolcount(NULL, 0, 1);
        } else if (!strncmp(line, "PKT ", 4)) {
            char *q   = line + 4;
            long  idx = strtol(q, &q, 10);
            while (*q == ' ') q++;
            size_t       n = unhex(q, buf), pos = 0, start = 0;
            int          k = 0, err = 0;
            EbDecHandle *d = dh ? (EbDecHandle *)dh->p_component_private : NULL;
            while (d && pos < n) {
                int    type = 0;
                size_t l    = obu_len(buf + pos, n - pos, &type);
                if (!l) { err = 1; break; }
                pos += l;
                if (type == 6 || type == 3) {
                    EbErrorType e = svt_av1_dec_frame(dh, buf + start, pos - start, 0);
                    if (e != EB_ErrorNone) { err = 2; break; }
                    if (hook) {
                        uint64_t c[NC];
                        svt_av1_verif_dec_toolcount(c, NC, 1);
                        printf("TC pkt=%ld k=%d show_existing=%d c=", idx, k, (int)d->frame_header.show_existing_frame);
                        for (int i = 0; i < NC; i++) printf("%s%llu", i ? "," : "", (unsigned long long)c[i]);
                        printf("\n");
                    }
                    k++;
                    start = pos;
                }
            }
            printf("DPK pkt=%ld frames=%d err=%d\n", idx, k, err);
        }
        free(buf);
        fflush(stdout);
    }
    fflush(stdout);
    _exit(0);
}
