/* sse — runs the REAL text of psnr_calculations (EbEncDecProcess.c; extracted by harness/sse_extract.py into sse_extracted.inc)
 * on fake, zero-initialised control sets built with the real headers; only the fields the function reads are set.
 *
 * One operation per stdin line (same lines as `svtmodel sse`), one output line `<luma_sse> <cb_sse> <cr_sse>` per operation:
 *
 *   PSNR is16 isRef tfOn width height padRight padBottom ssx ssy inOx inOy inSy inScb inScr inSbY inSbCb inSbCr recOx recOy recSy recScb recScr
 *        <18 hex blobs: inY inCb inCr incY incCb incCr saveY saveCb saveCr saveIncY saveIncCb saveIncCr refY refCb refCr reconY reconCb reconCr>
 *        `-` = no buffer (NULL pointer). 2 hex digits per element; ref / recon blobs 4 hex digits per element when is16 = 1.
 *        Every buffer is allocated with exactly the number of elements on the line (so AddressSanitizer sees any read outside it).
 *   GEN seed is16 isRef tfOn width height padRight padBottom ssx ssy inOx inOy inSy inScb inScr inSbY inSbCb inSbCr recOx recOy recSy recScb recScr
 *        fillIn fillSave fillRef fillRecon
 *        buffers are generated: element i of buffer k (k = position in the list above) = fill 0: mix(seed,k,i) % range, 1: 0, 2: range-1
 *        (range 256, or 1024 for 16-bit recon buffers).  Used for large pictures (no hex on the line).
 * The picture whose is-reference / temporally-filtered alternative is NOT supposed to be read gets different contents, so a wrong
 * buffer choice changes the result.  For is16 = 0 the 16-bit picture pointers are NULL and vice versa.
 */
#include <stdio.h>
#include <stdlib.h>
#include <string.h>
#include <stdint.h>
#include <inttypes.h>
#include "EbDefinitions.h"
#include "EbUtility.h"
#include "EbMalloc.h"
#include "EbSystemResourceManager.h"
#include "EbPictureBufferDesc.h"
#include "EbSequenceControlSet.h"
#include "EbPictureControlSet.h"
#include "EbReferenceObject.h"

/* EB_FREE_ARRAY (only reached with free_memory = EB_TRUE, never here) references the library's allocation tracker */
void svt_remove_mem_entry(void *ptr, EbPtrType type) { (void)ptr; (void)type; }

#include "sse_extracted.inc"

static uint64_t mix(uint64_t seed, uint64_t k, uint64_t i) {
    uint64_t z = seed ^ (k * 0xD6E8FEB86659FD93ull) ^ (i * 0x9E3779B97F4A7C15ull);
    z = (z ^ (z >> 30)) * 0xBF58476D1CE4E5B9ull;
    z = (z ^ (z >> 27)) * 0x94D049BB133111EBull;
    return z ^ (z >> 31);
}

static int hexval(int c) { return c >= '0' && c <= '9' ? c - '0' : c >= 'a' && c <= 'f' ? c - 'a' + 10 : c >= 'A' && c <= 'F' ? c - 'A' + 10 : 0; }

/* -> malloc'ed buffer of exactly the elements on the line (NULL for "-"); elements are 1 byte (digits=2) or uint16 (digits=4) */
static void *blob(const char *s, int digits) {
    if (!strcmp(s, "-")) return NULL;
    size_t n = strlen(s) / digits;
    if (digits == 2) {
        uint8_t *p = malloc(n ? n : 1);
        for (size_t i = 0; i < n; i++) p[i] = (uint8_t)(hexval(s[2 * i]) * 16 + hexval(s[2 * i + 1]));
        return p;
    } else {
        uint16_t *p = malloc((n ? n : 1) * 2);
        for (size_t i = 0; i < n; i++)
            p[i] = (uint16_t)(hexval(s[4 * i]) * 4096 + hexval(s[4 * i + 1]) * 256 + hexval(s[4 * i + 2]) * 16 + hexval(s[4 * i + 3]));
        return p;
    }
}

static void *gen(uint64_t seed, int k, int fill, size_t n, int wide) {
    uint64_t range = wide ? 1024 : 256;
    if (wide) {
        uint16_t *p = malloc(n * 2);
        for (size_t i = 0; i < n; i++) p[i] = (uint16_t)(fill == 0 ? mix(seed, (uint64_t)k, i) % range : fill == 1 ? 0 : range - 1);
        return p;
    } else {
        uint8_t *p = malloc(n);
        for (size_t i = 0; i < n; i++) p[i] = (uint8_t)(fill == 0 ? mix(seed, (uint64_t)k, i) % range : fill == 1 ? 0 : range - 1);
        return p;
    }
}

#define NINT 22
int main(void) {
    char *line = NULL; size_t cap = 0; ssize_t len;
    while ((len = getline(&line, &cap, stdin)) > 0) {
        char *save = NULL;
        char *op = strtok_r(line, " \n", &save);
        if (!op) continue;
        int is_gen = !strcmp(op, "GEN");
        if (!is_gen && strcmp(op, "PSNR")) { printf("bad-op\n"); continue; }
        uint64_t seed = 0;
        if (is_gen) { char *t = strtok_r(NULL, " \n", &save); if (!t) { printf("bad-op\n"); continue; } seed = strtoull(t, NULL, 10); }
        long v[NINT]; int ok = 1;
        for (int i = 0; i < NINT; i++) { char *t = strtok_r(NULL, " \n", &save); if (!t) { ok = 0; break; } v[i] = strtol(t, NULL, 10); }
        if (!ok) { printf("bad-op\n"); continue; }
        int is16 = (int)v[0], isRef = (int)v[1], tfOn = (int)v[2];
        long width = v[3], height = v[4], padR = v[5], padB = v[6], ssx = v[7], ssy = v[8];
        long inOx = v[9], inOy = v[10], inSy = v[11], inScb = v[12], inScr = v[13], inSbY = v[14], inSbCb = v[15], inSbCr = v[16];
        long recOx = v[17], recOy = v[18], recSy = v[19], recScb = v[20], recScr = v[21];
        void *b[18];
        if (is_gen) {
            int fill[4];
            for (int i = 0; i < 4; i++) { char *t = strtok_r(NULL, " \n", &save); if (!t) { ok = 0; break; } fill[i] = atoi(t); }
            if (!ok) { printf("bad-op\n"); continue; }
            long strides_in[6] = {inSy, inScb, inScr, inSbY, inSbCb, inSbCr};
            long strides_rec[3] = {recSy, recScb, recScr};
            for (int k = 0; k < 18; k++) {
                int grp = k < 6 ? 0 : k < 12 ? 1 : k < 15 ? 2 : 3;
                long st = k < 12 ? strides_in[k % 6] : strides_rec[(k - 12) % 3];
                long ox = k < 12 ? inOx : recOx, oy = k < 12 ? inOy : recOy;
                size_t n = (size_t)(ox + (oy + height + 1) * st + width + 8);
                b[k] = gen(seed, k, fill[grp], n, k >= 12 && is16);
            }
        } else {
            for (int k = 0; k < 18; k++) {
                char *t = strtok_r(NULL, " \n", &save);
                if (!t) { ok = 0; break; }
                b[k] = blob(t, (k >= 12 && is16) ? 4 : 2);
            }
            if (!ok) { printf("bad-op\n"); continue; }
        }
        PictureControlSet *pcs = calloc(1, sizeof(*pcs));
        PictureParentControlSet *ppcs = calloc(1, sizeof(*ppcs));
        SequenceControlSet *scs = calloc(1, sizeof(*scs));
        EbObjectWrapper *wr = calloc(1, sizeof(*wr));
        EbReferenceObject *ro = calloc(1, sizeof(*ro));
        EbPictureBufferDesc *in = calloc(1, sizeof(*in)), *ref = calloc(1, sizeof(*ref)), *recon = calloc(1, sizeof(*recon));
        in->buffer_y = b[0]; in->buffer_cb = b[1]; in->buffer_cr = b[2];
        in->buffer_bit_inc_y = b[3]; in->buffer_bit_inc_cb = b[4]; in->buffer_bit_inc_cr = b[5];
        in->origin_x = (uint16_t)inOx; in->origin_y = (uint16_t)inOy;
        in->stride_y = (uint16_t)inSy; in->stride_cb = (uint16_t)inScb; in->stride_cr = (uint16_t)inScr;
        in->stride_bit_inc_y = (uint16_t)inSbY; in->stride_bit_inc_cb = (uint16_t)inSbCb; in->stride_bit_inc_cr = (uint16_t)inSbCr;
        in->width = (uint16_t)width; in->height = (uint16_t)height;
        EbPictureBufferDesc *rr[2] = {ref, recon};
        for (int j = 0; j < 2; j++) {
            rr[j]->buffer_y = b[12 + 3 * j]; rr[j]->buffer_cb = b[13 + 3 * j]; rr[j]->buffer_cr = b[14 + 3 * j];
            rr[j]->origin_x = (uint16_t)recOx; rr[j]->origin_y = (uint16_t)recOy;
            rr[j]->stride_y = (uint16_t)recSy; rr[j]->stride_cb = (uint16_t)recScb; rr[j]->stride_cr = (uint16_t)recScr;
            rr[j]->width = (uint16_t)width; rr[j]->height = (uint16_t)height;
        }
        pcs->parent_pcs_ptr = ppcs;
        ppcs->is_used_as_reference_flag = isRef ? EB_TRUE : EB_FALSE;
        ppcs->temporal_filtering_on = tfOn ? EB_TRUE : EB_FALSE;
        ppcs->enhanced_unscaled_picture_ptr = in;
        ppcs->enhanced_picture_ptr = in;
        ppcs->save_enhanced_picture_ptr[0] = b[6]; ppcs->save_enhanced_picture_ptr[1] = b[7]; ppcs->save_enhanced_picture_ptr[2] = b[8];
        ppcs->save_enhanced_picture_bit_inc_ptr[0] = b[9]; ppcs->save_enhanced_picture_bit_inc_ptr[1] = b[10];
        ppcs->save_enhanced_picture_bit_inc_ptr[2] = b[11];
        if (b[12]) { ppcs->reference_picture_wrapper_ptr = wr; wr->object_ptr = ro; }
        if (is16) { ro->reference_picture16bit = ref; pcs->recon_picture16bit_ptr = recon; }
        else { ro->reference_picture = ref; pcs->recon_picture_ptr = recon; }
        scs->static_config.encoder_bit_depth = is16 ? 10 : 8;
        scs->static_config.ten_bit_format = 0;
        scs->subsampling_x = (uint16_t)ssx; scs->subsampling_y = (uint16_t)ssy;
        scs->max_input_pad_right = (uint16_t)padR; scs->max_input_pad_bottom = (uint16_t)padB;
        ppcs->luma_sse = 0xDEADBEEF; ppcs->cb_sse = 0xDEADBEEF; ppcs->cr_sse = 0xDEADBEEF;

        psnr_calculations(pcs, scs, EB_FALSE);      /* as EbRestProcess.c l.574 calls it */

        printf("%u %u %u\n", ppcs->luma_sse, ppcs->cb_sse, ppcs->cr_sse);
        for (int k = 0; k < 18; k++) free(b[k]);
        free(pcs); free(ppcs); free(scs); free(wr); free(ro); free(in); free(ref); free(recon);
    }
    free(line);
    return 0;
}
