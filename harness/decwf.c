/* C09 harness (see DESIGN.md "### C09").  One source, two programs:
 *
 * (1) default build — protocol correspondence.  Runs the REAL control code of the decoder's reconstruction wavefront:
 *     the source text of `decode_tile_row`, `decode_tile`, `start_decode_tile` (EbDecProcessFrame.c) and
 *     `get_sb_row_to_process`, `decode_tile_job`, `decode_frame_tiles` (EbDecProcess.c) is extracted from /repo by
 *     checks/c09.py (xlate/extract.py) into c09_extracted.h and compiled here against the real structs.  The only
 *     edit made to the text is mechanical and counted: every EMPTY spin loop `while (cond) ;` becomes
 *     `while (cond) hook_spin(site);` (a cooperative scheduler needs a yield inside a spin).  The per-SB work
 *     `decode_super_block`, the mutex calls, `svt_cfl_init`, `setup_segmentation_dequant` and `svt_tile_init` are
 *     redirected to hooks by macros.  N workers are ucontext coroutines; a seeded adversarial scheduler decides who
 *     runs at every scheduling point (mutex, every evaluation of a spin condition, start / end of an SB).
 *
 *     stdin, one op per line (all numbers decimal):
 *       tile  SBL W H C0 R0 RP LASTW N SEED MODE PMODE V       one tile: N workers call the real decode_tile
 *       frame SBL TC c_1..c_TC TR r_1..r_TR LASTW N SEED MODE PMODE V   a tile grid: N workers call the real decode_frame_tiles
 *     SBL = sb_size_log2 (6|7); W,H tile size in SBs; C0,R0 absolute SB position; RP = 1: one more SB column to the right
 *     of the tile (so the tile is not the last tile column); LASTW = width of the frame's last SB column in MI units
 *     (1..sb_mi); c_i / r_i = cumulative SB boundaries; MODE = scheduler policy; PMODE = parser policy
 *     (0 all rows parsed before the start, 1 parsed at random moments, 2 parsed only when no worker can move).
 *     stdout: per tile "ops …" (the schedule as model ops, replayed by `svtmodel decwf`), "run …" (final state taken from
 *     the REAL data: sb_row_to_process, sb_recon_completed_in_row[], sb_recon_row_started[], sb_recon_row_map[] and
 *     the order of decode_super_block calls) and one "oracle …" line per op: the property evaluated on the real
 *     events only (safe, once, complete, no deadlock).
 *
 * (2) -DDECWF_E2E — stream decoder for the end-to-end oracle: decodes hex packets with the real library
 *     (`threads`, `is_16bit_pipeline` from argv; the schedule perturbation hook of EbThreads.c is driven by the
 *     environment variable SVT_VERIF_PERTURB), prints one line-buffered "DEC i crc" per output picture BEFORE teardown,
 *     then "DEINIT …" / "END …"; a SIGALRM watchdog prints "TIMEOUT phase=…" and exits 3.
 */
#include <stdio.h>
#include <stdlib.h>
#include <string.h>
#include <stdint.h>

#ifdef DECWF_E2E
/* ======================================================================================= (2) stream decoder */
#include <unistd.h>
#include <signal.h>
#include <inttypes.h>
#include <time.h>
#include "EbSvtAv1Dec.h"

static uint64_t fnv(const uint8_t *p, size_t n, uint64_t h) {
    for (size_t i = 0; i < n; i++) { h ^= p[i]; h *= 0x100000001b3ull; }
    return h;
}
#define FNV0 0xcbf29ce484222325ull
static const char *phase = "start";

/* ---- allocation tracker: every allocator entry point of the process is interposed (the executable's definitions win over
 * libc's), the set of live blocks is kept in an open-addressing table, and a free() of a pointer that is not live
 * (double free / invalid free) is REPORTED and SKIPPED instead of corrupting the heap.  This makes teardown defects
 * deterministic observations ("BADFREE n phase") instead of allocator-dependent crashes. */
extern void *__libc_malloc(size_t);
extern void *__libc_calloc(size_t, size_t);
extern void *__libc_realloc(void *, size_t);
extern void *__libc_memalign(size_t, size_t);
extern void  __libc_free(void *);
#define TBITS 21
static void *volatile trk_tab[1u << TBITS];
static volatile int   trk_lock;
static volatile long  trk_bad, trk_bad_deinit, trk_overflow;
static int            trk_in_deinit;
#define TOMB ((void *)1)
static void trk_acquire(void) { while (__atomic_exchange_n(&trk_lock, 1, __ATOMIC_ACQUIRE)) {} }
static void trk_release(void) { __atomic_store_n(&trk_lock, 0, __ATOMIC_RELEASE); }
static size_t trk_h(void *p) { uint64_t x = (uint64_t)(uintptr_t)p; x ^= x >> 33; x *= 0xff51afd7ed558ccdULL; x ^= x >> 29; return (size_t)(x & ((1u << TBITS) - 1)); }
static void trk_add(void *p) {
    if (!p) return;
    trk_acquire();
    size_t i = trk_h(p), n = 0;
    while (trk_tab[i] && trk_tab[i] != TOMB && n < (1u << TBITS)) { i = (i + 1) & ((1u << TBITS) - 1); n++; }
    if (n < (1u << TBITS)) trk_tab[i] = p; else trk_overflow++;
    trk_release();
}
static int trk_del(void *p) { /* 1 if p was live */
    trk_acquire();
    size_t i = trk_h(p), n = 0;
    int    found = 0;
    while (trk_tab[i] && n < (1u << TBITS)) {
        if (trk_tab[i] == p) { trk_tab[i] = TOMB; found = 1; break; }
        i = (i + 1) & ((1u << TBITS) - 1); n++;
    }
    trk_release();
    return found;
}
void *malloc(size_t n) { void *p = __libc_malloc(n); trk_add(p); return p; }
void *calloc(size_t a, size_t b) { void *p = __libc_calloc(a, b); trk_add(p); return p; }
void *memalign(size_t a, size_t n) { void *p = __libc_memalign(a, n); trk_add(p); return p; }
void *aligned_alloc(size_t a, size_t n) { void *p = __libc_memalign(a, n); trk_add(p); return p; }
void *valloc(size_t n) { void *p = __libc_memalign(4096, n); trk_add(p); return p; }
int   posix_memalign(void **out, size_t a, size_t n) {
    void *p = __libc_memalign(a, n);
    if (!p) return 12;
    trk_add(p); *out = p; return 0;
}
void free(void *p) {
    if (!p) return;
    if (!trk_del(p)) {
        if (trk_overflow) { __libc_free(p); return; }
        __atomic_add_fetch(&trk_bad, 1, __ATOMIC_RELAXED);
        if (trk_in_deinit) __atomic_add_fetch(&trk_bad_deinit, 1, __ATOMIC_RELAXED);
        return; /* skipped */
    }
    __libc_free(p);
}
void *realloc(void *p, size_t n) {
    if (!p) return malloc(n);
    if (!trk_del(p)) { if (!trk_overflow) { __atomic_add_fetch(&trk_bad, 1, __ATOMIC_RELAXED); return NULL; } }
    void *q = __libc_realloc(p, n);
    trk_add(q ? q : (n ? p : NULL));
    return q;
}
static void on_timeout(int sig) {
    (void)sig;
    char m[96];
    int  n = snprintf(m, sizeof m, "TIMEOUT phase=%s\n", phase);
    if (write(1, m, n)) {}
    _exit(3);
}
static int hexv(int c) { return c <= '9' ? c - '0' : (c | 32) - 'a' + 10; }

int main(int argc, char **argv) {
    if (argc < 6) { fprintf(stderr, "usage: decwf_e2e file threads w h bd [dec16] [watchdog_s] [repeat]\n"); return 2; }
    int threads = atoi(argv[2]), w = atoi(argv[3]), h = atoi(argv[4]), bd = atoi(argv[5]);
    int dec16 = argc > 6 ? atoi(argv[6]) : 0, wd = argc > 7 ? atoi(argv[7]) : 300, repeat = argc > 8 ? atoi(argv[8]) : 1;
    setvbuf(stdout, NULL, _IOLBF, 0);
    signal(SIGALRM, on_timeout);
    alarm(wd);
    FILE *f = fopen(argv[1], "r");
    if (!f) return 2;
    size_t cap = 1 << 24;
    char * line = malloc(cap);
    uint8_t **pk = NULL;
    size_t *  sz = NULL;
    int       n  = 0;
    while (fgets(line, (int)cap, f)) {
        size_t L = strlen(line);
        while (L && (line[L - 1] == '\n' || line[L - 1] == ' ' || line[L - 1] == '\r')) L--;
        if (!L) continue;
        pk    = realloc(pk, (n + 1) * sizeof *pk);
        sz    = realloc(sz, (n + 1) * sizeof *sz);
        pk[n] = malloc(L / 2 + 1);
        sz[n] = L / 2;
        for (size_t i = 0; i < L / 2; i++) pk[n][i] = (uint8_t)(hexv(line[2 * i]) * 16 + hexv(line[2 * i + 1]));
        n++;
    }
    fclose(f);
    for (int rep = 0; rep < repeat; rep++) {
        EbSvtAv1DecConfiguration dc;
        EbComponentType *        dh = NULL;
        memset(&dc, 0, sizeof dc);
        phase = "init";
        if (svt_av1_dec_init_handle(&dh, NULL, &dc) != EB_ErrorNone) { printf("ERR dec_init_handle\n"); return 0; }
        dc.max_picture_width = w; dc.max_picture_height = h;
        dc.max_bit_depth     = bd > 8 ? EB_TEN_BIT : EB_EIGHT_BIT;
        dc.max_color_format  = EB_YUV420;
        dc.threads = threads; dc.is_16bit_pipeline = dec16; dc.eight_bit_output = 0;
        if (svt_av1_dec_set_parameter(dh, &dc) != EB_ErrorNone) { printf("ERR set_parameter\n"); return 0; }
        if (svt_av1_dec_init(dh) != EB_ErrorNone) { printf("ERR dec_init\n"); return 0; }
        int                bps = bd > 8 ? 2 : 1;
        EbBufferHeaderType ob;
        EbSvtIOFormat      io;
        memset(&ob, 0, sizeof ob);
        memset(&io, 0, sizeof io);
        size_t ysz = (size_t)w * h * bps;
        io.luma = malloc(ysz); io.cb = malloc(ysz / 4 + 16); io.cr = malloc(ysz / 4 + 16);
        io.y_stride = w; io.cb_stride = w / 2; io.cr_stride = w / 2; io.width = w; io.height = h;
        io.bit_depth = dc.max_bit_depth; io.color_fmt = EB_YUV420;
        ob.p_buffer = (uint8_t *)&io; ob.size = sizeof ob;
        EbAV1StreamInfo si;
        EbAV1FrameInfo  fi;
        memset(&si, 0, sizeof si);
        memset(&fi, 0, sizeof fi);
        int nd = 0;
        phase  = "decode";
        for (int i = 0; i < n; i++) {
            EbErrorType e = svt_av1_dec_frame(dh, pk[i], sz[i], 0);
            if (e != EB_ErrorNone) printf("ERR dec_frame pkt=%d code=%x\n", i, e);
            if (svt_av1_dec_get_picture(dh, &ob, &si, &fi) != EB_DecNoOutputPicture) {
                uint64_t c = fnv(io.luma, ysz, FNV0);
                c          = fnv(io.cb, ysz / 4, c);
                c          = fnv(io.cr, ysz / 4, c);
                printf("DEC %d %016" PRIx64 " rep=%d pkt=%d\n", nd, c, rep, i);
                nd++;
            }
        }
        printf("DECODED %d rep=%d\n", nd, rep);
        phase = "deinit";
        struct timespec t0, t1;
        clock_gettime(CLOCK_MONOTONIC, &t0);
        long bad_before = trk_bad;
        trk_in_deinit   = 1;
        EbErrorType e1  = svt_av1_dec_deinit(dh);
        phase           = "deinit_handle";
        EbErrorType e2  = svt_av1_dec_deinit_handle(dh);
        trk_in_deinit   = 0;
        clock_gettime(CLOCK_MONOTONIC, &t1);
        printf("DEINIT %x %x ms=%ld rep=%d badfree_decode=%ld badfree_teardown=%ld tracker_overflow=%ld\n", e1, e2,
               (long)((t1.tv_sec - t0.tv_sec) * 1000 + (t1.tv_nsec - t0.tv_nsec) / 1000000), rep, bad_before, trk_bad - bad_before,
               trk_overflow);
        free(io.luma); free(io.cb); free(io.cr);
    }
    printf("END\n");
    return 0;
}

#else
/* ======================================================================================= (1) protocol harness */
#include <ucontext.h>
#include "EbDefinitions.h"
#include "EbSvtAv1Dec.h"
#include "EbDecHandle.h"
#include "EbDecProcessFrame.h"
#include "EbDecProcess.h"
#include "EbUtility.h"

/* ---------------------------------------------------------------- hooks seen by the extracted text */
static EbErrorType hook_block_on_mutex(EbHandle m);
static EbErrorType hook_release_mutex(EbHandle m);
static void        hook_spin(int site);
static void        hook_decode_super_block(DecModCtxt *ctx, uint32_t mi_row, uint32_t mi_col, SBInfo *sb_info);
static void        hook_nop(void) {}
static EbErrorType hook_semaphore(EbHandle h);
#define svt_block_on_mutex hook_block_on_mutex
#define svt_release_mutex hook_release_mutex
#define svt_block_on_semaphore hook_semaphore
#define decode_super_block hook_decode_super_block
#define svt_cfl_init(a, b) hook_nop()
#define setup_segmentation_dequant(a) hook_nop()
#define svt_tile_init(a, b, c, d) hook_nop()
#undef SVT_LOG
#define SVT_LOG(...) ((void)0)
#include "c09_extracted.h"
#undef svt_block_on_mutex
#undef svt_release_mutex
#undef svt_block_on_semaphore
#undef decode_super_block
#undef svt_cfl_init
#undef setup_segmentation_dequant
#undef svt_tile_init

/* ---------------------------------------------------------------- small utilities */
static uint64_t hmix(uint64_t h, uint64_t v) { return (h ^ v) * 1099511628211ULL; }
#define H0 1469598103934665603ULL
typedef struct { int64_t *v; size_t n, cap; } Vec;
static void vpush(Vec *a, int64_t x) {
    if (a->n == a->cap) { a->cap = a->cap ? a->cap * 2 : 256; a->v = realloc(a->v, a->cap * sizeof(int64_t)); }
    a->v[a->n++] = x;
}
static void show(const char *name, Vec *a, int verbose) {
    if (!verbose) {
        uint64_t h = H0;
        for (size_t i = 0; i < a->n; i++) h = hmix(h, (uint64_t)a->v[i]);
        printf("%s=#%llu", name, (unsigned long long)h);
    } else {
        printf("%s=[", name);
        for (size_t i = 0; i < a->n; i++) printf(i ? " %lld" : "%lld", (long long)a->v[i]);
        printf("]");
    }
}
static uint64_t rng_s;
static uint64_t rng_next(void) {
    rng_s += 0x9E3779B97F4A7C15ULL;
    uint64_t z = rng_s;
    z          = (z ^ (z >> 30)) * 0xBF58476D1CE4E5B9ULL;
    z          = (z ^ (z >> 27)) * 0x94D049BB133111EBULL;
    return z ^ (z >> 31);
}

/* ---------------------------------------------------------------- the simulated frame */
#define MAXT 64
#define MAXW 16
#define STACKSZ (512 * 1024)
enum { WS_NEW = 0, WS_MUTEX, WS_SPIN_GATE, WS_SPIN_SB, WS_BUSY, WS_LEFT };
typedef struct {
    int      W, H, c0, r0, tc, tr;
    Vec      ops;           /* token stream: (kind, a, b) triples */
    int      joins;         /* decode_tile calls on this tile = model workers */
    uint8_t *begun, *finished; /* per SB of the tile */
    Vec      log;           /* begin order: r, j */
    int      nparsed;
} TileSim;
typedef struct {
    ucontext_t ctx;
    char *     stack;
    int        st;
    int        tile, row, col; /* row held (-1 none), last begun column */
    int        entered;        /* E token emitted for the held row */
    int        in_tile;        /* inside decode_tile of `tile` */
    uint64_t   seen_version;   /* version at the last failed spin test */
    int        mutex_kind;     /* 0 tile row mutex, 1 tile queue, 2 tile switch */
    DecModCtxt *   mod;
    DecThreadCtxt *thr;
} Worker;

static EbDecHandle *DH;
static TileSim      TS[MAXT];
static int          NT, TC_N, SBL, SBMI, frame_mode;
static Worker       wk[MAXW];
static ucontext_t   sched_ctx;
static int          cur_w, NWORK;
static uint64_t     version;
static char         mtx_rows[MAXT], mtx_queue, mtx_switch; /* dummy mutex handles: identity only */
/* oracle counters */
static unsigned o_safe_viol, o_twice, o_order_bad, o_foreign, o_sem, first_viol_r, first_viol_c, first_viol_t;

static void tok(int t, int kind, int a, int b) {
    vpush(&TS[t].ops, kind); vpush(&TS[t].ops, a); vpush(&TS[t].ops, b);
}
static void yield_to_sched(void) { swapcontext(&wk[cur_w].ctx, &sched_ctx); }

static DecMtParseReconTileInfo *tinfo(int t) { return &DH->main_frame_buf.cur_frame_bufs[0].dec_mt_frame_data.parse_recon_tile_info_array[t]; }

/* the worker holds a finished row (or came back from a pick that returned no row) and has reached the next hook */
static void close_row(Worker *w, int left) {
    if (!w->in_tile) return;
    if (w->row >= 0) { tok(w->tile, 'F', w->row, 0); w->row = -1; }
    tok(w->tile, 'C', left, 0);
    version++;
}

/* decode_frame_tiles leaves a tile by returning from decode_tile_job and reaching the queue / switch mutex */
static void leave_tile_if_any(Worker *w) {
    if (w->in_tile) { close_row(w, 1); w->in_tile = 0; }
}

static EbErrorType hook_block_on_mutex(EbHandle m) {
    Worker *w = &wk[cur_w];
    int     t = -1;
    for (int i = 0; i < NT; i++) if (m == (EbHandle)&mtx_rows[i]) t = i;
    if (t >= 0) {
        if (w->in_tile && w->tile == t) close_row(w, 0); /* looped back inside the same decode_tile call: line 174 was false */
        else { leave_tile_if_any(w); w->in_tile = 1; w->tile = t; w->row = -1; TS[t].joins++; }
        w->mutex_kind = 0;
    } else {
        leave_tile_if_any(w); /* decode_tile returned (line 174 was true) and decode_frame_tiles asks for more work */
        if (m == (EbHandle)&mtx_queue) w->mutex_kind = 1;
        else if (m == (EbHandle)&mtx_switch) w->mutex_kind = 2;
        else { o_foreign++; w->mutex_kind = 3; }
    }
    w->st = WS_MUTEX;
    yield_to_sched();
    /* the critical section that follows runs without interruption up to the next hook */
    if (w->mutex_kind == 0) {
        DecMtParseReconTileInfo *T = tinfo(t);
        w->row = (T->sb_row_to_process != T->tile_num_sb_rows) ? T->sb_row_to_process : -1;
        w->col = -1; w->entered = 0;
        tok(t, 'P', w->row, 0);
        version++;
    }
    return EB_ErrorNone;
}
static EbErrorType hook_release_mutex(EbHandle m) { (void)m; return EB_ErrorNone; }
static EbErrorType hook_semaphore(EbHandle h) { (void)h; o_sem++; return EB_ErrorNone; }

static void hook_spin(int site) {
    Worker *w = &wk[cur_w];
    if (site == 1) { /* decode_tile: while (0 == *sb_row_parsed) */
        tok(w->tile, 'G', w->row, 0);
        w->st = WS_SPIN_GATE;
    } else {         /* decode_tile_row: top-right sync */
        if (!w->entered) { tok(w->tile, 'E', w->row, 0); w->entered = 1; version++; }
        tok(w->tile, 'S', w->row, w->col + 1);
        w->st = WS_SPIN_SB;
    }
    w->seen_version = version;
    yield_to_sched();
}

static void hook_decode_super_block(DecModCtxt *ctx, uint32_t mi_row, uint32_t mi_col, SBInfo *sb_info) {
    (void)ctx; (void)sb_info;
    Worker * w = &wk[cur_w];
    TileSim *T = &TS[w->tile];
    int      r = (int)(mi_row >> (SBL - 2)) - T->r0, j = (int)(mi_col >> (SBL - 2)) - T->c0;
    if (!w->entered) { tok(w->tile, 'E', w->row, 0); w->entered = 1; }
    tok(w->tile, 'D', r, j);
    version++;
    if (r != w->row || r < 0 || r >= T->H || j < 0 || j >= T->W) { o_order_bad++; return; }
    /* property oracle on the real event: the four neighbours inside the tile have finished */
    static const int dr[4] = {0, -1, -1, -1}, dc[4] = {-1, -1, 0, 1};
    for (int k = 0; k < 4; k++) {
        int rr = r + dr[k], cc = j + dc[k];
        if (rr < 0 || cc < 0 || cc >= T->W) continue;
        if (!T->finished[rr * T->W + cc]) {
            if (!o_safe_viol) { first_viol_t = (unsigned)w->tile; first_viol_r = (unsigned)r; first_viol_c = (unsigned)j; }
            o_safe_viol++;
        }
    }
    if (T->begun[r * T->W + j]++) o_twice++;
    vpush(&T->log, r); vpush(&T->log, j);
    w->col = j;
    w->st  = WS_BUSY;
    yield_to_sched();
    T->finished[r * T->W + j] = 1;
    tok(w->tile, 'U', r, 0);
    version++;
}

static void worker_main(int wi) {
    Worker *w = &wk[wi];
    if (frame_mode) {
        decode_frame_tiles(DH, w->thr);
        if (w->in_tile) { close_row(w, 1); w->in_tile = 0; }
    } else {
        TilesInfo *ti = &DH->frame_header.tiles_info;
        decode_tile(w->mod, ti, tinfo(0), TS[0].tc);
        close_row(w, 1);
        w->in_tile = 0;
    }
    w->st = WS_LEFT;
    yield_to_sched();
}


/* ---------------------------------------------------------------- building the real structures */
static void build(int sbl, int ntc, const int *cs, int ntr, const int *rs, int lastw, int lasth, int nworkers) {
    SBL = sbl; SBMI = 1 << (sbl - 2);
    DH  = calloc(1, sizeof(EbDecHandle));
    int sb_cols = cs[ntc], sb_rows = rs[ntr];
    DH->seq_header.sb_size_log2           = (uint8_t)sbl;
    DH->seq_header.sb_mi_size             = (uint8_t)SBMI;
    DH->seq_header.sb_size                = sbl == 7 ? BLOCK_128X128 : BLOCK_64X64;
    DH->seq_header.use_128x128_superblock = sbl == 7;
    DH->frame_header.mi_cols              = (uint32_t)((sb_cols - 1) * SBMI + lastw);
    DH->frame_header.mi_rows              = (uint32_t)((sb_rows - 1) * SBMI + lasth);
    DH->dec_config.threads                = (uint32_t)nworkers;
    TilesInfo *ti = &DH->frame_header.tiles_info;
    ti->tile_cols = (uint8_t)ntc; ti->tile_rows = (uint8_t)ntr;
    /* EbDecParseObu.c:650-655 / 680-692: SB-aligned starts, the last boundary is mi_cols / mi_rows */
    for (int i = 0; i < ntc; i++) ti->tile_col_start_mi[i] = (uint16_t)(cs[i] * SBMI);
    ti->tile_col_start_mi[ntc] = (uint16_t)DH->frame_header.mi_cols;
    for (int i = 0; i < ntr; i++) ti->tile_row_start_mi[i] = (uint16_t)(rs[i] * SBMI);
    ti->tile_row_start_mi[ntr] = (uint16_t)DH->frame_header.mi_rows;
    MainFrameBuf *mfb = &DH->main_frame_buf;
    mfb->sb_cols = (uint32_t)sb_cols; mfb->sb_rows = (uint32_t)sb_rows;
    mfb->cur_frame_bufs[0].sb_info = calloc((size_t)sb_cols * sb_rows, sizeof(SBInfo));
    DecMtFrameData *mt = &mfb->cur_frame_bufs[0].dec_mt_frame_data;
    mt->sb_rows = sb_rows; mt->sb_cols = sb_cols;
    NT = ntc * ntr; TC_N = ntc;
    mt->sb_recon_row_map            = calloc((size_t)sb_rows * ntc, sizeof(uint32_t));       /* EbDecProcess.c:174-177, 450 */
    mt->parse_recon_tile_info_array = calloc((size_t)NT, sizeof(DecMtParseReconTileInfo));
    mt->recon_tile_info.num_sb_rows = NT; mt->recon_tile_info.sb_row_to_process = 0;         /* :182-183 */
    mt->recon_tile_info.sbrow_mutex = (EbHandle)&mtx_queue;
    mt->tile_switch_mutex           = (EbHandle)&mtx_switch;
    mt->start_decode_frame          = EB_TRUE;
    for (int t = 0; t < NT; t++) {
        int tr = t / ntc, tc = t % ntc;
        DecMtParseReconTileInfo *T = &mt->parse_recon_tile_info_array[t];
        /* svt_tile_init -> svt_av1_tile_set_row/col (EbBlockStructures.c:14-33) */
        T->tile_info.tile_row = tr; T->tile_info.tile_col = tc;
        T->tile_info.mi_row_start = ti->tile_row_start_mi[tr];
        T->tile_info.mi_row_end   = AOMMIN(ti->tile_row_start_mi[tr + 1], (int)DH->frame_header.mi_rows);
        T->tile_info.mi_col_start = ti->tile_col_start_mi[tc];
        T->tile_info.mi_col_end   = AOMMIN(ti->tile_col_start_mi[tc + 1], (int)DH->frame_header.mi_cols);
        /* dec_system_resource_init, EbDecProcess.c:206-213 */
        int32_t tile_num_sb_rows = ((((T->tile_info.mi_row_end - 1) << MI_SIZE_LOG2) >> DH->seq_header.sb_size_log2) -
                                    ((T->tile_info.mi_row_start << MI_SIZE_LOG2) >> DH->seq_header.sb_size_log2) + 1);
        T->tile_num_sb_rows          = tile_num_sb_rows;
        T->sb_recon_row_parsed       = calloc((size_t)tile_num_sb_rows, sizeof(uint32_t));   /* reset: EbDecParseObu.c:2322-2324 */
        T->sb_recon_completed_in_row = calloc((size_t)tile_num_sb_rows, sizeof(uint32_t));
        T->sb_recon_row_started      = calloc((size_t)tile_num_sb_rows, sizeof(uint32_t));
        T->tile_sbrow_mutex          = (EbHandle)&mtx_rows[t];
        T->sb_row_to_process         = 0;
        TileSim *S = &TS[t];
        memset(S, 0, sizeof *S);
        S->W = cs[tc + 1] - cs[tc]; S->H = rs[tr + 1] - rs[tr]; S->c0 = cs[tc]; S->r0 = rs[tr]; S->tc = tc; S->tr = tr;
        S->begun = calloc((size_t)S->W * S->H, 1); S->finished = calloc((size_t)S->W * S->H, 1);
    }
    DH->pv_dec_mod_ctxt = calloc(1, sizeof(DecModCtxt));
    DH->thread_ctxt_pa  = calloc((size_t)nworkers, sizeof(DecThreadCtxt));
    for (int i = 0; i < nworkers; i++) {
        Worker *w = &wk[i];
        memset(w, 0, sizeof *w);
        w->row = -1; w->tile = 0;
        if (i == 0) { w->mod = (DecModCtxt *)DH->pv_dec_mod_ctxt; w->thr = NULL; }
        else {
            w->mod = calloc(1, sizeof(DecModCtxt));
            w->thr = &DH->thread_ctxt_pa[i - 1];
            w->thr->thread_cnt = (uint32_t)i; w->thr->dec_handle_ptr = DH; w->thr->dec_mod_ctxt = w->mod;
        }
        w->mod->dec_handle_ptr = DH; w->mod->seq_header = &DH->seq_header; w->mod->frame_header = &DH->frame_header;
    }
}

static void teardown(int nworkers) {
    DecMtFrameData *mt = &DH->main_frame_buf.cur_frame_bufs[0].dec_mt_frame_data;
    for (int t = 0; t < NT; t++) {
        DecMtParseReconTileInfo *T = &mt->parse_recon_tile_info_array[t];
        free(T->sb_recon_row_parsed); free(T->sb_recon_completed_in_row); free(T->sb_recon_row_started);
        free(TS[t].begun); free(TS[t].finished); free(TS[t].ops.v); free(TS[t].log.v);
    }
    free(mt->sb_recon_row_map); free(mt->parse_recon_tile_info_array);
    free(DH->main_frame_buf.cur_frame_bufs[0].sb_info);
    for (int i = 1; i < nworkers; i++) free(wk[i].mod);
    for (int i = 0; i < nworkers; i++) free(wk[i].stack);
    free(DH->pv_dec_mod_ctxt); free(DH->thread_ctxt_pa); free(DH);
}

/* ---------------------------------------------------------------- scheduler */
static int parse_one(int pmode_lazy) {
    /* the parser of tile t sets sb_recon_row_parsed in row order (EbDecParseFrame.c:289-296); pick a tile that still
       has unparsed rows */
    int cand[MAXT], nc = 0;
    for (int t = 0; t < NT; t++) if (TS[t].nparsed < TS[t].H) cand[nc++] = t;
    if (!nc) return 0;
    int t = pmode_lazy ? cand[0] : cand[rng_next() % (unsigned)nc];
    tinfo(t)->sb_recon_row_parsed[TS[t].nparsed] = 1;
    tok(t, 'X', TS[t].nparsed, 0);
    TS[t].nparsed++;
    version++;
    return 1;
}

static int runnable(Worker *w) {
    if (w->st == WS_LEFT) return 0;
    if ((w->st == WS_SPIN_GATE || w->st == WS_SPIN_SB) && w->seen_version == version) return 0; /* re-test would fail again */
    return 1;
}

static void run_sched(int N, int mode, int pmode, unsigned *steps_out, int *deadlock_out) {
    for (int i = 0; i < N; i++) {
        wk[i].stack = malloc(STACKSZ);
        getcontext(&wk[i].ctx);
        wk[i].ctx.uc_stack.ss_sp = wk[i].stack; wk[i].ctx.uc_stack.ss_size = STACKSZ; wk[i].ctx.uc_link = &sched_ctx;
        makecontext(&wk[i].ctx, (void (*)(void))worker_main, 1, i);
        wk[i].st = WS_NEW;
    }
    if (pmode == 0) while (parse_one(1)) {}
    unsigned steps = 0, limit = 0;
    for (int t = 0; t < NT; t++) limit += (unsigned)(TS[t].W * TS[t].H * 6 + TS[t].H * 8);
    limit = limit * 4 + 64 * (unsigned)N + 1000;
    int last = -1, deadlock = 0;
    for (;;) {
        int en[MAXW], ne = 0;
        for (int i = 0; i < N; i++) if (runnable(&wk[i])) en[ne++] = i;
        int alive = 0;
        for (int i = 0; i < N; i++) if (wk[i].st != WS_LEFT) alive++;
        if (!alive) break;
        if (steps >= limit) { deadlock = 2; break; }
        if (pmode == 1 && (rng_next() % 4) == 0 && parse_one(0)) { steps++; continue; }
        if (ne == 0) {
            if (parse_one(pmode == 2)) { steps++; continue; }
            deadlock = 1;
            break;
        }
        int pick;
        switch (mode) {
        case 1: pick = en[0]; break;
        case 2: pick = en[ne - 1]; break;
        case 3: { /* run ahead: prefer the worker on the highest row of its tile */
            int best = en[0];
            for (int i = 0; i < ne; i++) if (wk[en[i]].row > wk[best].row || (wk[en[i]].row == wk[best].row && (rng_next() & 1))) best = en[i];
            pick = best; break;
        }
        case 4: { /* prefer the lowest row */
            int best = en[0];
            for (int i = 0; i < ne; i++) if (wk[en[i]].row < wk[best].row) best = en[i];
            pick = best; break;
        }
        case 5: pick = -1; for (int i = 0; i < ne; i++) if (en[i] == last && (rng_next() % 8)) pick = last;
                if (pick < 0) pick = en[rng_next() % (unsigned)ne]; break;
        case 6: { /* prefer workers that are NOT in the middle of an SB: delays every store of a counter */
            int c[MAXW], nc = 0;
            for (int i = 0; i < ne; i++) if (wk[en[i]].st != WS_BUSY) c[nc++] = en[i];
            pick = nc ? c[rng_next() % (unsigned)nc] : en[rng_next() % (unsigned)ne]; break;
        }
        default: pick = en[rng_next() % (unsigned)ne]; break;
        }
        last  = pick;
        cur_w = pick;
        swapcontext(&sched_ctx, &wk[pick].ctx);
        steps++;
    }
    *steps_out = steps; *deadlock_out = deadlock;
}

static void report(const char *what, const char *params, int N, int V, unsigned steps, int deadlock) {
    DecMtFrameData *mt = &DH->main_frame_buf.cur_frame_bufs[0].dec_mt_frame_data;
    unsigned missing = 0, rowmap_bad = 0, started_bad = 0, left = 0, total = 0;
    for (int i = 0; i < N; i++) if (wk[i].st == WS_LEFT) left++;
    for (int t = 0; t < NT; t++) {
        TileSim *                S = &TS[t];
        DecMtParseReconTileInfo *T = tinfo(t);
        int                      n = S->joins > 0 ? S->joins : 1;
        printf("ops %d %d %d %d 1 %d :", S->c0, S->W, S->H, S->r0, n);
        for (size_t i = 0; i + 3 <= S->ops.n; i += 3) {
            int k = (int)S->ops.v[i]; long a = (long)S->ops.v[i + 1], b = (long)S->ops.v[i + 2];
            switch (k) {
            case 'P': if (a < 0) printf(" P-"); else printf(" P%ld", a); break;
            case 'C': printf(a ? " C+" : " C-"); break;
            case 'D': printf(" D%ld:%ld", a, b); break;
            case 'S': printf(" S%ld:%ld", a, b); break;
            default: printf(" %c%ld", (char)k, a); break;
            }
        }
        printf("\n");
        Vec ctr = {0}, fin = {0}, st = {0};
        unsigned out = 0;
        for (int r = 0; r < S->H; r++) {
            vpush(&ctr, (int32_t)T->sb_recon_completed_in_row[r]);
            vpush(&fin, mt->sb_recon_row_map[(S->r0 + r) * TC_N + S->tc]);
            vpush(&st, T->sb_recon_row_started[r]);
            if (!mt->sb_recon_row_map[(S->r0 + r) * TC_N + S->tc]) rowmap_bad++;
            if (!T->sb_recon_row_started[r]) started_bad++;
        }
        for (size_t i = 0; i + 3 <= S->ops.n; i += 3) if (S->ops.v[i] == 'C' && S->ops.v[i + 1]) out++;
        for (int i = 0; i < S->W * S->H; i++) { total++; if (S->begun[i] != 1 || !S->finished[i]) missing++; }
        printf("run %d %d %d %d 1 %d : status=ok next=%d out=%u | ", S->c0, S->W, S->H, S->r0, n, T->sb_row_to_process, out);
        show("ctr", &ctr, V); printf(" "); show("fin", &fin, 1); printf(" "); show("started", &st, 1); printf(" ");
        show("log", &S->log, V); printf("\n");
        free(ctr.v); free(fin.v); free(st.v);
    }
    printf("oracle %s %s : tiles=%d sbs=%u steps=%u safe_viol=%u viol_at=%u:%u:%u twice=%u missing=%u order_bad=%u deadlock=%d workers_left=%u/%d "
           "rowmap_bad=%u started_bad=%u foreign_mutex=%u semaphore_waits=%u\n",
           what, params, NT, total, steps, o_safe_viol, first_viol_t, first_viol_r, first_viol_c, o_twice, missing, o_order_bad, deadlock, left, N,
           rowmap_bad, started_bad, o_foreign, o_sem);
}

static void reset_oracle(void) { o_safe_viol = o_twice = o_order_bad = o_foreign = o_sem = 0; first_viol_r = first_viol_c = first_viol_t = 0; version = 1; }

int main(void) {
    static char line[8192];
    while (fgets(line, sizeof line, stdin)) {
        char *save = NULL, *tokn = strtok_r(line, " \t\r\n", &save);
        if (!tokn) continue;
        long a[256]; int na = 0;
        int  is_tile = !strcmp(tokn, "tile"), is_frame = !strcmp(tokn, "frame");
        for (char *p; (p = strtok_r(NULL, " \t\r\n", &save)) && na < 256;) a[na++] = strtol(p, NULL, 10);
        char params[4096]; int pl = 0;
        for (int i = 0; i < na && pl < 4000; i++) pl += snprintf(params + pl, sizeof params - (size_t)pl, i ? " %ld" : "%ld", a[i]);
        reset_oracle();
        if (is_tile && na == 12) {
            int sbl = (int)a[0], W = (int)a[1], H = (int)a[2], c0 = (int)a[3], r0 = (int)a[4], rp = (int)a[5], lastw = (int)a[6], N = (int)a[7];
            int mode = (int)a[9], pmode = (int)a[10], V = (int)a[11];
            int sbmi = 1 << (sbl - 2);
            if ((sbl != 6 && sbl != 7) || W < 1 || H < 1 || c0 < 0 || r0 < 0 || N < 1 || N > MAXW || lastw < 1 || lastw > sbmi) { printf("bad-op\n"); continue; }
            /* a 3-column x 2-row tile grid at most: [0,c0) [c0,c0+W) [c0+W, c0+W+rp) x [0,r0) [r0,r0+H): the tile under test is the
               one driven; the others exist only so that the absolute coordinates and the row map layout are real */
            int cs[4], rs[3], ntc = 0, ntr = 0, tcol, trow;
            cs[0] = 0; if (c0 > 0) cs[++ntc] = c0; tcol = ntc; cs[++ntc] = c0 + W; if (rp) cs[++ntc] = c0 + W + 1;
            rs[0] = 0; if (r0 > 0) rs[++ntr] = r0; trow = ntr; rs[++ntr] = r0 + H;
            rng_s = (uint64_t)a[8]; frame_mode = 0; NWORK = N;
            build(sbl, ntc, cs, ntr, rs, lastw, sbmi, N);
            /* drive only the tile under test: move it to slot 0 of the simulation tables */
            int t = trow * ntc + tcol;
            if (t != 0) {
                DecMtFrameData *mt = &DH->main_frame_buf.cur_frame_bufs[0].dec_mt_frame_data;
                DecMtParseReconTileInfo tmpi = mt->parse_recon_tile_info_array[0]; mt->parse_recon_tile_info_array[0] = mt->parse_recon_tile_info_array[t]; mt->parse_recon_tile_info_array[t] = tmpi;
                TileSim tmps = TS[0]; TS[0] = TS[t]; TS[t] = tmps;
                mt->parse_recon_tile_info_array[0].tile_sbrow_mutex = (EbHandle)&mtx_rows[0];
                mt->parse_recon_tile_info_array[t].tile_sbrow_mutex = (EbHandle)&mtx_rows[t];
            }
            int ntall = NT; NT = 1; /* only tile 0 is parsed / reported */
            unsigned steps; int dl;
            run_sched(N, mode, pmode, &steps, &dl);
            report("tile", params, N, V, steps, dl);
            NT = ntall;
            teardown(N);
        } else if (is_frame && na >= 9) {
            int sbl = (int)a[0], p = 1, ntc = (int)a[p++];
            int cs[MAXT + 1], rs[MAXT + 1];
            if (ntc < 1 || ntc > 8 || na < p + ntc + 1) { printf("bad-op\n"); continue; }
            cs[0] = 0; for (int i = 1; i <= ntc; i++) cs[i] = (int)a[p++];
            int ntr = (int)a[p++];
            if (ntr < 1 || ntr > 8 || ntc * ntr > MAXT || na != p + ntr + 6) { printf("bad-op\n"); continue; }
            rs[0] = 0; for (int i = 1; i <= ntr; i++) rs[i] = (int)a[p++];
            int lastw = (int)a[p++], N = (int)a[p++]; rng_s = (uint64_t)a[p++];
            int mode = (int)a[p++], pmode = (int)a[p++], V = (int)a[p++];
            int sbmi = 1 << (sbl - 2), ok = (sbl == 6 || sbl == 7) && N >= 1 && N <= MAXW && lastw >= 1 && lastw <= sbmi;
            for (int i = 1; i <= ntc; i++) if (cs[i] <= cs[i - 1]) ok = 0;
            for (int i = 1; i <= ntr; i++) if (rs[i] <= rs[i - 1]) ok = 0;
            if (!ok) { printf("bad-op\n"); continue; }
            frame_mode = 1; NWORK = N;
            build(sbl, ntc, cs, ntr, rs, lastw, sbmi, N);
            unsigned steps; int dl;
            run_sched(N, mode, pmode, &steps, &dl);
            report("frame", params, N, V, steps, dl);
            teardown(N);
        } else
            printf("bad-op\n");
        fflush(stdout);
    }
    return 0;
}
#endif
