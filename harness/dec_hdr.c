/* dec_hdr — feeds encoder packets to the REAL SVT-AV1 decoder (public API) frame by frame and prints the
 * sequence-header / frame-header fields the decoder's own parser (EbDecParseObu.c) extracted, in the line
 * format of `svtmodel obu` (C02 correspondence for the Lean header parser).
 *
 *   dec_hdr            reads lines on stdin:
 *     RESET <w> <h> <bd>     (re)create the decoder for a new stream
 *     HDR <hex>              stream header bytes -> svt_get_sequence_info (the decoder's read_sequence_header_obu)
 *     PKT <i> <hex>          one packet; it is cut after every OBU_FRAME / OBU_FRAME_HEADER and each piece is
 *                            given to svt_av1_dec_frame, then the handle's frame_header / seq_header are printed
 *     GM <allow_hp> <hasprev> [42 ints] <hex>   the real read_global_motion_params (decode_signed_subexp_with_ref ...) on
 *                            the given bits with the given previous parameters -> "GM types=.. params=.. bits=.."
 *   output: "SEQ pkt=.. ..." / "FRM pkt=.. k=.. ..." / "DPK pkt=.. frames=.. err=.."
 * The only parsing done by the harness itself is walking the OBU size fields to find where a frame ends.
 */
#include <stdio.h>
#include <stdlib.h>
#include <string.h>
#include <stdint.h>
#include <unistd.h>
#include "EbSvtAv1Dec.h"
#include "EbDecHandle.h"
#include "EbObuParse.h"
#include "EbDecBitstream.h"

/* non-static parser entry of EbDecParseObu.c (l.1171), called directly for the GM op */
void read_global_motion_params(Bitstrm *bs, EbDecHandle *dec_handle, FrameHeader *frame_info, int frame_is_intra);

static EbComponentType *dh;
static int              cfg_w, cfg_h, cfg_bd;

static void dec_close(void) {
    if (dh) { svt_av1_dec_deinit(dh); svt_av1_dec_deinit_handle(dh); dh = NULL; }
}
static int dec_open(int w, int h, int bd) {
    EbSvtAv1DecConfiguration dc;
    memset(&dc, 0, sizeof(dc));
    dec_close();
    if (svt_av1_dec_init_handle(&dh, NULL, &dc) != EB_ErrorNone) return 0;
    dc.max_picture_width = w; dc.max_picture_height = h;
    dc.max_bit_depth = bd > 8 ? EB_TEN_BIT : EB_EIGHT_BIT; dc.max_color_format = EB_YUV420;
    dc.threads = 1; dc.is_16bit_pipeline = 0; dc.skip_film_grain = 0; dc.eight_bit_output = 0;
    if (svt_av1_dec_set_parameter(dh, &dc) != EB_ErrorNone) return 0;
    if (svt_av1_dec_init(dh) != EB_ErrorNone) return 0;
    return 1;
}

static int hexval(int c) {
    if (c >= '0' && c <= '9') return c - '0';
    if (c >= 'a' && c <= 'f') return c - 'a' + 10;
    if (c >= 'A' && c <= 'F') return c - 'A' + 10;
    return -1;
}
static size_t unhex(const char *s, uint8_t *out) {
    size_t n = 0;
    while (hexval(s[0]) >= 0 && hexval(s[1]) >= 0) { out[n++] = (uint8_t)(hexval(s[0]) * 16 + hexval(s[1])); s += 2; }
    return n;
}

static void print_seq(long pkt, const SeqHeader *s) {
    printf("SEQ pkt=%ld profile=%d w=%d h=%d sb128=%d filter_intra=%d intra_edge=%d interintra=%d masked=%d warped=%d "
           "dual_filter=%d order_hint=%d jnt_comp=%d ref_mvs=%d sct=%d intmv=%d order_hint_bits=%d superres=%d cdef=%d "
           "restoration=%d bitdepth=%d mono=%d subx=%d suby=%d film_grain=%d still=%d reduced_still=%d "
           "wbits=%d hbits=%d frame_ids=%d timing=%d decoder_model=%d op_cnt=%d level0=%d tier0=%d color_desc=%d "
           "color_range=%d csp=%d sep_uv_dq=%d\n",
           pkt, (int)s->seq_profile, s->max_frame_width, s->max_frame_height, s->use_128x128_superblock,
           s->filter_intra_level, s->enable_intra_edge_filter, s->enable_interintra_compound, s->enable_masked_compound,
           s->enable_warped_motion, s->enable_dual_filter, s->order_hint_info.enable_order_hint,
           s->order_hint_info.enable_jnt_comp, s->order_hint_info.enable_ref_frame_mvs, s->seq_force_screen_content_tools,
           s->seq_force_integer_mv, s->order_hint_info.order_hint_bits, s->enable_superres, s->cdef_level,
           s->enable_restoration, (int)s->color_config.bit_depth, s->color_config.mono_chrome,
           s->color_config.subsampling_x, s->color_config.subsampling_y, s->film_grain_params_present, s->still_picture,
           s->reduced_still_picture_header, s->frame_width_bits, s->frame_height_bits, s->frame_id_numbers_present_flag,
           s->timing_info.timing_info_present, s->decoder_model_info_present_flag, s->operating_points_cnt_minus_1 + 1,
           s->operating_point[0].seq_level_idx, s->operating_point[0].seq_tier,
           s->color_config.color_description_present_flag, s->color_config.color_range,
           (int)s->color_config.chroma_sample_position, s->color_config.separate_uv_delta_q);
}

static void print_frm(long pkt, int k, EbDecHandle *d) {
    const FrameHeader *f = &d->frame_header;
    const EbDecPicBuf *cur = d->cur_pic_buf[0];
    int i;
    printf("FRM pkt=%ld k=%d show_existing=%d frame_type=%d show_frame=%d showable=%d error_res=%d order_hint=%u refresh=%d ",
           pkt, k, f->show_existing_frame, (int)f->frame_type, f->show_frame, f->showable_frame, f->error_resilient_mode,
           f->order_hint, f->refresh_frame_flags);
    printf("ref_idx=");
    for (i = 0; i < 7; i++) printf("%s%d", i ? "," : "", f->ref_frame_idx[i]);
    printf(" primary_ref=%d base_q_idx=%d w=%d h=%d use_superres=%d superres_denom=%d allow_sct=%d allow_intrabc=%d ",
           f->primary_ref_frame, f->quantization_params.base_q_idx, f->frame_size.frame_width, f->frame_size.frame_height,
           f->frame_size.superres_denominator != 8, f->frame_size.superres_denominator, f->allow_screen_content_tools,
           f->allow_intrabc);
    printf("tile_cols_log2=%d tile_rows_log2=%d tile_cols=%d tile_rows=%d uniform=%d ", f->tiles_info.tile_cols_log2,
           f->tiles_info.tile_rows_log2, f->tiles_info.tile_cols, f->tiles_info.tile_rows,
           f->tiles_info.uniform_tile_spacing_flag);
    printf("lf_y0=%d lf_y1=%d lf_u=%d lf_v=%d cdef_bits=%d ", f->loop_filter_params.filter_level[0],
           f->loop_filter_params.filter_level[1], f->loop_filter_params.filter_level_u,
           f->loop_filter_params.filter_level_v, f->cdef_params.cdef_bits);
    printf("cdef_y=");
    for (i = 0; i < (1 << f->cdef_params.cdef_bits); i++) printf("%s%d", i ? "," : "", f->cdef_params.cdef_y_strength[i]);
    printf(" cdef_uv=");
    for (i = 0; i < (1 << f->cdef_params.cdef_bits); i++) printf("%s%d", i ? "," : "", f->cdef_params.cdef_uv_strength[i]);
    printf(" lr_y=%d lr_u=%d lr_v=%d tx_mode_select=%d ref_select=%d skip_mode=%d warped=%d switchable_motion=%d reduced_tx=%d ",
           (int)f->lr_params[0].frame_restoration_type, (int)f->lr_params[1].frame_restoration_type,
           (int)f->lr_params[2].frame_restoration_type, f->tx_mode == TX_MODE_SELECT,
           f->reference_mode == REFERENCE_MODE_SELECT, f->skip_mode_params.skip_mode_flag, f->allow_warped_motion,
           f->is_motion_mode_switchable, f->reduced_tx_set);
    printf("gm=");
    for (i = 1; i <= 7; i++) printf("%s%d", i > 1 ? "," : "", cur ? (int)cur->global_motion[i].gm_type : -1);
    printf(" film_grain=%d disable_cdf_update=%d seg_enabled=%d delta_q_present=%d ", f->film_grain_params.apply_grain,
           f->disable_cdf_update, f->segmentation_params.segmentation_enabled, f->delta_q_params.delta_q_present);
    printf("upw=%d rw=%d rh=%d force_imv=%d hp_mv=%d interp=%d ref_mvs=%d disable_frame_end_cdf=%d ctx_tile_id=%d "
           "tile_size_bytes=%d dq_ydc=%d dq_udc=%d dq_uac=%d dq_vdc=%d dq_vac=%d qm=%d qm_y=%d qm_u=%d qm_v=%d ",
           f->frame_size.superres_upscaled_width, f->frame_size.render_width, f->frame_size.render_height,
           f->force_integer_mv, f->allow_high_precision_mv, (int)f->interpolation_filter, f->use_ref_frame_mvs,
           f->disable_frame_end_update_cdf, f->tiles_info.context_update_tile_id, f->tiles_info.tile_size_bytes,
           f->quantization_params.delta_q_dc[0], f->quantization_params.delta_q_dc[1], f->quantization_params.delta_q_ac[1],
           f->quantization_params.delta_q_dc[2], f->quantization_params.delta_q_ac[2], f->quantization_params.using_qmatrix,
           f->quantization_params.qm[0], f->quantization_params.qm[1], f->quantization_params.qm[2]);
    printf("seg_update_map=%d seg_temporal=%d seg_update_data=%d delta_q_res=%d delta_lf_present=%d delta_lf_res=%d "
           "delta_lf_multi=%d coded_lossless=%d lf_sharp=%d lf_delta_en=%d lf_delta_upd=%d cdef_damping=%d skip_allowed=%d "
           "fg_update=%d ",
           f->segmentation_params.segmentation_update_map, f->segmentation_params.segmentation_temporal_update,
           f->segmentation_params.segmentation_update_data, f->delta_q_params.delta_q_res,
           f->delta_lf_params.delta_lf_present, f->delta_lf_params.delta_lf_res, f->delta_lf_params.delta_lf_multi,
           f->coded_lossless, f->loop_filter_params.sharpness_level, f->loop_filter_params.mode_ref_delta_enabled,
           f->loop_filter_params.mode_ref_delta_update, f->cdef_params.cdef_damping,
           f->skip_mode_params.skip_mode_allowed, f->film_grain_params.update_parameters);
    printf("gmp=");
    for (i = 1; i <= 7; i++)
        for (int j = 0; j < 6; j++) printf("%s%d", (i > 1 || j) ? "," : "", cur ? cur->global_motion[i].gm_params[j] : 0);
    printf("\n");
}

/* length of the OBU starting at p (header + size field + payload); *type receives obu_type; 0 on error */
static size_t obu_len(const uint8_t *p, size_t avail, int *type) {
    size_t pos = 1, sz = 0;
    int    i;
    if (avail < 2) return 0;
    *type = (p[0] >> 3) & 15;
    if (p[0] & 4) pos++;
    if (!(p[0] & 2)) return 0;
    for (i = 0; i < 8 && pos < avail; i++) {
        uint8_t b = p[pos++];
        sz |= (size_t)(b & 0x7f) << (7 * i);
        if (!(b & 0x80)) break;
    }
    if (pos + sz > avail) return 0;
    return pos + sz;
}

int main(void) {
    char * line = NULL;
    size_t cap  = 0;
    while (getline(&line, &cap, stdin) > 0) {
        size_t   len = strlen(line);
        uint8_t *buf = malloc(len / 2 + 16);
        if (!strncmp(line, "RESET", 5)) {
            int w = 64, h = 64, bd = 8;
            sscanf(line + 5, "%d %d %d", &w, &h, &bd);
            cfg_w = w; cfg_h = h; cfg_bd = bd;
            printf("reset %s\n", dec_open(w, h, bd) ? "ok" : "failed");
        } else if (!strncmp(line, "HDR ", 4)) {
            size_t    n = unhex(line + 4, buf);
            SeqHeader sh;
            memset(&sh, 0, sizeof(sh));
            EbErrorType e = svt_get_sequence_info(buf, n, &sh);
            printf("HDR ok=%d\n", e == EB_ErrorNone);
            if (e == EB_ErrorNone) print_seq(-1, &sh);
        } else if (!strncmp(line, "GM ", 3)) {
            static EbDecHandle *fake;
            static EbDecPicBuf *prevbuf;
            char *              q = line + 3;
            if (!fake) {
                fake                 = calloc(1, sizeof(EbDecHandle));
                fake->cur_pic_buf[0] = calloc(1, sizeof(EbDecPicBuf));
                prevbuf              = calloc(1, sizeof(EbDecPicBuf));
            }
            int hp      = (int)strtol(q, &q, 10);
            int hasprev = (int)strtol(q, &q, 10);
            if (hasprev)
                for (int r = 1; r <= 7; r++)
                    for (int j = 0; j < 6; j++) prevbuf->global_motion[r].gm_params[j] = (int32_t)strtol(q, &q, 10);
            while (*q == ' ') q++;
            size_t n = unhex(q, buf);
            memset(buf + n, 0, 8);
            fake->prev_frame                           = hasprev ? prevbuf : NULL;
            fake->frame_header.allow_high_precision_mv = (uint8_t)hp;
            Bitstrm bs;
            dec_bits_init(&bs, buf, n);
            uint32_t p0 = get_position(&bs);
            read_global_motion_params(&bs, fake, &fake->frame_header, 0);
            uint32_t p1 = get_position(&bs);
            printf("GM types=");
            for (int r = 1; r <= 7; r++) printf("%s%d", r > 1 ? "," : "", (int)fake->cur_pic_buf[0]->global_motion[r].gm_type);
            printf(" params=");
            for (int r = 1; r <= 7; r++)
                for (int j = 0; j < 6; j++)
                    printf("%s%d", (r > 1 || j) ? "," : "", fake->cur_pic_buf[0]->global_motion[r].gm_params[j]);
            printf(" bits=%u\n", p1 - p0);
        } else if (!strncmp(line, "PKT ", 4)) {
            char *       q   = line + 4;
            long         idx = strtol(q, &q, 10);
            while (*q == ' ') q++;
            size_t       n = unhex(q, buf), pos = 0, start = 0;
            int          k = 0, err = 0, saw_seq = 0;
            EbDecHandle *d = dh ? (EbDecHandle *)dh->p_component_private : NULL;
            while (d && pos < n) {
                int    type = 0;
                size_t l    = obu_len(buf + pos, n - pos, &type);
                if (!l) { err = 1; break; }
                pos += l;
                if (type == 1) saw_seq = 1;
                if (type == 6 || type == 3) {
                    EbErrorType e = svt_av1_dec_frame(dh, buf + start, pos - start, 0);
                    if (e != EB_ErrorNone) { err = 2; break; }
                    if (saw_seq) { print_seq(idx, &d->seq_header); saw_seq = 0; }
                    print_frm(idx, k++, d);
                    start = pos;
                }
            }
            printf("DPK pkt=%ld frames=%d err=%d leftover=%zu\n", idx, k, err, n - start);
        }
        free(buf);
        fflush(stdout);
    }
    fflush(stdout);
    /* no svt_av1_dec_deinit here: deinit of a decoder that never received a frame double-frees (seen with GM-only input) */
    _exit(0);
}
