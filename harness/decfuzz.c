/* decfuzz — feeds arbitrary bytes to the REAL SVT-AV1 decoder through its public API (C10).
 *
 *   decfuzz [watchdog_ms=N] [w=W] [h=H] [bd=8|10] [threads=1]
 *
 * stdin, one operation per line:
 *     CTX <id> <annexb 0|1> -1 0 0 <hex>[,<hex>...]      ("-" = no packet)
 *         create a decoder (svt_av1_dec_init_handle / set_parameter / init) in the harness process and decode the given
 *         context packets on it (sequence header, reference frames; valid encoder output).  -> "C <id> ok=.. pkts=.. rc=.."
 *     T <id> <annexb 0|1> <stackfill -1|0..255> <pad> <flags> <hex>
 *         fork; the child inherits the current decoder, copies the packet into a malloc'd buffer of EXACTLY its size
 *         + <pad> zero bytes (pad = 0: ASan sees any read past the end; data_size is always the packet size), calls
 *         svt_av1_dec_frame, svt_av1_dec_get_picture (not when flags & 1), svt_av1_dec_deinit, svt_av1_dec_deinit_handle.  stackfill >= 0: the stack below the caller is filled with that byte first (makes the
 *         value of an uninitialised local of the library deterministic).  "-" is the empty packet.
 *         The parent enforces a wall-clock watchdog.  ->
 *     R <id> end=<EXIT|SIGNAL|TIMEOUT> code=<exit status (134 = abort(), 1 = ASan report)|signal> stage=<stage reached>
 *       rc=<hex return code of svt_av1_dec_frame | -> pic=<0|1 picture returned>
 *       hook=<0|1> calls=<decode_multiple_obu calls> obus=<n> max=<highest offset+1 loaded by the framing layer, -1 none>
 *       trace=<off@type:hdr:len:payload:st;...>   (the OBUs walked; st = E when the payload parser returned early, else
 *                                                  status<<1|finished in hex)
 *     E <id> <line>      head line and first frames of every sanitizer / assert report the child wrote to stderr
 *   stages: 3 dec_frame 4 get_picture 5 deinit 6 deinit_handle 7 done
 * The trace needs the guarded hook hooks/hook-obuwalk-trace.patch (svt_av1_verif_obu_trace); without it hook=0.
 */
#define _GNU_SOURCE
#include <stdio.h>
#include <stdlib.h>
#include <string.h>
#include <stdint.h>
#include <unistd.h>
#include <signal.h>
#include <time.h>
#include <errno.h>
#include <fcntl.h>
#include <sys/mman.h>
#include <sys/wait.h>
#include <sys/time.h>
#include "EbSvtAv1Dec.h"

extern uint64_t *svt_av1_verif_obu_trace __attribute__((weak));

#define TRACE_CAP 256
typedef struct {
    volatile uint64_t stage, pkt, base, size, rc, pic, have_rc;
    uint64_t          trace[4 + 6 * TRACE_CAP];
} Shared;

static Shared *sh;
static int     cfg_w = 64, cfg_h = 64, cfg_bd = 8, cfg_threads = 1;
static long    watchdog_ms = 20000;

static int hexval(int c) {
    if (c >= '0' && c <= '9') return c - '0';
    if (c >= 'a' && c <= 'f') return c - 'a' + 10;
    if (c >= 'A' && c <= 'F') return c - 'A' + 10;
    return -1;
}

static __attribute__((noinline)) void fill_stack(int byte) {
    volatile uint8_t a[96 * 1024];
    memset((void *)a, byte, sizeof(a));
    __asm__ volatile("" ::"r"(a) : "memory");
}

typedef struct { uint8_t *p; size_t n; } Pkt;

static EbComponentType *  dh;
static EbBufferHeaderType ob;
static EbSvtIOFormat      io;

/* parent: (re)create the decoder and decode the context packets (valid packets; padded, so that the known over-read of
   the bit reader at the end of a short packet does not kill the parent) */
static int open_decoder(Pkt *pk, int npk, int annexb, unsigned *last_rc) {
    EbSvtAv1DecConfiguration dc;
    memset(&dc, 0, sizeof(dc));
    dh = NULL;   /* a previous decoder is abandoned, not torn down: teardown is exercised by every child */
    if (svt_av1_dec_init_handle(&dh, NULL, &dc) != EB_ErrorNone) return 0;
    dc.max_picture_width = cfg_w; dc.max_picture_height = cfg_h;
    dc.max_bit_depth = cfg_bd > 8 ? EB_TEN_BIT : EB_EIGHT_BIT; dc.max_color_format = EB_YUV420;
    dc.threads = cfg_threads; dc.is_16bit_pipeline = 0; dc.skip_film_grain = 0; dc.eight_bit_output = 0;
    if (svt_av1_dec_set_parameter(dh, &dc) != EB_ErrorNone) return 0;
    if (svt_av1_dec_init(dh) != EB_ErrorNone) return 0;
    int    bps = cfg_bd > 8 ? 2 : 1;
    size_t ysz = (size_t)cfg_w * cfg_h * bps;
    memset(&ob, 0, sizeof(ob)); memset(&io, 0, sizeof(io));
    io.luma = malloc(ysz); io.cb = malloc(ysz / 4 + 16); io.cr = malloc(ysz / 4 + 16);
    io.y_stride = cfg_w; io.cb_stride = cfg_w / 2; io.cr_stride = cfg_w / 2; io.width = cfg_w; io.height = cfg_h;
    io.bit_depth = dc.max_bit_depth; io.color_fmt = EB_YUV420;
    ob.p_buffer = (uint8_t *)&io; ob.size = sizeof(ob);
    *last_rc = 0;
    for (int i = 0; i < npk; i++) {
        EbAV1StreamInfo si; EbAV1FrameInfo fi;
        memset(&si, 0, sizeof(si)); memset(&fi, 0, sizeof(fi));
        uint8_t *buf = calloc(pk[i].n + 16, 1);
        memcpy(buf, pk[i].p, pk[i].n);
        *last_rc = (unsigned)svt_av1_dec_frame(dh, buf, pk[i].n, (uint32_t)annexb);
        svt_av1_dec_get_picture(dh, &ob, &si, &fi);
        free(buf);
    }
    return 1;
}

/* child: the packet under test on the inherited decoder, then the teardown */
static void on_abort(int sig) { (void)sig; _exit(134); }   /* assert(): no core dump of a sanitizer process */

static void child(Pkt *pk, int annexb, int stackfill, int pad, int flags) {
    signal(SIGABRT, on_abort);
    EbAV1StreamInfo si; EbAV1FrameInfo fi;
    memset(&si, 0, sizeof(si)); memset(&fi, 0, sizeof(fi));
    /* exact-size copy: the byte after the packet is an ASan red zone */
    uint8_t *buf = malloc(pk->n + (size_t)pad);
    if (pk->n) memcpy(buf, pk->p, pk->n);
    if (pad) memset(buf + pk->n, 0, (size_t)pad);
    sh->base = (uint64_t)(uintptr_t)buf; sh->size = pk->n;
    if (&svt_av1_verif_obu_trace) {
        sh->trace[0]            = TRACE_CAP;
        svt_av1_verif_obu_trace = sh->trace;
    }
    sh->stage = 3;
    if (stackfill >= 0) fill_stack(stackfill);
    EbErrorType e = svt_av1_dec_frame(dh, buf, pk->n, (uint32_t)annexb);
    sh->rc = (uint32_t)e; sh->have_rc = 1;
    if (&svt_av1_verif_obu_trace) svt_av1_verif_obu_trace = NULL;
    sh->stage = 4;
    if (!(flags & 1)) sh->pic = svt_av1_dec_get_picture(dh, &ob, &si, &fi) != EB_DecNoOutputPicture;
    free(buf);
    sh->stage = 5;
    svt_av1_dec_deinit(dh);
    sh->stage = 6;
    svt_av1_dec_deinit_handle(dh);
    sh->stage = 7;
    _exit(0);
}

static double now_ms(void) {
    struct timespec ts;
    clock_gettime(CLOCK_MONOTONIC, &ts);
    return ts.tv_sec * 1e3 + ts.tv_nsec / 1e6;
}

int main(int argc, char **argv) {
    for (int i = 1; i < argc; i++) {
        if (!strncmp(argv[i], "watchdog_ms=", 12)) watchdog_ms = atol(argv[i] + 12);
        else if (!strncmp(argv[i], "w=", 2)) cfg_w = atoi(argv[i] + 2);
        else if (!strncmp(argv[i], "h=", 2)) cfg_h = atoi(argv[i] + 2);
        else if (!strncmp(argv[i], "bd=", 3)) cfg_bd = atoi(argv[i] + 3);
        else if (!strncmp(argv[i], "threads=", 8)) cfg_threads = atoi(argv[i] + 8);
    }
    sh = mmap(NULL, sizeof(Shared), PROT_READ | PROT_WRITE, MAP_SHARED | MAP_ANONYMOUS, -1, 0);
    if (sh == MAP_FAILED) { perror("mmap"); return 2; }
    int efd = memfd_create("decfuzz_stderr", 0);   /* child's stderr (sanitizer report); no file system involved */
    if (efd < 0) { perror("memfd_create"); return 2; }
    char * line = NULL;
    size_t cap  = 0;
    while (getline(&line, &cap, stdin) > 0) {
        char id[64], op[8];
        int  annexb = 0, stackfill = -1, pad = 0, flags = 0, off = 0;
        if (sscanf(line, "%7s %63s %d %d %d %d %n", op, id, &annexb, &stackfill, &pad, &flags, &off) < 6 || off == 0) continue;
        if (pad < 0 || pad > 4096) pad = 0;
        /* parse packets */
        size_t   len  = strlen(line + off);
        uint8_t *pool = malloc(len / 2 + 8);
        Pkt      pk[64];
        int      npk = 0;
        size_t   used = 0;
        char *   q = line + off;
        while (npk < 64) {
            pk[npk].p = pool + used; pk[npk].n = 0;
            if (*q == '-') q++;
            while (hexval(q[0]) >= 0 && hexval(q[1]) >= 0) { pool[used++] = (uint8_t)(hexval(q[0]) * 16 + hexval(q[1])); pk[npk].n++; q += 2; }
            npk++;
            if (*q == ',') { q++; continue; }
            break;
        }
        if (!strcmp(op, "CTX")) {
            unsigned rc = 0;
            int      ok = open_decoder(pk, (npk == 1 && pk[0].n == 0) ? 0 : npk, annexb, &rc);
            printf("C %s ok=%d pkts=%d rc=%x\n", id, ok, (npk == 1 && pk[0].n == 0) ? 0 : npk, rc);
            fflush(stdout);
            free(pool);
            continue;
        }
        if (!dh) { unsigned rc; open_decoder(pk, 0, 0, &rc); }
        memset((void *)sh, 0, sizeof(*sh));
        fflush(stdout);
        if (ftruncate(efd, 0) != 0 || lseek(efd, 0, SEEK_SET) != 0) { perror("efd"); return 2; }
        pid_t pid = fork();
        if (pid == 0) {
            dup2(efd, 2);
            int dn = open("/dev/null", O_WRONLY);
            if (dn >= 0) { dup2(dn, 1); close(dn); }   /* the library logs to stdout */
            child(&pk[npk - 1], annexb, stackfill, pad, flags);
            _exit(0);
        }
        int         status = 0, done = 0;
        double      t0 = now_ms();
        const char *end = "EXIT";
        int         code = 0;
        while (!done) {
            pid_t r = waitpid(pid, &status, WNOHANG);
            if (r == pid) { done = 1; break; }
            if (now_ms() - t0 > watchdog_ms) {
                kill(pid, SIGKILL);
                waitpid(pid, &status, 0);
                end = "TIMEOUT"; code = 0; done = 2;
                break;
            }
            struct timespec ts = {0, (now_ms() - t0 < 20) ? 200000 : 2000000};
            nanosleep(&ts, NULL);
        }
        if (done == 1) {
            if (WIFEXITED(status)) { end = "EXIT"; code = WEXITSTATUS(status); }
            else if (WIFSIGNALED(status)) { end = "SIGNAL"; code = WTERMSIG(status); }
        }
        int      hook = &svt_av1_verif_obu_trace != NULL;
        uint64_t n    = sh->trace[1];
        long long mx  = -1;
        if (hook && sh->trace[2] >= sh->base && sh->trace[2]) mx = (long long)(sh->trace[2] - sh->base);
        printf("R %s end=%s code=%d stage=%d rc=", id, end, code, (int)sh->stage);
        if (sh->have_rc) printf("%x", (unsigned)sh->rc); else printf("-");
        printf(" pic=%d hook=%d calls=%d obus=%d max=%lld trace=", (int)sh->pic, hook, (int)sh->trace[3], (int)n, mx);
        for (uint64_t k = 0; k < n && k < TRACE_CAP; k++) {
            uint64_t *r = sh->trace + 4 + 6 * k;
            printf("%s%lld@%d:%d:%d:%llu:", k ? ";" : "", (long long)(r[0] - sh->base), (int)r[1], (int)r[2], (int)r[3], (unsigned long long)r[4]);
            if (r[5] == (uint64_t)-1) printf("E"); else printf("%llx", (unsigned long long)r[5]);
        }
        printf("\n");
        {
            lseek(efd, 0, SEEK_SET);
            FILE *f = fdopen(dup(efd), "r");
            if (f) {
                char el[1024];
                int  k = 0, frames = 0;
                while (k < 60 && fgets(el, sizeof(el), f)) {
                    size_t l = strlen(el);
                    while (l && (el[l - 1] == '\n' || el[l - 1] == '\r')) el[--l] = 0;
                    if (!l) continue;
                    const char *q2 = el;
                    while (*q2 == ' ') q2++;
                    int head = strstr(el, "runtime error") || strstr(el, "ERROR: ") || strstr(el, "Assertion") ||
                               strstr(el, "SUMMARY") || !strncmp(el, "READ of", 7) || !strncmp(el, "WRITE of", 8);
                    if (head && !strstr(el, "SUMMARY")) frames = 6;
                    if (!head) {
                        if (*q2 != '#' || frames <= 0) continue;   /* keep the first frames of each report only */
                        frames--;
                    }
                    printf("E %s %s\n", id, q2);
                    k++;
                }
                fclose(f);
            }
        }
        fflush(stdout);
        free(pool);
    }
    return 0;
}
