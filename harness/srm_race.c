/*
 * C23 race stress: pairs of CONFLICTING operations of the REAL system resource manager
 * (EbSystemResourceManager.c #included; EbThreads.c + EbMalloc.c + EbLog.c of /repo linked) hammered on the same
 * wrapper / the same pool from different threads, with the property's oracle evaluated on the real state at the end.
 *
 *   srm_race <scenario> <seed> <threads> <iters>
 *
 * Run twice by checks/c23.py: free-running, and with the library's seeded perturbation hook
 * (env SVT_VERIF_PERTURB=<seed>:<pct>:<max_us>, EbThreads.c under -DSVT_AV1_VERIF) which sleeps / yields right before
 * every mutex acquisition, mutex release and semaphore operation: a value read before the lock and stored under it
 * (or read under it and stored after it) then almost surely meets a conflicting update in between.
 *
 * Scenarios (T = threads, N = iters):
 *   inc_rel     T threads do N x svt_object_inc_live_count(W,1), T threads do N x svt_release_object(W) on one wrapper whose
 *               count starts high enough never to reach 0.  Oracle: final live_count == start exactly (no lost update);
 *               W is not in the pool; draining: W returns to the pool exactly at the last release, not one earlier.
 *   inc_inc     T threads do N x svt_object_inc_live_count(W, t+1).  Oracle: final live_count == N*T*(T+1)/2 + 1.
 *   shared_refs the pipeline's pattern: W carries one reference per thread; every thread N x { inc(W,1); release(W) } and then
 *               drops its own reference.  Oracle: W is back in the pool exactly once with the released marker, and was
 *               never seen in the pool (by a monitor thread) before the last thread finished.
 *   ren_rel     N rounds: W with one reference; one thread svt_object_release_disable(W), another svt_release_object(W),
 *               truly concurrently.  Oracle: either W went back to the pool (release first), or it is still out with
 *               live_count 0 and release disabled; then enable + release returns it.  Pool conserved after every round.
 *   get_rel     T threads, fewer objects than threads: N x { svt_get_empty_object(own fifo); exclusive-owner check;
 *               inc(W,2); release; release }.  Oracle: never two holders of one object, every call returns (watchdog),
 *               at the end all objects are back, each once, each with the released marker.
 * Every scenario ends with a census of the REAL pool (empty ring + producer fifos): every object exactly once or held.
 * Output: one line "ok ..." (exit 0) or "VIOLATION ..." / "HANG ..." (exit 1).
 */
#define _GNU_SOURCE
#include <stdio.h>
#include <stdarg.h>
#include <string.h>
#include <pthread.h>
#include <unistd.h>
#include <signal.h>
#include <sched.h>

#include "EbSystemResourceManager.c"

typedef struct { EbDctor dctor; int id; volatile int owner; } Obj;
static int next_id;
static EbErrorType obj_creator(EbPtr *pp, EbPtr init) {
    Obj *o = (Obj *)calloc(1, sizeof(*o));
    (void)init;
    if (!o) return EB_ErrorInsufficientResources;
    o->id = next_id++;
    *pp   = o;
    return EB_ErrorNone;
}
static void obj_destroyer(EbPtr p) { free(p); }

static EbSystemResource *srm;
static int               n_obj, n_thr;
static long              n_it;
static const char *      scenario;
static pthread_barrier_t bar;
static EbObjectWrapper * W;
static volatile long     progress;
static volatile int      stop_monitor, seen_in_pool_early, workers_done;
static char              vio[512];
static volatile int      violations;

static void violation(const char *fmt, ...) {
    if (__sync_fetch_and_add(&violations, 1) == 0) {
        va_list ap;
        va_start(ap, fmt);
        vsnprintf(vio, sizeof vio, fmt, ap);
        va_end(ap);
    }
}

static void bail_if_violation(void) {
    if (violations) {
        printf("VIOLATION %s (%d violation(s); scenario=%s threads=%d iters=%ld)\n", vio, violations, scenario, n_thr, n_it);
        _exit(1);
    }
}

static EbErrorType make(int nobj, int nprod) {
    EB_NEW(srm, svt_system_resource_ctor, nobj, nprod, 0, obj_creator, NULL, obj_destroyer);
    return EB_ErrorNone;
}

/* census of the real pool: how many times each object sits in the empty ring or in a producer fifo */
static int census(int *count /* [n_obj] */, int *dups) {
    int total = 0;
    memset(count, 0, sizeof(int) * n_obj);
    *dups = 0;
    svt_block_on_mutex(srm->empty_queue->lockout_mutex);
    EbCircularBuffer *ob = srm->empty_queue->object_queue;
    for (uint32_t i = 0; i < ob->buffer_total_count; i++)
        if (ob->array_ptr[i]) {
            Obj *o = (Obj *)((EbObjectWrapper *)ob->array_ptr[i])->object_ptr;
            if (count[o->id]++) (*dups)++;
            total++;
        }
    for (uint32_t f = 0; f < srm->empty_queue->process_total_count; f++) {
        EbFifo *ff = srm->empty_queue->process_fifo_ptr_array[f];
        svt_block_on_mutex(ff->lockout_mutex);
        int guard = 0;
        for (EbObjectWrapper *w = ff->first_ptr; w && guard < 4 * n_obj + 4; w = w->next_ptr, guard++) {
            Obj *o = (Obj *)w->object_ptr;
            if (count[o->id]++) (*dups)++;
            total++;
        }
        svt_release_mutex(ff->lockout_mutex);
    }
    svt_release_mutex(srm->empty_queue->lockout_mutex);
    return total;
}
static int in_pool(EbObjectWrapper *w) {
    int *cnt = (int *)calloc(n_obj, sizeof(int)), dups, r;
    census(cnt, &dups);
    r = cnt[((Obj *)w->object_ptr)->id];
    free(cnt);
    return r;
}

/* per-thread progress counters (plain stores on private cache lines: no extra synchronisation between the racing threads) */
static volatile long *prog_slot[256];
static volatile int   n_slots;
static volatile long *my_progress(void) {
    volatile long *p = (volatile long *)calloc(1, 128);
    prog_slot[__sync_fetch_and_add(&n_slots, 1) & 255] = p;
    return p;
}
static long last_total = -1;
static void on_alarm(int sig) {
    char msg[240];
    (void)sig;
    /* watchdog on PROGRESS (the run is slowed by SVT_VERIF_PERTURB and by machine load): 60 s without any thread advancing */
    long total = progress;
    for (int i = 0; i < n_slots && i < 256; i++)
        if (prog_slot[i]) total += *prog_slot[i];
    if (total != last_total) {
        last_total = total;
        alarm(60);
        return;
    }
    int n = snprintf(msg, sizeof msg, "HANG scenario=%s threads=%d iters=%ld progress=%ld (no thread advanced for 60 s: a call of the real SRM did not return -- lost wake-up or lost object)\n",
                     scenario, n_thr, n_it, total);
    if (write(1, msg, n)) {}
    _exit(1);
}

/* ---------------------------------------------------------------- workers */
static void *w_inc(void *arg) {
    long           k = (long)(intptr_t)arg;
    volatile long *pr = my_progress();
    pthread_barrier_wait(&bar);
    for (long i = 0; i < n_it; i++, (*pr)++) svt_object_inc_live_count(W, (uint32_t)k);
    return NULL;
}
static void *w_rel(void *arg) {
    volatile long *pr = my_progress();
    (void)arg;
    pthread_barrier_wait(&bar);
    for (long i = 0; i < n_it; i++, (*pr)++) svt_release_object(W);
    return NULL;
}
static void *w_shared(void *arg) {
    volatile long *pr = my_progress();
    (void)arg;
    pthread_barrier_wait(&bar);
    for (long i = 0; i < n_it; i++, (*pr)++) {
        svt_object_inc_live_count(W, 1);
        svt_release_object(W);
    }
    __sync_fetch_and_add(&workers_done, 1);
    svt_release_object(W); /* this thread's own reference */
    return NULL;
}
static void *w_monitor(void *arg) {
    (void)arg;
    while (!stop_monitor) {
        /* W must not be in the pool while some worker still owns a reference */
        int before = workers_done;
        if (before < n_thr && in_pool(W) && workers_done < n_thr) seen_in_pool_early = 1;
        struct timespec ts = {0, 300000};
        nanosleep(&ts, NULL);
    }
    return NULL;
}
static void *w_disable(void *arg) {
    (void)arg;
    for (long i = 0; i < n_it; i++) {
        pthread_barrier_wait(&bar);
        svt_object_release_disable(W);
        pthread_barrier_wait(&bar);
        pthread_barrier_wait(&bar); /* main inspects and repairs between these two */
    }
    return NULL;
}
static void *w_release1(void *arg) {
    (void)arg;
    for (long i = 0; i < n_it; i++) {
        pthread_barrier_wait(&bar);
        svt_release_object(W);
        pthread_barrier_wait(&bar);
        pthread_barrier_wait(&bar);
    }
    return NULL;
}
static void *w_getrel(void *arg) {
    int     me = (int)(intptr_t)arg;
    EbFifo *f  = svt_system_resource_get_producer_fifo(srm, me);
    pthread_barrier_wait(&bar);
    for (long i = 0; i < n_it; i++) {
        EbObjectWrapper *w = NULL;
        svt_get_empty_object(f, &w);
        if (!w) { violation("get_rel: svt_get_empty_object returned NULL (thread %ld, iteration %ld)", (long)me, i); break; }
        Obj *o = (Obj *)w->object_ptr;
        if (__sync_lock_test_and_set(&o->owner, 1)) violation("get_rel: object %ld handed to thread %ld while another thread holds it", (long)o->id, (long)me);
        if (w->live_count != 0 || w->release_enable != EB_TRUE)
            violation("get_rel: object %ld handed out with live_count=%ld release_enable=%ld (expected 0, 1)", (long)o->id, (long)w->live_count, (long)w->release_enable);
        svt_object_inc_live_count(w, 2);
        svt_release_object(w);
        if (w->live_count != 1) violation("get_rel: object %ld has live_count %ld after inc 2 / release 1 by its only holder (expected 1)", (long)o->id, (long)w->live_count);
        __sync_lock_release(&o->owner);
        svt_release_object(w);
        __sync_fetch_and_add(&progress, 1);
    }
    return NULL;
}

/* ---------------------------------------------------------------- scenarios */
static void final_census(int expect_total) {
    int *cnt = (int *)calloc(n_obj, sizeof(int)), dups;
    int  total = census(cnt, &dups);
    if (dups) violation("%s: an object sits in the pool more than once (%ld duplicate entries, %ld entries for %ld objects)", scenario, (long)dups, (long)total, (long)n_obj);
    else if (total != expect_total) violation("%s: pool holds %ld objects, expected %ld (of %ld)", scenario, (long)total, (long)expect_total, (long)n_obj);
    free(cnt);
}

int main(int argc, char **argv) {
    if (argc < 5) { fprintf(stderr, "usage: srm_race scenario seed threads iters\n"); return 2; }
    scenario = argv[1];
    n_thr    = atoi(argv[3]);
    n_it     = atol(argv[4]);
    if (n_thr < 1) n_thr = 1;
    signal(SIGALRM, on_alarm);
    alarm(60);
    setvbuf(stdout, NULL, _IONBF, 0);
    pthread_t *th = calloc(2 * n_thr + 2, sizeof *th);
    long       observed = -1, expected = -1;

    if (!strcmp(scenario, "inc_rel") || !strcmp(scenario, "inc_inc")) {
        int rel = !strcmp(scenario, "inc_rel");
        n_obj   = 2;
        if (make(n_obj, 1) != EB_ErrorNone) { printf("VIOLATION constructor failed\n"); return 1; }
        svt_get_empty_object(svt_system_resource_get_producer_fifo(srm, 0), &W);
        uint32_t start = rel ? (uint32_t)(n_it * n_thr + 3) : 1;
        svt_object_inc_live_count(W, start);
        int nth = rel ? 2 * n_thr : n_thr;
        pthread_barrier_init(&bar, NULL, nth);
        long sum = 0;
        for (int i = 0; i < n_thr; i++) {
            long k = rel ? 1 : i + 1;
            sum += k * n_it;
            pthread_create(&th[i], NULL, w_inc, (void *)(intptr_t)k);
        }
        if (rel)
            for (int i = 0; i < n_thr; i++) pthread_create(&th[n_thr + i], NULL, w_rel, NULL);
        for (int i = 0; i < nth; i++) pthread_join(th[i], NULL);
        expected = rel ? (long)start : (long)start + sum;
        observed = W->live_count;
        if (observed != expected)
            violation("%s: live_count is %ld after all threads finished, expected exactly %ld: %ld reference-count update(s) lost",
                      scenario, observed, expected, observed > expected ? observed - expected : expected - observed);
        if (!violations && in_pool(W)) violation("%s: wrapper is in the pool although %ld references are outstanding", scenario, observed);
        if (!violations && rel) {
            /* drain: the object must return exactly at the last release */
            for (long i = 0; i + 1 < expected; i++, progress++) svt_release_object(W);
            if (W->live_count != 1 || in_pool(W))
                violation("%s: after all but one reference were released live_count=%ld in_pool=%ld (expected 1, 0)", scenario, (long)W->live_count, (long)in_pool(W));
            svt_release_object(W);
            if (!violations && (W->live_count != EB_ObjectWrapperReleasedValue || in_pool(W) != 1))
                violation("%s: last reference released but the object is not back in the pool exactly once (live_count=%ld, in_pool=%ld)",
                          scenario, (long)W->live_count, (long)in_pool(W));
            if (!violations) final_census(n_obj);
        } else if (!violations)
            final_census(n_obj - 1);
    } else if (!strcmp(scenario, "shared_refs")) {
        n_obj = 2;
        if (make(n_obj, 1) != EB_ErrorNone) { printf("VIOLATION constructor failed\n"); return 1; }
        svt_get_empty_object(svt_system_resource_get_producer_fifo(srm, 0), &W);
        svt_object_inc_live_count(W, (uint32_t)n_thr);
        pthread_barrier_init(&bar, NULL, n_thr);
        pthread_t mon;
        pthread_create(&mon, NULL, w_monitor, NULL);
        for (int i = 0; i < n_thr; i++) pthread_create(&th[i], NULL, w_shared, NULL);
        for (int i = 0; i < n_thr; i++) pthread_join(th[i], NULL);
        stop_monitor = 1;
        pthread_join(mon, NULL);
        observed = W->live_count;
        expected = (long)(uint32_t)EB_ObjectWrapperReleasedValue;
        if (seen_in_pool_early) violation("%s: the object was back in the pool while threads still owned references (returned before its last release)", scenario);
        if (observed != expected)
            violation("%s: every reference was released but live_count is %ld, expected the released marker %ld (object %s)",
                      scenario, observed, expected, in_pool(W) ? "is in the pool" : "never returned to the pool: leaked");
        else if (in_pool(W) != 1) violation("%s: object is in the pool %ld times after its last release (expected once)", scenario, (long)in_pool(W));
        if (!violations) final_census(n_obj);
    } else if (!strcmp(scenario, "ren_rel")) {
        n_obj = 2;
        if (make(n_obj, 1) != EB_ErrorNone) { printf("VIOLATION constructor failed\n"); return 1; }
        pthread_barrier_init(&bar, NULL, 3);
        long returned_first = 0, disabled_first = 0;
        /* the wrapper for round 0; each round leaves W handed out with one reference */
        svt_get_empty_object(svt_system_resource_get_producer_fifo(srm, 0), &W);
        svt_object_inc_live_count(W, 1);
        pthread_create(&th[0], NULL, w_disable, NULL);
        pthread_create(&th[1], NULL, w_release1, NULL);
        for (long i = 0; i < n_it; i++) {
            pthread_barrier_wait(&bar); /* both go */
            pthread_barrier_wait(&bar); /* both done */
            int inp = in_pool(W);
            if (inp == 1 && W->live_count == EB_ObjectWrapperReleasedValue) {
                returned_first++;
            } else if (inp == 0 && W->live_count == 0 && W->release_enable == EB_FALSE) {
                disabled_first++;
                svt_object_release_enable(W);
                svt_release_object(W);
                if (in_pool(W) != 1 || W->live_count != EB_ObjectWrapperReleasedValue)
                    violation("ren_rel: round %ld: enable + release did not return the object (in_pool=%ld live_count=%ld)", i, (long)in_pool(W), (long)W->live_count);
            } else
                violation("ren_rel: round %ld: after disable || release: in_pool=%ld live_count=%ld release_enable=%ld (neither 'returned' nor 'kept with count 0')",
                          i, (long)inp, (long)W->live_count, (long)W->release_enable);
            if (!violations) final_census(n_obj);
            bail_if_violation(); /* the pool may be inconsistent now: do not go on (a later call could block) */
            svt_get_empty_object(svt_system_resource_get_producer_fifo(srm, 0), &W);
            svt_object_inc_live_count(W, 1);
            progress = i;
            pthread_barrier_wait(&bar);
        }
        pthread_join(th[0], NULL);
        pthread_join(th[1], NULL);
        svt_release_object(W);
        observed = returned_first;
        expected = disabled_first;
        if (!violations) final_census(n_obj);
    } else if (!strcmp(scenario, "get_rel")) {
        n_obj = n_thr > 1 ? n_thr / 2 : 1;
        if (make(n_obj, n_thr) != EB_ErrorNone) { printf("VIOLATION constructor failed\n"); return 1; }
        pthread_barrier_init(&bar, NULL, n_thr);
        for (int i = 0; i < n_thr; i++) pthread_create(&th[i], NULL, w_getrel, (void *)(intptr_t)i);
        for (int i = 0; i < n_thr; i++) pthread_join(th[i], NULL);
        observed = progress;
        expected = (long)n_thr * n_it;
        if (!violations && observed != expected) violation("get_rel: %ld of %ld get/release cycles completed", observed, expected);
        if (!violations) final_census(n_obj);
        for (int i = 0; i < n_obj && !violations; i++)
            if (srm->wrapper_ptr_pool[i]->live_count != EB_ObjectWrapperReleasedValue)
                violation("get_rel: object %ld is in the pool with live_count %ld (expected the released marker)", (long)i, (long)srm->wrapper_ptr_pool[i]->live_count);
    } else {
        fprintf(stderr, "unknown scenario %s\n", scenario);
        return 2;
    }
    bail_if_violation();
    printf("ok scenario=%s threads=%d iters=%ld observed=%ld expected=%ld\n", scenario, n_thr, n_it, observed, expected);
    return 0;
}
