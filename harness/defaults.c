/* defaults — C13: what does the REAL svt_av1_enc_init_handle leave in the caller's EbSvtAv1EncConfiguration, as a function
 * of what the memory contained before the call?  Same `name value` dump format as `svtmodel config DUMP`.
 *
 * One operation per stdin line; <fill> describes the prior contents of the caller's configuration memory:
 *     <0..255>   memset(&cfg, byte, sizeof cfg)
 *     R<seed>    every byte of the object (padding included) from splitmix64(seed)
 *     L<seed>    left-over of ANOTHER configuration: a first handle is created on zeroed memory, every member is then overwritten
 *                with a seeded value of its own type (extremes / small / random), pred_struct[] and the 2-pass buffer descriptor
 *                are scribbled, the first handle is destroyed and the SAME memory is handed to a second svt_av1_enc_init_handle
 *                (set_parameter is not called on the scribbled object: out-of-range HME region counts corrupt the handle, F4)
 *     V<k>       left-over of a plausible, hand-written previous configuration k = 0..3 (2-pass VBR 1080p / 10-bit fixed-offsets with a
 *                manual prediction structure / screen content + tiles + superres / everything at its documented maximum);
 *                svt_av1_enc_set_parameter is called on it (whatever the verdict) before the first handle is destroyed
 *
 *   DUMP <fill>            -> `name value` for every scalar member, `name[i] value` for every array cell,
 *                             rc_twopass_stats_in_buf / rc_twopass_stats_in_sz, then (real side only)
 *                             `pred_struct_fill <b>` (the common value of all bytes of pred_struct[], -1 if they are not all equal)
 *                             `pred_struct_crc <hex>`, then END
 *   ACCEPT <fill> <w> <h>  -> after init_handle: source_width = w, source_height = h, REAL svt_av1_enc_set_parameter
 *                             `accept=<0|1> code=<hex>`
 *   PAD <fillA> <fillB>    -> `differing_bytes=<n> sizeof=<n> member_bytes=<n>`: raw bytes of the object that differ between the two
 *                             results (padding bytes whenever the two DUMPs agree); member_bytes = sum of sizeof of every member
 * A 20 s alarm guards every operation (`BLOCKED`, exit 3).
 */
#include <stdio.h>
#include <stdlib.h>
#include <string.h>
#include <stdint.h>
#include <inttypes.h>
#include <unistd.h>
#include <signal.h>
#include "EbSvtAv1Enc.h"
#include "cfg_fields.h"

typedef struct { uint64_t s; } Rng;
static uint64_t rnd(Rng *r) {
    uint64_t z = (r->s += 0x9E3779B97F4A7C15ull);
    z = (z ^ (z >> 30)) * 0xBF58476D1CE4E5B9ull;
    z = (z ^ (z >> 27)) * 0x94D049BB133111EBull;
    return z ^ (z >> 31);
}
static uint64_t fnv(const uint8_t *p, size_t n) {
    uint64_t h = 0xcbf29ce484222325ull;
    for (size_t i = 0; i < n; i++) { h ^= p[i]; h *= 0x100000001b3ull; }
    return h;
}
static void on_alarm(int s) { (void)s; static const char m[] = "BLOCKED\n"; if (write(1, m, sizeof(m) - 1)) {} _exit(3); }

/* a value for a member: extremes of every width, small values, or random bits; the assignment truncates to the member's type */
static long long pick(Rng *r) {
    static const long long ext[] = {0, 1, -1, 2, 63, 64, 127, 128, 255, 256, 32767, 32768, 65535, 65536, 2147483647LL,
                                    -2147483647LL - 1, 4294967295LL, 0x5A5A5A5A5A5A5A5ALL, -2, 7, 100, 1000};
    uint64_t k = rnd(r) % 4;
    if (k == 0) return ext[rnd(r) % (sizeof(ext) / sizeof(ext[0]))];
    if (k == 1) return (long long)(rnd(r) % 70) - 3;
    return (long long)rnd(r);
}

static void dump_cfg(const EbSvtAv1EncConfiguration *c) {
#define X(f) printf("%s %lld\n", #f, (long long)c->f);
    CFG_SCALARS(X)
#undef X
#define X(f, n) for (int i_ = 0; i_ < n; i_++) printf("%s[%d] %lld\n", #f, i_, (long long)c->f[i_]);
    CFG_ARRAYS(X)
#undef X
    printf("rc_twopass_stats_in_buf %lld\nrc_twopass_stats_in_sz %lld\n", (long long)(intptr_t)c->rc_twopass_stats_in.buf,
           (long long)c->rc_twopass_stats_in.sz);
    const uint8_t *p = (const uint8_t *)c->pred_struct;
    int fill = p[0];
    for (size_t i = 0; i < sizeof(c->pred_struct); i++) if (p[i] != p[0]) { fill = -1; break; }
    printf("pred_struct_fill %d\npred_struct_crc %016" PRIx64 "\n", fill, fnv(p, sizeof(c->pred_struct)));
}

static void scribble_members(EbSvtAv1EncConfiguration *c, Rng *r) {
#define X(f) c->f = pick(r);
    CFG_SCALARS(X)
#undef X
#define X(f, n) for (int i_ = 0; i_ < n; i_++) c->f[i_] = pick(r);
    CFG_ARRAYS(X)
#undef X
    for (size_t i = 0; i < sizeof(c->pred_struct); i++) ((uint8_t *)c->pred_struct)[i] = (uint8_t)rnd(r);
    c->rc_twopass_stats_in.buf = (void *)(uintptr_t)rnd(r);
    c->rc_twopass_stats_in.sz  = (uint64_t)rnd(r);
}

static void plausible(EbSvtAv1EncConfiguration *c, int k) {
    static uint8_t stats[4096];
    switch (k & 3) {
    case 0:
        c->source_width = 1920; c->source_height = 1080; c->render_width = 1920; c->render_height = 1080;
        c->rate_control_mode = 1; c->target_bit_rate = 2000000; c->vbv_bufsize = 4000000; c->intra_period_length = 119;
        c->rc_firstpass_stats_out = 1; c->rc_twopass_stats_in.buf = stats; c->rc_twopass_stats_in.sz = sizeof(stats);
        c->min_qp_allowed = 10; c->max_qp_allowed = 55; c->enc_mode = 4; c->logical_processors = 8; c->frame_rate_numerator = 60000;
        c->frame_rate_denominator = 1001; c->enable_denoise_flag = 1; c->in_loop_me_flag = 1; c->enable_qp_scaling_flag = 1;
        break;
    case 1:
        c->source_width = 1280; c->source_height = 720; c->encoder_bit_depth = 10; c->is_16bit_pipeline = 1; c->enable_hbd_mode_decision = 1;
        c->use_fixed_qindex_offsets = 1; c->qp = 42; c->key_frame_qindex_offset = -20; c->key_frame_chroma_qindex_offset = -6;
        for (int i = 0; i < 6; i++) { c->qindex_offsets[i] = -12 + 4 * i; c->chroma_qindex_offsets[i] = -6 + 6 * i; }
        c->hierarchical_levels = 3; c->enable_manual_pred_struct = 1; c->manual_pred_struct_entry_num = 8;
        for (int i = 0; i < 8; i++) {
            c->pred_struct[i].temporal_layer_index = (uint32_t)(i & 3); c->pred_struct[i].decode_order = (uint32_t)i;
            c->pred_struct[i].ref_list0[0] = i + 1; c->pred_struct[i].ref_list1[0] = -(i + 1);
        }
        c->high_dynamic_range_input = 1; c->compressed_ten_bit_format = 0; c->profile = 0;
        break;
    case 2:
        c->source_width = 640; c->source_height = 480; c->screen_content_mode = 1; c->intrabc_mode = 1; c->palette_level = 6;
        c->tile_columns = 2; c->tile_rows = 1; c->superres_mode = 2; c->superres_denom = 12; c->superres_kf_denom = 10; c->superres_qthres = 20;
        c->enable_overlays = 1; c->altref_nframes = 7; c->altref_strength = 2; c->tf_level = 1; c->film_grain_denoise_strength = 25;
        c->scene_change_detection = 1; c->look_ahead_distance = 33; c->enable_tpl_la = 0; c->recon_enabled = 1; c->stat_report = 1;
        c->use_qp_file = 1; c->unpin = 0; c->target_socket = 1; c->channel_id = 3; c->active_channel_count = 4;
        break;
    default:
        c->source_width = 4096; c->source_height = 2160; c->enc_mode = 8; c->rate_control_mode = 2; c->target_bit_rate = 4294967;
        c->max_qp_allowed = 63; c->min_qp_allowed = 62; c->qp = 63; c->hierarchical_levels = 5; c->intra_refresh_type = 1; c->pred_structure = 0;
        c->cdef_level = 4; c->enable_restoration_filtering = 1; c->sg_filter_mode = 4; c->wn_filter_mode = 3; c->obmc_level = 3;
        c->rdoq_level = 1; c->filter_intra_level = 1; c->compound_level = 2; c->mrp_level = 9; c->tier = 1; c->level = 63; c->profile = 2;
        c->encoder_color_format = EB_YUV444; c->ten_bit_format = 1; c->use_cpu_flags = 0; c->speed_control_flag = 1; c->injector_frame_rate = 240 << 16;
        c->ext_block_flag = 1; c->use_default_me_hme = 0; c->search_area_width = 256; c->search_area_height = 256;
        c->number_hme_search_region_in_width = 1; c->number_hme_search_region_in_height = 1;
        break;
    }
}

/* returns 0 on a malformed spec */
static int fill_memory(EbSvtAv1EncConfiguration *cfg, const char *spec) {
    if (spec[0] == 'R') {
        Rng r = {strtoull(spec + 1, NULL, 10) ^ 0xD1D1};
        for (size_t i = 0; i < sizeof(*cfg); i++) ((uint8_t *)cfg)[i] = (uint8_t)rnd(&r);
        return 1;
    }
    if (spec[0] == 'L' || spec[0] == 'V') {
        EbComponentType *h0 = NULL;
        memset(cfg, 0, sizeof(*cfg));
        if (svt_av1_enc_init_handle(&h0, NULL, cfg) != EB_ErrorNone) return 0;
        if (spec[0] == 'L') { Rng r = {strtoull(spec + 1, NULL, 10) ^ 0x1EF7}; scribble_members(cfg, &r); }
        else plausible(cfg, atoi(spec + 1));
        /* the previous user of the memory may well have handed it to the library (whatever the verdict) */
        if (spec[0] == 'V') (void)svt_av1_enc_set_parameter(h0, cfg);
        svt_av1_enc_deinit_handle(h0);
        return 1;
    }
    if (spec[0] >= '0' && spec[0] <= '9') { memset(cfg, atoi(spec) & 0xff, sizeof(*cfg)); return 1; }
    return 0;
}

int main(void) {
    static char line[4096];
    static EbSvtAv1EncConfiguration cfg, cfg2;
    signal(SIGALRM, on_alarm);
    while (fgets(line, sizeof(line), stdin)) {
        char cmd[16], a[64], b[64]; int w = 0, h = 0;
        int n = sscanf(line, "%15s %63s", cmd, a);
        if (n < 2) { printf("bad-op\n"); fflush(stdout); continue; }
        alarm(20);
        if (!strcmp(cmd, "PAD")) {
            if (sscanf(line, "%*s %63s %63s", a, b) != 2 || !fill_memory(&cfg, a) || !fill_memory(&cfg2, b)) { printf("bad-op\n"); goto next; }
            EbComponentType *h1 = NULL, *h2 = NULL;
            if (svt_av1_enc_init_handle(&h1, NULL, &cfg) != EB_ErrorNone || svt_av1_enc_init_handle(&h2, NULL, &cfg2) != EB_ErrorNone) {
                printf("init-handle-failed\n"); goto next; }
            size_t d = 0;
            for (size_t i = 0; i < sizeof(cfg); i++) d += ((uint8_t *)&cfg)[i] != ((uint8_t *)&cfg2)[i];
            size_t mb = sizeof(cfg.rc_twopass_stats_in) + sizeof(cfg.pred_struct);
#define X(f) mb += sizeof(cfg.f);
            CFG_SCALARS(X)
#undef X
#define X(f, n) mb += sizeof(cfg.f);
            CFG_ARRAYS(X)
#undef X
            printf("differing_bytes=%zu sizeof=%zu member_bytes=%zu\n", d, sizeof(cfg), mb);
            svt_av1_enc_deinit_handle(h1); svt_av1_enc_deinit_handle(h2);
            goto next;
        }
        if (!fill_memory(&cfg, a)) { printf("bad-op\n"); goto next; }
        {
            EbComponentType *hd = NULL;
            EbErrorType e = svt_av1_enc_init_handle(&hd, NULL, &cfg);
            if (e != EB_ErrorNone) { printf("init-handle-failed code=%x\n", (unsigned)e); goto next; }
            if (!strcmp(cmd, "DUMP")) { dump_cfg(&cfg); printf("END\n"); }
            else if (!strcmp(cmd, "ACCEPT") && sscanf(line, "%*s %*s %d %d", &w, &h) == 2) {
                cfg.source_width = (uint32_t)w; cfg.source_height = (uint32_t)h;
                e = svt_av1_enc_set_parameter(hd, &cfg);
                printf("accept=%d code=%x\n", e == EB_ErrorNone, (unsigned)e);
            } else printf("bad-op\n");
            svt_av1_enc_deinit_handle(hd);
        }
    next:
        alarm(0);
        fflush(stdout);
    }
    return 0;
}
