/*
 * C03 unit harness: drives the REAL packetization tail
 *   count_frames_in_next_tu, collect_frames_info, encode_tu (push_undisplayed_frame / sort_undisplayed_frame with the
 *   real qsort + pts_descend), pop_undisplayed_frame, encode_show_existing, clear_eos_flag / set_eos_flag, release_frames
 * (source text extracted from /repo/Source/Lib/Encoder/Codec/EbPacketizationProcess.c by harness/pktz_extract.py)
 * on the real structs, at the real depth, with the same line protocol as `svtmodel packetize`.
 *
 * stdin : one stream per line
 *     D term n  d_0 disp_0 pts_0 shown_0 hse_0 alt_0 priv_0 meta_0  d_1 ...      (frames in ARRIVAL order)
 *   D must equal PACKETIZATION_REORDER_QUEUE_MAX_DEPTH (else `bad-depth`); term = terminating_picture_number or -1.
 * stdout: one line per stream
 *     <clobbered> <stuck> <stack_left> x x <npackets>   then per posted buffer:  pts dts eos showExt hasTd altFlag priv frames
 *   (fields 4 and 5 are specification-side values printed only by the model; compare all other fields.)
 *   `frames` is recovered from the real byte count: every coded frame is given a 1-byte payload, so a TU packet has
 *   n_filled_len = frames + TD_SIZE; a show-existing packet reports 0.
 *
 * Hand-copied from packetization_kernel (inline code, cannot be extracted):
 *   l.654-683, 828-840 (fill entry + output buffer on arrival) and the statement sequence of the drain loop l.883-909
 *   (every call in it goes to the extracted real function).
 * Stubs: encode_td_av1, bitstream_get_bytes_count/bitstream_copy (3-byte frame header), svt_av1_get_time,
 *   svt_av1_compute_overall_elapsed_time_ms, svt_post_full_object (records the posted buffer).
 */
#include "pktz_stubs.h"

typedef struct { int64_t pts, dts; uint32_t flags; uintptr_t priv; uint32_t len; } Posted;
static Posted *posted; static size_t nposted, cap_posted;
static void post(EbObjectWrapper *w) { /* stands for svt_post_full_object(output wrapper) l.897 / l.905 */
    EbBufferHeaderType *o = (EbBufferHeaderType *)w->object_ptr;
    if (nposted == cap_posted) { cap_posted = cap_posted ? 2 * cap_posted : 1024; posted = (Posted *)realloc(posted, cap_posted * sizeof(Posted)); }
    Posted p = { o->pts, o->dts, o->flags, (uintptr_t)o->p_app_private, o->n_filled_len };
    posted[nposted++] = p;
}

int main(void) {
    char  *line = NULL;
    size_t cap  = 0;
    while (getline(&line, &cap, stdin) > 0) {
        char *p = line, *e;
        long long D = strtoll(p, &e, 10); if (e == p) continue; p = e;
        long long term = strtoll(p, &e, 10); p = e;
        long long n = strtoll(p, &e, 10); p = e;
        if (D != PACKETIZATION_REORDER_QUEUE_MAX_DEPTH) { printf("bad-depth\n"); continue; }
        EncodeContext *ctx = (EncodeContext *)calloc(1, sizeof(*ctx));
        ctx->packetization_reorder_queue = (PacketizationReorderEntry **)calloc(PACKETIZATION_REORDER_QUEUE_MAX_DEPTH, sizeof(void *));
        for (uint32_t i = 0; i < PACKETIZATION_REORDER_QUEUE_MAX_DEPTH; i++) {
            ctx->packetization_reorder_queue[i] = (PacketizationReorderEntry *)calloc(1, sizeof(PacketizationReorderEntry));
            ctx->packetization_reorder_queue[i]->picture_number = i;
        }
        ctx->terminating_picture_number = ~0u;                     /* EbEncodeContext.c:163 */
        if (term >= 0) { ctx->terminating_sequence_flag_received = EB_TRUE; ctx->terminating_picture_number = (uint64_t)term; }
        EbObjectWrapper    *wr  = (EbObjectWrapper *)calloc(n ? n : 1, sizeof(EbObjectWrapper));
        EbBufferHeaderType *hdr = (EbBufferHeaderType *)calloc(n ? n : 1, sizeof(EbBufferHeaderType));
        nposted = 0;
        int clobbered = 0, bad = 0;
        for (long long k = 0; k < n && !bad; k++) {
            long long v[8];
            for (int t = 0; t < 8; t++) { v[t] = strtoll(p, &e, 10); if (e == p) bad = 1; p = e; }
            if (bad) break;
            uint64_t decode_order = (uint64_t)v[0];
            /* l.654-657 */
            int32_t queue_entry_index = decode_order % PACKETIZATION_REORDER_QUEUE_MAX_DEPTH;
            PacketizationReorderEntry *queue_entry_ptr = ctx->packetization_reorder_queue[queue_entry_index];
            if (queue_entry_ptr->output_stream_wrapper_ptr != NULL) clobbered = 1;   /* instrumentation only */
            queue_entry_ptr->is_alt_ref = (uint8_t)v[5];                                /* l.660 */
            EbObjectWrapper    *output_stream_wrapper_ptr = &wr[k];
            EbBufferHeaderType *output_stream_ptr         = &hdr[k];
            output_stream_wrapper_ptr->object_ptr = (EbPtr)output_stream_ptr;
            output_stream_ptr->flags = 0;                                               /* l.668-674 */
            output_stream_ptr->flags |= (ctx->terminating_sequence_flag_received == EB_TRUE &&
                                         decode_order == ctx->terminating_picture_number) ? EB_BUFFERFLAG_EOS : 0;
            output_stream_ptr->n_filled_len  = 0;
            output_stream_ptr->pts           = (int64_t)v[2];                           /* l.676 */
            output_stream_ptr->dts           = output_stream_ptr->pts;                  /* l.678 */
            output_stream_ptr->p_app_private = (void *)(uintptr_t)v[6];                 /* l.683 */
            output_stream_ptr->n_alloc_len   = 1 + TD_SIZE + 8;                         /* l.775-777 */
            output_stream_ptr->p_buffer      = (uint8_t *)malloc(output_stream_ptr->n_alloc_len);
            output_stream_ptr->p_buffer[0]   = 0x55; output_stream_ptr->n_filled_len = 1; /* l.781: 1-byte coded frame */
            queue_entry_ptr->show_frame          = (EbBool)(v[3] != 0);                 /* l.828 */
            queue_entry_ptr->has_show_existing   = (EbBool)(v[4] != 0);                 /* l.829 */
            queue_entry_ptr->output_stream_wrapper_ptr = output_stream_wrapper_ptr;     /* l.833 */
            queue_entry_ptr->out_meta_data       = (EbLinkedListNode *)(uintptr_t)v[7]; /* l.838 */
            /* l.882-909 */
            uint32_t frames, total_bytes;
            while ((frames = count_frames_in_next_tu(ctx, &total_bytes))) {
                collect_frames_info(NULL, ctx, frames);
                queue_entry_ptr           = get_reorder_queue_entry(ctx, frames - 1);
                output_stream_wrapper_ptr = queue_entry_ptr->output_stream_wrapper_ptr;
                output_stream_ptr         = (EbBufferHeaderType *)output_stream_wrapper_ptr->object_ptr;
                EbBool eos                = output_stream_ptr->flags & EB_BUFFERFLAG_EOS;
                encode_tu(ctx, frames, total_bytes, output_stream_ptr);
                if (eos && queue_entry_ptr->has_show_existing) clear_eos_flag(output_stream_ptr);
                post(output_stream_wrapper_ptr);
                if (queue_entry_ptr->has_show_existing) {
                    EbObjectWrapper *existed = pop_undisplayed_frame(ctx);
                    if (existed) {
                        EbBufferHeaderType *existed_output_stream_ptr = (EbBufferHeaderType *)existed->object_ptr;
                        encode_show_existing(ctx, queue_entry_ptr, existed_output_stream_ptr);
                        if (eos) set_eos_flag(existed_output_stream_ptr);
                        post(existed);
                    }
                }
                release_frames(ctx, frames);
            }
        }
        if (bad) { printf("bad-op\n"); }
        else {
            size_t stuck = 0;
            for (uint32_t i = 0; i < PACKETIZATION_REORDER_QUEUE_MAX_DEPTH; i++)
                if (ctx->packetization_reorder_queue[i]->output_stream_wrapper_ptr) stuck++;
            printf("%d %zu %u x x %zu", clobbered, stuck, ctx->picture_decision_undisplayed_queue_count, nposted);
            for (size_t k = 0; k < nposted; k++) {
                uint32_t f = posted[k].flags;
                printf(" %lld %lld %d %d %d %d %llu %u", (long long)posted[k].pts, (long long)posted[k].dts,
                       !!(f & EB_BUFFERFLAG_EOS), !!(f & EB_BUFFERFLAG_SHOW_EXT), !!(f & EB_BUFFERFLAG_HAS_TD),
                       !!(f & EB_BUFFERFLAG_IS_ALT_REF), (unsigned long long)posted[k].priv,
                       (f & EB_BUFFERFLAG_SHOW_EXT) ? 0u : posted[k].len - TD_SIZE);
            }
            printf("\n");
        }
        for (long long k = 0; k < n; k++) free(hdr[k].p_buffer);
        for (uint32_t i = 0; i < PACKETIZATION_REORDER_QUEUE_MAX_DEPTH; i++) free(ctx->packetization_reorder_queue[i]);
        free(ctx->packetization_reorder_queue); free(ctx); free(wr); free(hdr);
    }
    free(line); free(posted);
    return 0;
}
