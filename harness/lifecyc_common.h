/* lifecyc_common.h — shared by harness/faultinj.c (C16) and harness/teardown.c (C15).
 *
 * Runs the REAL encoder / decoder libraries (static libs of the current tree) through their session life
 * cycle inside forked children, under a wall-clock watchdog, and measures what the properties talk about:
 *   - every heap block the library takes or gives back: the executable is linked with
 *       -Wl,--wrap=malloc,--wrap=calloc,--wrap=realloc,--wrap=free,--wrap=posix_memalign,
 *       --wrap=memalign,--wrap=aligned_alloc,--wrap=strdup
 *     so every call made from library (and harness) object code goes through the counters below.
 *     Mutexes, semaphores and thread handles are heap blocks too (EbThreads.c mallocs a pthread_mutex_t /
 *     sem_t / pthread_t per object), so a surviving OS object shows up as a surviving block.
 *     (The library's own tracker, EbMalloc.c svt_print_memory_usage / svt_decrease_component_count, exists only
 *     when DEBUG_MEMORY_USAGE is defined, i.e. in !NDEBUG builds; the Release libraries do not contain it.)
 *   - library threads: entries of /proc/self/task.
 *   - return within the watchdog, exit status / fatal signal of the child.
 */
#ifndef LIFECYC_COMMON_H
#define LIFECYC_COMMON_H
#define _GNU_SOURCE
#include <stdio.h>
#include <stdlib.h>
#include <string.h>
#include <stdint.h>
#include <stdarg.h>
#include <unistd.h>
#include <signal.h>
#include <errno.h>
#include <dirent.h>
#include <poll.h>
#include <time.h>
#include <malloc.h>
#include <inttypes.h>
#include <sys/types.h>
#include <sys/wait.h>
#include <sys/resource.h>
#include <fcntl.h>
#include <execinfo.h>
#include <ucontext.h>
#include <sys/syscall.h>
#include <sys/prctl.h>
#include <linux/capability.h>
#include "EbSvtAv1Enc.h"
#include "EbSvtAv1Dec.h"

/* ------------------------------------------------------------------ heap accounting (linker --wrap) */
void *__real_malloc(size_t);
void *__real_calloc(size_t, size_t);
void *__real_realloc(void *, size_t);
void  __real_free(void *);
int   __real_posix_memalign(void **, size_t, size_t);
void *__real_memalign(size_t, size_t);
void *__real_aligned_alloc(size_t, size_t);

static volatile long g_live_blocks = 0, g_live_bytes = 0, g_total_allocs = 0;
static inline void acct_add(void *p) {
    if (p) { __sync_add_and_fetch(&g_live_blocks, 1); __sync_add_and_fetch(&g_live_bytes, (long)malloc_usable_size(p)); __sync_add_and_fetch(&g_total_allocs, 1); }
}
static inline void acct_sub(void *p) {
    if (p) { __sync_sub_and_fetch(&g_live_blocks, 1); __sync_sub_and_fetch(&g_live_bytes, (long)malloc_usable_size(p)); }
}
void *__wrap_malloc(size_t n) { void *p = __real_malloc(n); acct_add(p); return p; }
void *__wrap_calloc(size_t a, size_t b) { void *p = __real_calloc(a, b); acct_add(p); return p; }
void *__wrap_realloc(void *q, size_t n) {
    long before = q ? (long)malloc_usable_size(q) : 0;
    void *p = __real_realloc(q, n);
    if (p) {
        if (q) { __sync_sub_and_fetch(&g_live_bytes, before); __sync_add_and_fetch(&g_live_bytes, (long)malloc_usable_size(p)); }
        else acct_add(p);
    } else if (q && n == 0) { __sync_sub_and_fetch(&g_live_blocks, 1); __sync_sub_and_fetch(&g_live_bytes, before); }
    return p;
}
void __wrap_free(void *p) { acct_sub(p); __real_free(p); }
int __wrap_posix_memalign(void **pp, size_t al, size_t n) { int r = __real_posix_memalign(pp, al, n); if (r == 0) acct_add(*pp); return r; }
void *__wrap_memalign(size_t al, size_t n) { void *p = __real_memalign(al, n); acct_add(p); return p; }
void *__wrap_aligned_alloc(size_t al, size_t n) { void *p = __real_aligned_alloc(al, n); acct_add(p); return p; }
char *__wrap_strdup(const char *s) { size_t n = strlen(s) + 1; char *p = __wrap_malloc(n); if (p) memcpy(p, s, n); return p; }

/* svt_av1_enc_init_handle switches the calling process to SCHED_FIFO priority 99 when it is allowed to
 * (enc_switch_to_real_time, EbEncHandle.c; root is allowed) and every library thread inherits that: a handful of
 * such sessions starves the whole machine, including the watchdogs.  The harness therefore gives up CAP_SYS_NICE
 * before anything else (the library then gets EPERM and runs as an ordinary time-sharing process; svt_create_thread
 * retries without the real-time attributes, EbThreads.c:99). */
static void drop_rt_capability(void) {
    struct __user_cap_header_struct h; struct __user_cap_data_struct d[2];
    memset(&h, 0, sizeof h); memset(d, 0, sizeof d);
    h.version = _LINUX_CAPABILITY_VERSION_3; h.pid = 0;
    prctl(PR_CAPBSET_DROP, CAP_SYS_NICE, 0, 0, 0);
    if (syscall(SYS_capget, &h, d) == 0) {
        d[0].effective &= ~(1u << CAP_SYS_NICE); d[0].permitted &= ~(1u << CAP_SYS_NICE); d[0].inheritable &= ~(1u << CAP_SYS_NICE);
        syscall(SYS_capset, &h, d);
    }
}

/* ------------------------------------------------------------------ misc measurement */
static int thread_count(void) {
    int n = 0; DIR *d = opendir("/proc/self/task"); struct dirent *e;
    if (!d) return -1;
    while ((e = readdir(d))) if (e->d_name[0] != '.') n++;
    closedir(d);
    return n;
}
/* threads exit asynchronously after pthread_join only in theory; joined threads are gone. Poll briefly anyway. */
static int thread_count_settled(int base) {
    int n = thread_count();
    for (int i = 0; i < 200 && n > base; i++) { usleep(1000); n = thread_count(); }
    return n;
}
static long rss_kb(void) {
    long v = -1; FILE *f = fopen("/proc/self/statm", "r");
    if (f) { long a, b; if (fscanf(f, "%ld %ld", &a, &b) == 2) v = b * (sysconf(_SC_PAGESIZE) / 1024); fclose(f); }
    return v;
}
static double now_s(void) { struct timespec t; clock_gettime(CLOCK_MONOTONIC, &t); return t.tv_sec + t.tv_nsec * 1e-9; }

typedef struct { uint64_t s; } Rng;
static uint64_t rnd(Rng *r) {
    uint64_t z = (r->s += 0x9E3779B97F4A7C15ull);
    z = (z ^ (z >> 30)) * 0xBF58476D1CE4E5B9ull;
    z = (z ^ (z >> 27)) * 0x94D049BB133111EBull;
    return z ^ (z >> 31);
}

/* ------------------------------------------------------------------ child runner with watchdog
 * The child writes text lines to fd `g_out` (a pipe); markers "AT <what>" tell the parent where it was.
 * Parent: collects everything, enforces the wall-clock limit, reports exit / signal / timeout. */
static int g_out = 1;
static int g_dirty_heap = 1;
static void emit(const char *fmt, ...) {
    char buf[1024]; va_list ap; va_start(ap, fmt); int n = vsnprintf(buf, sizeof buf, fmt, ap); va_end(ap);
    if (n > (int)sizeof buf - 1) n = sizeof buf - 1;
    ssize_t w = write(g_out, buf, (size_t)n); (void)w;
}

/* fatal-signal reporter of the child: "CRASH sig=<n> pc=<addr> bt=<addr>,<addr>,..." (addresses of a non-PIE executable;
 * the check maps them to function names with addr2line/nm) and then dies of the same signal */
static void crash_handler(int sig, siginfo_t *si, void *uc_) {
    ucontext_t *uc = uc_; void *bt[24]; char buf[900]; int n, off;
    (void)si;
    off = snprintf(buf, sizeof buf, "CRASH sig=%d pc=%p bt=", sig, (void *)uc->uc_mcontext.gregs[REG_RIP]);
    n = backtrace(bt, 24);
    for (int i = 0; i < n && off < (int)sizeof buf - 24; i++) off += snprintf(buf + off, sizeof buf - off, "%s%p", i ? "," : "", bt[i]);
    off += snprintf(buf + off, sizeof buf - off, "\n");
    ssize_t w = write(g_out, buf, (size_t)off); (void)w;
    signal(sig, SIG_DFL); raise(sig);
}
/* on request of the parent (SIGUSR2 sent to every thread of a child that exceeded its time limit) each thread
 * reports where it is: "THREAD tid=<n> bt=<addr>,..." */
static void where_handler(int sig, siginfo_t *si, void *uc_) {
    void *bt[32]; char buf[1000]; int n, off; int e = errno;
    (void)sig; (void)si; (void)uc_;
    off = snprintf(buf, sizeof buf, "THREAD tid=%ld bt=", (long)syscall(SYS_gettid));
    n = backtrace(bt, 32);
    for (int i = 0; i < n && off < (int)sizeof buf - 24; i++) off += snprintf(buf + off, sizeof buf - off, "%s%p", i ? "," : "", bt[i]);
    off += snprintf(buf + off, sizeof buf - off, "\n");
    ssize_t w = write(g_out, buf, (size_t)off); (void)w;
    errno = e;
}
static void install_crash_handler(void) {
    { struct sigaction sb; memset(&sb, 0, sizeof sb); sb.sa_sigaction = where_handler; sb.sa_flags = SA_SIGINFO | SA_RESTART; sigaction(SIGUSR2, &sb, NULL); }
    void *bt[4]; backtrace(bt, 4);           /* loads libgcc now, not inside the handler */
    static char altstack[1 << 16]; stack_t ss = {altstack, 0, sizeof altstack}; sigaltstack(&ss, NULL);
    struct sigaction sa; memset(&sa, 0, sizeof sa); sa.sa_sigaction = crash_handler; sa.sa_flags = SA_SIGINFO | SA_ONSTACK | SA_RESETHAND;
    int sigs[] = {SIGSEGV, SIGBUS, SIGABRT, SIGFPE, SIGILL};
    for (unsigned i = 0; i < sizeof sigs / sizeof *sigs; i++) sigaction(sigs[i], &sa, NULL);
}
/* an application's heap is not fresh: leave freed chunks filled with 0xA5 in the allocator's caches, so that
 * library code reading a member it never initialised sees garbage instead of zero */
static void dirty_heap(void) {
    enum { NSZ = 40, PER = 6 };
    void *p[NSZ * PER]; int n = 0;
    for (int s = 0; s < NSZ; s++) for (int j = 0; j < PER; j++) { size_t sz = 16 + 16 * (size_t)s; void *q = __real_malloc(sz); if (q) { memset(q, 0xA5, sz); p[n++] = q; } }
    for (int i = 0; i < n; i++) __real_free(p[i]);
}

typedef struct { char *text; size_t len; int exited, exit_code, signaled, sig, timed_out; double wall; } ChildResult;

static ChildResult run_child(void (*fn)(void *), void *arg, double limit_s, int quiet_lib) {
    ChildResult R; memset(&R, 0, sizeof R);
    int pfd[2]; if (pipe(pfd)) { perror("pipe"); exit(2); }
    fflush(stdout); fflush(stderr);
    double t0 = now_s();
    pid_t pid = fork();
    if (pid < 0) { perror("fork"); exit(2); }
    if (pid == 0) {
        close(pfd[0]); g_out = pfd[1];
        if (quiet_lib) { int dn = open("/dev/null", 1); if (dn >= 0) { dup2(dn, 1); dup2(dn, 2); } }
        struct rlimit rl = {0, 0}; setrlimit(RLIMIT_CORE, &rl);
        install_crash_handler();
        if (g_dirty_heap) dirty_heap();
        fn(arg);
        _exit(0);
    }
    close(pfd[1]);
    size_t cap = 1 << 16; R.text = __real_malloc(cap); R.len = 0;
    int eof = 0;
    while (!eof) {
        double left = limit_s - (now_s() - t0);
        if (left <= 0) { R.timed_out = 1; break; }
        struct pollfd p = {pfd[0], POLLIN, 0};
        int pr = poll(&p, 1, (int)(left * 1000) + 1);
        if (pr < 0) { if (errno == EINTR) continue; break; }
        if (pr == 0) { R.timed_out = 1; break; }
        if (R.len + 65536 > cap) { cap *= 2; R.text = __real_realloc(R.text, cap); }
        ssize_t n = read(pfd[0], R.text + R.len, 65535);
        if (n <= 0) eof = 1; else R.len += (size_t)n;
    }
    R.text[R.len] = 0;
    int st = 0;
    if (R.timed_out) {
        /* ask every thread of the child where it is, collect the answers for a moment, then kill it */
        char tdir[64]; snprintf(tdir, sizeof tdir, "/proc/%d/task", (int)pid);
        DIR *d = opendir(tdir); struct dirent *e;
        if (d) { while ((e = readdir(d))) if (e->d_name[0] != '.') syscall(SYS_tgkill, (int)pid, atoi(e->d_name), SIGUSR2); closedir(d); }
        double tq = now_s();
        while (now_s() - tq < 1.0) {
            struct pollfd p = {pfd[0], POLLIN, 0};
            if (poll(&p, 1, 200) <= 0) { if (now_s() - tq > 0.4) break; continue; }
            if (R.len + 65536 > cap) { cap *= 2; R.text = __real_realloc(R.text, cap); }
            ssize_t n = read(pfd[0], R.text + R.len, 65535);
            if (n <= 0) break;
            R.len += (size_t)n;
        }
        R.text[R.len] = 0;
        kill(pid, SIGKILL); waitpid(pid, &st, 0);
    }
    else {
        /* pipe closed: child exited or is exiting; give it the remaining time */
        for (;;) {
            pid_t w = waitpid(pid, &st, WNOHANG);
            if (w == pid) break;
            if (now_s() - t0 > limit_s) { R.timed_out = 1; kill(pid, SIGKILL); waitpid(pid, &st, 0); break; }
            usleep(500);
        }
        if (!R.timed_out) {
            if (WIFEXITED(st)) { R.exited = 1; R.exit_code = WEXITSTATUS(st); }
            else if (WIFSIGNALED(st)) { R.signaled = 1; R.sig = WTERMSIG(st); }
        }
    }
    close(pfd[0]);
    R.wall = now_s() - t0;
    return R;
}
/* last "AT xxx" marker in the child's text */
static const char *last_marker(const ChildResult *R, char *buf, size_t n) {
    const char *p = R->text, *last = NULL;
    while ((p = strstr(p, "AT "))) { if (p == R->text || p[-1] == '\n') last = p; p += 3; }
    if (!last) { snprintf(buf, n, "start"); return buf; }
    size_t i = 0; last += 3;
    while (last[i] && last[i] != '\n' && i + 1 < n) { buf[i] = last[i]; i++; }
    buf[i] = 0; return buf;
}
static const char *status_str(const ChildResult *R, char *buf, size_t n) {
    if (R->timed_out) snprintf(buf, n, "timeout");
    else if (R->signaled) snprintf(buf, n, "signal%d", R->sig);
    else if (R->exited) snprintf(buf, n, "exit%d", R->exit_code);
    else snprintf(buf, n, "unknown");
    return buf;
}

/* ------------------------------------------------------------------ synthetic pictures (8-bit 4:2:0) */
typedef struct { uint8_t *luma, *cb, *cr; size_t ysz, csz; EbSvtIOFormat io; } Pic;
static void make_pic(Pic *p, int w, int h, int f, uint64_t seed) {
    p->ysz = (size_t)w * h; p->csz = p->ysz / 4;
    p->luma = malloc(p->ysz); p->cb = malloc(p->csz); p->cr = malloc(p->csz);
    Rng r = {seed ^ ((uint64_t)f << 32)};
    uint64_t ph = rnd(&r);
    for (int y = 0; y < h; y++) for (int x = 0; x < w; x++)
        p->luma[(size_t)y * w + x] = (uint8_t)(128 + 60 * (((x + 3 * f + (int)(ph & 15)) >> 3) & 1) - 40 * (((y + 2 * f) >> 4) & 1) + (int)((x * 7 + y * 13 + f) & 7));
    for (size_t i = 0; i < p->csz; i++) { p->cb[i] = (uint8_t)(120 + ((i + f) & 15)); p->cr[i] = (uint8_t)(130 - ((i + 2 * f) & 15)); }
    memset(&p->io, 0, sizeof p->io);
    p->io.luma = p->luma; p->io.cb = p->cb; p->io.cr = p->cr; p->io.y_stride = w; p->io.cb_stride = w / 2; p->io.cr_stride = w / 2;
    p->io.width = w; p->io.height = h; p->io.color_fmt = EB_YUV420; p->io.bit_depth = EB_EIGHT_BIT;
}
static void free_pic(Pic *p) { free(p->luma); free(p->cb); free(p->cr); }

static EbErrorType send_pic(EbComponentType *h, int w, int hh, int f, uint64_t seed) {
    Pic pic; make_pic(&pic, w, hh, f, seed);
    EbBufferHeaderType in; memset(&in, 0, sizeof in);
    in.size = sizeof in; in.p_buffer = (uint8_t *)&pic.io; in.n_filled_len = (uint32_t)(pic.ysz + 2 * pic.csz); in.n_alloc_len = in.n_filled_len;
    in.pts = f; in.pic_type = EB_AV1_INVALID_PICTURE;
    EbErrorType e = svt_av1_enc_send_picture(h, &in);
    free_pic(&pic);
    return e;
}
static EbErrorType send_eos(EbComponentType *h) {
    EbBufferHeaderType in; memset(&in, 0, sizeof in);
    in.size = sizeof in; in.flags = EB_BUFFERFLAG_EOS; in.pic_type = EB_AV1_INVALID_PICTURE;
    return svt_av1_enc_send_picture(h, &in);
}
/* get up to `max` packets (blocking or not); returns number received, sets *eos; optional sink(data,len) */
static int get_packets(EbComponentType *h, int max, int blocking, int *eos, void (*sink)(const uint8_t *, uint32_t)) {
    int got = 0;
    while (got < max) {
        EbBufferHeaderType *b = NULL;
        EbErrorType e = svt_av1_enc_get_packet(h, &b, (uint8_t)blocking);
        if (e != EB_ErrorNone || !b) break;
        if (sink) sink(b->p_buffer, b->n_filled_len);
        if (b->flags & EB_BUFFERFLAG_EOS) *eos = 1;
        svt_av1_enc_release_out_buffer(&b);
        got++;
        if (*eos) break;
    }
    return got;
}

typedef struct { int w, h, enc_mode, lp, frames, hierarchical_levels, intra_period, recon, lad, scm_plus1; } EncCfg;   /* scm_plus1: 0 = library default, else screen_content_mode + 1 */
static void apply_cfg(EbSvtAv1EncConfiguration *c, const EncCfg *E) {
    c->source_width = E->w; c->source_height = E->h; c->encoder_bit_depth = 8; c->enc_mode = (int8_t)E->enc_mode;
    c->logical_processors = E->lp; c->recon_enabled = E->recon;
    if (E->hierarchical_levels >= 0) c->hierarchical_levels = E->hierarchical_levels;
    if (E->intra_period > -3) c->intra_period_length = E->intra_period;
    if (E->lad >= 0) c->look_ahead_distance = E->lad;
    if (E->scm_plus1 > 0) c->screen_content_mode = (uint32_t)(E->scm_plus1 - 1);
}
#endif
