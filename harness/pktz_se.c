/*
 * C02 unit harness: the show-existing branch of `packetization_kernel` (EbPacketizationProcess.c, the statement
 *   if (pcs_ptr->parent_pcs_ptr->has_show_existing) { ... bitstream_reset; write_metadata_av1; write_frame_header_av1(.., 1); ... }
 * source text extracted by harness/pktz_se_extract.py) run on REAL objects for more pictures than the reorder queue has
 * entries, so that every `PacketizationReorderEntry` (real constructor, real 16-byte `Bitstream`) is used several times:
 *   packetization_reorder_entry_ctor, bitstream_reset, bitstream_get_bytes_count, svt_metadata_size,
 *   write_metadata_av1, write_frame_header_av1 (show_existing = 1: write_obu_header, write_uncompressed_header_obu,
 *   add_trailing_bits, write_tile_group_header, obu_mem_move, write_uleb_obu_size), svt_add_metadata are the library's.
 * Hand-written (cannot be extracted): which picture reaches the branch with which `decode_order` (l.654-657:
 *   queue_entry_ptr = queue[decode_order % DEPTH]) and the zero-initialised PictureControlSet / SequenceControlSet the
 *   header writer reads (tiles_info 1x1, reduced_still_picture_header = 0, frame_id_numbers_present_flag = 0).
 *
 * stdin : RUN <npics> <period> <meta_period> <meta_sz>
 *           picture d (decode_order = picture_number = d) has has_show_existing iff d % period == period - 1;
 *           show_existing_frame = (d / period) % 8; every meta_period-th of those (0 = never) finds an ITU-T T.35 metadata item of
 *           meta_sz bytes on the entry of picture_number + 1.
 * stdout: DEPTH <PACKETIZATION_REORDER_QUEUE_MAX_DEPTH>
 *         SE d=<d> slot=<d % DEPTH> use=<n-th time this entry goes through the branch> idx=<show_existing_frame> meta=<bytes>
 *            len=<bitstream_get_bytes_count> hex=<what encode_show_existing would copy behind the temporal delimiter>
 */
#include <stdio.h>
#include <stdlib.h>
#include <string.h>
#include <stdint.h>
#include "EbDefinitions.h"
#include "EbSvtAv1Enc.h"
#include "EbSvtAv1Metadata.h"
#include "EbSystemResourceManager.h"
#include "EbPictureControlSet.h"
#include "EbSequenceControlSet.h"
#include "EbEncodeContext.h"
#include "EbPacketizationReorderQueue.h"
#include "EbEntropyCodingObject.h"
#include "EbEntropyCoding.h"
#include "EbMalloc.h"

#include "pktz_se_extracted.inc"

int main(void) {
    long long npics, period, meta_period, meta_sz;
    while (scanf(" RUN %lld %lld %lld %lld", &npics, &period, &meta_period, &meta_sz) == 4) {
        const uint32_t D = PACKETIZATION_REORDER_QUEUE_MAX_DEPTH;
        printf("DEPTH %u\n", D);
        if (period < 1) period = 1;
        EncodeContext *ctx = (EncodeContext *)calloc(1, sizeof(*ctx));
        ctx->packetization_reorder_queue = (PacketizationReorderEntry **)calloc(D, sizeof(void *));
        for (uint32_t i = 0; i < D; i++)                               /* EbEncodeContext.c l.139-143 */
            EB_NEW(ctx->packetization_reorder_queue[i], packetization_reorder_entry_ctor, i);
        uint32_t *uses = (uint32_t *)calloc(D, sizeof(uint32_t));
        SequenceControlSet      *scs  = (SequenceControlSet *)calloc(1, sizeof(*scs));
        PictureControlSet       *pcs  = (PictureControlSet *)calloc(1, sizeof(*pcs));
        PictureParentControlSet *ppcs = (PictureParentControlSet *)calloc(1, sizeof(*ppcs));
        Av1Common               *cm   = (Av1Common *)calloc(1, sizeof(*cm));
        pcs->parent_pcs_ptr = ppcs; ppcs->av1_cm = cm;
        cm->tiles_info.tile_rows = 1; cm->tiles_info.tile_cols = 1;
        uint8_t *mdata = (uint8_t *)malloc(meta_sz > 0 ? (size_t)meta_sz : 1);
        for (long long i = 0; i < meta_sz; i++) mdata[i] = (uint8_t)(0xB5 + 7 * i);
        long long nse = 0;
        for (long long d = 0; d < npics; d++) {
            if (d % period != period - 1) continue;
            /* l.654-657 */
            int32_t queue_entry_index = (int32_t)((uint64_t)d % D);
            PacketizationReorderEntry *queue_entry_ptr = ctx->packetization_reorder_queue[queue_entry_index];
            pcs->picture_number = (uint64_t)d; ppcs->decode_order = (uint64_t)d; ppcs->picture_number = (uint64_t)d;
            ppcs->has_show_existing = EB_TRUE;
            ppcs->frm_hdr.show_existing_frame = (uint8_t)((d / period) % 8);
            size_t msz = 0;
            if (meta_period > 0 && (nse % meta_period) == meta_period - 1) {
                /* l.761-769: the metadata of the hidden picture was parked on the entry of its picture number */
                EbBufferHeaderType tmp; memset(&tmp, 0, sizeof(tmp));
                svt_add_metadata(&tmp, EB_AV1_METADATA_TYPE_ITUT_T35, mdata, (size_t)meta_sz);
                ctx->packetization_reorder_queue[(uint64_t)(d + 1) % D]->metadata = tmp.metadata;
                msz = (size_t)meta_sz;
            }
            nse++;
            kernel_show_existing_branch(ctx, queue_entry_ptr, pcs, scs);
            int n = bitstream_get_bytes_count(queue_entry_ptr->bitstream_ptr);
            uses[queue_entry_index]++;
            printf("SE d=%lld slot=%d use=%u idx=%u meta=%zu len=%d hex=", d, queue_entry_index, uses[queue_entry_index],
                   (unsigned)ppcs->frm_hdr.show_existing_frame, msz, n);
            if (n > 0 && n < (1 << 20)) {
                uint8_t *out = (uint8_t *)malloc((size_t)n);
                /* what encode_show_existing copies (copy_data_from_bitstream -> bitstream_copy: `size` bytes from buffer_begin_av1;
                   bitstream_copy itself goes through the svt_memcpy function pointer, which only svt_av1_enc_init sets up) */
                memcpy(out, queue_entry_ptr->bitstream_ptr->output_bitstream_ptr->buffer_begin_av1, (size_t)n);
                for (int i = 0; i < n; i++) printf("%02x", out[i]);
                free(out);
            }
            printf("\n");
        }
        for (uint32_t i = 0; i < D; i++) EB_DELETE(ctx->packetization_reorder_queue[i]);
        free(ctx->packetization_reorder_queue); free(ctx); free(uses); free(scs); free(pcs); free(ppcs); free(cm); free(mdata);
    }
    return 0;
}
