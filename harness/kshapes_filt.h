/* C07 harness shape handlers, group 'filt'. Included by kernels_shapes.h */
#ifndef VERIF_KSHAPES_FILT_H
#define VERIF_KSHAPES_FILT_H
#include "EbInterPrediction.h"
#include "convolve.h"
#include "filter.h"
#include "EbWarpedMotion.h"
#include "EbRestoration.h"
#include "EbMotionEstimationContext.h"

/* ------------------------------------------------------------------ inter-prediction convolutions (sr / jnt, 8-bit / 16-bit)
 * k[0] = hbd, k[1] = kind (0 = 2d, 1 = x, 2 = y, 3 = copy), k[2] = jnt (compound) */
static const uint8_t k_conv_sizes[][2] = {
    /* block_size_wide/high table */
    {4,4},{4,8},{8,4},{8,8},{8,16},{16,8},{16,16},{16,32},{32,16},{32,32},{32,64},{64,32},{64,64},{64,128},{128,64},{128,128},
    {4,16},{16,4},{8,32},{32,8},{16,64},{64,16},
    /* chroma halves not yet in the list */
    {2,2},{2,4},{4,2},{2,8},{8,2},
    /* OBMC neighbour predictions (above: min(W,64) x clamp(H/2,4,32); left: clamp(W/2,4,32) x min(H,64)) and their chroma */
    {64,8},{8,64},{32,4},{4,32} };
static const int k_conv_pats[][2] = {
    { KP_HI, KP_HI }, { KP_LO, KP_LO }, { KP_CHECK, KP_CHECK_INV }, { KP_COLS, KP_ROWS }, { KP_ROWS, KP_COLS }, { KP_RAMP, KP_RAMP_REV },
    { KP_HI, KP_LO }, { KP_LO, KP_HI }, { KP_RAND, KP_RAND }, { KP_OUTLIER, KP_OUTLIER }, { KP_NEAR, KP_NEAR }, { KP_RAND, KP_OUTLIER } };
static const int k_conv_rpats[3] = { KP_RAND, KP_OUTLIER, KP_NEAR };
static const int8_t k_jnt_wts[8][2] = { {9,7},{11,5},{12,4},{13,3},{7,9},{5,11},{4,12},{3,13} };   /* quant_dist_lookup_table */

typedef struct KConvPrep { ConvolveParams *cp, master; InterpFilterParams *fx, *fy, mfx, mfy; } KConvPrep;
static void k_conv_prep(Cx *cx, Args *a, void *u) {
    KConvPrep *p = (KConvPrep *)u;
    (void)cx; (void)a;
    *p->cp = p->master; *p->fx = p->mfx; *p->fy = p->mfy;
}
static int k_subpel(Cx *cx) { return kr_n(cx, 4) == 0 ? 8 : 1 + (int)kr_n(cx, 15); }

static void h_conv(Cx *cx, const Entry *e) {
    const int hbd = e->k[0], kind = e->k[1], jnt = e->k[2], elem = hbd ? 2 : 1;
    static const int bds[3] = { 8, 10, 12 };
    const int NV = hbd ? 4 : 10;
    const char *wenv = getenv("K_CONV_WIDE");
    const int wide = cx->ext || (wenv && wenv[0] == '1');   /* ext=1 on the command line or K_CONV_WIDE=1 */
    /* compound prediction is never used for the OBMC neighbour predictions: the last 4 shapes only for the sr functions */
    const int nsz = KARRAY(k_conv_sizes) - ((jnt && !wide) ? 4 : 0);
    for (int pass = 0; pass < cx->passes; pass++)
        for (int szi = 0; szi < nsz; szi++)
            for (int bdi = 0; bdi < (hbd ? 3 : 1); bdi++)
                for (int v = 0; v < NV; v++) {
                    if (!kc_case(cx)) continue;
                    const int w = k_conv_sizes[szi][0], h = k_conv_sizes[szi][1];
                    const int bd = hbd ? bds[bdi] : 8;
                    const int64_t mx = (1 << bd) - 1;
                    int pa, pb;
                    if (pass == 0) { const int pi = (v + 3 * szi + 5 * bdi) % KARRAY(k_conv_pats); pa = k_conv_pats[pi][0]; pb = k_conv_pats[pi][1]; }
                    else { pa = k_conv_rpats[kr_n(cx, 3)]; pb = k_conv_rpats[kr_n(cx, 3)]; }
                    /* filters: cycle through all combinations over (v, size) in pass 0, random afterwards.
                     * encoder domain: REGULAR/SMOOTH/SHARP (interpolation_filter_search filter_sets) for everything; BILINEAR only for
                     * intrabc = non-compound, chroma half-pel: subpel 8 in the filtered direction(s), NULL for the unused filter
                     * (convolve_2d_for_intrabc).  K_CONV_WIDE=1: the unit test's domain (all 4x4 filter pairs with every subpel). */
                    int fxi, fyi, ib = 0;
                    if (wide) {
                        if (pass == 0) { const int c = (v + NV * bdi + 7 * szi) & 15; fxi = c & 3; fyi = c >> 2; }
                        else { fxi = (int)kr_n(cx, 4); fyi = (int)kr_n(cx, 4); }
                    } else {
                        if (pass == 0) { const int c = (v + NV * bdi + 7 * szi) % 9; fxi = c % 3; fyi = c / 3; }
                        else { fxi = (int)kr_n(cx, 3); fyi = (int)kr_n(cx, 3); }
                        if (!jnt) ib = pass == 0 ? (v == NV - 1) : (kr_n(cx, 8) == 0);
                        if (ib) fxi = fyi = BILINEAR;
                    }
                    const int sx = (kind == 0 || kind == 1) ? (ib ? 8 : k_subpel(cx)) : 0;
                    const int sy = (kind == 0 || kind == 2) ? (ib ? 8 : k_subpel(cx)) : 0;
                    const int do_avg = jnt ? ((v + szi + bdi) & 1) : 0;
                    const int wti = jnt ? (int)kr_n(cx, 9) : 0;       /* 0: plain average, 1..8: distance weights */
                    const int MX = 8, MY = 8;                       /* valid samples around the block (encoder: picture padding) */
                    const int sstride = k_stride_any(cx, (int)kr_n(cx, 4), w + 2 * MX);
                    const int dstride = k_stride_any(cx, (int)kr_n(cx, 4), w);
                    const int cstride = (w <= 64 && kr_n(cx, 2)) ? 64 : 128;
                    kc_par(cx, "w", w); kc_par(cx, "h", h); kc_par(cx, "bd", bd); kc_par(cx, "fx", fxi); kc_par(cx, "fy", fyi);
                    kc_par(cx, "ib", ib); kc_par(cx, "sx", sx); kc_par(cx, "sy", sy); kc_par(cx, "avg", do_avg); kc_par(cx, "wt", wti);
                    kc_par(cx, "sstride", sstride); kc_par(cx, "dstride", dstride); kc_par(cx, "cstride", cstride); kc_par(cx, "pa", pa); kc_par(cx, "pb", pb);

                    cx->next_off = (int)kr_n(cx, 64);
                    Buf *src = kb(cx, "src", KB_IN, elem, 0, w + 2 * MX, h + 2 * MY, sstride);
                    kb_fill(cx, src, pa, 0, mx);
                    cx->next_off = (int)kr_n(cx, 64);
                    Buf *dst = kb(cx, "dst", KB_OUT, elem, 0, w, h, dstride);
                    cx->next_align = 32;
                    Buf *cb = kb(cx, "conv_dst", (jnt && do_avg) ? KB_IN : KB_OUT, 2, 0, w, h, cstride);

                    KConvPrep *pp = kc_alloc(cx, sizeof(KConvPrep), 16);
                    pp->cp = kc_alloc(cx, sizeof(ConvolveParams), 16);
                    pp->fx = kc_alloc(cx, sizeof(InterpFilterParams), 16);
                    pp->fy = kc_alloc(cx, sizeof(InterpFilterParams), 16);
                    pp->mfx = av1_get_interp_filter_params_with_block_size((InterpFilter)fxi, w);
                    pp->mfy = av1_get_interp_filter_params_with_block_size((InterpFilter)fyi, h);
                    pp->master = get_conv_params_no_round(0, 0, 0, (ConvBufType *)cb->p, cstride, jnt, bd);
                    pp->master.ref = 0; pp->master.plane = 0; pp->master.fwd_offset = 0; pp->master.bck_offset = 0; pp->master.use_dist_wtd_comp_avg = 0;
                    if (jnt && wti) {
                        pp->master.use_jnt_comp_avg = 1; pp->master.use_dist_wtd_comp_avg = 1;
                        pp->master.fwd_offset = k_jnt_wts[wti - 1][0]; pp->master.bck_offset = k_jnt_wts[wti - 1][1];
                    }
                    if (jnt && do_avg) {
                        /* conv_dst = first prediction of the compound pair: C 2-D compound convolution (do_average = 0) of another source */
                        Buf *s0 = kb(cx, "src_first_pred", KB_IN, elem, 0, w + 2 * MX, h + 2 * MY, w + 2 * MX);
                        kb_fill(cx, s0, pb, 0, mx);
                        InterpFilterParams f0x = av1_get_interp_filter_params_with_block_size((InterpFilter)kr_n(cx, 4), w);
                        InterpFilterParams f0y = av1_get_interp_filter_params_with_block_size((InterpFilter)kr_n(cx, 4), h);
                        ConvolveParams c0 = pp->master;
                        const int s0x = (int)kr_n(cx, 16), s0y = (int)kr_n(cx, 16);
                        kc_dispatch(0);
                        if (hbd)
                            svt_av1_highbd_jnt_convolve_2d_c((uint16_t *)s0->p + MY * s0->stride + MX, s0->stride, (uint16_t *)dst->p, dstride, w, h,
                                                             &f0x, &f0y, s0x, s0y, &c0, bd);
                        else
                            svt_av1_jnt_convolve_2d_c(s0->p + MY * s0->stride + MX, s0->stride, dst->p, dstride, w, h, &f0x, &f0y, s0x, s0y, &c0);
                        pp->master.do_average = 1;
                    }
                    Args a; memset(&a, 0, sizeof(a));
                    a.p[0] = src->p + ((size_t)MY * sstride + MX) * elem; a.p[1] = dst->p; a.p[2] = (ib && kind == 2) ? NULL : pp->fx; a.p[3] = (ib && kind == 1) ? NULL : pp->fy; a.p[4] = pp->cp;
                    a.i[0] = sstride; a.i[1] = dstride; a.i[2] = w; a.i[3] = h; a.i[4] = sx; a.i[5] = sy; a.i[6] = bd;
                    kc_exec2(cx, &a, k_conv_prep, pp);
                }
}

/* ------------------------------------------------------------------ svt_aom_convolve8_horiz / _vert (k[0] = 1 for vert)
 * only caller: svt_aom_upsampled_pred (sub-pel ME): kernel = row (subpel_q3 << 1) of the REGULAR 8-tap / 4-tap / bilinear table */
static void h_convolve8(Cx *cx, const Entry *e) {
    const int vert = e->k[0];
    static const uint8_t sizes[][2] = { {4,4},{4,8},{8,4},{8,8},{8,16},{16,8},{16,16},{16,32},{32,16},{32,32},{32,64},{64,32},{64,64},{64,128},
        {128,64},{128,128},{4,16},{16,4},{8,32},{32,8},{16,64},{64,16} };
    static const int pats[] = { KP_HI, KP_LO, KP_CHECK, KP_COLS, KP_ROWS, KP_RAMP, KP_RAND, KP_OUTLIER, KP_NEAR };
    for (int pass = 0; pass < cx->passes; pass++)
        for (int szi = 0; szi < KARRAY(sizes); szi++)
            for (int ft = 0; ft < 3; ft++)                 /* USE_8_TAPS, USE_4_TAPS, USE_2_TAPS */
                for (int v = 0; v < 4; v++) {
                    if (!kc_case(cx)) continue;
                    const int w = sizes[szi][0], H = sizes[szi][1];
                    const int taps = ft == 0 ? 8 : 4;      /* filter_taps of svt_aom_upsampled_pred */
                    /* horiz: h = height, or the intermediate height (height - 1 + filter_taps) of the 2-D case */
                    const int h = (!vert && (v & 1)) ? H - 1 + taps : H;
                    const int pat = pass == 0 ? pats[(v + 4 * ft + 5 * szi) % KARRAY(pats)] : k_conv_rpats[kr_n(cx, 3)];
                    const int q3 = 1 + (int)kr_n(cx, 7);
                    const InterpKernel *tab = ft == 0 ? sub_pel_filters_8 : ft == 1 ? sub_pel_filters_4 : bilinear_filters;
                    const int16_t *kernel = tab[q3 << 1];
                    const int M = 8;
                    /* src: reference picture (any stride) or, for vert, the 128-stride temp of the 2-D case; dst: comp_pred (stride w) or temp (128) */
                    const int sstride = (vert && (v & 1)) ? 128 + 2 * M : k_stride_any(cx, (int)kr_n(cx, 4), w + 2 * M);
                    const int dstride = (!vert && (v & 1)) ? 128 : w;
                    kc_par(cx, "w", w); kc_par(cx, "h", h); kc_par(cx, "taps", ft == 0 ? 8 : ft == 1 ? 4 : 2); kc_par(cx, "q3", q3);
                    kc_par(cx, "sstride", sstride); kc_par(cx, "dstride", dstride); kc_par(cx, "pat", pat);
                    cx->next_off = (int)kr_n(cx, 64);
                    Buf *src = kb(cx, "src", KB_IN, 1, 0, w + 2 * M, h + 2 * M, sstride);
                    kb_fill(cx, src, pat, 0, 255);
                    cx->next_off = (int)kr_n(cx, 64);
                    Buf *dst = kb(cx, "dst", KB_OUT, 1, 0, w, h, dstride);
                    Args a; memset(&a, 0, sizeof(a));
                    a.p[0] = src->p + (size_t)M * sstride + M; a.p[1] = dst->p;
                    a.p[2] = vert ? NULL : (void *)kernel; a.p[3] = vert ? (void *)kernel : NULL;
                    a.i[0] = sstride; a.i[1] = dstride; a.i[2] = vert ? -1 : 16; a.i[3] = vert ? 16 : -1; a.i[4] = w; a.i[5] = h;
                    kc_exec(cx, &a);
                }
}

/* ------------------------------------------------------------------ loop restoration: Wiener (k[0] = hbd)
 * kernel types as test/wiener_convolve_test.cc: 0 all taps min, 1 all max, 2 random, 3 zero, 4 only tap2 max, 5 tap1+tap2 max; win 7/5/3 */
static void k_wiener_kernel(Cx *cx, int16_t *k, int type, int win) {
    int t0, t1, t2;
    switch (type) {
    case 0: t0 = WIENER_FILT_TAP0_MINV; t1 = WIENER_FILT_TAP1_MINV; t2 = WIENER_FILT_TAP2_MINV; break;
    case 1: t0 = WIENER_FILT_TAP0_MAXV; t1 = WIENER_FILT_TAP1_MAXV; t2 = WIENER_FILT_TAP2_MAXV; break;
    case 3: t0 = t1 = t2 = 0; break;
    case 4: t0 = t1 = 0; t2 = WIENER_FILT_TAP2_MAXV; break;
    case 5: t0 = 0; t1 = WIENER_FILT_TAP1_MAXV; t2 = WIENER_FILT_TAP2_MAXV; break;
    default:
        t0 = (int)kr_range(cx, WIENER_FILT_TAP0_MINV, WIENER_FILT_TAP0_MAXV);
        t1 = (int)kr_range(cx, WIENER_FILT_TAP1_MINV, WIENER_FILT_TAP1_MAXV);
        t2 = (int)kr_range(cx, WIENER_FILT_TAP2_MINV, WIENER_FILT_TAP2_MAXV);
        break;
    }
    if (win <= 5) t0 = 0;
    if (win <= 3) t1 = 0;
    k[0] = k[6] = (int16_t)t0; k[1] = k[5] = (int16_t)t1; k[2] = k[4] = (int16_t)t2; k[3] = (int16_t)(-2 * (t0 + t1 + t2)); k[7] = 0;
}
static void h_wiener(Cx *cx, const Entry *e) {
    const int hbd = e->k[0], elem = hbd ? 2 : 1;
    static const int bds[3] = { 8, 10, 12 };
    static const int ws[] = { 16, 32, 48, 64, 8, 24, 40, 56 };   /* encoder: multiples of 16 up to the 64-sample processing unit; 8-multiples as in the unit test */
    static const int hs[] = { 64, 56, 32, 28, 8, 4, 16, 48 };    /* stripe heights (luma 64, first 56, chroma 32/28, unit-boundary splits) */
    static const int pats[] = { KP_RAND, KP_HI, KP_LO, KP_CHECK, KP_COLS, KP_ROWS, KP_OUTLIER, KP_RAMP, KP_NEAR };
    for (int pass = 0; pass < cx->passes; pass++)
        for (int bdi = 0; bdi < (hbd ? 3 : 1); bdi++)
            for (int wi = 0; wi < KARRAY(ws); wi++)
                for (int kt = 0; kt < 6; kt++)
                    for (int wini = 0; wini < 3; wini++) {
                        if (pass > 0 && kt != 2) continue;            /* only the random kernels are worth repeating */
                        if (!kc_case(cx)) continue;
                        const int w = ws[wi], bd = hbd ? bds[bdi] : 8, win = 7 - 2 * wini;
                        const int64_t mx = (1 << bd) - 1;
                        const int hsel = (int)kr_n(cx, KARRAY(hs) + 4);
                        const int h = hsel < KARRAY(hs) ? hs[hsel] : 1 + (int)kr_n(cx, 64);
                        const int pat = pass == 0 ? pats[(kt + 6 * wini + 5 * wi + bdi) % KARRAY(pats)] : k_conv_rpats[kr_n(cx, 3)];
                        const int M = 8;
                        const int sstride = k_stride_any(cx, (int)kr_n(cx, 4), w + 2 * M), dstride = k_stride_any(cx, (int)kr_n(cx, 4), w);
                        /* vertical and horizontal window may differ when the search quantises an outer tap to 0 */
                        const int winv = kr_n(cx, 4) ? win : 7 - 2 * (int)kr_n(cx, 3);
                        kc_par(cx, "w", w); kc_par(cx, "h", h); kc_par(cx, "bd", bd); kc_par(cx, "ktype", kt); kc_par(cx, "winh", win); kc_par(cx, "winv", winv);
                        kc_par(cx, "sstride", sstride); kc_par(cx, "dstride", dstride); kc_par(cx, "pat", pat);
                        cx->next_off = (int)kr_n(cx, 64);
                        Buf *src = kb(cx, "src", KB_IN, elem, 0, w + 2 * M, h + 2 * M, sstride);
                        kb_fill(cx, src, pat, 0, mx);
                        cx->next_off = (int)kr_n(cx, 64);
                        Buf *dst = kb(cx, "dst", KB_OUT, elem, 0, w, h, dstride);
                        /* WienerInfo: two 16-byte aligned InterpKernels (vfilter, hfilter), anywhere inside a 256-byte line */
                        int16_t *kmem = kc_alloc(cx, 512, 256);
                        int16_t *kv = kmem + 8 * (int)kr_n(cx, 15), *kh = kv + 8;
                        k_wiener_kernel(cx, kh, kt, win); k_wiener_kernel(cx, kv, kt, winv);
                        for (int i = 0; i < 7; i++) { kc_par(cx, i == 0 ? "fh0" : i == 1 ? "fh1" : i == 2 ? "fh2" : i == 3 ? "fh3" : i == 4 ? "fv0" : i == 5 ? "fv1" : "fv2",
                                                             i < 4 ? kh[i] : kv[i - 4]); }
                        ConvolveParams *cp = kc_alloc(cx, sizeof(ConvolveParams), 16);
                        *cp = get_conv_params_wiener(bd);
                        cp->use_jnt_comp_avg = 0; cp->fwd_offset = 0; cp->bck_offset = 0; cp->use_dist_wtd_comp_avg = 0;
                        Args a; memset(&a, 0, sizeof(a));
                        uint8_t *sp = src->p + ((size_t)M * sstride + M) * elem;
                        a.p[0] = hbd ? K_BYTEPTR(sp) : sp; a.p[1] = hbd ? K_BYTEPTR(dst->p) : dst->p; a.p[2] = kh; a.p[3] = kv; a.p[4] = cp;
                        a.i[0] = sstride; a.i[1] = dstride; a.i[2] = w; a.i[3] = h; a.i[4] = bd;
                        kc_exec(cx, &a);
                    }
}

/* ------------------------------------------------------------------ loop restoration: self-guided filter
 * k[0] = 0: svt_av1_selfguided_restoration (flt0/flt1 outputs), 1: svt_apply_selfguided_restoration (pixels out, tmpbuf scratch).
 * K_SGR_ANYW=1 also generates widths that are not a multiple of the SIMD store width (8 ints / 16 pixels): there the AVX2 code writes
 * beyond `width` (up to the rounded width) and the C code does not -> reported as out/pad differences. */
static int32_t *k_sgr_tmp;     /* one RESTORATION_TMPBUF_SIZE scratch buffer; the part a call can touch is reset before every variant */
static void k_sgr_prep(Cx *cx, Args *a, void *u) {
    (void)cx; (void)u;
    const size_t n = ((size_t)a->i[0] + 16) * (size_t)a->i[1] + 64;     /* (w rounded up) * h + slack ints used of flt0 and of flt1 */
    memset(k_sgr_tmp, 0x5A, n * sizeof(int32_t));
    memset(k_sgr_tmp + RESTORATION_UNITPELS_MAX, 0x5A, n * sizeof(int32_t));
}
static void h_sgr(Cx *cx, const Entry *e) {
    const int apply = e->k[0];
    static const int pats[] = { KP_RAND, KP_HI, KP_LO, KP_CHECK, KP_COLS, KP_ROWS, KP_OUTLIER, KP_RAMP, KP_NEAR, KP_CONST };
    static const int hs[] = { 64, 56, 32, 28, 8, 4, 16, 48, 2, 1 };
    const char *env = getenv("K_SGR_ANYW");
    const int anyw = cx->ext || (env && env[0] == '1');   /* ext=1 on the command line or K_SGR_ANYW=1 */
    const int wstep = apply ? 16 : 8;
    for (int pass = 0; pass < cx->passes; pass++)
        for (int hb = 0; hb < 4; hb++)                       /* 8-bit, then 16-bit with bd 8, 10, 12 */
            for (int ep = 0; ep < SGRPROJ_PARAMS; ep++)
                for (int v = 0; v < 2; v++) {
                    if (!kc_case(cx)) continue;
                    const int highbd = hb > 0, bd = hb == 0 ? 8 : hb == 1 ? 8 : hb == 2 ? 10 : 12, elem = highbd ? 2 : 1;
                    const int64_t mx = (1 << bd) - 1;
                    int w = wstep * (1 + (int)kr_n(cx, (uint32_t)(64 / wstep)));
                    if (anyw && kr_n(cx, 2)) w = 1 + (int)kr_n(cx, 64);
                    const int hsel = (int)kr_n(cx, KARRAY(hs) + 4);
                    const int h = hsel < KARRAY(hs) ? hs[hsel] : 1 + (int)kr_n(cx, 64);
                    const int pat = pass == 0 ? pats[(v + 2 * ep + 3 * hb) % KARRAY(pats)] : k_conv_rpats[kr_n(cx, 3)];
                    const int M = 8;                         /* 3 valid samples around the unit are required (SGRPROJ_BORDER) */
                    const int sstride = k_stride_any(cx, (int)kr_n(cx, 4), w + 2 * M);
                    kc_par(cx, "w", w); kc_par(cx, "h", h); kc_par(cx, "highbd", highbd); kc_par(cx, "bd", bd); kc_par(cx, "ep", ep);
                    kc_par(cx, "sstride", sstride); kc_par(cx, "pat", pat);
                    cx->next_off = (int)kr_n(cx, 64);
                    Buf *src = kb(cx, "dgd", KB_IN, elem, 0, w + 2 * M, h + 2 * M, sstride);
                    kb_fill(cx, src, pat, 0, mx);
                    uint8_t *sp = src->p + ((size_t)M * sstride + M) * elem;
                    Args a; memset(&a, 0, sizeof(a));
                    a.p[0] = highbd ? K_BYTEPTR(sp) : sp;
                    if (!apply) {
                        /* flt_stride: w (apply_selfguided), ((unit_width + 7) & ~7) + 8 (search_selfguided_restoration) for a unit that ends here or is wider */
                        const int fsel = (int)kr_n(cx, 3);
                        const int fstride = fsel == 0 ? w : fsel == 1 ? ((w + 7) & ~7) + 8 : ((w + 64 * (1 + (int)kr_n(cx, 5)) + 7) & ~7) + 8;
                        kc_par(cx, "fstride", fstride);
                        cx->next_off = 8 * (int)kr_n(cx, 8);
                        Buf *f0 = kb(cx, "flt0", KB_OUT, 4, 1, w, h, fstride);
                        cx->next_off = 8 * (int)kr_n(cx, 8);
                        Buf *f1 = kb(cx, "flt1", KB_OUT, 4, 1, w, h, fstride);
                        a.p[1] = f0->p; a.p[2] = f1->p;
                        a.i[0] = w; a.i[1] = h; a.i[2] = sstride; a.i[3] = fstride; a.i[4] = ep; a.i[5] = bd; a.i[6] = highbd;
                    } else {
                        const int dstride = k_stride_any(cx, (int)kr_n(cx, 4), w);
                        kc_par(cx, "dstride", dstride);
                        cx->next_off = (int)kr_n(cx, 64);
                        Buf *dst = kb(cx, "dst", KB_OUT, elem, 0, w, h, dstride);
                        Buf *xqd = kb(cx, "xqd", KB_IN, 4, 1, 2, 1, 2);
                        const int xs = (int)kr_n(cx, 4);
                        const int64_t x0 = xs == 0 ? SGRPROJ_PRJ_MIN0 : xs == 1 ? SGRPROJ_PRJ_MAX0 : kr_range(cx, SGRPROJ_PRJ_MIN0, SGRPROJ_PRJ_MAX0);
                        const int64_t x1 = xs == 0 ? SGRPROJ_PRJ_MAX1 : xs == 1 ? SGRPROJ_PRJ_MIN1 : kr_range(cx, SGRPROJ_PRJ_MIN1, SGRPROJ_PRJ_MAX1);
                        kb_set(xqd, 0, 0, x0); kb_set(xqd, 1, 0, x1);
                        kc_par(cx, "xqd0", x0); kc_par(cx, "xqd1", x1);
                        /* tmpbuf: RESTORATION_TMPBUF_SIZE bytes, 32-byte aligned; documented scratch (flt0 | flt1), not compared */
                        if (!k_sgr_tmp) { k_sgr_tmp = aligned_alloc(64, (RESTORATION_TMPBUF_SIZE + 63) & ~(size_t)63); if (!k_sgr_tmp) abort(); }
                        a.p[1] = xqd->p; a.p[2] = highbd ? K_BYTEPTR(dst->p) : dst->p; a.p[3] = k_sgr_tmp;
                        a.i[0] = w; a.i[1] = h; a.i[2] = sstride; a.i[3] = ep; a.i[4] = dstride; a.i[5] = bd; a.i[6] = highbd;
                    }
                    kc_exec2(cx, &a, apply ? k_sgr_prep : NULL, NULL);
                }
}

/* ------------------------------------------------------------------ self-guided search kernels on a whole restoration unit:
 * k[0] = 0: svt_av1_lowbd_pixel_proj_error, 1: svt_av1_highbd_pixel_proj_error, 2: svt_get_proj_subspace
 * inputs as search_selfguided_restoration builds them: flt0/flt1 = C self-guided filter of dat8 in 64x64 processing units (apply_sgr),
 * flt_stride = ((width + 7) & ~7) + 8; the buffer of a radius-0 filter holds stale values of an earlier parameter set */
static void h_sgr_search(Cx *cx, const Entry *e) {
    const int fn = e->k[0];
    static const int pats[][2] = { { KP_RAND, KP_RAND }, { KP_NEAR, KP_NEAR }, { KP_HI, KP_LO }, { KP_LO, KP_HI }, { KP_CHECK, KP_CHECK_INV },
        { KP_CHECK, KP_CHECK }, { KP_OUTLIER, KP_OUTLIER }, { KP_COLS, KP_ROWS }, { KP_RAMP, KP_RAMP_REV }, { KP_HI, KP_HI }, { KP_CONST, KP_CONST } };
    /* svt_get_proj_subspace_avx2 works in 16-bit lanes ((sample << 4) must fit int16): bd 12 overflows -> only bd 8/10 (the encoder's depths)
     * unless K_SGR_BD12=1 */
    const char *env12 = getenv("K_SGR_BD12");
    const int nhb = fn == 0 ? 1 : fn == 1 ? 3 : (cx->ext || (env12 && env12[0] == '1')) ? 4 : 3;   /* ext=1 on the command line or K_SGR_BD12=1 */
    for (int pass = 0; pass < cx->passes; pass++)
        for (int hbi = 0; hbi < nhb; hbi++)
            for (int ep = 0; ep < SGRPROJ_PARAMS; ep++)
                for (int v = 0; v < (fn == 0 ? 3 : 1); v++) {
                    if (!kc_case(cx)) continue;
                    const int hb = fn == 0 ? 0 : fn == 1 ? hbi + 1 : hbi;     /* 0: 8-bit, 1..3: 16-bit with bd 8, 10, 12 */
                    const int highbd = hb > 0, bd = hb <= 1 ? 8 : hb == 2 ? 10 : 12, elem = highbd ? 2 : 1;
                    const int64_t mx = (1 << bd) - 1;
                    /* unit size: up to 1.5 * 256; usually a multiple of 4 (chroma) / 8 (luma), sometimes anything */
                    int w, h;
                    switch ((v + ep + hbi) % 3) {
                    case 0: w = 4 * (1 + (int)kr_n(cx, 12)); h = 4 * (1 + (int)kr_n(cx, 12)); break;
                    case 1: w = 8 * (1 + (int)kr_n(cx, 20)); h = 8 * (1 + (int)kr_n(cx, 9)); break;
                    default: if (kr_n(cx, 2)) { w = 8 * (16 + (int)kr_n(cx, 33)); h = 4 * (1 + (int)kr_n(cx, 6)); } else { h = 8 * (16 + (int)kr_n(cx, 33)); w = 4 * (1 + (int)kr_n(cx, 6)); } break;
                    }
                    if (kr_n(cx, 5) == 0) { w -= (int)kr_n(cx, 4); h -= (int)kr_n(cx, 4); if (w < 1) w = 1; if (h < 1) h = 1; }
                    const int pi = pass == 0 ? (v + 3 * ep + 5 * hbi) % KARRAY(pats) : (int)kr_n(cx, 2) * 6 /* rand or outlier */;
                    const int M = 8;
                    const int sstride = k_stride_any(cx, (int)kr_n(cx, 4), w), dstride = k_stride_any(cx, (int)kr_n(cx, 4), w + 2 * M);
                    const int fstride = ((w + 7) & ~7) + 8;
                    kc_par(cx, "w", w); kc_par(cx, "h", h); kc_par(cx, "highbd", highbd); kc_par(cx, "bd", bd); kc_par(cx, "ep", ep);
                    kc_par(cx, "sstride", sstride); kc_par(cx, "dstride", dstride); kc_par(cx, "fstride", fstride); kc_par(cx, "pats", pi);
                    cx->next_off = (int)kr_n(cx, 64);
                    Buf *src = kb(cx, "src", KB_IN, elem, 0, w, h, sstride);
                    cx->next_off = (int)kr_n(cx, 64);
                    Buf *dat = kb(cx, "dat_with_border", KB_IN, elem, 0, w + 2 * M, h + 2 * M, dstride);
                    kb_fill(cx, dat, pats[pi][0], 0, mx);
                    if (pats[pi][1] == KP_NEAR || pats[pi][1] == KP_CONST) {
                        /* realistic: source = degraded picture + small error */
                        for (int y = 0; y < h; y++)
                            for (int x = 0; x < w; x++) {
                                int64_t s = kb_get(dat, x + M, y + M) + kr_range(cx, -6, 6);
                                kb_set(src, x, y, s < 0 ? 0 : s > mx ? mx : s);
                            }
                    } else
                        kb_fill(cx, src, pats[pi][1], 0, mx);
                    Buf *f0 = kb(cx, "flt0", KB_IN, 4, 1, w, h, fstride);
                    cx->next_off = 4 * (int)kr_n(cx, 2);          /* flt1 = flt0 + RESTORATION_UNITPELS_MAX: 16-byte aligned only */
                    Buf *f1 = kb(cx, "flt1", KB_IN, 4, 1, w, h, fstride);
                    kb_fill_all(cx, f0, KP_RAND, 0, mx << SGRPROJ_RST_BITS);
                    kb_fill_all(cx, f1, KP_RAND, 0, mx << SGRPROJ_RST_BITS);
                    uint8_t *dp = dat->p + ((size_t)M * dstride + M) * elem;
                    kc_dispatch(0);
                    for (int i = 0; i < h; i += 64)
                        for (int j = 0; j < w; j += 64)
                            svt_av1_selfguided_restoration_c(highbd ? K_BYTEPTR(dp + ((size_t)i * dstride + j) * elem) : dp + (size_t)i * dstride + j,
                                                             AOMMIN(64, w - j), AOMMIN(64, h - i), dstride, (int32_t *)f0->p + (size_t)i * fstride + j,
                                                             (int32_t *)f1->p + (size_t)i * fstride + j, fstride, ep, bd, highbd);
                    SgrParamsType *params = kc_alloc(cx, sizeof(SgrParamsType), 16);
                    *params = eb_sgr_params[ep];
                    Args a; memset(&a, 0, sizeof(a));
                    a.p[0] = highbd ? K_BYTEPTR(src->p) : src->p; a.p[1] = highbd ? K_BYTEPTR(dp) : dp; a.p[2] = f0->p; a.p[3] = f1->p; a.p[5] = params;
                    if (fn == 2) {
                        Buf *xq = kb(cx, "xq", KB_OUT, 4, 1, 2, 1, 2);
                        a.p[4] = xq->p;
                        a.i[0] = w; a.i[1] = h; a.i[2] = sstride; a.i[3] = dstride; a.i[4] = highbd; a.i[5] = fstride; a.i[6] = fstride;
                    } else {
                        /* xq = svt_decode_xq(xqd) with xqd inside [SGRPROJ_PRJ_MIN, MAX] (finer_search_pixel_proj_error) */
                        Buf *xq = kb(cx, "xq", KB_IN, 4, 1, 2, 1, 2);
                        int32_t xqd[2], xqv[2];
                        const int xs = (int)kr_n(cx, 4);
                        xqd[0] = xs == 0 ? SGRPROJ_PRJ_MIN0 : xs == 1 ? SGRPROJ_PRJ_MAX0 : (int32_t)kr_range(cx, SGRPROJ_PRJ_MIN0, SGRPROJ_PRJ_MAX0);
                        xqd[1] = xs == 0 ? SGRPROJ_PRJ_MIN1 : xs == 1 ? SGRPROJ_PRJ_MAX1 : (int32_t)kr_range(cx, SGRPROJ_PRJ_MIN1, SGRPROJ_PRJ_MAX1);
                        svt_decode_xq(xqd, xqv, params);
                        kb_set(xq, 0, 0, xqv[0]); kb_set(xq, 1, 0, xqv[1]);
                        kc_par(cx, "xq0", xqv[0]); kc_par(cx, "xq1", xqv[1]);
                        a.p[4] = xq->p;
                        a.i[0] = w; a.i[1] = h; a.i[2] = sstride; a.i[3] = dstride; a.i[4] = fstride; a.i[5] = fstride;
                    }
                    kc_exec(cx, &a);
                }
}

/* ------------------------------------------------------------------ Wiener statistics: svt_av1_compute_stats / _highbd (k[0] = hbd) */
static void h_compute_stats(Cx *cx, const Entry *e) {
    const int hbd = e->k[0], elem = hbd ? 2 : 1;
    static const int bds[3] = { 8, 10, 12 };
    /* (dgd, src) pattern pairs: the unit test's zero / random / 0-or-max combinations plus realistic and structured ones */
    static const int pats[][2] = { { KP_RAND, KP_RAND }, { KP_NEAR, KP_NEAR }, { KP_COLS, KP_ROWS }, { KP_RAND, KP_LO }, { KP_LO, KP_RAND }, { KP_OUTLIER, KP_OUTLIER },
        { KP_HI, KP_HI }, { KP_LO, KP_LO }, { KP_CHECK, KP_CHECK_INV }, { KP_RAMP, KP_RAMP_REV }, { KP_HI, KP_LO } };
    for (int pass = 0; pass < cx->passes; pass++)
        for (int bdi = 0; bdi < (hbd ? 3 : 1); bdi++)
            for (int wini = 0; wini < 3; wini++)
                for (int v = 0; v < 8; v++) {
                    if (pass > 0 && v == 7) continue;      /* the large unit only once */
                    /* 16-bit: three bit depths share the budget: large unit only for bd 10, wide unit not for bd 12, tall unit not for bd 8 */
                    if (hbd && ((v == 7 && bdi != 1) || (v == 5 && bdi == 2) || (v == 6 && bdi == 0))) continue;
                    if (!kc_case(cx)) continue;
                    const int win = 7 - 2 * wini, win2 = win * win, bd = hbd ? bds[bdi] : 8;
                    const int64_t mx = (1 << bd) - 1;
                    int w, h;
                    switch (v) {
                    case 0: case 1: case 2: w = 1 + (int)kr_n(cx, 24); h = 1 + (int)kr_n(cx, 24); break;
                    case 3: case 4: w = 16 + 4 * (int)kr_n(cx, 15); h = 4 + 4 * (int)kr_n(cx, 6); break;
                    case 5: w = 200 + 8 * (int)kr_n(cx, 24); h = 2 + (int)kr_n(cx, 5); break;               /* up to 384 = 1.5 * RESTORATION_UNITSIZE_MAX */
                    case 6: w = 4 + (int)kr_n(cx, 7); h = 200 + 8 * (int)kr_n(cx, 24); break;
                    default:                                                                               /* large unit; size limited by the cost of the C reference */
                        if (win == 3) { w = 384; h = 384; } else if (win == 5) { w = 320; h = 64; } else { w = 384; h = 32; }
                        break;
                    }
                    int pi;
                    if (pass == 0) pi = v == 7 ? (hbd ? 0 : 2) : (v + 8 * wini + 3 * bdi) % KARRAY(pats);
                    else pi = (int)kr_n(cx, 6);
                    const int M = 8;                                           /* WIENER_HALFWIN (3) samples around the unit are read */
                    const int h_start = (int)kr_n(cx, 25), v_start = (int)kr_n(cx, 25);
                    const int dstride = k_stride_any(cx, (int)kr_n(cx, 4), w + 2 * M), sstride = k_stride_any(cx, (int)kr_n(cx, 4), w);
                    kc_par(cx, "win", win); kc_par(cx, "w", w); kc_par(cx, "h", h); kc_par(cx, "bd", bd); kc_par(cx, "h_start", h_start); kc_par(cx, "v_start", v_start);
                    kc_par(cx, "dstride", dstride); kc_par(cx, "sstride", sstride); kc_par(cx, "pats", pi);
                    cx->next_off = (int)kr_n(cx, 64);
                    Buf *dgd = kb(cx, "dgd_with_border", KB_IN, elem, 0, w + 2 * M, h + 2 * M, dstride);
                    cx->next_off = (int)kr_n(cx, 64);
                    Buf *src = kb(cx, "src", KB_IN, elem, 0, w, h, sstride);
                    kb_fill(cx, dgd, pats[pi][0], 0, mx);
                    if (pats[pi][1] == KP_NEAR) {
                        for (int y = 0; y < h; y++)
                            for (int x = 0; x < w; x++) {
                                int64_t s = kb_get(dgd, x + M, y + M) + kr_range(cx, -8, 8);
                                kb_set(src, x, y, s < 0 ? 0 : s > mx ? mx : s);
                            }
                    } else
                        kb_fill(cx, src, pats[pi][1], 0, mx);
                    cx->next_align = 32;
                    Buf *Mb = kb(cx, "M", KB_OUT, 8, 1, WIENER_WIN2, 1, WIENER_WIN2);
                    cx->next_align = 32;
                    Buf *Hb = kb(cx, "H", KB_OUT, 8, 1, WIENER_WIN2 * WIENER_WIN2, 1, WIENER_WIN2 * WIENER_WIN2);
                    kb_area(Mb, 0, 0, win2, 1); kb_area(Hb, 0, 0, win2 * win2, 1);
                    /* pointers address sample (0,0) of the plane; the unit is [h_start,h_start+w) x [v_start,v_start+h) */
                    uint8_t *d0 = dgd->p + (((ptrdiff_t)M - v_start) * dstride + (M - h_start)) * elem;
                    uint8_t *s0 = src->p + ((ptrdiff_t)(-v_start) * sstride - h_start) * elem;
                    Args a; memset(&a, 0, sizeof(a));
                    a.p[0] = hbd ? K_BYTEPTR(d0) : d0; a.p[1] = hbd ? K_BYTEPTR(s0) : s0; a.p[2] = Mb->p; a.p[3] = Hb->p;
                    a.i[0] = win; a.i[1] = h_start; a.i[2] = h_start + w; a.i[3] = v_start; a.i[4] = v_start + h; a.i[5] = dstride; a.i[6] = sstride; a.i[7] = bd;
                    kc_exec(cx, &a);
                }
}

/* ------------------------------------------------------------------ temporal filter: svt_av1_apply_temporal_filter_planewise(_hbd) (k[0] = hbd)
 * one 32x32 luma block (+ its 16x16 4:2:0 chroma blocks when tf_chroma) of the 64x64 temporal-filter block, as apply_filtering_block_plane_wise calls it */
static void h_tf(Cx *cx, const Entry *e) {
    const int hbd = e->k[0], elem = hbd ? 2 : 1;
    static const int pats[][2] = { { KP_RAND, KP_RAND }, { KP_NEAR, KP_NEAR }, { KP_HI, KP_LO }, { KP_CHECK, KP_CHECK_INV }, { KP_OUTLIER, KP_OUTLIER },
        { KP_LO, KP_LO }, { KP_RAMP, KP_RAMP }, { KP_COLS, KP_ROWS }, { KP_CONST, KP_CONST } };
    static struct MeContext *mc;
    if (!mc) { mc = calloc(1, sizeof(*mc)); if (!mc) abort(); }
    for (int pass = 0; pass < cx->passes; pass++)
        for (int bdi = 0; bdi < (hbd ? 2 : 1); bdi++)
            for (int v = 0; v < (hbd ? 12 : 24); v++) {
                if (!kc_case(cx)) continue;
                const int bd = hbd ? (bdi ? 10 : 8) : 8;         /* 16-bit pipeline carries 8- or 10-bit samples */
                const int64_t mx = (1 << bd) - 1;
                const int pi = pass == 0 ? (v + 5 * bdi) % KARRAY(pats) : (int)kr_n(cx, 2) * 4 + (kr_n(cx, 3) == 0);   /* rand / near / outlier / lo-lo */
                const int BWL = 32, BHL = 32, ss = 1;
                const int chroma = (v & 1);
                const int ystride = k_stride_any(cx, (int)kr_n(cx, 4), BWL), uvstride = k_stride_any(cx, (int)kr_n(cx, 4), BWL >> ss);
                const int ypstride = kr_n(cx, 4) ? 64 : 64 + 8 * (int)kr_n(cx, 9), uvpstride = ypstride >> ss;   /* pred/accum/count: BW x BH blocks */
                /* MeContext fields the kernels read */
                mc->tf_chroma = (uint8_t)chroma;
                mc->tf_block_row = (int)kr_n(cx, 2); mc->tf_block_col = (int)kr_n(cx, 2);
                mc->min_frame_size = (uint16_t)(kr_n(cx, 4) == 0 ? 64 + kr_n(cx, 200) : kr_n(cx, 2) ? 1080 : 240 + 8 * kr_n(cx, 250));
                const int emode = (int)kr_n(cx, 4);               /* block errors: zero, small, typical, very large */
                const uint64_t emax = emode == 0 ? 0 : emode == 1 ? 2000 : emode == 2 ? 200000 : (uint64_t)1024 * mx * mx;
                for (int i = 0; i < 4; i++) {
                    mc->tf_32x32_block_split_flag[i] = (int)kr_n(cx, 2);
                    mc->tf_32x32_block_error[i] = emax ? kr(cx) % (emax + 1) : 0;
                    const int mvr = kr_n(cx, 3) == 0 ? 8 : 600;
                    mc->tf_32x32_mv_x[i] = (signed short)kr_range(cx, -mvr, mvr); mc->tf_32x32_mv_y[i] = (signed short)kr_range(cx, -mvr, mvr);
                }
                for (int i = 0; i < 16; i++) {
                    mc->tf_16x16_block_error[i] = emax ? kr(cx) % (emax / 4 + 1) : 0;
                    const int mvr = kr_n(cx, 3) == 0 ? 8 : 600;
                    mc->tf_16x16_mv_x[i] = (signed short)kr_range(cx, -mvr, mvr); mc->tf_16x16_mv_y[i] = (signed short)kr_range(cx, -mvr, mvr);
                }
                const int idx = mc->tf_block_col + mc->tf_block_row * 2;
                const int decay = 2 + (int)kr_n(cx, 3);           /* 3 or 4 by resolution, minus 1 for low QP */
                kc_par(cx, "bd", bd); kc_par(cx, "chroma", chroma); kc_par(cx, "pats", pi); kc_par(cx, "ystride", ystride); kc_par(cx, "uvstride", uvstride);
                kc_par(cx, "ypstride", ypstride); kc_par(cx, "blk", idx); kc_par(cx, "split", mc->tf_32x32_block_split_flag[idx]);
                kc_par(cx, "err32", (int64_t)mc->tf_32x32_block_error[idx]); kc_par(cx, "mvx32", mc->tf_32x32_mv_x[idx]); kc_par(cx, "mvy32", mc->tf_32x32_mv_y[idx]);
                kc_par(cx, "minfs", mc->min_frame_size); kc_par(cx, "decay", decay);
                Buf *src[3], *pre[3], *acc[3], *cnt[3];
                static const char *const sn[3] = { "y_src", "u_src", "v_src" }, *const pn[3] = { "y_pre", "u_pre", "v_pre" },
                                 *const an[3] = { "y_accum", "u_accum", "v_accum" }, *const cn[3] = { "y_count", "u_count", "v_count" };
                /* frames already accumulated: count = sum of weights (<= 1000 each), accum = sum of weight * sample */
                const int nprev = (int)kr_n(cx, 7);
                for (int p = 0; p < 3; p++) {
                    const int w = p ? BWL >> ss : BWL, h = p ? BHL >> ss : BHL, sst = p ? uvstride : ystride, pst = p ? uvpstride : ypstride;
                    cx->next_off = (int)kr_n(cx, 64);
                    src[p] = kb(cx, sn[p], KB_IN, elem, 0, w, h, sst);
                    cx->next_off = (p ? 16 : 32) * (int)kr_n(cx, 2);
                    pre[p] = kb(cx, pn[p], KB_IN, elem, 0, w, h, pst);
                    cx->next_off = (p ? 16 : 32) * (int)kr_n(cx, 2);
                    acc[p] = kb(cx, an[p], (p == 0 || chroma) ? KB_INOUT : KB_OUT, 4, 0, w, h, pst);
                    cx->next_off = (p ? 16 : 32) * (int)kr_n(cx, 2);
                    cnt[p] = kb(cx, cn[p], (p == 0 || chroma) ? KB_INOUT : KB_OUT, 2, 0, w, h, pst);
                    kb_fill(cx, pre[p], pats[pi][0], 0, mx);
                    if (pats[pi][1] == KP_NEAR || pats[pi][1] == KP_CONST) {
                        const int amp = pats[pi][1] == KP_CONST ? 2 : 12;
                        for (int y = 0; y < h; y++)
                            for (int x = 0; x < w; x++) {
                                int64_t s = kb_get(pre[p], x, y) + kr_range(cx, -amp, amp);
                                kb_set(src[p], x, y, s < 0 ? 0 : s > mx ? mx : s);
                            }
                    } else
                        kb_fill(cx, src[p], pats[pi][1], 0, mx);
                    if (p == 0 || chroma)
                        for (int y = 0; y < h; y++)
                            for (int x = 0; x < w; x++) {
                                int64_t c = 0, a = 0;
                                for (int f = 0; f < nprev; f++) { const int64_t wt = kr_n(cx, 4) ? 1000 - (int64_t)kr_n(cx, 300) : (int64_t)kr_n(cx, 1001); c += wt; a += wt * kr_range(cx, 0, mx); }
                                kb_set(cnt[p], x, y, c); kb_set(acc[p], x, y, a);
                            }
                }
                Buf *nl = kb(cx, "noise_levels", KB_IN, 8, 0, 3, 1, 3);
                for (int p = 0; p < 3; p++) {
                    double nv = kr_n(cx, 12) == 0 ? -1.0 : kr_n(cx, 6) == 0 ? 0.0 : (double)kr_n(cx, 1000000) / 1000000.0 * (kr_n(cx, 3) ? 3.0 : 12.0);
                    memcpy(nl->p + 8 * p, &nv, 8);
                    kc_par(cx, p == 0 ? "noise0_e6" : p == 1 ? "noise1_e6" : "noise2_e6", (int64_t)(nv * 1e6));
                }
                Args a; memset(&a, 0, sizeof(a));
                a.p[0] = mc; a.p[1] = src[0]->p; a.p[2] = pre[0]->p; a.p[3] = src[1]->p; a.p[4] = src[2]->p; a.p[5] = pre[1]->p; a.p[6] = pre[2]->p; a.p[7] = nl->p;
                a.p[8] = acc[0]->p; a.p[9] = cnt[0]->p; a.p[10] = acc[1]->p; a.p[11] = cnt[1]->p; a.p[12] = acc[2]->p; a.p[13] = cnt[2]->p;
                a.i[0] = ystride; a.i[1] = ypstride; a.i[2] = uvstride; a.i[3] = uvpstride; a.i[4] = BWL; a.i[5] = BHL; a.i[6] = ss; a.i[7] = ss; a.i[8] = decay; a.i[9] = bd;
                kc_exec(cx, &a);
            }
}

/* ------------------------------------------------------------------ svt_aom_upsampled_pred (sub-pel ME prediction; xd / cm / mv are unused by both variants) */
static void h_upsampled_pred(Cx *cx, const Entry *e) {
    static const uint8_t sizes[][2] = { {4,4},{4,8},{8,4},{8,8},{8,16},{16,8},{16,16},{16,32},{32,16},{32,32},{32,64},{64,32},{64,64},{64,128},
        {128,64},{128,128},{4,16},{16,4},{8,32},{32,8},{16,64},{64,16} };
    static const int pats[] = { KP_HI, KP_LO, KP_CHECK, KP_COLS, KP_ROWS, KP_RAMP, KP_RAND, KP_OUTLIER, KP_NEAR };
    (void)e;
    for (int pass = 0; pass < cx->passes; pass++)
        for (int szi = 0; szi < KARRAY(sizes); szi++)
            for (int st = 1; st <= 3; st++)                /* USE_2_TAPS, USE_4_TAPS, USE_8_TAPS */
                for (int v = 0; v < 4; v++) {              /* full-pel, x only, y only, both */
                    if (!kc_case(cx)) continue;
                    const int w = sizes[szi][0], h = sizes[szi][1];
                    const int sx = (v & 1) ? 1 + (int)kr_n(cx, 7) : 0, sy = (v & 2) ? 1 + (int)kr_n(cx, 7) : 0;
                    const int pat = pass == 0 ? pats[(v + 4 * st + 5 * szi) % KARRAY(pats)] : k_conv_rpats[kr_n(cx, 3)];
                    const int M = 8;
                    const int rstride = k_stride_any(cx, (int)kr_n(cx, 4), w + 2 * M);
                    kc_par(cx, "w", w); kc_par(cx, "h", h); kc_par(cx, "subpel_search", st); kc_par(cx, "sx", sx); kc_par(cx, "sy", sy);
                    kc_par(cx, "rstride", rstride); kc_par(cx, "pat", pat);
                    cx->next_off = (int)kr_n(cx, 64);
                    Buf *ref = kb(cx, "ref", KB_IN, 1, 0, w + 2 * M, h + 2 * M, rstride);
                    kb_fill(cx, ref, pat, 0, 255);
                    cx->next_align = 16;
                    Buf *cp = kb(cx, "comp_pred", KB_OUT, 1, 0, w * h, 1, w * h);
                    MV *mv = kc_alloc(cx, sizeof(MV), 8);
                    mv->row = (int16_t)(8 * (int)kr_range(cx, -20, 20) + sy); mv->col = (int16_t)(8 * (int)kr_range(cx, -20, 20) + sx);
                    Args a; memset(&a, 0, sizeof(a));
                    a.p[0] = NULL; a.p[1] = NULL; a.p[2] = mv; a.p[3] = cp->p; a.p[4] = ref->p + (size_t)M * rstride + M;
                    a.i[0] = (int64_t)kr_n(cx, 64); a.i[1] = (int64_t)kr_n(cx, 64); a.i[2] = w; a.i[3] = h; a.i[4] = sx; a.i[5] = sy; a.i[6] = rstride; a.i[7] = st;
                    kc_exec(cx, &a);
                }
}

/* ------------------------------------------------------------------ warped motion: svt_av1_warp_affine / svt_av1_highbd_warp_affine (k[0] = hbd) */
static int32_t k_warp_param(Cx *cx, int bits) {      /* as random_warped_param of test/warp_filter_test_util.cc */
    if (kr_n(cx, 8) == 0) return 0;
    const int32_t v = 1 + (int32_t)kr_n(cx, 1u << bits);
    return kr_n(cx, 2) ? -v : v;
}
/* a model the encoder accepts: non-translational part within +-2^13 of the identity (find_affine_int clamp / global-motion parameter range),
 * shear parameters derived and validated by the encoder's svt_get_shear_params; translation set by the caller */
static void k_warp_model(Cx *cx, EbWarpedMotionParams *wm, int zeros) {
    for (;;) {
        memset(wm, 0, sizeof(*wm));
        int32_t *mat = wm->wmmat;
        const int kind = (int)kr_n(cx, 4);
        mat[2] = k_warp_param(cx, WARPEDMODEL_PREC_BITS - 3) + (1 << WARPEDMODEL_PREC_BITS);
        mat[3] = k_warp_param(cx, WARPEDMODEL_PREC_BITS - 3);
        if (kind == 2) { mat[4] = -mat[3]; mat[5] = mat[2]; wm->wmtype = ROTZOOM; }
        else {
            mat[4] = k_warp_param(cx, WARPEDMODEL_PREC_BITS - 3);
            mat[5] = k_warp_param(cx, WARPEDMODEL_PREC_BITS - 3) + (1 << WARPEDMODEL_PREC_BITS);
            wm->wmtype = AFFINE;
            if (kind == 3) {
                if (zeros & 1) mat[2] = 1 << WARPEDMODEL_PREC_BITS;
                if (zeros & 2) mat[3] = 0;
                if (zeros & 4) mat[4] = 0;
                if (zeros & 8) mat[5] = (int32_t)(((int64_t)mat[3] * mat[4] + (mat[2] / 2)) / mat[2]) + (1 << WARPEDMODEL_PREC_BITS);
            }
        }
        if (svt_get_shear_params(wm)) return;
    }
}
typedef struct KWarpPrep { ConvolveParams *cp, master; } KWarpPrep;
static void k_warp_prep(Cx *cx, Args *a, void *u) { KWarpPrep *p = (KWarpPrep *)u; (void)cx; (void)a; *p->cp = p->master; }

static void h_warp(Cx *cx, const Entry *e) {
    const int hbd = e->k[0], elem = hbd ? 2 : 1;
    static const int bds[3] = { 8, 10, 12 };
    /* luma blocks with min(w,h) >= 8 and the chroma of blocks with w,h >= 16 */
    static const uint8_t sizes[][2] = { {8,8},{8,16},{16,8},{16,16},{16,32},{32,16},{32,32},{32,64},{64,32},{64,64},{64,128},{128,64},{128,128},
        {8,32},{32,8},{16,64},{64,16} };
    static const int pats[] = { KP_RAND, KP_HI, KP_CHECK, KP_LO, KP_COLS, KP_OUTLIER, KP_ROWS, KP_RAMP, KP_NEAR };
    static const int picw[] = { 0, 8, 24, 48, 120 };     /* plane size = block size + one of these */
    const int NV = hbd ? 4 : 10;
    for (int pass = 0; pass < cx->passes; pass++)
        for (int szi = 0; szi < KARRAY(sizes); szi++)
            for (int bdi = 0; bdi < (hbd ? 3 : 1); bdi++)
                for (int v = 0; v < NV; v++) {
                    if (!kc_case(cx)) continue;
                    const int pw = sizes[szi][0], ph = sizes[szi][1];
                    const int bd = hbd ? bds[bdi] : 8;
                    const int64_t mx = (1 << bd) - 1;
                    const int pat = pass == 0 ? pats[(v + 3 * szi + 5 * bdi) % KARRAY(pats)] : k_conv_rpats[kr_n(cx, 3)];
                    const int ss = (pw <= 64 && ph <= 64) ? (int)kr_n(cx, 2) : 0;      /* 4:2:0 chroma plane or luma */
                    const int comp = (v + szi) % 3;                                      /* 0: single, 1: compound first, 2: compound second (average) */
                    const int wti = comp ? (int)kr_n(cx, 9) : 0;
                    /* plane dimensions: at least the block, multiples of 8 (luma) / 4 (chroma) */
                    const int W = pw + picw[kr_n(cx, KARRAY(picw))], H = ph + picw[kr_n(cx, KARRAY(picw))];
                    const int B = 16;                                                    /* horizontal picture padding present in the buffer */
                    const int stride = W + 2 * B + (kr_n(cx, 2) ? 0 : 1 + (int)kr_n(cx, 40));
                    const int p_col = 4 * (int)kr_n(cx, (uint32_t)((W - pw) / 4 + 1)), p_row = 4 * (int)kr_n(cx, (uint32_t)((H - ph) / 4 + 1));
                    const int p_stride = k_stride_any(cx, (int)kr_n(cx, 4), pw);
                    const int zeros = (int)kr_n(cx, 16);
                    EbWarpedMotionParams wm;
                    k_warp_model(cx, &wm, zeros);
                    /* translation: anywhere in the encoder's range [-2^23, 2^23) (WARPEDMODEL_TRANS_CLAMP), or chosen so that the block centre
                     * lands at a chosen place: inside the plane, on one of its four edges, or far outside */
                    {
                        const int64_t cx_l = (int64_t)(p_col + pw / 2) << ss, cy_l = (int64_t)(p_row + ph / 2) << ss;
                        const int where = (int)kr_n(cx, 8);
                        int64_t tx, ty;
                        if (where == 0) { tx = kr_range(cx, -(1 << 23), (1 << 23) - 1); ty = kr_range(cx, -(1 << 23), (1 << 23) - 1); }
                        else {
                            int64_t gx = kr_range(cx, 0, (int64_t)(W << ss) - 1), gy = kr_range(cx, 0, (int64_t)(H << ss) - 1);
                            if (where == 1) gx = kr_range(cx, -12, 12);
                            if (where == 2) gx = (int64_t)(W << ss) + kr_range(cx, -12, 12);
                            if (where == 3) gy = kr_range(cx, -12, 12);
                            if (where == 4) gy = (int64_t)(H << ss) + kr_range(cx, -12, 12);
                            if (where == 5) { gx = kr_n(cx, 2) ? -40 - (int64_t)kr_n(cx, 60) : (int64_t)(W << ss) + 40 + kr_n(cx, 60); }
                            tx = (gx << 16) + kr_range(cx, 0, 65535) - ((int64_t)wm.wmmat[2] * cx_l + (int64_t)wm.wmmat[3] * cy_l);
                            ty = (gy << 16) + kr_range(cx, 0, 65535) - ((int64_t)wm.wmmat[4] * cx_l + (int64_t)wm.wmmat[5] * cy_l);
                        }
                        if (tx < -(1 << 23)) tx = -(1 << 23); if (tx > (1 << 23) - 1) tx = (1 << 23) - 1;
                        if (ty < -(1 << 23)) ty = -(1 << 23); if (ty > (1 << 23) - 1) ty = (1 << 23) - 1;
                        wm.wmmat[0] = (int32_t)tx; wm.wmmat[1] = (int32_t)ty;
                    }
                    kc_par(cx, "pw", pw); kc_par(cx, "ph", ph); kc_par(cx, "bd", bd); kc_par(cx, "ss", ss); kc_par(cx, "comp", comp); kc_par(cx, "wt", wti);
                    kc_par(cx, "W", W); kc_par(cx, "H", H); kc_par(cx, "stride", stride); kc_par(cx, "p_col", p_col); kc_par(cx, "p_row", p_row);
                    kc_par(cx, "p_stride", p_stride); kc_par(cx, "m0", wm.wmmat[0]); kc_par(cx, "m1", wm.wmmat[1]); kc_par(cx, "m2", wm.wmmat[2]);
                    kc_par(cx, "m3", wm.wmmat[3]); kc_par(cx, "m4", wm.wmmat[4]); kc_par(cx, "m5", wm.wmmat[5]);
                    kc_par(cx, "alpha", wm.alpha); kc_par(cx, "beta", wm.beta); kc_par(cx, "gamma", wm.gamma); kc_par(cx, "delta", wm.delta); kc_par(cx, "pat", pat);

                    cx->next_off = (int)kr_n(cx, 32);
                    Buf *ref = kb(cx, "ref_plane_with_border", KB_IN, elem, 0, W + 2 * B, H, stride);
                    kb_fill_rect(cx, ref, 0, 0, B, H, KP_RAND, 0, mx);                  /* border: junk ... */
                    kb_fill_rect(cx, ref, B + W, 0, B, H, KP_RAND, 0, mx);
                    kb_fill_rect(cx, ref, B, 0, W, H, pat, 0, mx);
                    if (kr_n(cx, 2))                                                     /* ... or replicated edge samples as in a padded reference picture */
                        for (int y = 0; y < H; y++)
                            for (int x = 0; x < B; x++) { kb_set(ref, x, y, kb_get(ref, B, y)); kb_set(ref, B + W + x, y, kb_get(ref, B + W - 1, y)); }
                    cx->next_off = (int)kr_n(cx, 64);
                    Buf *pred = kb(cx, "pred", KB_OUT, elem, 0, pw, ph, p_stride);
                    cx->next_align = 32;
                    Buf *cb = kb(cx, "conv_dst", comp == 2 ? KB_IN : KB_OUT, 2, 0, pw, ph, 128);
                    int32_t *mat = kc_alloc(cx, 8 * sizeof(int32_t), 16);
                    memcpy(mat, wm.wmmat, 8 * sizeof(int32_t));
                    KWarpPrep *pp = kc_alloc(cx, sizeof(KWarpPrep), 16);
                    pp->cp = kc_alloc(cx, sizeof(ConvolveParams), 16);
                    pp->master = get_conv_params_no_round(0, 0, 0, comp ? (ConvBufType *)cb->p : NULL, 128, comp ? 1 : 0, bd);
                    pp->master.ref = 0; pp->master.plane = 0; pp->master.fwd_offset = 0; pp->master.bck_offset = 0; pp->master.use_dist_wtd_comp_avg = 0;
                    if (comp && wti) {
                        pp->master.use_jnt_comp_avg = 1; pp->master.use_dist_wtd_comp_avg = 1;
                        pp->master.fwd_offset = k_jnt_wts[wti - 1][0]; pp->master.bck_offset = k_jnt_wts[wti - 1][1];
                    }
                    uint8_t *refp = ref->p + (size_t)B * elem;
                    if (comp == 2) {
                        /* first prediction of the pair: C warp (do_average = 0) of the same plane with another valid model */
                        EbWarpedMotionParams w0;
                        k_warp_model(cx, &w0, (int)kr_n(cx, 16));
                        w0.wmmat[0] = (int32_t)kr_range(cx, -(1 << 22), 1 << 22); w0.wmmat[1] = (int32_t)kr_range(cx, -(1 << 22), 1 << 22);
                        ConvolveParams c0 = pp->master;
                        kc_dispatch(0);
                        if (hbd)
                            svt_av1_highbd_warp_affine_c(w0.wmmat, (uint16_t *)refp, W, H, stride, (uint16_t *)pred->p, p_col, p_row, pw, ph, p_stride, ss, ss, bd,
                                                         &c0, w0.alpha, w0.beta, w0.gamma, w0.delta);
                        else
                            svt_av1_warp_affine_c(w0.wmmat, refp, W, H, stride, pred->p, p_col, p_row, pw, ph, p_stride, ss, ss, &c0, w0.alpha, w0.beta,
                                                  w0.gamma, w0.delta);
                        pp->master.do_average = 1;
                    }
                    Args a; memset(&a, 0, sizeof(a));
                    a.p[0] = mat; a.p[1] = refp; a.p[2] = pred->p; a.p[3] = pp->cp;
                    int n = 0;
                    a.i[n++] = W; a.i[n++] = H; a.i[n++] = stride; a.i[n++] = p_col; a.i[n++] = p_row; a.i[n++] = pw; a.i[n++] = ph; a.i[n++] = p_stride;
                    a.i[n++] = ss; a.i[n++] = ss;
                    if (hbd) a.i[n++] = bd;
                    a.i[n++] = wm.alpha; a.i[n++] = wm.beta; a.i[n++] = wm.gamma; a.i[n++] = wm.delta;
                    kc_exec2(cx, &a, k_warp_prep, pp);
                }
}

#endif
