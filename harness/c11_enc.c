/* c11_enc — harness/enc_e2e.c (the in-process real encoder driver, same arguments and output lines) with LINE-buffered stdout:
 * under the sanitizers a run ends in _exit() from the sanitizer runtime, which would drop enc_e2e's 1 MiB stdout buffer and
 * with it the SETPARAM / PKT / ERR lines that say how far the encode got and whether the configuration was accepted. */
#include <stdio.h>
static int c11_setvbuf(FILE *f) { return (setvbuf)(f, NULL, _IOLBF, 0); }
#define setvbuf(f, b, m, n) c11_setvbuf(f)
#include "enc_e2e.c"
