/* C24 correspondence harness (see DESIGN.md "### C24").
 *
 * Runs REAL code from /repo:
 *   - enc_dec_segments_ctor / enc_dec_segments_init : EbEncDecSegments.c compiled as is (with EbThreads.c,
 *     EbMalloc.c, EbLog.c for mutex/alloc wrappers);
 *   - assign_enc_dec_segments : its source text is extracted from EbEncDecProcess.c by checks/c24.py
 *     (xlate/extract.py) into c24_assign_extracted.h and compiled here against the real structs, with the four
 *     OS/SRM calls redirected to hooks (mutex lock = scheduling point of a coroutine scheduler, empty-object/post
 *     = a task list);
 *   - the segment SB loop of mode_decision_kernel: the loop header is inside a 900-line function body, so it is
 *     transcribed between the SBLOOP markers below; checks/c24.py verifies on every run that each marked
 *     fragment still occurs verbatim (whitespace-normalised) in EbEncDecProcess.c.
 *
 * Line protocol (stdin), same canonical output as `svtmodel seg`:
 *   init W H C R MC MR V           -> "init ..." line (+ "oracle init ..." line: property evaluated on the real arrays)
 *   sched W H C R MC MR N SEED MODE V -> "ops ..." (the schedule that was executed, to be replayed by the model),
 *                                     "run ..." (chain digest + final state), "oracle sched ..." (property verdicts)
 *
 * Oracle of a sched op (computed from the real code's behaviour only): every segment handed out at most once and only
 * after all segments holding a left/top/top-left/top-right neighbour SB finished their SB loop (order_viol, double_start);
 * the run ends quiescent (all workers waiting, pool empty) with every valid segment finished (unfinished) and every SB of
 * the W x H grid processed exactly once by a finished segment (sb_unproc, sb_bad_owner).  There is no exempted grid:
 * a picture one SB wide (which hung before the clamp in enc_dec_segments_init, EbEncDecSegments.c:83) must complete
 * like any other.
 */
#include <stdio.h>
#include <stdlib.h>
#include <string.h>
#include <stdint.h>
#include <ucontext.h>
#include "EbEncDecSegments.h"
#include "EbEncDecTasks.h"

/* ---------------------------------------------------------------- hooks for the extracted assign function */
static EbErrorType hook_block_on_mutex(EbHandle m);
static EbErrorType hook_release_mutex(EbHandle m);
static EbErrorType hook_get_empty_object(EbFifo *f, EbObjectWrapper **w);
static EbErrorType hook_post_full_object(EbObjectWrapper *w);
#define svt_block_on_mutex hook_block_on_mutex
#define svt_release_mutex hook_release_mutex
#define svt_get_empty_object hook_get_empty_object
#define svt_post_full_object hook_post_full_object
#include "c24_assign_extracted.h" /* EbBool assign_enc_dec_segments(EncDecSegments*, uint16_t*, EncDecTasks*, EbFifo*) */
#undef svt_block_on_mutex
#undef svt_release_mutex
#undef svt_get_empty_object
#undef svt_post_full_object

/* ---------------------------------------------------------------- digests */
static uint64_t hmix(uint64_t h, uint64_t v) { return (h ^ v) * 1099511628211ULL; }
#define H0 1469598103934665603ULL

typedef struct { uint32_t *v; size_t n, cap; } Vec;
static void vpush(Vec *a, uint32_t x) {
    if (a->n == a->cap) { a->cap = a->cap ? a->cap * 2 : 256; a->v = realloc(a->v, a->cap * sizeof(uint32_t)); }
    a->v[a->n++] = x;
}
static void show(const char *name, Vec *a, int verbose) {
    if (!verbose) {
        uint64_t h = H0;
        for (size_t i = 0; i < a->n; i++) h = hmix(h, a->v[i]);
        printf("%s=#%llu", name, (unsigned long long)h);
    } else {
        printf("%s=[", name);
        for (size_t i = 0; i < a->n; i++) printf(i ? " %u" : "%u", a->v[i]);
        printf("]");
    }
}

/* ---------------------------------------------------------------- the SB loop (EbEncDecProcess.c:4405-4442, 4683) */
typedef void (*SbFn)(void *ctx, uint32_t seg, uint32_t x, uint32_t y);

/* returns 1 if the outer loop had to be cut (it has no bound on y in the C code) */
static int sb_loop(EncDecSegments *segments_ptr, uint16_t segment_index, uint16_t tile_group_width_in_sb, SbFn fn, void *ctx) {
    uint32_t x_sb_index, y_sb_index, x_sb_start_index, y_sb_start_index, sb_start_index, sb_segment_count,
        sb_segment_index, segment_row_index, segment_band_index, segment_band_size;
    uint32_t iter = 0;
    int      runaway = 0;
    /*SBLOOP-A-BEGIN*/
            x_sb_start_index = segments_ptr->x_start_array[segment_index];
            y_sb_start_index = segments_ptr->y_start_array[segment_index];
            sb_start_index = y_sb_start_index * tile_group_width_in_sb + x_sb_start_index;
            sb_segment_count = segments_ptr->valid_sb_count_array[segment_index];

            segment_row_index = segment_index / segments_ptr->segment_band_count;
            segment_band_index =
                segment_index - segment_row_index * segments_ptr->segment_band_count;
            segment_band_size = (segments_ptr->sb_band_count * (segment_band_index + 1) +
                                 segments_ptr->segment_band_count - 1) /
                                segments_ptr->segment_band_count;
    /*SBLOOP-A-END*/
    /*SBLOOP-B-BEGIN*/
            for (y_sb_index = y_sb_start_index, sb_segment_index = sb_start_index;
                 sb_segment_index < sb_start_index + sb_segment_count;
                 ++y_sb_index) {
                for (x_sb_index = x_sb_start_index;
                     x_sb_index < tile_group_width_in_sb &&
                     (x_sb_index + y_sb_index < segment_band_size) &&
                     sb_segment_index < sb_start_index + sb_segment_count;
                     ++x_sb_index, ++sb_segment_index) {
    /*SBLOOP-B-END*/
                    fn(ctx, segment_index, x_sb_index, y_sb_index);
                }
    /*SBLOOP-C-BEGIN*/
                x_sb_start_index = (x_sb_start_index > 0) ? x_sb_start_index - 1 : 0;
    /*SBLOOP-C-END*/
                /* model fuel: sb_row_count + 2 outer iterations */
                if (++iter >= segments_ptr->sb_row_count + 2) { runaway = 1; break; }
            }
    return runaway;
}

/* ---------------------------------------------------------------- init op */
typedef struct {
    uint32_t W, H;
    Vec      flat;      /* loop dump */
    int32_t *owner;     /* per SB: segment that processed it, -1 none, -2 more than once */
    uint32_t *pos;      /* per SB: position in processing order of its segment */
    uint32_t  cnt;      /* per-segment running position */
    uint32_t  outside;  /* SBs outside the picture visited */
    int       raster_bad;
    int64_t   last;     /* last raster index within the segment */
} LoopCtx;

static void rec_sb(void *c, uint32_t seg, uint32_t x, uint32_t y) {
    LoopCtx *L = (LoopCtx *)c;
    vpush(&L->flat, x);
    vpush(&L->flat, y);
    if (x >= L->W || y >= L->H) { L->outside++; return; }
    uint32_t i = y * L->W + x;
    L->owner[i] = (L->owner[i] == -1) ? (int32_t)seg : -2;
    L->pos[i] = L->cnt++;
    if ((int64_t)i <= L->last) L->raster_bad = 1;
    L->last = i;
}

static EncDecSegments *make_segments(uint32_t W, uint32_t H, uint32_t C, uint32_t R, uint32_t MC, uint32_t MR) {
    EncDecSegments *s = calloc(1, sizeof(*s));
    if (enc_dec_segments_ctor(s, MC, MR) != EB_ErrorNone) { fprintf(stderr, "ctor failed\n"); exit(3); }
    enc_dec_segments_init(s, C, R, W, H);
    return s;
}
static void free_segments(EncDecSegments *s) { s->dctor(s); free(s); }

/* neighbour segments (L, T, TL, TR inside the picture, other segment) of every segment, from the REAL loop output */
typedef struct { Vec *nb; uint32_t n; } NbSets;

static void do_init(uint32_t W, uint32_t H, uint32_t C, uint32_t R, uint32_t MC, uint32_t MR, int V) {
    EncDecSegments *s = make_segments(W, H, C, R, MC, MR);
    uint32_t ttl = s->segment_ttl_count;
    Vec valid = {0}, xs = {0}, ys = {0}, rows = {0}, dep = {0};
    for (uint32_t i = 0; i < ttl; i++) {
        vpush(&valid, s->valid_sb_count_array[i]);
        vpush(&xs, s->x_start_array[i]);
        vpush(&ys, s->y_start_array[i]);
        vpush(&dep, s->dep_map.dependency_map[i]);
    }
    for (uint32_t r = 0; r < s->segment_row_count; r++) {
        vpush(&rows, s->row_array[r].starting_seg_index);
        vpush(&rows, s->row_array[r].ending_seg_index);
        vpush(&rows, s->row_array[r].current_seg_index);
    }
    LoopCtx L; memset(&L, 0, sizeof(L));
    L.W = W; L.H = H;
    L.owner = malloc(sizeof(int32_t) * W * H);
    L.pos = malloc(sizeof(uint32_t) * W * H);
    for (uint32_t i = 0; i < W * H; i++) L.owner[i] = -1;
    int runaway = 0;
    for (uint32_t seg = 0; seg < ttl; seg++) {
        vpush(&L.flat, 4294967295u);
        vpush(&L.flat, seg);
        L.cnt = 0; L.last = -1;
        runaway += sb_loop(s, (uint16_t)seg, (uint16_t)W, rec_sb, &L);
    }
    printf("init %u %u %u %u %u %u : rows=%u bands=%u ttl=%u sbrows=%u sbbands=%u maxtotal=%u | ", W, H, C, R, MC, MR,
           s->segment_row_count, s->segment_band_count, ttl, s->sb_row_count, s->sb_band_count, s->segment_max_total_count);
    show("valid", &valid, V); printf(" ");
    show("xs", &xs, V); printf(" ");
    show("ys", &ys, V); printf(" ");
    show("rows", &rows, V); printf(" ");
    show("dep", &dep, V); printf(" | ");
    show("loop", &L.flat, V);
    printf(" runaway=%d\n", runaway);

    /* property oracle on the real outputs */
    uint32_t uncovered = 0, multi = 0, wrongseg = 0, first_bad = 0xffffffffu;
    for (uint32_t y = 0; y < H; y++)
        for (uint32_t x = 0; x < W; x++) {
            uint32_t i = y * W + x;
            unsigned band = BAND_INDEX(x, y, s->segment_band_count, s->sb_band_count);
            unsigned row = ROW_INDEX(y, s->segment_row_count, s->sb_row_count);
            unsigned sg = SEGMENT_INDEX(row, band, s->segment_band_count);
            int bad = 0;
            if (L.owner[i] == -1) { uncovered++; bad = 1; }
            else if (L.owner[i] == -2) { multi++; bad = 1; }
            else if ((unsigned)L.owner[i] != sg) { wrongseg++; bad = 1; }
            if (bad && first_bad == 0xffffffffu) first_bad = i;
        }
    /* bands contiguous: no invalid segment inside a row's [starting, ending]; nothing valid outside; dep <= 2 */
    uint32_t holes = 0, strays = 0, depmax = 0, inrange = 0;
    for (uint32_t i = 0; i < ttl; i++) {
        uint32_t r = i / s->segment_band_count;
        int in = i >= s->row_array[r].starting_seg_index && i <= s->row_array[r].ending_seg_index;
        if (in) inrange++;
        if (in && !s->valid_sb_count_array[i]) holes++;
        if (!in && s->valid_sb_count_array[i]) strays++;
        if (s->dep_map.dependency_map[i] > depmax) depmax = s->dep_map.dependency_map[i];
    }
    printf("oracle init %u %u %u %u %u %u : uncovered=%u multi=%u wrongseg=%u outside=%u raster_bad=%d runaway=%d first_bad=%d "
           "holes=%u strays=%u depmax=%u inrange=%u alloc_ok=%d\n",
           W, H, C, R, MC, MR, uncovered, multi, wrongseg, L.outside, L.raster_bad, runaway, (int)first_bad, holes, strays,
           depmax, inrange, ttl <= s->segment_max_total_count);
    free(valid.v); free(xs.v); free(ys.v); free(rows.v); free(dep.v); free(L.flat.v); free(L.owner); free(L.pos);
    free_segments(s);
}

/* ---------------------------------------------------------------- sched op: coroutine workers around the real assign */
enum { W_NEW = 0, W_TAKE, W_RUN, W_RIGHT, W_BOTTOM };
#define MAXW 64
#define STACKSZ (256 * 1024)
typedef struct {
    ucontext_t   ctx;
    char *       stack;
    int          st;
    uint16_t     segment_index; /* the kernel thread's local `segment_index` */
    EncDecTasks *task;
    int          fin_seg;       /* segment whose CONTINUE call is in flight, -1 none */
    int          owned_new;     /* segment already accounted as handed out to this worker */
} Worker;
static Worker          wk[MAXW];
static ucontext_t      sched_ctx;
static int             cur_w;
static EncDecSegments *G;
static EncDecTasks **  pool;
static uint32_t        pool_n, pool_cap;

static void yield_to_sched(void) { swapcontext(&wk[cur_w].ctx, &sched_ctx); }

static EbErrorType hook_block_on_mutex(EbHandle m) {
    Worker * w = &wk[cur_w];
    uint32_t r = (uint32_t)w->fin_seg / G->segment_band_count;
    w->st = (m == G->row_array[r].assignment_mutex) ? W_RIGHT : W_BOTTOM;
    yield_to_sched(); /* the critical section that follows runs without interruption until the next hook */
    return EB_ErrorNone;
}
static EbErrorType hook_release_mutex(EbHandle m) { (void)m; return EB_ErrorNone; }
static EbErrorType hook_get_empty_object(EbFifo *f, EbObjectWrapper **wp) {
    (void)f;
    EbObjectWrapper *w = calloc(1, sizeof(*w));
    w->object_ptr = calloc(1, sizeof(EncDecTasks));
    *wp = w;
    return EB_ErrorNone;
}
static void pool_push(EncDecTasks *t) {
    if (pool_n == pool_cap) { pool_cap = pool_cap ? pool_cap * 2 : 16; pool = realloc(pool, pool_cap * sizeof(*pool)); }
    pool[pool_n++] = t;
}
static EbErrorType hook_post_full_object(EbObjectWrapper *w) {
    pool_push((EncDecTasks *)w->object_ptr);
    free(w);
    return EB_ErrorNone;
}

static void worker_main(int wi) {
    Worker *w = &wk[wi];
    w->segment_index = 0; /* mode_decision_kernel:4346 */
    for (;;) {
        w->st = W_TAKE;
        w->fin_seg = -1;
        yield_to_sched(); /* EB_GET_FULL_OBJECT: the scheduler hands over a task */
        EncDecTasks *t = w->task;
        while (assign_enc_dec_segments(G, &w->segment_index, t, (EbFifo *)0) == EB_TRUE) {
            w->st = W_RUN;
            yield_to_sched(); /* SB loop of w->segment_index */
            w->fin_seg = w->segment_index;
        }
        free(t);
    }
}

static uint64_t rng_s;
static uint64_t rng_next(void) {
    rng_s += 0x9E3779B97F4A7C15ULL;
    uint64_t z = rng_s;
    z = (z ^ (z >> 30)) * 0xBF58476D1CE4E5B9ULL;
    z = (z ^ (z >> 27)) * 0x94D049BB133111EBULL;
    return z ^ (z >> 31);
}

static void do_sched(uint32_t W, uint32_t H, uint32_t C, uint32_t R, uint32_t MC, uint32_t MR, uint32_t N, uint64_t seed,
                     int mode, int V) {
    G = make_segments(W, H, C, R, MC, MR);
    uint32_t ttl = G->segment_ttl_count, B = G->segment_band_count, Rr = G->segment_row_count;
    if (N > MAXW) N = MAXW;
    rng_s = seed;
    /* neighbour-segment sets and per-segment SB counts from the real loop */
    LoopCtx L; memset(&L, 0, sizeof(L));
    L.W = W; L.H = H;
    L.owner = malloc(sizeof(int32_t) * W * H);
    L.pos = malloc(sizeof(uint32_t) * W * H);
    for (uint32_t i = 0; i < W * H; i++) L.owner[i] = -1;
    for (uint32_t seg = 0; seg < ttl; seg++) { L.cnt = 0; L.last = -1; sb_loop(G, (uint16_t)seg, (uint16_t)W, rec_sb, &L); }
    Vec *nb = calloc(ttl ? ttl : 1, sizeof(Vec));
    static const int dx[4] = {-1, 0, -1, 1}, dy[4] = {0, -1, -1, -1};
    for (uint32_t y = 0; y < H; y++)
        for (uint32_t x = 0; x < W; x++) {
            int32_t me = L.owner[y * W + x];
            if (me < 0) continue;
            for (int k = 0; k < 4; k++) {
                int64_t nx = (int64_t)x + dx[k], ny = (int64_t)y + dy[k];
                if (nx < 0 || ny < 0 || nx >= W || ny >= H) continue;
                int32_t o = L.owner[ny * W + nx];
                if (o < 0 || o == me) continue;
                Vec *v = &nb[me];
                int  dup = 0;
                for (size_t j = 0; j < v->n; j++) if (v->v[j] == (uint32_t)o) { dup = 1; break; }
                if (!dup) vpush(v, (uint32_t)o);
            }
        }
    uint8_t *ph = calloc(ttl + 1, 1), *finished = calloc(ttl + 1, 1);
    uint32_t order_viol = 0, double_start = 0, first_viol_seg = 0, first_viol_nb = 0, started = 0, err = 0;

    pool_n = 0;
    EncDecTasks *mdc = calloc(1, sizeof(*mdc));
    mdc->input_type = ENCDEC_TASKS_MDC_INPUT;
    pool_push(mdc);
    for (uint32_t i = 0; i < N; i++) {
        memset(&wk[i], 0, sizeof(Worker));
        wk[i].stack = malloc(STACKSZ);
        getcontext(&wk[i].ctx);
        wk[i].ctx.uc_stack.ss_sp = wk[i].stack;
        wk[i].ctx.uc_stack.ss_size = STACKSZ;
        wk[i].ctx.uc_link = &sched_ctx;
        wk[i].owned_new = -1;
        makecontext(&wk[i].ctx, (void (*)(void))worker_main, 1, (int)i);
        cur_w = (int)i;
        swapcontext(&sched_ctx, &wk[i].ctx); /* run to the first EB_GET_FULL_OBJECT */
    }
    Vec      ops = {0}; /* pairs (kind, arg) */
    uint64_t chain = H0;
    uint32_t nops = 0, limit = 8 * ttl + 64;
    int      last_w = -1;
    for (;;) {
        int en[MAXW], ne = 0;
        for (uint32_t i = 0; i < N; i++)
            if (wk[i].st != W_TAKE || pool_n > 0) en[ne++] = (int)i;
        if (ne == 0 || nops >= limit) break;
        int pick;
        switch (mode) {
        case 1: pick = en[0]; break;                                  /* lowest id first */
        case 2: pick = en[ne - 1]; break;                             /* highest id first */
        case 3: {                                                     /* starve workers waiting for a mutex */
            int c[MAXW], nc = 0;
            for (int i = 0; i < ne; i++) if (wk[en[i]].st != W_RIGHT && wk[en[i]].st != W_BOTTOM) c[nc++] = en[i];
            pick = nc ? c[rng_next() % nc] : en[rng_next() % ne];
            break;
        }
        case 4: {                                                     /* delay feedback pick-up */
            int c[MAXW], nc = 0;
            for (int i = 0; i < ne; i++) if (wk[en[i]].st != W_TAKE) c[nc++] = en[i];
            pick = nc ? c[rng_next() % nc] : en[rng_next() % ne];
            break;
        }
        case 5: {                                                     /* keep running the same worker when possible */
            pick = -1;
            for (int i = 0; i < ne; i++) if (en[i] == last_w && (rng_next() % 8)) pick = last_w;
            if (pick < 0) pick = en[rng_next() % ne];
            break;
        }
        case 6: {                                                     /* critical sections first */
            int c[MAXW], nc = 0;
            for (int i = 0; i < ne; i++) if (wk[en[i]].st == W_RIGHT || wk[en[i]].st == W_BOTTOM) c[nc++] = en[i];
            pick = nc ? c[rng_next() % nc] : en[rng_next() % ne];
            break;
        }
        default: pick = en[rng_next() % ne]; break;
        }
        last_w = pick;
        Worker * w = &wk[pick];
        uint32_t s = 0;
        int      kind = w->st;
        if (kind == W_TAKE) {
            uint32_t k = (mode == 1) ? 0 : (mode == 2) ? pool_n - 1 : (uint32_t)(rng_next() % pool_n);
            w->task = pool[k];
            memmove(&pool[k], &pool[k + 1], (pool_n - k - 1) * sizeof(*pool));
            pool_n--;
            vpush(&ops, 'T'); vpush(&ops, k);
        } else {
            s = (kind == W_RUN) ? w->segment_index : (uint32_t)w->fin_seg;
            vpush(&ops, kind == W_RUN ? 'F' : kind == W_RIGHT ? 'R' : 'B');
            vpush(&ops, s);
            if (kind == W_RUN) finished[s < ttl ? s : ttl] = 1;
        }
        cur_w = pick;
        swapcontext(&sched_ctx, &w->ctx);
        nops++;
        /* account what the worker did */
        int fin = (kind == W_TAKE) ? -1 : (int)s;
        int newseg = -1;
        if (w->st == W_RUN) newseg = w->segment_index;
        else if (w->st == W_BOTTOM && w->segment_index != (uint16_t)w->fin_seg) newseg = w->segment_index;
        if (fin >= 0 && (uint32_t)fin < ttl) ph[fin] = (w->st == W_RIGHT) ? 2 : (w->st == W_BOTTOM) ? 3 : 4;
        if (newseg >= 0 && newseg != w->owned_new) {
            started++;
            if ((uint32_t)newseg >= ttl || ph[newseg] != 0) { double_start++; err = 1; }
            else {
                ph[newseg] = 1;
                for (size_t j = 0; j < nb[newseg].n; j++)
                    if (!finished[nb[newseg].v[j]]) {
                        if (!order_viol) { first_viol_seg = (uint32_t)newseg; first_viol_nb = nb[newseg].v[j]; }
                        order_viol++;
                    }
            }
            w->owned_new = newseg;
        }
        if (w->st == W_TAKE) w->owned_new = -1;
        /* per-step digest (same cells as Driver/Segments.lean:stepDigest) */
        uint64_t h = chain;
        for (uint32_t r = 0; r < Rr; r++) h = hmix(h, G->row_array[r].current_seg_index);
        h = hmix(h, 77);
        for (uint32_t i = 0; i < pool_n; i++)
            h = hmix(h, pool[i]->input_type == ENCDEC_TASKS_MDC_INPUT ? 65535u : (uint32_t)pool[i]->enc_dec_segment_row);
        h = hmix(h, err);
#define DEPAT(i) ((i) < ttl ? G->dep_map.dependency_map[i] : 0u)
#define PHAT(i) ((i) < ttl ? ph[i] : 0u)
        h = hmix(h, DEPAT(s + 1)); h = hmix(h, DEPAT(s + B)); h = hmix(h, PHAT(s)); h = hmix(h, PHAT(s + 1)); h = hmix(h, PHAT(s + B));
        chain = h;
    }
    int quiescent = 1;
    for (uint32_t i = 0; i < N; i++) if (wk[i].st != W_TAKE || pool_n > 0) quiescent = 0;
    printf("ops %u %u %u %u %u %u :", W, H, C, R, MC, MR);
    for (size_t i = 0; i + 1 < ops.n; i += 2) printf(" %c%u", (char)ops.v[i], ops.v[i + 1]);
    printf("\n");
    Vec dep = {0}, cur = {0}, pl = {0}, phv = {0};
    for (uint32_t i = 0; i < ttl; i++) { vpush(&dep, G->dep_map.dependency_map[i]); vpush(&phv, ph[i]); }
    for (uint32_t r = 0; r < Rr; r++) vpush(&cur, G->row_array[r].current_seg_index);
    for (uint32_t i = 0; i < pool_n; i++)
        vpush(&pl, pool[i]->input_type == ENCDEC_TASKS_MDC_INPUT ? 65535u : (uint32_t)pool[i]->enc_dec_segment_row);
    printf("run %u %u %u %u %u %u : nops=%u status=ok chain=%llu err=%u quiescent=%s | ", W, H, C, R, MC, MR, nops,
           (unsigned long long)chain, err, quiescent ? "true" : "false");
    show("dep", &dep, V); printf(" ");
    show("cur", &cur, V); printf(" ");
    show("pool", &pl, 1); printf(" ");
    show("ph", &phv, V); printf("\n");
    uint32_t unfinished = 0, first_unf = 0, sbs_done = 0;
    for (uint32_t i = 0; i < ttl; i++) {
        if (G->valid_sb_count_array[i] && ph[i] != 4) { if (!unfinished) first_unf = i; unfinished++; }
        if (ph[i] == 4) sbs_done += G->valid_sb_count_array[i];
    }
    /* SB level: every SB of the grid belongs to exactly one segment's loop, and that segment has finished */
    uint32_t sb_unproc = 0, sb_bad_owner = 0, first_unproc_sb = 0xffffffffu;
    for (uint32_t i = 0; i < W * H; i++) {
        int32_t o = L.owner[i];
        if (o < 0) { sb_bad_owner++; if (first_unproc_sb == 0xffffffffu) first_unproc_sb = i; }
        else if (ph[o] != 4) { sb_unproc++; if (first_unproc_sb == 0xffffffffu) first_unproc_sb = i; }
    }
    printf("oracle sched %u %u %u %u %u %u %u %llu %d : rows=%u order_viol=%u viol_seg=%u viol_nb=%u double_start=%u quiescent=%d "
           "unfinished=%u first_unfinished=%u sbs_done=%u sbs_total=%u started=%u sb_unproc=%u sb_bad_owner=%u first_unproc_sb=%d\n",
           W, H, C, R, MC, MR, N, (unsigned long long)seed, mode, Rr, order_viol, first_viol_seg, first_viol_nb, double_start,
           quiescent, unfinished, first_unf, sbs_done, W * H, started, sb_unproc, sb_bad_owner, (int)first_unproc_sb);
    for (uint32_t i = 0; i < N; i++) { if (wk[i].st != W_TAKE && wk[i].task) free(wk[i].task); free(wk[i].stack); }
    for (uint32_t i = 0; i < pool_n; i++) free(pool[i]);
    for (uint32_t i = 0; i < ttl; i++) free(nb[i].v);
    free(nb); free(ph); free(finished); free(ops.v); free(dep.v); free(cur.v); free(pl.v); free(phv.v);
    free(L.flat.v); free(L.owner); free(L.pos);
    free_segments(G);
}

int main(void) {
    char line[512];
    while (fgets(line, sizeof line, stdin)) {
        unsigned           W, H, C, R, MC, MR, N, mode, V;
        unsigned long long seed;
        if (sscanf(line, "init %u %u %u %u %u %u %u", &W, &H, &C, &R, &MC, &MR, &V) == 7) {
            if (!W || !H || !C || !R || !MC || !MR || C > MC) { printf("bad-op\n"); continue; }
            do_init(W, H, C, R, MC, MR, (int)V);
        } else if (sscanf(line, "sched %u %u %u %u %u %u %u %llu %u %u", &W, &H, &C, &R, &MC, &MR, &N, &seed, &mode, &V) == 10) {
            if (!W || !H || !C || !R || !MC || !MR || C > MC || !N) { printf("bad-op\n"); continue; }
            do_sched(W, H, C, R, MC, MR, N, seed, (int)mode, (int)V);
        } else
            printf("bad-op\n");
        fflush(stdout);
    }
    return 0;
}
