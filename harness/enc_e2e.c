/* enc_e2e — drives the REAL SVT-AV1 encoder (and decoder) in-process.
 *
 *   enc_e2e key=value ...      one encode per process; canonical result lines on stdout.
 *
 * Input synthesis, call pattern and every random choice derive from `seed` (splitmix64).
 * Lines:
 *   HDR size crc                         stream header (svt_av1_enc_stream_header)
 *   PKT i pts dts flags pic_type qp size crc luma_sse cb_sse cr_sse priv
 *   HEX i <hex bytes>                    (hex=1)
 *   RECON i pts size crc flags
 *   DEC i crc w h bd                     decoder output pictures in output order
 *   CMP pts MATCH|MISMATCH plane off     decoder output vs encoder recon (by display position)
 *   SSE ndec pkt pts f luma cb cr        (sse=1) sum of squared differences between the SUBMITTED picture of that pts (regenerated
 *                                        with sample_at) and the picture the real decoder output for packet pkt; uint64 in full
 *   SSEREC ndec pkt pts f luma cb cr     (sse=1 recon=1) the same against the encoder's own reconstruction matched to that output by CMP
 *   SRCHEX|DECHEX ndec plane w h <hex>   (dumpsse=k>0: for the outputs with (ndec + seed) % k == 0) both visible planes, row-major,
 *                                        2 hex digits per sample (bd=8) or 4 (bd>8), so the Lean model can recompute the SSE
 *   ERR <what>                           anything abnormal
 *   END packets=N recons=M decoded=K
 * C21 options: padseed=<n> seeds the random stride-padding bytes (padfill=-1) independently of the content seed;
 *   tight=1 allocates each caller plane with exactly (rows-1)*stride + width samples (no stride padding after the last row).
 *   guard=1 puts every caller plane directly in front of an inaccessible page and, right after svt_av1_enc_send_picture
 *   returns, makes the whole plane inaccessible (instead of freeing it): any later access by the library, and any read past
 *   the end of a plane, faults; the handler prints `GUARDFAULT kind=past-end|after-send plane=<0..2> frame=<f> off=<bytes>`
 *   and exits with code 9.
 * C27 option: final_nb=1 replaces the blocking final drain by non-blocking polling (svt_av1_enc_get_packet(..., 0) / svt_av1_get_recon
 *   every ~300 us) until the EOS packet has been received.  callseed=<n> seeds the random call pattern (drain=3, delay_us)
 *   independently of the content seed.
 * Exit code: 0 normal; 3 watchdog timeout (prints TIMEOUT first).
 */
#include <stdio.h>
#include <stdlib.h>
#include <string.h>
#include <stdint.h>
#include <unistd.h>
#include <signal.h>
#include <inttypes.h>
#include <sys/mman.h>
#include "EbSvtAv1Enc.h"
#include "EbSvtAv1Dec.h"
#include "cfg_fields.h"

typedef struct { uint64_t s; } Rng;
static uint64_t rnd(Rng *r) {
    uint64_t z = (r->s += 0x9E3779B97F4A7C15ull);
    z = (z ^ (z >> 30)) * 0xBF58476D1CE4E5B9ull;
    z = (z ^ (z >> 27)) * 0x94D049BB133111EBull;
    return z ^ (z >> 31);
}
static uint64_t fnv(const uint8_t *p, size_t n, uint64_t h) {
    for (size_t i = 0; i < n; i++) { h ^= p[i]; h *= 0x100000001b3ull; }
    return h;
}
#define FNV0 0xcbf29ce484222325ull

typedef struct {
    int w, h, n, bd, content, stride_extra, padfill, scribble, drain, drain_k, recon, decode, hex, dec_threads,
        dec16, watchdog, dirty, eos, pts_base, pts_step, delay_us, annexb, noinit_defaults, fg_skip, dumpcfg, padseed, tight, guard;
    int sse, dumpsse;                       /* C26: print SSE / SRCHEX / DECHEX lines for every decoded picture */
    int final_nb, callseed, cr_extra;                 /* C27: non-blocking final drain; seed of the random call pattern (0: derived from seed) */
    uint64_t seed;
} Params;

/* decimal literal of any 64-bit value, signed or unsigned (atoll saturates above LLONG_MAX) */
static long long parse_ll(const char *s) { return s[0] == '-' ? strtoll(s, NULL, 10) : (long long)strtoull(s, NULL, 10); }

static int set_cfg_field(EbSvtAv1EncConfiguration *c, const char *name, long long v) {
#define X(f) if (!strcmp(name, #f)) { c->f = v; return 1; }
    CFG_SCALARS(X)
#undef X
    /* arrays: name[idx] */
    {
        char base[128]; int idx;
        if (sscanf(name, "%127[^[][%d]", base, &idx) == 2) {
#define X(f, n) if (!strcmp(base, #f) && idx >= 0 && idx < n) { c->f[idx] = v; return 1; }
            CFG_ARRAYS(X)
#undef X
        }
    }
    return 0;
}

static void dump_cfg(const EbSvtAv1EncConfiguration *c) {
#define X(f) printf("CFG %s %lld\n", #f, (long long)c->f);
    CFG_SCALARS(X)
#undef X
#define X(f, n) for (int i_ = 0; i_ < n; i_++) printf("CFG %s[%d] %lld\n", #f, i_, (long long)c->f[i_]);
    CFG_ARRAYS(X)
#undef X
    printf("CFG rc_twopass_stats_in.buf %lld\nCFG rc_twopass_stats_in.sz %lld\n",
           (long long)(intptr_t)c->rc_twopass_stats_in.buf, (long long)c->rc_twopass_stats_in.sz);
    printf("CFG pred_struct.crc %016" PRIx64 "\n", fnv((const uint8_t *)c->pred_struct, sizeof(c->pred_struct), FNV0));
}

/* ---- picture synthesis: sample value at (frame f, plane p, x, y), in [0, 2^bd) ---- */
static uint32_t hash3(uint64_t seed, int f, int p, int x, int y) {
    uint64_t z = seed ^ ((uint64_t)f << 40) ^ ((uint64_t)p << 36) ^ ((uint64_t)y << 18) ^ (uint64_t)x;
    z += 0x9E3779B97F4A7C15ull; z = (z ^ (z >> 30)) * 0xBF58476D1CE4E5B9ull;
    z = (z ^ (z >> 27)) * 0x94D049BB133111EBull; return (uint32_t)(z ^ (z >> 31));
}
static int sample_at(const Params *P, int f, int p, int x, int y) {
    int maxv = (1 << P->bd) - 1;
    int sx = p ? x * 2 : x, sy = p ? y * 2 : y;
    switch (P->content) {
    case 0: return hash3(P->seed, f, p, x, y) & maxv;                                   /* noise */
    case 1: return p ? (maxv + 1) / 2 : ((60 + 3 * f) << (P->bd - 8)) & maxv;           /* flat */
    case 2: return ((sx + 2 * sy + 5 * f) << (P->bd - 8)) & maxv;                        /* gradient / pan */
    case 3: return (((sx >> 2) + (sy >> 2) + f) & 1) ? maxv : 0;                          /* extreme checker */
    case 4: {                                                                           /* moving textured blocks */
        int bx = (sx + 3 * f) >> 4, by = (sy + f) >> 4;
        int base = (hash3(P->seed, 0, p, bx, by) & 0xff) << (P->bd - 8);
        int tex = (hash3(P->seed, 0, p, sx + 3 * f, sy + f) & 7) << (P->bd - 8);
        int v = base + tex; return v > maxv ? maxv : v; }
    case 5: {                                                                           /* screen-like: few colours, sharp edges, repeats */
        int cell = hash3(P->seed, 0, 0, (sx >> 3) % 6, (sy >> 3) % 5) & 3;
        static const int pal[4] = {16, 235, 128, 60};
        int v = pal[(cell + (((sx & 7) == 0 || (sy & 7) == 0) ? 1 : 0) + (f >> 2)) & 3];
        if (p) v = pal[(cell + p) & 3];
        return (v << (P->bd - 8)) & maxv; }
    case 6: return maxv;                                                                /* all max */
    case 7: return 0;                                                                   /* all min */
    default: return 0;
    }
}

typedef struct { uint8_t *luma, *cb, *cr; size_t ysz, csz, crsz; } Pic;

/* ---- guard-page allocation of the caller's planes (guard=1) ---- */
typedef struct { uint8_t *base; size_t maplen; uint8_t *buf; size_t size; int plane, frame, released; } GuardRegion;
static GuardRegion guards[4096]; static int nguards;
static void on_segv(int sig, siginfo_t *si, void *ctx) {
    (void)sig; (void)ctx;
    char msg[200]; int n = 0;
    uint8_t *a = (uint8_t *)si->si_addr;
    for (int i = 0; i < nguards; i++) {
        GuardRegion *g = &guards[i];
        if (a >= g->base && a < g->base + g->maplen) {
            n = snprintf(msg, sizeof(msg), "GUARDFAULT kind=%s plane=%d frame=%d off=%ld size=%zu\n",
                         (a >= g->buf + g->size) ? "past-end" : g->released ? "after-send" : "before-start", g->plane, g->frame,
                         (long)(a - g->buf), g->size);
            break;
        }
    }
    if (!n) n = snprintf(msg, sizeof(msg), "SEGV addr=%p (not a guarded caller plane)\n", (void *)a);
    if (write(1, msg, (size_t)n)) {}
    _exit(9);
}
static uint8_t *guard_alloc(size_t size, int plane, int frame) {
    size_t pg = (size_t)sysconf(_SC_PAGESIZE);
    size_t body = (size + pg - 1) / pg * pg;
    uint8_t *base = mmap(NULL, body + pg, PROT_READ | PROT_WRITE, MAP_PRIVATE | MAP_ANONYMOUS, -1, 0);
    if (base == MAP_FAILED || nguards >= 4096) { printf("ERR guard-alloc\n"); exit(0); }
    mprotect(base + body, pg, PROT_NONE);
    GuardRegion *g = &guards[nguards++];
    g->base = base; g->maplen = body + pg; g->buf = base + (body - size); g->size = size; g->plane = plane; g->frame = frame; g->released = 0;
    return g->buf;
}
static void guard_release(uint8_t *buf) {
    for (int i = 0; i < nguards; i++)
        if (guards[i].buf == buf && !guards[i].released) { guards[i].released = 1; mprotect(guards[i].base, guards[i].maplen, PROT_NONE); return; }
}

static void make_pic(const Params *P, int f, EbSvtIOFormat *io, Pic *pic, Rng *padrng) {
    int bps = P->bd > 8 ? 2 : 1;
    int ys = P->w + P->stride_extra, cs = P->w / 2 + P->stride_extra / 2;
    int crs = cs + P->cr_extra;          /* cr_extra=<n>: the Cr plane gets its own line stride (cb_stride != cr_stride is a valid EbSvtIOFormat) */
    int ch = P->h / 2, cw = P->w / 2;
    pic->ysz = (size_t)ys * P->h * bps; pic->csz = (size_t)cs * ch * bps; pic->crsz = (size_t)crs * ch * bps;
    if (P->tight) { pic->ysz = ((size_t)ys * (P->h - 1) + P->w) * bps; pic->csz = ((size_t)cs * (ch - 1) + cw) * bps; pic->crsz = ((size_t)crs * (ch - 1) + cw) * bps; }
    if (P->guard) { pic->luma = guard_alloc(pic->ysz, 0, f); pic->cb = guard_alloc(pic->csz, 1, f); pic->cr = guard_alloc(pic->crsz, 2, f); }
    else { pic->luma = malloc(pic->ysz); pic->cb = malloc(pic->csz); pic->cr = malloc(pic->crsz); }
    uint8_t *pl[3] = {pic->luma, pic->cb, pic->cr};
    for (int p = 0; p < 3; p++) {
        int W = p ? cw : P->w, H = p ? ch : P->h, S = p == 2 ? crs : p ? cs : ys;
        for (int y = 0; y < H; y++)
            for (int x = 0; x < S; x++) {
                int v;
                if (P->tight && y == H - 1 && x >= W) break;
                if (x < W) v = sample_at(P, f, p, x, y);
                else v = P->padfill >= 0 ? (P->padfill | (bps == 2 ? (P->padfill & 3) << 8 : 0)) : (int)(rnd(padrng) & ((1 << P->bd) - 1));
                if (bps == 1) pl[p][(size_t)y * S + x] = (uint8_t)v;
                else ((uint16_t *)pl[p])[(size_t)y * S + x] = (uint16_t)v;
            }
    }
    memset(io, 0, sizeof(*io));
    io->luma = pic->luma; io->cb = pic->cb; io->cr = pic->cr;
    io->y_stride = ys; io->cb_stride = cs; io->cr_stride = crs;
    io->width = P->w; io->height = P->h; io->color_fmt = EB_YUV420; io->bit_depth = P->bd > 8 ? EB_TEN_BIT : EB_EIGHT_BIT;
}
static void scribble_free(Pic *pic, Rng *r, int guard) {
    memset(pic->luma, (int)(rnd(r) & 0xff), pic->ysz); memset(pic->cb, (int)(rnd(r) & 0xff), pic->csz);
    memset(pic->cr, (int)(rnd(r) & 0xff), pic->crsz);
    if (guard) { guard_release(pic->luma); guard_release(pic->cb); guard_release(pic->cr); }
    else { free(pic->luma); free(pic->cb); free(pic->cr); }
}

/* ---- collected outputs ---- */
typedef struct { uint8_t *data; uint32_t size; int64_t pts; uint32_t flags; } Pkt;
typedef struct { uint8_t *data; uint32_t size; int64_t pts; } Rec;
static Pkt *pkts; static int npkts, cap_pkts;
static Rec *recs; static int nrecs, cap_recs;
static int got_eos_pkt, got_eos_recon;

static void on_timeout(int sig) { (void)sig; static const char m[] = "TIMEOUT\n"; if (write(1, m, sizeof(m) - 1)) {} _exit(3); }

static void handle_packet(const Params *P, EbBufferHeaderType *b) {
    if (got_eos_pkt) printf("ERR packet-after-eos\n");
    printf("PKT %d %" PRId64 " %" PRId64 " %u %u %u %u %016" PRIx64 " %u %u %u %" PRIdPTR "\n", npkts, b->pts, b->dts, b->flags,
           b->pic_type, b->qp, b->n_filled_len, fnv(b->p_buffer, b->n_filled_len, FNV0), b->luma_sse, b->cb_sse, b->cr_sse,
           (intptr_t)b->p_app_private);
    if (b->flags & ~(uint32_t)(EB_BUFFERFLAG_EOS | EB_BUFFERFLAG_SHOW_EXT | EB_BUFFERFLAG_HAS_TD | EB_BUFFERFLAG_IS_ALT_REF))
        printf("ERR error-packet flags=%08x\n", b->flags);
    if (P->hex) {
        printf("HEX %d ", npkts);
        for (uint32_t i = 0; i < b->n_filled_len; i++) printf("%02x", b->p_buffer[i]);
        printf("\n");
    }
    if (npkts == cap_pkts) { cap_pkts = cap_pkts ? cap_pkts * 2 : 64; pkts = realloc(pkts, cap_pkts * sizeof(Pkt)); }
    pkts[npkts].data = malloc(b->n_filled_len ? b->n_filled_len : 1); memcpy(pkts[npkts].data, b->p_buffer, b->n_filled_len);
    pkts[npkts].size = b->n_filled_len; pkts[npkts].pts = b->pts; pkts[npkts].flags = b->flags; npkts++;
    if (b->flags & EB_BUFFERFLAG_EOS) got_eos_pkt = 1;
}
static int poll_packets(const Params *P, EbComponentType *h, int blocking) {
    int got = 0;
    for (;;) {
        EbBufferHeaderType *b = NULL;
        EbErrorType e = svt_av1_enc_get_packet(h, &b, (uint8_t)blocking);
        if (e == EB_NoErrorEmptyQueue || b == NULL) { if (e != EB_NoErrorEmptyQueue && e != EB_ErrorNone) printf("ERR get_packet %x\n", e); break; }
        if (e != EB_ErrorNone) printf("ERR get_packet %x\n", e);
        handle_packet(P, b); got++;
        svt_av1_enc_release_out_buffer(&b);
        if (blocking) break;
    }
    return got;
}
static int poll_recon(const Params *P, EbComponentType *h, EbBufferHeaderType *rb) {
    int got = 0;
    if (!P->recon) return 0;
    for (;;) {
        EbErrorType e = svt_av1_get_recon(h, rb);
        if (e == EB_NoErrorEmptyQueue) break;
        if (e != EB_ErrorNone) { printf("ERR get_recon %x\n", e); break; }
        printf("RECON %d %" PRId64 " %u %016" PRIx64 " %u\n", nrecs, rb->pts, rb->n_filled_len, fnv(rb->p_buffer, rb->n_filled_len, FNV0), rb->flags);
        if (nrecs == cap_recs) { cap_recs = cap_recs ? cap_recs * 2 : 64; recs = realloc(recs, cap_recs * sizeof(Rec)); }
        recs[nrecs].data = malloc(rb->n_filled_len ? rb->n_filled_len : 1); memcpy(recs[nrecs].data, rb->p_buffer, rb->n_filled_len);
        recs[nrecs].size = rb->n_filled_len; recs[nrecs].pts = rb->pts; nrecs++; got++;
        if (rb->flags & EB_BUFFERFLAG_EOS) got_eos_recon = 1;
    }
    return got;
}

/* ---- C26: true SSE between the submitted picture (regenerated) and the decoder's output picture ---- */
static void sse_report(const Params *P, int ndec, int pkt, const EbSvtIOFormat *io, const char *kw) {
    int64_t pts = pkts[pkt].pts;
    if (P->pts_step == 0 || (pts - P->pts_base) % P->pts_step) { printf("ERR sse-pts-not-a-submitted-pts pkt=%d pts=%" PRId64 "\n", pkt, pts); return; }
    int64_t f64 = (pts - P->pts_base) / P->pts_step;
    if (f64 < 0 || f64 >= P->n) { printf("ERR sse-pts-out-of-range pkt=%d pts=%" PRId64 "\n", pkt, pts); return; }
    int f = (int)f64;
    const uint8_t *pl[3] = {io->luma, io->cb, io->cr};
    int strides[3] = {(int)io->y_stride, (int)io->cb_stride, (int)io->cr_stride};
    uint64_t sse[3] = {0, 0, 0};
    int dump = !strcmp(kw, "SSE") && P->dumpsse > 0 && (((uint64_t)ndec + P->seed) % (uint64_t)P->dumpsse) == 0;
    for (int p = 0; p < 3; p++) {
        int W = p ? P->w / 2 : P->w, H = p ? P->h / 2 : P->h;
        for (int y = 0; y < H; y++)
            for (int x = 0; x < W; x++) {
                int64_t s = sample_at(P, f, p, x, y);
                int64_t d = P->bd > 8 ? ((const uint16_t *)pl[p])[(size_t)y * strides[p] + x] : pl[p][(size_t)y * strides[p] + x];
                sse[p] += (uint64_t)((s - d) * (s - d));
            }
        if (dump) {
            for (int which = 0; which < 2; which++) {
                printf("%s %d %d %d %d ", which ? "DECHEX" : "SRCHEX", ndec, p, W, H);
                for (int y = 0; y < H; y++)
                    for (int x = 0; x < W; x++) {
                        int v = which ? (P->bd > 8 ? ((const uint16_t *)pl[p])[(size_t)y * strides[p] + x] : pl[p][(size_t)y * strides[p] + x])
                                      : sample_at(P, f, p, x, y);
                        if (P->bd > 8) printf("%04x", v); else printf("%02x", v);
                    }
                printf("\n");
            }
        }
    }
    printf("%s %d %d %" PRId64 " %d %" PRIu64 " %" PRIu64 " %" PRIu64 "\n", kw, ndec, pkt, pts, f, sse[0], sse[1], sse[2]);
}

static int decode_all(const Params *P) {
    EbSvtAv1DecConfiguration dc; EbComponentType *dh = NULL;
    memset(&dc, 0, sizeof(dc));
    if (svt_av1_dec_init_handle(&dh, NULL, &dc) != EB_ErrorNone) { printf("ERR dec_init_handle\n"); return 0; }
    dc.max_picture_width = P->w; dc.max_picture_height = P->h;
    dc.max_bit_depth = P->bd > 8 ? EB_TEN_BIT : EB_EIGHT_BIT; dc.max_color_format = EB_YUV420;
    dc.threads = P->dec_threads; dc.is_16bit_pipeline = P->dec16; dc.skip_film_grain = P->fg_skip; dc.eight_bit_output = 0;
    if (svt_av1_dec_set_parameter(dh, &dc) != EB_ErrorNone) { printf("ERR dec_set_parameter\n"); return 0; }
    if (svt_av1_dec_init(dh) != EB_ErrorNone) { printf("ERR dec_init\n"); svt_av1_dec_deinit_handle(dh); return 0; }
    int bps = P->bd > 8 ? 2 : 1;
    EbBufferHeaderType ob; EbSvtIOFormat io; memset(&ob, 0, sizeof(ob)); memset(&io, 0, sizeof(io));
    size_t ysz = (size_t)P->w * P->h * bps;
    io.luma = malloc(ysz); io.cb = malloc(ysz / 4 + 16); io.cr = malloc(ysz / 4 + 16);
    io.y_stride = P->w; io.cb_stride = P->w / 2; io.cr_stride = P->w / 2; io.width = P->w; io.height = P->h;
    io.bit_depth = dc.max_bit_depth; io.color_fmt = EB_YUV420;
    ob.p_buffer = (uint8_t *)&io; ob.size = sizeof(ob);
    EbAV1StreamInfo si; EbAV1FrameInfo fi; memset(&si, 0, sizeof(si)); memset(&fi, 0, sizeof(fi));
    int ndec = 0;
    uint8_t *used = calloc(nrecs + 1, 1);
    for (int i = 0; i < npkts; i++) {
        EbErrorType e = svt_av1_dec_frame(dh, pkts[i].data, pkts[i].size, 0);
        if (e != EB_ErrorNone) printf("ERR dec_frame pkt=%d code=%x\n", i, e);
        /* the API delivers at most one picture per svt_av1_dec_frame call (as DecApp uses it) */
        if (svt_av1_dec_get_picture(dh, &ob, &si, &fi) != EB_DecNoOutputPicture) {
            uint64_t c = fnv(io.luma, ysz, FNV0); c = fnv(io.cb, ysz / 4, c); c = fnv(io.cr, ysz / 4, c);
            printf("DEC %d %016" PRIx64 " %u %u %d pkt=%d\n", ndec, c, si.max_picture_width, si.max_picture_height, P->bd, i);
            if (P->sse) sse_report(P, ndec, i, &io, "SSE");
            /* compare with the recon of the same display position: the ndec-th output corresponds to packet i's pts position,
               recon carries pts = display order number */
            if (P->recon) {
                int found = -1;
                for (int r = 0; r < nrecs; r++) if (recs[r].pts == (int64_t)ndec && !used[r]) { found = r; break; }
                if (found < 0) printf("CMP %d NORECON\n", ndec);
                else {
                    used[found] = 1;
                    const uint8_t *rp = recs[found].data;
                    if (P->sse && recs[found].size == ysz + ysz / 2) {       /* same SSE against the encoder's own reconstruction of that picture */
                        EbSvtIOFormat rio = io;
                        rio.luma = (uint8_t *)rp; rio.cb = (uint8_t *)rp + ysz; rio.cr = (uint8_t *)rp + ysz + ysz / 4;
                        sse_report(P, ndec, i, &rio, "SSEREC");
                    }
                    if (recs[found].size != ysz + ysz / 2) printf("CMP %d SIZE recon=%u expect=%zu\n", ndec, recs[found].size, ysz + ysz / 2);
                    else if (!memcmp(rp, io.luma, ysz) && !memcmp(rp + ysz, io.cb, ysz / 4) && !memcmp(rp + ysz + ysz / 4, io.cr, ysz / 4))
                        printf("CMP %d MATCH\n", ndec);
                    else {
                        size_t off = 0; int plane = 0;
                        const uint8_t *dp[3] = {io.luma, io.cb, io.cr}; size_t sz[3] = {ysz, ysz / 4, ysz / 4}; const uint8_t *q = rp;
                        for (plane = 0; plane < 3; plane++) { for (off = 0; off < sz[plane] && q[off] == dp[plane][off]; off++) {} if (off < sz[plane]) break; q += sz[plane]; }
                        printf("CMP %d MISMATCH plane=%d off=%zu\n", ndec, plane, off);
                    }
                }
            }
            ndec++;
        }
    }
    free(used);
    svt_av1_dec_deinit(dh); svt_av1_dec_deinit_handle(dh);
    free(io.luma); free(io.cb); free(io.cr);
    return ndec;
}

int main(int argc, char **argv) {
    Params P; memset(&P, 0, sizeof(P));
    P.w = 64; P.h = 64; P.n = 3; P.bd = 8; P.padfill = 0; P.drain = 0; P.drain_k = 3; P.recon = 1; P.decode = 1; P.dec_threads = 1;
    P.watchdog = 120; P.dirty = -1; P.eos = 1; P.pts_step = 1; P.seed = 1;
    static EbSvtAv1EncConfiguration cfg;
    /* first pass: harness params (config fields need the handle's defaults first) */
    for (int i = 1; i < argc; i++) {
        char *eq = strchr(argv[i], '='); if (!eq) continue;
        *eq = 0; const char *k = argv[i]; long long v = parse_ll(eq + 1);
#define PAR(name) if (!strcmp(k, #name)) P.name = (int)v;
        PAR(w) PAR(h) PAR(n) PAR(bd) PAR(content) PAR(stride_extra) PAR(padfill) PAR(scribble) PAR(drain) PAR(drain_k) PAR(recon)
        PAR(decode) PAR(hex) PAR(dec_threads) PAR(dec16) PAR(watchdog) PAR(dirty) PAR(eos) PAR(pts_base) PAR(pts_step) PAR(delay_us)
        PAR(fg_skip) PAR(dumpcfg) PAR(padseed) PAR(tight) PAR(guard)
        PAR(sse) PAR(dumpsse)
        PAR(final_nb) PAR(callseed) PAR(cr_extra)
#undef PAR
        if (!strcmp(k, "seed")) P.seed = strtoull(eq + 1, NULL, 10);
        *eq = '=';
    }
    signal(SIGALRM, on_timeout); alarm(P.watchdog);
    if (P.guard) { struct sigaction sa; memset(&sa, 0, sizeof(sa)); sa.sa_sigaction = on_segv; sa.sa_flags = SA_SIGINFO; sigaction(SIGSEGV, &sa, NULL); sigaction(SIGBUS, &sa, NULL); }
    setvbuf(stdout, NULL, _IOFBF, 1 << 20);
    if (P.dirty >= 0) memset(&cfg, P.dirty, sizeof(cfg));
    else if (P.dirty == -2) { Rng r = {P.seed ^ 0xD1}; for (size_t i = 0; i < sizeof(cfg); i++) ((uint8_t *)&cfg)[i] = (uint8_t)rnd(&r); }
    EbComponentType *h = NULL;
    EbErrorType e = svt_av1_enc_init_handle(&h, NULL, &cfg);
    if (e != EB_ErrorNone) { printf("ERR init_handle %x\n", e); return 0; }
    if (P.dumpcfg) dump_cfg(&cfg);
    cfg.source_width = P.w; cfg.source_height = P.h; cfg.encoder_bit_depth = P.bd; cfg.recon_enabled = P.recon;
    cfg.enc_mode = 8; cfg.logical_processors = 4;
    for (int i = 1; i < argc; i++) {
        if (strncmp(argv[i], "cfg.", 4)) continue;
        char *eq = strchr(argv[i], '='); if (!eq) continue;
        *eq = 0;
        if (!set_cfg_field(&cfg, argv[i] + 4, parse_ll(eq + 1))) printf("ERR unknown-config-field %s\n", argv[i] + 4);
        *eq = '=';
    }
    e = svt_av1_enc_set_parameter(h, &cfg);
    printf("SETPARAM %x\n", e);
    if (e != EB_ErrorNone) { svt_av1_enc_deinit_handle(h); printf("END rejected\n"); return 0; }
    e = svt_av1_enc_init(h);
    if (e != EB_ErrorNone) { printf("ERR enc_init %x\n", e); svt_av1_enc_deinit(h); svt_av1_enc_deinit_handle(h); return 0; }
    {
        EbBufferHeaderType *sh = NULL;
        e = svt_av1_enc_stream_header(h, &sh);
        if (e == EB_ErrorNone && sh) {
            printf("HDR %u %016" PRIx64 "\n", sh->n_filled_len, fnv(sh->p_buffer, sh->n_filled_len, FNV0));
            if (P.hex) { printf("HDRHEX "); for (uint32_t i = 0; i < sh->n_filled_len; i++) printf("%02x", sh->p_buffer[i]); printf("\n"); }
            svt_av1_enc_stream_header_release(sh);
        } else printf("ERR stream_header %x\n", e);
    }
    EbBufferHeaderType rb; memset(&rb, 0, sizeof(rb));
    rb.size = sizeof(rb); rb.n_alloc_len = (uint32_t)((size_t)P.w * P.h * 3 / 2 * (P.bd > 8 ? 2 : 1)) + 64; rb.p_buffer = malloc(rb.n_alloc_len);
    Rng callrng = {(P.callseed ? (uint64_t)P.callseed * 0x9E3779B97F4A7C15ull : P.seed) ^ 0xCA11}, padrng = {(P.padseed ? (uint64_t)P.padseed * 0x9E3779B97F4A7C15ull : P.seed) ^ 0x9AD}, scr = {P.seed ^ 0x5C};
    for (int f = 0; f < P.n; f++) {
        EbBufferHeaderType in; EbSvtIOFormat io; Pic pic;
        memset(&in, 0, sizeof(in));
        make_pic(&P, f, &io, &pic, &padrng);
        in.size = sizeof(in); in.p_buffer = (uint8_t *)&io; in.n_filled_len = (uint32_t)(pic.ysz + pic.csz + pic.crsz); in.n_alloc_len = in.n_filled_len;
        in.pts = (int64_t)P.pts_base + (int64_t)f * P.pts_step; in.pic_type = EB_AV1_INVALID_PICTURE; in.flags = 0;
        in.p_app_private = (void *)(intptr_t)(1000 + f);
        e = svt_av1_enc_send_picture(h, &in);
        if (e != EB_ErrorNone) printf("ERR send_picture %x\n", e);
        if (P.scribble || P.guard) scribble_free(&pic, &scr, P.guard); else { free(pic.luma); free(pic.cb); free(pic.cr); }
        if (P.delay_us) usleep((unsigned)(rnd(&callrng) % (unsigned)P.delay_us));
        int do_drain = (P.drain == 0) || (P.drain == 2 && ((f + 1) % P.drain_k) == 0) || (P.drain == 3 && (rnd(&callrng) & 1));
        if (do_drain) { poll_packets(&P, h, 0); poll_recon(&P, h, &rb); }
    }
    if (P.eos) {
        EbBufferHeaderType in; memset(&in, 0, sizeof(in));
        in.size = sizeof(in); in.flags = EB_BUFFERFLAG_EOS; in.p_buffer = NULL; in.pic_type = EB_AV1_INVALID_PICTURE;
        svt_av1_enc_send_picture(h, &in);
        /* final drain: blocking get_packet until the EOS packet (the documented blocking wait) */
        if (P.n > 0) {
            if (P.final_nb) { while (!got_eos_pkt) { if (!poll_packets(&P, h, 0) && !poll_recon(&P, h, &rb)) usleep(300); else poll_recon(&P, h, &rb); } }
            while (!got_eos_pkt) { if (!poll_packets(&P, h, 1)) { printf("ERR blocking-get-returned-nothing\n"); break; } poll_recon(&P, h, &rb); }
            if (P.recon) { int spins = 0; while (!got_eos_recon && nrecs < P.n && spins < 20000) { if (!poll_recon(&P, h, &rb)) { usleep(500); spins++; } } }
            poll_recon(&P, h, &rb);
            if (poll_packets(&P, h, 0)) printf("ERR packet-after-eos-drain\n");
        } else {
            usleep(200000);
            if (poll_packets(&P, h, 0)) printf("ERR packet-for-empty-stream\n");
        }
    }
    int ndec = 0;
    e = svt_av1_enc_deinit(h); if (e != EB_ErrorNone) printf("ERR enc_deinit %x\n", e);
    e = svt_av1_enc_deinit_handle(h); if (e != EB_ErrorNone) printf("ERR enc_deinit_handle %x\n", e);
    if (P.decode && npkts) ndec = decode_all(&P);
    printf("END packets=%d recons=%d decoded=%d\n", npkts, nrecs, ndec);
    fflush(stdout);
    return 0;
}
