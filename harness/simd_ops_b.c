/*
 * C07 part B — real-instruction / real-library side of the `svtmodel simdb` line protocol (lean/Driver/SimdB.lean).
 * Reads op lines from stdin, prints one canonical output line per op.
 *
 * Registers / buffers are hex strings in MEMORY BYTE ORDER (least significant byte first, two hex digits per byte):
 * a __m128i = 32 hex digits, a __m256i = 64 hex digits, an int32_t buffer = 8 hex digits per element.
 *
 * Intrinsic ops  `I <name> [imm] <a> [<b>]`  ->  `<hex result>`
 *   I cvtepi32_epi64 <a128>              _mm256_cvtepi32_epi64          -> 256
 *   I mul_epi32 <a256> <b256>            _mm256_mul_epi32               -> 256
 *   I add_epi64 <a256> <b256>            _mm256_add_epi64               -> 256
 *   I sub_epi64 <a256> <b256>            _mm256_sub_epi64               -> 256
 *   I add_epi32 <a256> <b256>            _mm256_add_epi32               -> 256
 *   I add_epi64_128 <a128> <b128>        _mm_add_epi64                  -> 128
 *   I castsi256_si128 <a256>             _mm256_castsi256_si128         -> 128
 *   I extracti128_si256 <imm> <a256>     _mm256_extracti128_si256       -> 128   (imm 0|1)
 *   I shuffle_epi32 <imm> <a128>         _mm_shuffle_epi32              -> 128   (imm 0..255)
 *   I unpacklo_epi64 <a128> <b128>       _mm_unpacklo_epi64             -> 128
 *   I loadu_si128 <off> <int32 buffer>   _mm_loadu_si128((__m128i*)(buf+off))    -> 128
 *   I storeu_si128 <a128>                _mm_storeu_si128 into a uint64_t[2]     -> `<u64 decimal> <u64 decimal>`
 * Kernel ops
 *   K fd32  <c|avx2> <w> <h> <cstride> <rstride> <coeff buffer> <recon buffer>   -> `<residual> <prediction>` (uint64 decimal)
 *   K fdz32 <c|avx2> <w> <h> <cstride> <coeff buffer>                              -> `<[0]> <[1]>`
 *       = svt_full_distortion_kernel32_bits_{c,avx2} / svt_full_distortion_kernel_cbf_zero32_bits_{c,avx2} of the REAL
 *       library (libSvtAv1Enc.a); buffers hold at least (h-1)*stride + w elements; w a positive multiple of 4, h >= 1
 *       (ops outside this domain are refused with `?domain`, the real AVX2 code would run off the buffers).
 * Unknown op: `?`.
 *
 * build: gcc -O1 -mavx2 -msse4.1 harness/simd_ops_b.c <build>/out/libSvtAv1Enc.a -lpthread -lm
 */
#include <immintrin.h>
#include <stdint.h>
#include <stdio.h>
#include <stdlib.h>
#include <string.h>

/* the real library functions (Source/Lib/Common/Codec/EbPictureOperators.h, common_dsp_rtcd.h) */
void svt_full_distortion_kernel32_bits_c(int32_t *coeff, uint32_t coeff_stride, int32_t *recon_coeff,
                                         uint32_t recon_coeff_stride, uint64_t distortion_result[2],
                                         uint32_t area_width, uint32_t area_height);
void svt_full_distortion_kernel32_bits_avx2(int32_t *coeff, uint32_t coeff_stride, int32_t *recon_coeff,
                                            uint32_t recon_coeff_stride, uint64_t distortion_result[2],
                                            uint32_t area_width, uint32_t area_height);
void svt_full_distortion_kernel_cbf_zero32_bits_c(int32_t *coeff, uint32_t coeff_stride, uint64_t distortion_result[2],
                                                  uint32_t area_width, uint32_t area_height);
void svt_full_distortion_kernel_cbf_zero32_bits_avx2(int32_t *coeff, uint32_t coeff_stride,
                                                     uint64_t distortion_result[2], uint32_t area_width,
                                                     uint32_t area_height);

static int hexval(int c) {
    if (c >= '0' && c <= '9') return c - '0';
    if (c >= 'a' && c <= 'f') return c - 'a' + 10;
    if (c >= 'A' && c <= 'F') return c - 'A' + 10;
    return -1;
}

/* parse a hex string into bytes; returns number of bytes or -1 */
static long parse_hex(const char *s, uint8_t *out, long cap) {
    long n = 0;
    while (s[0] && s[1]) {
        int a = hexval(s[0]), b = hexval(s[1]);
        if (a < 0 || b < 0 || n >= cap) return -1;
        out[n++] = (uint8_t)(16 * a + b);
        s += 2;
    }
    if (s[0]) return -1;
    return n;
}

static void print_hex(const uint8_t *b, int n) {
    for (int i = 0; i < n; i++) printf("%02x", b[i]);
    printf("\n");
}

#define SHUF_CASE(i) case i: r = _mm_shuffle_epi32(a, i); break;
#define SHUF_CASE4(i) SHUF_CASE(i) SHUF_CASE(i + 1) SHUF_CASE(i + 2) SHUF_CASE(i + 3)
#define SHUF_CASE16(i) SHUF_CASE4(i) SHUF_CASE4(i + 4) SHUF_CASE4(i + 8) SHUF_CASE4(i + 12)
#define SHUF_CASE64(i) SHUF_CASE16(i) SHUF_CASE16(i + 16) SHUF_CASE16(i + 32) SHUF_CASE16(i + 48)
static __m128i shuffle_epi32_dyn(__m128i a, int imm) {
    __m128i r = a;
    switch (imm & 255) { SHUF_CASE64(0) SHUF_CASE64(64) SHUF_CASE64(128) SHUF_CASE64(192) }
    return r;
}

#define MAXW 64
static char    *words[MAXW];
static uint8_t *buf_a, *buf_b;
#define BUFCAP (1 << 22)

static int reg(const char *s, uint8_t *dst, int n) { return parse_hex(s, dst, BUFCAP) == n; }

int main(void) {
    size_t  cap  = 1 << 24;
    char   *line = malloc(cap);
    buf_a        = malloc(BUFCAP + 64);
    buf_b        = malloc(BUFCAP + 64);
    while (fgets(line, (int)cap, stdin)) {
        int   nw = 0;
        char *p  = strtok(line, " \t\r\n");
        while (p && nw < MAXW) {
            words[nw++] = p;
            p           = strtok(NULL, " \t\r\n");
        }
        if (nw == 0) continue;
        uint8_t out[32];
        if (!strcmp(words[0], "I") && nw >= 3) {
            const char *nm = words[1];
            if (!strcmp(nm, "cvtepi32_epi64") && nw == 3 && reg(words[2], buf_a, 16)) {
                __m256i r = _mm256_cvtepi32_epi64(_mm_loadu_si128((__m128i *)buf_a));
                _mm256_storeu_si256((__m256i *)out, r);
                print_hex(out, 32);
            } else if ((!strcmp(nm, "mul_epi32") || !strcmp(nm, "add_epi64") || !strcmp(nm, "sub_epi64") ||
                        !strcmp(nm, "add_epi32")) &&
                       nw == 4 && reg(words[2], buf_a, 32) && reg(words[3], buf_b, 32)) {
                __m256i a = _mm256_loadu_si256((__m256i *)buf_a), b = _mm256_loadu_si256((__m256i *)buf_b), r;
                if (!strcmp(nm, "mul_epi32")) r = _mm256_mul_epi32(a, b);
                else if (!strcmp(nm, "add_epi64")) r = _mm256_add_epi64(a, b);
                else if (!strcmp(nm, "sub_epi64")) r = _mm256_sub_epi64(a, b);
                else r = _mm256_add_epi32(a, b);
                _mm256_storeu_si256((__m256i *)out, r);
                print_hex(out, 32);
            } else if (!strcmp(nm, "add_epi64_128") && nw == 4 && reg(words[2], buf_a, 16) && reg(words[3], buf_b, 16)) {
                __m128i r = _mm_add_epi64(_mm_loadu_si128((__m128i *)buf_a), _mm_loadu_si128((__m128i *)buf_b));
                _mm_storeu_si128((__m128i *)out, r);
                print_hex(out, 16);
            } else if (!strcmp(nm, "unpacklo_epi64") && nw == 4 && reg(words[2], buf_a, 16) && reg(words[3], buf_b, 16)) {
                __m128i r = _mm_unpacklo_epi64(_mm_loadu_si128((__m128i *)buf_a), _mm_loadu_si128((__m128i *)buf_b));
                _mm_storeu_si128((__m128i *)out, r);
                print_hex(out, 16);
            } else if (!strcmp(nm, "castsi256_si128") && nw == 3 && reg(words[2], buf_a, 32)) {
                __m128i r = _mm256_castsi256_si128(_mm256_loadu_si256((__m256i *)buf_a));
                _mm_storeu_si128((__m128i *)out, r);
                print_hex(out, 16);
            } else if (!strcmp(nm, "extracti128_si256") && nw == 4 && reg(words[3], buf_a, 32)) {
                int     imm = atoi(words[2]);
                __m256i a   = _mm256_loadu_si256((__m256i *)buf_a);
                __m128i r   = (imm & 1) ? _mm256_extracti128_si256(a, 1) : _mm256_extracti128_si256(a, 0);
                _mm_storeu_si128((__m128i *)out, r);
                print_hex(out, 16);
            } else if (!strcmp(nm, "shuffle_epi32") && nw == 4 && reg(words[3], buf_a, 16)) {
                __m128i r = shuffle_epi32_dyn(_mm_loadu_si128((__m128i *)buf_a), atoi(words[2]));
                _mm_storeu_si128((__m128i *)out, r);
                print_hex(out, 16);
            } else if (!strcmp(nm, "loadu_si128") && nw == 4) {
                long off = atol(words[2]);
                long n   = parse_hex(words[3], buf_a, BUFCAP);
                if (n < 0 || off < 0 || (off + 4) * 4 > n) {
                    printf("?domain\n");
                } else {
                    __m128i r = _mm_loadu_si128((__m128i *)((int32_t *)buf_a + off));
                    _mm_storeu_si128((__m128i *)out, r);
                    print_hex(out, 16);
                }
            } else if (!strcmp(nm, "storeu_si128") && nw == 3 && reg(words[2], buf_a, 16)) {
                uint64_t d[2] = {0, 0};
                _mm_storeu_si128((__m128i *)d, _mm_loadu_si128((__m128i *)buf_a));
                printf("%llu %llu\n", (unsigned long long)d[0], (unsigned long long)d[1]);
            } else {
                printf("?\n");
            }
        } else if (!strcmp(words[0], "K") && nw == 9 && !strcmp(words[1], "fd32")) {
            uint32_t w = (uint32_t)strtoul(words[3], 0, 10), h = (uint32_t)strtoul(words[4], 0, 10);
            uint32_t cs = (uint32_t)strtoul(words[5], 0, 10), rs = (uint32_t)strtoul(words[6], 0, 10);
            long     nc = parse_hex(words[7], buf_a, BUFCAP), nr = parse_hex(words[8], buf_b, BUFCAP);
            if (w == 0 || (w & 3) || h == 0 || nc < 0 || nr < 0 || ((long)(h - 1) * cs + w) * 4 > nc ||
                ((long)(h - 1) * rs + w) * 4 > nr) {
                printf("?domain\n");
            } else {
                uint64_t d[2] = {0, 0};
                if (!strcmp(words[2], "c"))
                    svt_full_distortion_kernel32_bits_c((int32_t *)buf_a, cs, (int32_t *)buf_b, rs, d, w, h);
                else if (!strcmp(words[2], "avx2"))
                    svt_full_distortion_kernel32_bits_avx2((int32_t *)buf_a, cs, (int32_t *)buf_b, rs, d, w, h);
                else {
                    printf("?\n");
                    continue;
                }
                printf("%llu %llu\n", (unsigned long long)d[0], (unsigned long long)d[1]);
            }
        } else if (!strcmp(words[0], "K") && nw == 7 && !strcmp(words[1], "fdz32")) {
            uint32_t w = (uint32_t)strtoul(words[3], 0, 10), h = (uint32_t)strtoul(words[4], 0, 10);
            uint32_t cs = (uint32_t)strtoul(words[5], 0, 10);
            long     nc = parse_hex(words[6], buf_a, BUFCAP);
            if (w == 0 || (w & 3) || h == 0 || nc < 0 || ((long)(h - 1) * cs + w) * 4 > nc) {
                printf("?domain\n");
            } else {
                uint64_t d[2] = {0, 0};
                if (!strcmp(words[2], "c"))
                    svt_full_distortion_kernel_cbf_zero32_bits_c((int32_t *)buf_a, cs, d, w, h);
                else if (!strcmp(words[2], "avx2"))
                    svt_full_distortion_kernel_cbf_zero32_bits_avx2((int32_t *)buf_a, cs, d, w, h);
                else {
                    printf("?\n");
                    continue;
                }
                printf("%llu %llu\n", (unsigned long long)d[0], (unsigned long long)d[1]);
            }
        } else {
            printf("?\n");
        }
    }
    return 0;
}
