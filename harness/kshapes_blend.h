/* C07 harness shape handlers, group 'blend'. Included by kernels_shapes.h
 * blend_a64 family, compound masks / wedge, CfL, motion-estimation SAD kernels, picture statistics.
 * The DOMAIN of every handler is documented in xlate/kernel_handlers_blend.py. */
#ifndef VERIF_KSHAPES_BLEND_H
#define VERIF_KSHAPES_BLEND_H

/* the 22 AV1 block sizes (block_size_wide/high, BLOCK_4X4 .. BLOCK_64X16) */
static const int k_bsizes[22][2] = { {4,4},{4,8},{8,4},{8,8},{8,16},{16,8},{16,16},{16,32},{32,16},{32,32},{32,64},{64,32},{64,64},
    {64,128},{128,64},{128,128},{4,16},{16,4},{8,32},{32,8},{16,64},{64,16} };

/* mask value patterns over [0,64] (AOM_BLEND_A64_MAX_ALPHA) */
static void k_fill_mask64(Cx *cx, Buf *m, int mp) {
    switch (mp % 8) {
    case 0: kb_fill(cx, m, KP_RAND, 0, 64); break;
    case 1: kb_fill(cx, m, KP_LO, 0, 64); break;
    case 2: kb_fill(cx, m, KP_HI, 0, 64); break;
    case 3: kb_fill(cx, m, KP_CHECK, 0, 64); break;
    case 4: kb_fill(cx, m, KP_RAMP, 0, 64); break;
    case 5: kb_fill(cx, m, KP_RAND, 63, 64); break;   /* as the unit test's extreme case */
    case 6: kb_fill(cx, m, KP_OUTLIER, 0, 64); break;
    default: kb_fill(cx, m, KP_RAND, 0, 1); break;
    }
}

/* ------------------------------------------------------------------ blend_a64_mask (2-D mask, optional 2:1 mask sub-sampling)
 * k[0]: 0 = 8-bit samples, 1 = 16-bit samples behind uint8_t* (plain cast, extra bd argument),
 *       2 = lowbd d16 (CONV_BUF_TYPE sources, ConvolveParams), 3 = highbd d16 (..., bd) */
static void h_blend_mask(Cx *cx, const Entry *e) {
    const int kind = e->k[0];
    const int d16 = kind >= 2, hbd = (kind == 1 || kind == 3);
    static const int small[5][2] = { {2,2},{2,4},{4,2},{2,8},{8,2} };
    static const int bds[3] = { 8, 10, 12 };
    const int nsz = d16 ? 22 : 27;
    for (int pass = 0; pass < cx->passes; pass++)
        for (int zi = 0; zi < nsz; zi++)
            for (int sub = 0; sub < 4; sub++)
                for (int pat = 0; pat < KP2_N; pat++) {
                    if (K_SKIP2(pass, pat)) continue;
                    const int w = zi < 22 ? k_bsizes[zi][0] : small[zi - 22][0], h = zi < 22 ? k_bsizes[zi][1] : small[zi - 22][1];
                    if (w * h >= 4096 && ((pat + sub) & 1)) continue;   /* budget: every pattern with 2 of the 4 sub-sampling modes */
                    if (!kc_case(cx)) continue;
                    const int subx = sub & 1, suby = sub >> 1;
                    const int bd = hbd ? bds[(zi + sub + pat + pass) % 3] : 8;
                    const int64_t pmax = (1 << bd) - 1;
                    /* source value range: pixels, or the compound convolve intermediate (unit test: 14 bits for bd 8, 16 bits above) */
                    const int64_t smax = d16 ? (bd == 8 ? 0x3fff : 0xffff) : pmax;
                    const int selem = (d16 || hbd) ? 2 : 1, delem = hbd ? 2 : 1;
                    const int alias = d16 ? 0 : (int)kr_n(cx, 3);      /* 0 separate, 1 src0 == dst, 2 src1 == dst */
                    const int si = (int)kr_n(cx, 4);
                    const int ds = k_stride_any(cx, si, w);
                    const int s0s = alias == 1 ? ds : k_stride_any(cx, (int)kr_n(cx, 4), w);
                    const int s1s = alias == 2 ? ds : k_stride_any(cx, (int)kr_n(cx, 4), w);
                    const int mw = w << subx, mh = h << suby;
                    const int ms = k_stride_any(cx, (int)kr_n(cx, 4), mw);
                    int pa, pb; kp2(pat, &pa, &pb);
                    kc_par(cx, "w", w); kc_par(cx, "h", h); kc_par(cx, "subx", subx); kc_par(cx, "suby", suby); kc_par(cx, "bd", bd);
                    kc_par(cx, "alias", alias); kc_par(cx, "dst_stride", ds); kc_par(cx, "src0_stride", s0s); kc_par(cx, "src1_stride", s1s);
                    kc_par(cx, "mask_stride", ms); kc_par(cx, "pat", pat);
                    cx->next_off = (int)kr_n(cx, 33);
                    Buf *dst = kb(cx, "dst", alias ? KB_INOUT : KB_OUT, delem, 0, w, h, ds);
                    Buf *s0 = dst, *s1 = dst;
                    if (alias != 1) { cx->next_off = (int)kr_n(cx, 33); s0 = kb(cx, "src0", KB_IN, selem, 0, w, h, s0s); }
                    if (alias != 2) { cx->next_off = (int)kr_n(cx, 33); s1 = kb(cx, "src1", KB_IN, selem, 0, w, h, s1s); }
                    cx->next_off = (int)kr_n(cx, 33);
                    Buf *mk = kb(cx, "mask", KB_IN, 1, 0, mw, mh, ms);
                    kb_fill(cx, s0, pa, 0, smax); kb_fill(cx, s1, pb, 0, smax);
                    k_fill_mask64(cx, mk, (int)kr_n(cx, 8));
                    Args a; memset(&a, 0, sizeof(a));
                    a.p[0] = dst->p; a.p[1] = s0->p; a.p[2] = s1->p; a.p[3] = mk->p;
                    a.i[0] = ds; a.i[1] = s0s; a.i[2] = s1s; a.i[3] = ms; a.i[4] = w; a.i[5] = h; a.i[6] = subx; a.i[7] = suby;
                    if (kind == 1) a.i[8] = bd;
                    if (d16) {
                        /* ConvolveParams as get_conv_params_no_round(..., is_compound = 1, bd) sets it */
                        Buf *cp = kb(cx, "conv_params", KB_IN, 4, 1, (int)(sizeof(ConvolveParams) / 4), 1, (int)(sizeof(ConvolveParams) / 4));
                        memset(cp->p, 0, sizeof(ConvolveParams));
                        ConvolveParams *c = (ConvolveParams *)cp->p;
                        c->round_0 = bd == 12 ? 5 : 3; c->round_1 = 7; c->is_compound = 1;
                        a.p[4] = c;
                        if (kind == 3) a.i[8] = bd;
                    }
                    kc_exec(cx, &a);
                }
}

/* ------------------------------------------------------------------ blend_a64_hmask / vmask (1-D mask)
 * k[0]: 0 hmask (mask[w]), 1 vmask (mask[h]); k[1]: 0 8-bit, 1 16-bit samples (bd argument) */
static void h_blend_1d(Cx *cx, const Entry *e) {
    const int vert = e->k[0], hbd = e->k[1], elem = hbd ? 2 : 1;
    static const int bds[3] = { 8, 10, 12 };
    for (int pass = 0; pass < cx->passes; pass++)
        for (int wl = 1; wl <= 7; wl++)
            for (int hl = 1; hl <= 7; hl++)
                for (int al = 0; al < 2; al++)
                    for (int pat = 0; pat < KP2_N; pat++) {
                        if (K_SKIP2(pass, pat)) continue;
                        if (!kc_case(cx)) continue;
                        const int w = 1 << wl, h = 1 << hl;
                        const int bd = hbd ? bds[(wl + hl + al + pat + pass) % 3] : 8;
                        const int64_t pmax = (1 << bd) - 1;
                        const int alias = al == 0 ? 1 : 2 * (int)kr_n(cx, 2);   /* 1: src0 == dst (OBMC), else 0 separate / 2 src1 == dst */
                        const int ds = k_stride_any(cx, (int)kr_n(cx, 4), w);
                        const int s0s = alias == 1 ? ds : k_stride_any(cx, (int)kr_n(cx, 4), w);
                        const int s1s = alias == 2 ? ds : k_stride_any(cx, (int)kr_n(cx, 4), w);
                        const int ml = vert ? h : w;
                        int pa, pb; kp2(pat, &pa, &pb);
                        kc_par(cx, "w", w); kc_par(cx, "h", h); kc_par(cx, "bd", bd); kc_par(cx, "alias", alias);
                        kc_par(cx, "dst_stride", ds); kc_par(cx, "src0_stride", s0s); kc_par(cx, "src1_stride", s1s); kc_par(cx, "pat", pat);
                        cx->next_off = (int)kr_n(cx, 33);
                        Buf *dst = kb(cx, "dst", alias ? KB_INOUT : KB_OUT, elem, 0, w, h, ds);
                        Buf *s0 = dst, *s1 = dst;
                        if (alias != 1) { cx->next_off = (int)kr_n(cx, 33); s0 = kb(cx, "src0", KB_IN, elem, 0, w, h, s0s); }
                        if (alias != 2) { cx->next_off = (int)kr_n(cx, 33); s1 = kb(cx, "src1", KB_IN, elem, 0, w, h, s1s); }
                        cx->next_off = (int)kr_n(cx, 33);
                        Buf *mk = kb(cx, "mask", KB_IN, 1, 0, ml, 1, ml);
                        kb_fill(cx, s0, pa, 0, pmax); kb_fill(cx, s1, pb, 0, pmax);
                        k_fill_mask64(cx, mk, (int)kr_n(cx, 8));
                        Args a; memset(&a, 0, sizeof(a));
                        a.p[0] = dst->p; a.p[1] = s0->p; a.p[2] = s1->p; a.p[3] = mk->p;
                        a.i[0] = ds; a.i[1] = s0s; a.i[2] = s1s; a.i[3] = w; a.i[4] = h; a.i[5] = bd;
                        kc_exec(cx, &a);
                    }
}

/* ------------------------------------------------------------------ svt_av1_build_compound_diffwtd_mask{,_highbd,_d16}
 * k[0]: 0 8-bit sources, 1 16-bit sources behind plainly cast uint8_t* (bd), 2 CONV_BUF_TYPE sources (ConvolveParams, bd) */
static void h_diffwtd(Cx *cx, const Entry *e) {
    const int kind = e->k[0];
    static const int bds[3] = { 8, 10, 12 };
    for (int pass = 0; pass < cx->passes; pass++)
        for (int zi = 0; zi < 22; zi++)
            for (int mt = 0; mt < 2; mt++)
                for (int pat = 0; pat < KP2_N; pat++) {
                    if (K_SKIP2(pass, pat)) continue;
                    if (!kc_case(cx)) continue;
                    const int w = k_bsizes[zi][0], h = k_bsizes[zi][1];
                    const int bd = kind ? bds[(zi + mt + pat + pass) % 3] : 8;
                    const int64_t smax = kind == 2 ? (bd == 8 ? 0x3fff : 0xffff) : (1 << bd) - 1;
                    const int elem = kind ? 2 : 1;
                    const int s0s = k_stride_any(cx, (int)kr_n(cx, 4), w), s1s = k_stride_any(cx, (int)kr_n(cx, 4), w);
                    int pa, pb; kp2(pat, &pa, &pb);
                    kc_par(cx, "w", w); kc_par(cx, "h", h); kc_par(cx, "mask_type", mt); kc_par(cx, "bd", bd);
                    kc_par(cx, "src0_stride", s0s); kc_par(cx, "src1_stride", s1s); kc_par(cx, "pat", pat);
                    cx->next_off = (int)kr_n(cx, 33);
                    Buf *s0 = kb(cx, "src0", KB_IN, elem, 0, w, h, s0s);
                    cx->next_off = (int)kr_n(cx, 33);
                    Buf *s1 = kb(cx, "src1", KB_IN, elem, 0, w, h, s1s);
                    cx->next_off = 16 * (int)kr_n(cx, 4);    /* seg_mask buffers are DECLARE_ALIGNED(16) */
                    Buf *mk = kb(cx, "mask", KB_OUT, 1, 0, w * h, 1, w * h);
                    kb_fill(cx, s0, pa, 0, smax); kb_fill(cx, s1, pb, 0, smax);
                    if (pat == 9 && kr_n(cx, 2)) {   /* small differences around the /16 steps: src1 = src0 +- small */
                        for (int y = 0; y < h; y++)
                            for (int x = 0; x < w; x++) {
                                int64_t v = kb_get(s0, x, y) + kr_range(cx, -40, 40) * (kind == 2 ? 16 : 1) * (bd == 8 ? 1 : bd == 10 ? 4 : 16);
                                kb_set(s1, x, y, v < 0 ? 0 : v > smax ? smax : v);
                            }
                    }
                    Args a; memset(&a, 0, sizeof(a));
                    a.p[0] = mk->p; a.p[1] = s0->p; a.p[2] = s1->p;
                    a.i[0] = mt; a.i[1] = s0s; a.i[2] = s1s; a.i[3] = h; a.i[4] = w;
                    if (kind == 1) a.i[5] = bd;
                    if (kind == 2) {
                        Buf *cp = kb(cx, "conv_params", KB_IN, 4, 1, (int)(sizeof(ConvolveParams) / 4), 1, (int)(sizeof(ConvolveParams) / 4));
                        memset(cp->p, 0, sizeof(ConvolveParams));
                        ConvolveParams *c = (ConvolveParams *)cp->p;
                        c->round_0 = bd == 12 ? 5 : 3; c->round_1 = 7; c->is_compound = 1;
                        a.p[3] = c; a.i[5] = bd;
                    }
                    kc_exec(cx, &a);
                }
}

/* ------------------------------------------------------------------ wedge helpers on residuals
 * k[0]: 0 svt_av1_wedge_sse_from_residuals(r1,d,m,N) ; 1 svt_av1_wedge_compute_delta_squares(d,a,b,N) ; 2 svt_av1_wedge_sign_from_residuals(ds,m,N,limit) */
static void h_wedge(Cx *cx, const Entry *e) {
    const int kind = e->k[0];
    static const int rmax[3] = { 255, 1023, 4095 };   /* 8-bit, 10-bit residuals, 13-bit signed (test/WedgeUtilTest.cc) */
    /* N = bw*bh of the blocks that reach the kernel, then random multiples of 64 */
    static const int ns[] = { 64, 128, 256, 512, 1024, 2048, 4096, 8192, 16384, 0, 0, 0 };
    for (int pass = 0; pass < cx->passes; pass++)
        for (int ni = 0; ni < KARRAY(ns); ni++)
            for (int ri = 0; ri < 3; ri++)
                for (int var = 0; var < 2; var++)
                    for (int pat = 0; pat < KP2_N; pat++) {
                        if (K_SKIP2(pass, pat)) continue;
                        const int nmax = kind == 2 ? 8128 : 16384;
                        if (ns[ni] > nmax) continue;
                        if (!kc_case(cx)) continue;
                        const int N = ns[ni] ? ns[ni] : 64 * (1 + (int)kr_n(cx, nmax / 64));
                        const int64_t R = rmax[ri];
                        int pa, pb; kp2(pat, &pa, &pb);
                        kc_par(cx, "N", N); kc_par(cx, "rmax", R); kc_par(cx, "var", var); kc_par(cx, "pat", pat);
                        Args a; memset(&a, 0, sizeof(a));
                        if (kind == 0) {
                            /* r1 = src - p1, d = p1 - p0: both in [-R, R]; var 1: mask 0/64 only */
                            cx->next_off = (int)kr_n(cx, 16); Buf *r1 = kb(cx, "r1", KB_IN, 2, 1, N, 1, N);
                            cx->next_off = (int)kr_n(cx, 16); Buf *d = kb(cx, "d", KB_IN, 2, 1, N, 1, N);
                            cx->next_off = (int)kr_n(cx, 32); Buf *m = kb(cx, "m", KB_IN, 1, 0, N, 1, N);
                            kb_fill(cx, r1, pa, -R, R); kb_fill(cx, d, pb, -R, R);
                            if (var) k_fill_mask64(cx, m, 1 + (int)kr_n(cx, 7)); else kb_fill(cx, m, KP_RAND, 0, 64);
                            a.p[0] = r1->p; a.p[1] = d->p; a.p[2] = m->p; a.i[0] = N;
                        } else if (kind == 1) {
                            /* var 0: d == a in place (pick_wedge: ds = residual0), var 1: separate output */
                            cx->next_off = (int)kr_n(cx, 16);
                            Buf *ra = kb(cx, var ? "a" : "a_and_d", var ? KB_IN : KB_INOUT, 2, 1, N, 1, N);
                            cx->next_off = (int)kr_n(cx, 16); Buf *rb = kb(cx, "b", KB_IN, 2, 1, N, 1, N);
                            kb_fill(cx, ra, pa, -R, R); kb_fill(cx, rb, pb, -R, R);
                            Buf *d = ra;
                            if (var) { cx->next_off = (int)kr_n(cx, 16); d = kb(cx, "d", KB_OUT, 2, 1, N, 1, N); }
                            a.p[0] = d->p; a.p[1] = ra->p; a.p[2] = rb->p; a.i[0] = N;
                        } else {
                            /* ds = clamp(r0^2 - r1^2) from the C delta-squares kernel; limit = (sum r0^2 - sum r1^2) * 32 (var 0),
                             * or the exact accumulator +-1 / equal (var 1: decision boundary) */
                            cx->next_off = (int)kr_n(cx, 16); Buf *ds = kb(cx, "ds", KB_IN, 2, 1, N, 1, N);
                            cx->next_off = (int)kr_n(cx, 32); Buf *m = kb(cx, "m", KB_IN, 1, 0, N, 1, N);
                            int16_t *r0 = kc_alloc(cx, (size_t)N * 2, 32), *r1 = kc_alloc(cx, (size_t)N * 2, 32);
                            Buf t0 = *ds, t1 = *ds;   /* use the fill patterns on plain arrays */
                            t0.p = (uint8_t *)r0; t1.p = (uint8_t *)r1;
                            kb_fill(cx, &t0, pa, -R, R); kb_fill(cx, &t1, pb, -R, R);
                            k_fill_mask64(cx, m, (int)kr_n(cx, 8));
                            kc_dispatch(0);
                            svt_av1_wedge_compute_delta_squares_c((int16_t *)ds->p, r0, r1, N);
                            int64_t s0 = 0, s1 = 0, acc = 0;
                            for (int i = 0; i < N; i++) { s0 += r0[i] * r0[i]; s1 += r1[i] * r1[i]; acc += (int64_t)((int16_t *)ds->p)[i] * m->p[i]; }
                            int64_t limit = (s0 - s1) * 32;
                            if (var) limit = acc + (int64_t)kr_n(cx, 3) - 1;
                            kc_par(cx, "limit", limit);
                            a.p[0] = ds->p; a.p[1] = m->p; a.i[0] = N; a.i[1] = limit;
                        }
                        kc_exec(cx, &a);
                    }
}

/* ------------------------------------------------------------------ chroma from luma
 * transform sizes with both dimensions <= 32 (chroma blocks of CfL are <= 16x16 in 4:2:0; 32 is what CFL_BUF_LINE allows) */
static const int k_cfl_sizes[14][2] = { {4,4},{8,8},{16,16},{32,32},{4,8},{8,4},{8,16},{16,8},{16,32},{32,16},{4,16},{16,4},{8,32},{32,8} };
#define K_CFL_LINE 32   /* CFL_BUF_LINE */

/* svt_cfl_predict_lbd / _hbd (k[0] = hbd): dst = clip(pred + round(alpha_q3 * ac_q3 / 64)) */
static void h_cfl_predict(Cx *cx, const Entry *e) {
    const int hbd = e->k[0], elem = hbd ? 2 : 1;
    static const int bds[3] = { 10, 8, 12 };
    static const int pats[] = { KP_LO, KP_HI, KP_CHECK, KP_RAMP, KP_RAND, KP_OUTLIER, KP_NEAR, KP_ZERO };
    for (int pass = 0; pass < cx->passes; pass++)
        for (int zi = 0; zi < 14; zi++)
            for (int al = -16; al <= 16; al++)
                for (int pi = 0; pi < KARRAY(pats); pi++) {
                    const int pat = pats[pi];
                    if (K_SKIP1(pass, pat)) continue;
                    if (pass == 0 && pi < 4 && (al & 3) != 0 && al != -1 && al != 1) continue;   /* deterministic patterns: a subset of the alphas */
                    if (!kc_case(cx)) continue;
                    const int w = k_cfl_sizes[zi][0], h = k_cfl_sizes[zi][1];
                    const int bd = hbd ? bds[(zi + al + 16 + pi + pass) % 3] : 8;
                    const int64_t pmax = (1 << bd) - 1, R = 8 * pmax;
                    const int inplace = (int)kr_n(cx, 2);
                    const int ps = k_stride_any(cx, (int)kr_n(cx, 4), w);
                    const int ds = inplace ? ps : k_stride_any(cx, (int)kr_n(cx, 4), w);
                    /* the DC prediction: extremes or random */
                    const int dsel = (int)kr_n(cx, 4);
                    const int64_t dc = dsel == 0 ? 0 : dsel == 1 ? pmax : kr_range(cx, 0, pmax);
                    kc_par(cx, "w", w); kc_par(cx, "h", h); kc_par(cx, "alpha_q3", al); kc_par(cx, "bd", bd); kc_par(cx, "dc", dc);
                    kc_par(cx, "inplace", inplace); kc_par(cx, "pred_stride", ps); kc_par(cx, "dst_stride", ds); kc_par(cx, "pat", pat);
                    cx->next_align = 32;
                    Buf *ac = kb(cx, "pred_buf_q3", KB_IN, 2, 1, w, h, K_CFL_LINE);
                    kb_fill(cx, ac, pat, -R, R);
                    cx->next_off = (int)kr_n(cx, 33);
                    Buf *pr = kb(cx, inplace ? "pred_and_dst" : "pred", inplace ? KB_INOUT : KB_IN, elem, 0, w, h, ps);
                    kb_fill(cx, pr, KP_LO, dc, dc);
                    Buf *dst = pr;
                    if (!inplace) { cx->next_off = (int)kr_n(cx, 33); dst = kb(cx, "dst", KB_OUT, elem, 0, w, h, ds); }
                    Args a; memset(&a, 0, sizeof(a));
                    a.p[0] = ac->p; a.p[1] = pr->p; a.p[2] = dst->p;
                    a.i[0] = ps; a.i[1] = ds; a.i[2] = al; a.i[3] = bd; a.i[4] = w; a.i[5] = h;
                    kc_exec(cx, &a);
                }
}

/* svt_cfl_luma_subsampling_420_lbd / _hbd (k[0] = hbd): output_q3[32-wide rows] = 2 * sum of each 2x2 luma square */
static void h_cfl_subsample(Cx *cx, const Entry *e) {
    const int hbd = e->k[0], elem = hbd ? 2 : 1;
    static const int bds[3] = { 10, 8, 12 };
    static const int pats[] = { KP_LO, KP_HI, KP_CHECK, KP_COLS, KP_ROWS, KP_RAMP, KP_RAND, KP_OUTLIER, KP_NEAR };
    for (int pass = 0; pass < cx->passes; pass++)
        for (int wl = 2; wl <= 6; wl++)
            for (int hl = 2; hl <= 6; hl++)
                for (int si = 0; si < 4; si++)
                    for (int pi = 0; pi < KARRAY(pats); pi++) {
                        const int pat = pats[pi];
                        if (K_SKIP1(pass, pat)) continue;
                        if (!kc_case(cx)) continue;
                        const int w = 1 << wl, h = 1 << hl;
                        const int bd = hbd ? bds[(wl + hl + si + pi + pass) % 3] : 8;
                        const int64_t pmax = (1 << bd) - 1;
                        const int is = k_stride_any(cx, si, w);
                        kc_par(cx, "w", w); kc_par(cx, "h", h); kc_par(cx, "bd", bd); kc_par(cx, "input_stride", is); kc_par(cx, "pat", pat);
                        cx->next_off = (int)kr_n(cx, 33);
                        Buf *in = kb(cx, "input", KB_IN, elem, 0, w, h, is);
                        kb_fill(cx, in, pat, 0, pmax);
                        cx->next_align = 32;
                        Buf *out = kb(cx, "output_q3", KB_OUT, 2, 1, w / 2, h / 2, K_CFL_LINE);
                        Args a; memset(&a, 0, sizeof(a));
                        a.p[0] = in->p; a.p[1] = out->p; a.i[0] = is; a.i[1] = w; a.i[2] = h;
                        kc_exec(cx, &a);
                    }
}

/* svt_subtract_average(pred_buf_q3, w, h, round_offset = w*h/2, num_pel_log2 = log2(w*h)) on the sub-sampled luma */
static void h_cfl_subavg(Cx *cx, const Entry *e) {
    (void)e;
    static const int bds[3] = { 8, 10, 12 };
    static const int pats[] = { KP_LO, KP_HI, KP_CHECK, KP_COLS, KP_ROWS, KP_RAMP, KP_RAMP_REV, KP_RAND, KP_OUTLIER, KP_NEAR, KP_CONST };
    for (int pass = 0; pass < cx->passes; pass++)
        for (int zi = 0; zi < 14; zi++)
            for (int bi = 0; bi < 3; bi++)
                for (int pi = 0; pi < KARRAY(pats); pi++) {
                    const int pat = pats[pi];
                    if (K_SKIP1(pass, pat)) continue;
                    if (!kc_case(cx)) continue;
                    const int w = k_cfl_sizes[zi][0], h = k_cfl_sizes[zi][1];
                    const int64_t R = 8 * ((1 << bds[bi]) - 1);
                    int lg = 0; while ((1 << lg) < w * h) lg++;
                    kc_par(cx, "w", w); kc_par(cx, "h", h); kc_par(cx, "bd", bds[bi]); kc_par(cx, "pat", pat);
                    cx->next_align = 32;
                    Buf *ac = kb(cx, "pred_buf_q3", KB_INOUT, 2, 1, w, h, K_CFL_LINE);
                    kb_fill(cx, ac, pat, 0, R);
                    if (kr_n(cx, 2)) {   /* put sum + round_offset on a rounding boundary of the average: residue 0, n-1, n/2, n/2-1 (mod n = w*h) */
                        const int n = w * h;
                        int64_t sum = n / 2;
                        for (int y = 0; y < h; y++) for (int x = 0; x < w; x++) sum += kb_get(ac, x, y);
                        static const int tsel[4] = { 0, -1, 2, 3 };
                        const int ts = tsel[kr_n(cx, 4)];
                        const int t = ts == 0 ? 0 : ts == -1 ? n - 1 : ts == 2 ? n / 2 : n / 2 - 1;
                        const int64_t delta = ((t - sum) % n + n) % n;
                        const int x = (int)kr_n(cx, (uint32_t)w), y = (int)kr_n(cx, (uint32_t)h);
                        const int64_t v = kb_get(ac, x, y);
                        kb_set(ac, x, y, v + delta <= R ? v + delta : v - (n - delta));
                        kc_par(cx, "residue", t);
                    }
                    Args a; memset(&a, 0, sizeof(a));
                    a.p[0] = ac->p; a.i[0] = w; a.i[1] = h; a.i[2] = w * h / 2; a.i[3] = lg;
                    kc_exec(cx, &a);
                }
}

/* ------------------------------------------------------------------ motion-estimation / mode-decision SAD kernels
 * svt_nxm_sad_kernel (k[0]=0), svt_nxm_sad_kernel_sub_sampled (1), sad_16b_kernel (2): (src, sstride, ref, rstride, height, width) -> sad */
static const int k_extra_sizes[16][2] = { {24,8},{24,16},{24,24},{24,32},{48,16},{48,24},{48,32},{48,48},{48,64},{64,24},{64,48},{32,24},{32,48},
    {16,24},{16,48},{8,24} };
static void h_nxm_sad(Cx *cx, const Entry *e) {
    const int kind = e->k[0], elem = kind == 2 ? 2 : 1;
    static const int ws0[9] = { 4, 8, 16, 24, 32, 40, 48, 56, 64 }, hs0[10] = { 4, 8, 12, 16, 20, 24, 28, 32, 48, 64 };
    static const int bds[3] = { 10, 8, 12 };
    const int nsz = kind == 0 ? 90 : 38;
    for (int pass = 0; pass < cx->passes; pass++)
        for (int zi = 0; zi < nsz; zi++)
            for (int sv = 0; sv < 2; sv++)
                for (int pat = 0; pat < KP2_N; pat++) {
                    if (K_SKIP2(pass, pat)) continue;
                    if (!kc_case(cx)) continue;
                    int w, h;
                    if (kind == 0) { w = ws0[zi / 10]; h = hs0[zi % 10]; }
                    else if (zi < 22) { w = k_bsizes[zi][0]; h = k_bsizes[zi][1]; }
                    else { w = k_extra_sizes[zi - 22][0]; h = k_extra_sizes[zi - 22][1]; }
                    const int bd = kind == 2 ? bds[(zi + sv + pat + pass) % 3] : 8;
                    const int64_t mx = (1 << bd) - 1;
                    const int ss = k_stride_any(cx, sv ? (int)kr_n(cx, 4) : 0, w), rs = k_stride_any(cx, (int)kr_n(cx, 4), w);
                    int pa, pb; kp2(pat, &pa, &pb);
                    kc_par(cx, "w", w); kc_par(cx, "h", h); kc_par(cx, "bd", bd); kc_par(cx, "sstride", ss); kc_par(cx, "rstride", rs); kc_par(cx, "pat", pat);
                    cx->next_off = (int)kr_n(cx, 64);
                    Buf *s = kb(cx, "src", KB_IN, elem, 0, w, h, ss);
                    cx->next_off = (int)kr_n(cx, 64);
                    Buf *r = kb(cx, "ref", KB_IN, elem, 0, w, h, rs);
                    kb_fill(cx, s, pa, 0, mx); kb_fill(cx, r, pb, 0, mx);
                    Args a; memset(&a, 0, sizeof(a));
                    a.p[0] = s->p; a.p[1] = r->p; a.i[0] = ss; a.i[1] = rs; a.i[2] = h; a.i[3] = w;
                    kc_exec(cx, &a);
                }
}

/* svt_sad_loop_kernel: best (sad, x, y) of a block over a search area (HME levels 0/1/2) */
/* block sizes of the HME searches: level L (0: 1/4 size, 1: 1/2 size, 2: full size) sees w,h in {u,2u,..,8u}, u = 2<<L (SB 64x64 clipped at the right/bottom
 * picture edge, picture dimensions being multiples of 8), the height optionally halved (sub-SAD search).  Widths with an own SIMD path get 5 heights, the
 * other widths (generalised SIMD path) every height of the level and 3 halved ones. */
static int k_sad_loop_sizes(int (*out)[2]) {
    int n = 0;
    for (int L = 0; L < 3; L++) {
        const int u = 2 << L;
        for (int wi = 1; wi <= 8; wi++) {
            const int w = wi * u;
            const int own = (w == 4 || w == 6 || w == 8 || w == 12 || w == 16 || w == 24 || w == 32 || w == 48 || w == 64);
            for (int hi = 1; hi <= 8; hi++) {
                if (own && !(hi == 1 || hi == wi || hi == 8 || hi == 5)) continue;
                out[n][0] = w; out[n][1] = hi * u; n++;
            }
            out[n][0] = w; out[n][1] = 4 * u; n++;          /* 8u halved */
            if (!own) { out[n][0] = w; out[n][1] = 7 * u / 2; n++; out[n][0] = w; out[n][1] = 3 * u / 2; n++; }
            else { out[n][0] = w; out[n][1] = 5 * u / 2; n++; }   /* odd (level 0) / non-multiple-of-4 heights */
        }
    }
    return n;
}
static void h_sad_loop(Cx *cx, const Entry *e) {
    (void)e;
    static int szs[320][2], nsz = 0;
    if (!nsz) nsz = k_sad_loop_sizes(szs);
    static const int saws[] = { 1, 2, 3, 5, 7, 8, 9, 12, 15, 16, 17, 23, 24, 32, 33, 40 };
    for (int pass = 0; pass < cx->passes; pass++)
        for (int zi = 0; zi < nsz; zi++)
            for (int ai = 0; ai < 2; ai++)
                for (int pat = 0; pat < KP2_N; pat++) {
                    if (K_SKIP2(pass, pat)) continue;
                    /* budget: src=255/ref=0, checker, random, near for every size and area; the other patterns for every third size */
                    if (!(pat == 2 || pat == 4 || pat == 6 || pat == 9) && (zi % 3 != ai)) continue;
                    const int w = szs[zi][0], h = szs[zi][1];
                    if (w * h >= 1024 && ai == 1 && !(pat == 2 || pat == 6)) continue;
                    if (!kc_case(cx)) continue;
                    const int big = w * h >= 1024;     /* budget: smaller search areas for the big blocks */
                    const int saw = ai == 0 ? 8 * (1 + (int)kr_n(cx, big ? 2 : 3)) : saws[kr_n(cx, big ? 11 : KARRAY(saws))];
                    const int sah = 1 + (int)kr_n(cx, big ? 2 : 5);
                    const int raw = k_stride_any(cx, (int)kr_n(cx, 4), w + saw + 8);        /* reference picture stride */
                    const int dbl = (int)kr_n(cx, 2);                                        /* sub-SAD search: every other reference line */
                    const int rs = raw << dbl;
                    const int ss = k_stride_any(cx, (int)kr_n(cx, 4), w);
                    int pa, pb; kp2(pat, &pa, &pb);
                    kc_par(cx, "w", w); kc_par(cx, "h", h); kc_par(cx, "search_w", saw); kc_par(cx, "search_h", sah);
                    kc_par(cx, "src_stride", ss); kc_par(cx, "ref_stride", rs); kc_par(cx, "src_stride_raw", raw); kc_par(cx, "pat", pat);
                    cx->next_off = (int)kr_n(cx, 64);
                    Buf *s = kb(cx, "src", KB_IN, 1, 0, w, h, ss);
                    cx->next_off = (int)kr_n(cx, 64);
                    const int RW = w + saw - 1, RH = (h - 1) * (1 << dbl) + 1 + (sah - 1);
                    Buf *r = kb(cx, "ref", KB_IN, 1, 0, RW, RH, raw);
                    Buf *bs = kb(cx, "best_sad", KB_OUT, 8, 0, 1, 1, 1);
                    Buf *xc = kb(cx, "x_search_center", KB_INOUT, 2, 1, 1, 1, 1);
                    Buf *yc = kb(cx, "y_search_center", KB_INOUT, 2, 1, 1, 1, 1);
                    kb_fill(cx, s, pa, 0, 255); kb_fill(cx, r, pb, 0, 255);
                    kb_fill(cx, xc, KP_RAND, -64, 64); kb_fill(cx, yc, KP_RAND, -64, 64);
                    /* plant an exact or near match somewhere (unique minimum / ties with the flat patterns) */
                    if (kr_n(cx, 2)) {
                        const int px = (int)kr_n(cx, saw), py = (int)kr_n(cx, sah), noise = (int)kr_n(cx, 3);
                        for (int y = 0; y < h; y++)
                            for (int x = 0; x < w; x++) {
                                int64_t v = kb_get(s, x, y) + (noise ? kr_range(cx, -noise, noise) : 0);
                                kb_set(r, px + x, py + (y << dbl), v < 0 ? 0 : v > 255 ? 255 : v);
                            }
                    }
                    Args a; memset(&a, 0, sizeof(a));
                    a.p[0] = s->p; a.p[1] = r->p; a.p[2] = bs->p; a.p[3] = xc->p; a.p[4] = yc->p;
                    a.i[0] = ss; a.i[1] = rs; a.i[2] = h; a.i[3] = w; a.i[4] = raw; a.i[5] = saw; a.i[6] = sah;
                    kc_exec(cx, &a);
                }
}

/* best-SAD start values: MAX_SAD_VALUE (128*128*255, what the encoder initialises), 0x7FFFFFFF (unit test; the SIMD compares signed), 0,
 * or a value around the SAD that will be computed (both outcomes of the `<`, including equality) */
static uint32_t k_best_start(Cx *cx, uint32_t actual) {
    switch (kr_n(cx, 8)) {
    case 0: return 128 * 128 * 255;
    case 1: return 0x7FFFFFFF;
    case 2: return 0;
    case 3: return actual;
    case 4: return actual + 1;
    case 5: return actual ? actual - 1 : 0;
    case 6: return (uint32_t)kr_range(cx, 0, 2 * (int64_t)actual + 16);
    default: return (uint32_t)kr_range(cx, 0, 128 * 128 * 255);
    }
}
static uint32_t k_sad8(const Buf *s, int sx, int sy, const Buf *r, int rx, int ry, int sub) {
    uint32_t t = 0;
    for (int y = 0; y < 8; y += (sub ? 2 : 1))
        for (int x = 0; x < 8; x++) { int d = (int)kb_get(s, sx + x, sy + y) - (int)kb_get(r, rx + x, ry + y); t += (uint32_t)(d < 0 ? -d : d); }
    return sub ? t << 1 : t;
}
/* motion vector word as open_loop_me_get_*search_point_results_block builds it: (y << 18) | (uint16_t)(x << 2), x,y integer-pel offsets */
static uint32_t k_me_mv(Cx *cx) {
    if (kr_n(cx, 8) == 0) return 0;
    const int x = (int)kr_range(cx, -1024, 1024), y = (int)kr_range(cx, -1024, 1024);
    return (((uint32_t)(uint16_t)y) << 18) | (uint16_t)((uint16_t)x << 2);
}

/* svt_ext_sad_calculation_8x8_16x16: one 16x16 block, one search position */
static void h_ext_sad_8x8_16x16(Cx *cx, const Entry *e) {
    (void)e;
    for (int pass = 0; pass < cx->passes; pass++)
        for (int sub = 0; sub < 2; sub++)
            for (int rep = 0; rep < 12; rep++)
                for (int pat = 0; pat < KP2_N; pat++) {
                    if (K_SKIP2(pass, pat)) continue;
                    if (!kc_case(cx)) continue;
                    const int ss = rep < 4 ? 64 : k_stride_any(cx, (int)kr_n(cx, 4), 16), rs = k_stride_any(cx, (int)kr_n(cx, 4), 16);
                    int pa, pb; kp2(pat, &pa, &pb);
                    const uint32_t mv = k_me_mv(cx);
                    kc_par(cx, "sub_sad", sub); kc_par(cx, "src_stride", ss); kc_par(cx, "ref_stride", rs); kc_par(cx, "mv", mv); kc_par(cx, "pat", pat);
                    cx->next_off = 16 * (int)kr_n(cx, 4);     /* 16x16 blocks of the 64x64 source block */
                    Buf *s = kb(cx, "src", KB_IN, 1, 0, 16, 16, ss);
                    cx->next_off = (int)kr_n(cx, 64);
                    Buf *r = kb(cx, "ref", KB_IN, 1, 0, 16, 16, rs);
                    kb_fill(cx, s, pa, 0, 255); kb_fill(cx, r, pb, 0, 255);
                    if (pat == 9) for (int y = 0; y < 16; y++) for (int x = 0; x < 16; x++) {   /* near match */
                        int64_t v = kb_get(s, x, y) + kr_range(cx, -2, 2); kb_set(r, x, y, v < 0 ? 0 : v > 255 ? 255 : v); }
                    Buf *b8 = kb(cx, "p_best_sad_8x8", KB_INOUT, 4, 0, 4, 1, 4);
                    Buf *b16 = kb(cx, "p_best_sad_16x16", KB_INOUT, 4, 0, 1, 1, 1);
                    Buf *m8 = kb(cx, "p_best_mv8x8", KB_INOUT, 4, 0, 4, 1, 4);
                    Buf *m16 = kb(cx, "p_best_mv16x16", KB_INOUT, 4, 0, 1, 1, 1);
                    Buf *o16 = kb(cx, "p_sad16x16", KB_OUT, 4, 0, 1, 1, 1);
                    Buf *o8 = kb(cx, "p_sad8x8", KB_OUT, 4, 0, 4, 1, 4);
                    uint32_t tot = 0;
                    for (int q = 0; q < 4; q++) {
                        const uint32_t sad = k_sad8(s, (q & 1) * 8, (q >> 1) * 8, r, (q & 1) * 8, (q >> 1) * 8, sub);
                        tot += sad;
                        kb_set(b8, q, 0, k_best_start(cx, sad));
                        kb_set(m8, q, 0, (int64_t)(uint32_t)kr(cx));
                    }
                    kb_set(b16, 0, 0, k_best_start(cx, tot));
                    kb_set(m16, 0, 0, (int64_t)(uint32_t)kr(cx));
                    Args a; memset(&a, 0, sizeof(a));
                    a.p[0] = s->p; a.p[1] = r->p; a.p[2] = b8->p; a.p[3] = b16->p; a.p[4] = m8->p; a.p[5] = m16->p; a.p[6] = o16->p; a.p[7] = o8->p;
                    a.i[0] = ss; a.i[1] = rs; a.i[2] = mv; a.i[3] = sub;
                    kc_exec(cx, &a);
                }
}

/* svt_ext_sad_calculation_32x32_64x64 (k[0]=0: p_sad16x16[16]) and svt_ext_eight_sad_calculation_32x32_64x64 (k[0]=1: p_sad16x16[16][8]) */
static void h_ext_sad_32_64(Cx *cx, const Entry *e) {
    const int eight = e->k[0], n = eight ? 8 : 1;
    static const int pats[] = { KP_LO, KP_HI, KP_CHECK, KP_RAMP, KP_RAMP_REV, KP_RAND, KP_OUTLIER, KP_NEAR, KP_CONST };
    for (int pass = 0; pass < cx->passes; pass++)
        for (int rep = 0; rep < 24; rep++)
            for (int pi = 0; pi < KARRAY(pats); pi++) {
                const int pat = pats[pi];
                if (K_SKIP1(pass, pat)) continue;
                if (!kc_case(cx)) continue;
                /* 16x16 SADs: 0 .. 16*16*255 (also with sub_sad: 2 * (16*8*255)); small range = many ties between the 8 positions */
                const int64_t hi = rep % 3 == 0 ? 65280 : rep % 3 == 1 ? 255 : 4000;
                const uint32_t mv = k_me_mv(cx);
                kc_par(cx, "sad_max", hi); kc_par(cx, "mv", mv); kc_par(cx, "pat", pat);
                Buf *in = kb(cx, "p_sad16x16", KB_IN, 4, 0, n, 16, n);
                kb_fill(cx, in, pat, 0, hi);
                Buf *b32 = kb(cx, "p_best_sad_32x32", KB_INOUT, 4, 0, 4, 1, 4);
                Buf *b64 = kb(cx, "p_best_sad_64x64", KB_INOUT, 4, 0, 1, 1, 1);
                Buf *m32 = kb(cx, "p_best_mv32x32", KB_INOUT, 4, 0, 4, 1, 4);
                Buf *m64 = kb(cx, "p_best_mv64x64", KB_INOUT, 4, 0, 1, 1, 1);
                Buf *o32 = kb(cx, "p_sad32x32", KB_OUT, 4, 0, n, 4, n);
                uint32_t tot = 0xffffffffu;
                const int pos = (int)kr_n(cx, (uint32_t)n);      /* the start values are placed around the SADs of one of the positions */
                uint32_t t64 = 0;
                for (int q = 0; q < 4; q++) {
                    uint32_t s32 = 0;
                    for (int k = 0; k < 4; k++) s32 += (uint32_t)kb_get(in, pos, 4 * q + k);
                    t64 += s32;
                    kb_set(b32, q, 0, k_best_start(cx, s32));
                    kb_set(m32, q, 0, (int64_t)(uint32_t)kr(cx));
                }
                tot = t64;
                kb_set(b64, 0, 0, k_best_start(cx, tot));
                kb_set(m64, 0, 0, (int64_t)(uint32_t)kr(cx));
                Args a; memset(&a, 0, sizeof(a));
                a.p[0] = in->p; a.p[1] = b32->p; a.p[2] = b64->p; a.p[3] = m32->p; a.p[4] = m64->p; a.p[5] = o32->p; a.i[0] = mv;
                kc_exec(cx, &a);
            }
}

/* svt_ext_all_sad_calculation_8x8_16x16: 64x64 source block, 8 horizontal search positions; best SAD/MV of all 8x8 and 16x16 blocks */
static void h_ext_all_sad(Cx *cx, const Entry *e) {
    (void)e;
    for (int pass = 0; pass < cx->passes; pass++)
        for (int sub = 0; sub < 2; sub++)
            for (int rep = 0; rep < 4; rep++)
                for (int pat = 0; pat < KP2_N; pat++) {
                    if (K_SKIP2(pass, pat)) continue;
                    if (!kc_case(cx)) continue;
                    const int ss = rep < 2 ? 64 : k_stride_any(cx, (int)kr_n(cx, 4), 64), rs = k_stride_any(cx, (int)kr_n(cx, 4), 71);
                    int pa, pb; kp2(pat, &pa, &pb);
                    const uint32_t mv = k_me_mv(cx);
                    kc_par(cx, "sub_sad", sub); kc_par(cx, "src_stride", ss); kc_par(cx, "ref_stride", rs); kc_par(cx, "mv", mv); kc_par(cx, "pat", pat);
                    cx->next_off = rep == 3 ? (int)kr_n(cx, 64) : 0;
                    Buf *s = kb(cx, "src", KB_IN, 1, 0, 64, 64, ss);
                    cx->next_off = (int)kr_n(cx, 64);
                    Buf *r = kb(cx, "ref", KB_IN, 1, 0, 71, 64, rs);
                    kb_fill(cx, s, pa, 0, 255); kb_fill(cx, r, pb, 0, 255);
                    if (pat >= 8) {   /* the source block itself (plus noise) at one of the 8 positions */
                        const int px = (int)kr_n(cx, 8), noise = (int)kr_n(cx, 3);
                        for (int y = 0; y < 64; y++) for (int x = 0; x < 64; x++) {
                            int64_t v = kb_get(s, x, y) + (noise ? kr_range(cx, -noise, noise) : 0); kb_set(r, px + x, y, v < 0 ? 0 : v > 255 ? 255 : v); }
                    }
                    Buf *b8 = kb(cx, "p_best_sad_8x8", KB_INOUT, 4, 0, 64, 1, 64);
                    Buf *b16 = kb(cx, "p_best_sad_16x16", KB_INOUT, 4, 0, 16, 1, 16);
                    Buf *m8 = kb(cx, "p_best_mv8x8", KB_INOUT, 4, 0, 64, 1, 64);
                    Buf *m16 = kb(cx, "p_best_mv16x16", KB_INOUT, 4, 0, 16, 1, 16);
                    Buf *o16 = kb(cx, "p_eight_sad16x16", KB_OUT, 4, 0, 8, 16, 8);
                    Buf *o8 = kb(cx, "p_eight_sad8x8", KB_OUT, 4, 0, 8, 64, 8);
                    static const int offsets[16] = { 0, 1, 4, 5, 2, 3, 6, 7, 8, 9, 12, 13, 10, 11, 14, 15 };
                    const int mode = (int)kr_n(cx, 3);   /* 0: all MAX_SAD_VALUE (first position of a search), 1: around the SADs, 2: mixed */
                    for (int by = 0; by < 4; by++)
                        for (int bx = 0; bx < 4; bx++) {
                            const int i16 = offsets[4 * by + bx], pos = (int)kr_n(cx, 8);
                            uint32_t tot = 0;
                            for (int q = 0; q < 4; q++) {
                                const int x0 = 16 * bx + 8 * (q & 1), y0 = 16 * by + 8 * (q >> 1);
                                const uint32_t sad = k_sad8(s, x0, y0, r, x0 + pos, y0, sub);
                                tot += sad;
                                kb_set(b8, 4 * i16 + q, 0, mode == 0 ? 128 * 128 * 255 : mode == 1 ? k_best_start(cx, sad) : (kr_n(cx, 2) ? 128 * 128 * 255 : k_best_start(cx, sad)));
                                kb_set(m8, 4 * i16 + q, 0, (int64_t)(uint32_t)kr(cx));
                            }
                            kb_set(b16, i16, 0, mode == 0 ? 128 * 128 * 255 : k_best_start(cx, tot));
                            kb_set(m16, i16, 0, (int64_t)(uint32_t)kr(cx));
                        }
                    Args a; memset(&a, 0, sizeof(a));
                    a.p[0] = s->p; a.p[1] = r->p; a.p[2] = b8->p; a.p[3] = b16->p; a.p[4] = m8->p; a.p[5] = m16->p; a.p[6] = o16->p; a.p[7] = o8->p;
                    a.i[0] = ss; a.i[1] = rs; a.i[2] = mv; a.i[3] = sub;
                    kc_exec(cx, &a);
                }
}

/* ------------------------------------------------------------------ picture statistics
 * k[0]: 0 svt_compute_mean_square_values_8x8(ptr, stride, 8, 8) ; 1 svt_compute_sub_mean_8x8(ptr, stride) ; 2 svt_compute_interm_var_four8x8(ptr, stride, mean[4], meansq[4]) */
static void h_mean8x8(Cx *cx, const Entry *e) {
    const int kind = e->k[0], W = kind == 2 ? 32 : 8;
    static const int pats[] = { KP_LO, KP_HI, KP_CHECK, KP_COLS, KP_ROWS, KP_RAMP, KP_RAMP_REV, KP_RAND, KP_OUTLIER, KP_NEAR, KP_CONST };
    for (int pass = 0; pass < cx->passes; pass++)
        for (int si = 0; si < 6; si++)
            for (int pi = 0; pi < KARRAY(pats); pi++) {
                const int pat = pats[pi];
                if (K_SKIP1(pass, pat)) continue;
                if (!kc_case(cx)) continue;
                const int stride = si < 4 ? k_stride_any(cx, si, W) : si == 4 ? 2048 + 64 * (int)kr_n(cx, 8) : 8192 + 320;   /* picture strides (uint16_t for two of the kernels) */
                kc_par(cx, "stride", stride); kc_par(cx, "pat", pat);
                cx->next_off = (int)kr_n(cx, 64);
                Buf *s = kb(cx, "input_samples", KB_IN, 1, 0, W, 8, stride);
                kb_fill(cx, s, pat, 0, 255);
                Args a; memset(&a, 0, sizeof(a));
                a.p[0] = s->p; a.i[0] = stride;
                if (kind == 0) { a.i[1] = 8; a.i[2] = 8; }
                if (kind == 2) {
                    Buf *m = kb(cx, "mean_of8x8_blocks", KB_OUT, 8, 0, 4, 1, 4);
                    Buf *q = kb(cx, "mean_of_squared8x8_blocks", KB_OUT, 8, 0, 4, 1, 4);
                    a.p[1] = m->p; a.p[2] = q->p;
                }
                kc_exec(cx, &a);
            }
}

/* svt_av1_haar_ac_sad_8x8_uint8_input(input, stride, hbd): hbd=0 uint8 samples; hbd=1 CONVERT_TO_BYTEPTR(uint16 samples) */
static void h_haar(Cx *cx, const Entry *e) {
    (void)e;
    static const int pats[] = { KP_LO, KP_HI, KP_CHECK, KP_COLS, KP_ROWS, KP_RAMP, KP_RAMP_REV, KP_RAND, KP_OUTLIER, KP_NEAR, KP_CONST };
    for (int pass = 0; pass < cx->passes; pass++)
        for (int hb = 0; hb < 3; hb++)
            for (int si = 0; si < 5; si++)
                for (int pi = 0; pi < KARRAY(pats); pi++) {
                    const int pat = pats[pi];
                    if (K_SKIP1(pass, pat)) continue;
                    if (!kc_case(cx)) continue;
                    const int hbd = hb > 0, bd = hb == 0 ? 8 : hb == 1 ? 10 : 12;
                    const int stride = si < 4 ? k_stride_any(cx, si, 8) : 1920 + 64 * (int)kr_n(cx, 40);
                    kc_par(cx, "hbd", hbd); kc_par(cx, "bd", bd); kc_par(cx, "stride", stride); kc_par(cx, "pat", pat);
                    cx->next_off = (int)kr_n(cx, 64);
                    Buf *s = kb(cx, "input", KB_IN, hbd ? 2 : 1, 0, 8, 8, stride);
                    kb_fill(cx, s, pat, 0, (1 << bd) - 1);
                    Args a; memset(&a, 0, sizeof(a));
                    a.p[0] = hbd ? K_BYTEPTR(s->p) : s->p; a.i[0] = stride; a.i[1] = hbd;
                    kc_exec(cx, &a);
                }
}

/* svt_av1_compute_cross_correlation(im1, stride1, x1, y1, im2, stride2, x2, y2) -> double; 13x13 windows centred at eligible points */
static void h_cross_corr(Cx *cx, const Entry *e) {
    (void)e;
    for (int pass = 0; pass < cx->passes; pass++)
        for (int rep = 0; rep < 12; rep++)
            for (int pat = 0; pat < KP2_N; pat++) {
                if (K_SKIP2(pass, pat)) continue;
                if (!kc_case(cx)) continue;
                const int W = 13 + (int)kr_n(cx, 40), H = 13 + (int)kr_n(cx, 20);
                const int s1 = k_stride_any(cx, (int)kr_n(cx, 4), W), s2 = k_stride_any(cx, (int)kr_n(cx, 4), W);
                /* is_eligible_point: x >= 6, y >= 6, x + 6 < width, y + 6 < height */
                const int x1 = 6 + (int)kr_n(cx, (uint32_t)(W - 12)), y1 = 6 + (int)kr_n(cx, (uint32_t)(H - 12));
                const int x2 = 6 + (int)kr_n(cx, (uint32_t)(W - 12)), y2 = 6 + (int)kr_n(cx, (uint32_t)(H - 12));
                int pa, pb; kp2(pat, &pa, &pb);
                kc_par(cx, "W", W); kc_par(cx, "H", H); kc_par(cx, "stride1", s1); kc_par(cx, "stride2", s2);
                kc_par(cx, "x1", x1); kc_par(cx, "y1", y1); kc_par(cx, "x2", x2); kc_par(cx, "y2", y2); kc_par(cx, "pat", pat);
                cx->next_off = (int)kr_n(cx, 64);
                Buf *i1 = kb(cx, "im1", KB_IN, 1, 0, W, H, s1);
                cx->next_off = (int)kr_n(cx, 64);
                Buf *i2 = kb(cx, "im2", KB_IN, 1, 0, W, H, s2);
                kb_fill(cx, i1, pa, 0, 255); kb_fill(cx, i2, pb, 0, 255);
                if (rep >= 8) {   /* correlated windows: im2 window = im1 window + noise */
                    const int noise = (int)kr_n(cx, 4);
                    for (int y = -6; y <= 6; y++) for (int x = -6; x <= 6; x++) {
                        int64_t v = kb_get(i1, x1 + x, y1 + y) + (noise ? kr_range(cx, -noise, noise) : 0);
                        kb_set(i2, x2 + x, y2 + y, v < 0 ? 0 : v > 255 ? 255 : v); }
                }
                Args a; memset(&a, 0, sizeof(a));
                a.p[0] = i1->p; a.p[1] = i2->p; a.i[0] = s1; a.i[1] = x1; a.i[2] = y1; a.i[3] = s2; a.i[4] = x2; a.i[5] = y2;
                kc_exec(cx, &a);
            }
}

/* svt_av1_calc_frame_error(ref, stride, dst, p_width, p_height, p_stride) -> sum of error_measure(dst - ref) */
static void h_frame_error(Cx *cx, const Entry *e) {
    (void)e;
    /* warp_error: blocks up to WARP_ERROR_BLOCK=32 (clipped at the frame edge: any w,h in 1..32), ref stride 32; svt_av1_frame_error: whole pictures */
    static const int szs[][2] = { {32,32},{32,8},{8,32},{16,16},{32,1},{1,32},{17,5},{31,31},{3,3},{24,30},{64,64},{80,48},{100,37},{176,20},{33,4},{15,7} };
    for (int pass = 0; pass < cx->passes; pass++)
        for (int zi = 0; zi < KARRAY(szs); zi++)
            for (int pat = 0; pat < KP2_N; pat++) {
                if (K_SKIP2(pass, pat)) continue;
                if (!kc_case(cx)) continue;
                const int w = szs[zi][0], h = szs[zi][1];
                const int rs = (w <= 32 && kr_n(cx, 2)) ? 32 : k_stride_any(cx, (int)kr_n(cx, 4), w), ds = k_stride_any(cx, (int)kr_n(cx, 4), w);
                int pa, pb; kp2(pat, &pa, &pb);
                kc_par(cx, "w", w); kc_par(cx, "h", h); kc_par(cx, "ref_stride", rs); kc_par(cx, "dst_stride", ds); kc_par(cx, "pat", pat);
                cx->next_off = (int)kr_n(cx, 64);
                Buf *r = kb(cx, "ref", KB_IN, 1, 0, w, h, rs);
                cx->next_off = (int)kr_n(cx, 64);
                Buf *d = kb(cx, "dst", KB_IN, 1, 0, w, h, ds);
                kb_fill(cx, r, pa, 0, 255); kb_fill(cx, d, pb, 0, 255);
                Args a; memset(&a, 0, sizeof(a));
                a.p[0] = r->p; a.p[1] = d->p; a.i[0] = rs; a.i[1] = w; a.i[2] = h; a.i[3] = ds;
                kc_exec(cx, &a);
            }
}

/* svt_av1_get_gradient_hist(src, stride, rows, cols, hist[8]): hist[bin] += dx^2 + dy^2 over rows 1.., columns 1.. of a block */
static void h_gradient_hist(Cx *cx, const Entry *e) {
    (void)e;
    static const int pats[] = { KP_LO, KP_HI, KP_CHECK, KP_COLS, KP_ROWS, KP_RAMP, KP_RAMP_REV, KP_RAND, KP_OUTLIER, KP_NEAR, KP_CONST };
    for (int pass = 0; pass < cx->passes; pass++)
        for (int zi = 0; zi < 22; zi++)
            for (int pi = 0; pi < KARRAY(pats); pi++) {
                const int pat = pats[pi];
                if (K_SKIP1(pass, pat)) continue;
                if (!kc_case(cx)) continue;
                const int w = k_bsizes[zi][0], h = k_bsizes[zi][1];
                const int stride = k_stride_any(cx, (int)kr_n(cx, 4), w);
                kc_par(cx, "cols", w); kc_par(cx, "rows", h); kc_par(cx, "stride", stride); kc_par(cx, "pat", pat);
                cx->next_off = (int)kr_n(cx, 64);
                Buf *s = kb(cx, "src", KB_IN, 1, 0, w, h, stride);
                if (pat == KP_NEAR && kr_n(cx, 2)) kb_fill(cx, s, KP_RAND, 100, 100 + (int64_t)kr_n(cx, 4));   /* tiny gradients: many dy == 0 / dx == 0 */
                else kb_fill(cx, s, pat, 0, 255);
                Buf *hist = kb(cx, "hist", KB_INOUT, 8, 0, 8, 1, 8);
                kb_fill(cx, hist, kr_n(cx, 2) ? KP_ZERO : KP_RAND, 0, 1000000);
                Args a; memset(&a, 0, sizeof(a));
                a.p[0] = s->p; a.p[1] = hist->p; a.i[0] = stride; a.i[1] = h; a.i[2] = w;
                kc_exec(cx, &a);
            }
}

#endif
