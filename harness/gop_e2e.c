/* gop_e2e — C03 / C19 end-to-end harness: drives the REAL SVT-AV1 encoder (and decoder) in-process through the public API
 * with an arbitrary pts sequence and distinct p_app_private values, and reports what comes back.
 * (Own file of the C03/C19 checks; line formats of PKT/HEX/RECON/DEC/ERR/END/SETPARAM/TIMEOUT are those of enc_e2e.c so that
 * checks/common.py:parse_e2e reads them.)
 *
 *   gop_e2e key=value ...      one encode per process
 *     w h bd n seed content        picture size / bit depth / number of submitted pictures / seed / synthetic content 0..4
 *     pts_mode                     0: pts_k = pts_base + k*pts_step (64-bit values)
 *                                  1: strictly increasing, seeded random gaps in 1..pts_gap
 *                                  2: seeded random 40-bit values, NOT monotone (distinct)
 *                                  3: strictly decreasing: pts_k = pts_base - k*pts_step
 *     pts_base pts_step pts_gap
 *     poll                         0: non-blocking get_packet after every send_picture (default); 1: only after the EOS was sent;
 *                                  2: seeded random
 *     eos                          1 (default): send the EOS buffer (flags = EB_BUFFERFLAG_EOS, no picture) after picture n-1
 *     recon decode hex             0/1
 *     final_block                  1: after the EOS buffer, wait with BLOCKING get_packet (the documented pattern; default when recon=0)
 *                                  0: alternate non-blocking get_packet / get_recon (default when recon=1: with recon enabled the
 *                                     blocking wait can deadlock against the bounded recon fifo, finding F19)
 *     watchdog                     seconds WITHOUT PROGRESS (alarm re-armed after every accepted picture and every delivered packet /
 *                                  recon; when it fires: prints TIMEOUT phase=.. packets=.., flushes, exit 3)
 *     cfg.<member>=v               any scalar member of EbSvtAv1EncConfiguration
 *   lines
 *     SETPARAM <hex>
 *     IN k pts priv                picture k as submitted (priv = p_app_private as an integer, distinct, non-zero)
 *     PKT i pts dts flags pic_type qp size crc 0 0 0 priv     packet i in the order delivered
 *     HEX i <hex>
 *     RECON i pts size crc flags
 *     DEC j crc w h bd pkt=i       real decoder output pictures (one svt_av1_dec_frame per packet)
 *     FINALWAIT ms                 time spent in the blocking get_packet calls after EOS was sent
 *     ERR <what>
 *     END packets=N recons=M decoded=K
 *   exit code 0 normal, 3 watchdog.
 */
#include <stdio.h>
#include <stdlib.h>
#include <string.h>
#include <stdint.h>
#include <unistd.h>
#include <signal.h>
#include <inttypes.h>
#include <time.h>
#include "EbSvtAv1Enc.h"
#include "EbSvtAv1Dec.h"
#include "cfg_fields.h"

typedef struct { uint64_t s; } Rng;
static uint64_t rnd(Rng *r) {
    uint64_t z = (r->s += 0x9E3779B97F4A7C15ull);
    z = (z ^ (z >> 30)) * 0xBF58476D1CE4E5B9ull;
    z = (z ^ (z >> 27)) * 0x94D049BB133111EBull;
    return z ^ (z >> 31);
}
static uint64_t fnv(const uint8_t *p, size_t n, uint64_t h) {
    for (size_t i = 0; i < n; i++) { h ^= p[i]; h *= 0x100000001b3ull; }
    return h;
}
#define FNV0 0xcbf29ce484222325ull

typedef struct {
    int w, h, n, bd, content, recon, decode, hex, watchdog, eos, pts_mode, poll, final_block;
    long long pts_base, pts_step, pts_gap;
    uint64_t seed;
} Params;
static Params P;
static const char *volatile phase = "init";

static long long parse_ll(const char *s) { return s[0] == '-' ? strtoll(s, NULL, 10) : (long long)strtoull(s, NULL, 10); }

static int set_cfg_field(EbSvtAv1EncConfiguration *c, const char *name, long long v) {
#define X(f) if (!strcmp(name, #f)) { c->f = v; return 1; }
    CFG_SCALARS(X)
#undef X
    return 0;
}

static uint32_t hash3(uint64_t seed, int f, int p, int x, int y) {
    uint64_t z = seed ^ ((uint64_t)f << 40) ^ ((uint64_t)p << 36) ^ ((uint64_t)y << 18) ^ (uint64_t)x;
    z += 0x9E3779B97F4A7C15ull; z = (z ^ (z >> 30)) * 0xBF58476D1CE4E5B9ull;
    z = (z ^ (z >> 27)) * 0x94D049BB133111EBull; return (uint32_t)(z ^ (z >> 31));
}
static int sample_at(int f, int p, int x, int y) {
    int maxv = (1 << P.bd) - 1;
    int sx = p ? x * 2 : x, sy = p ? y * 2 : y;
    switch (P.content) {
    case 0: return hash3(P.seed, f, p, x, y) & maxv;
    case 1: return p ? (maxv + 1) / 2 : ((60 + 3 * f) << (P.bd - 8)) & maxv;
    case 2: return ((sx + 2 * sy + 5 * f) << (P.bd - 8)) & maxv;
    case 3: return (((sx >> 2) + (sy >> 2) + f) & 1) ? maxv : 0;
    default: {
        int bx = (sx + 3 * f) >> 4, by = (sy + f) >> 4;
        int base = (hash3(P.seed, 0, p, bx, by) & 0xff) << (P.bd - 8);
        int tex = (hash3(P.seed, 0, p, sx + 3 * f, sy + f) & 7) << (P.bd - 8);
        int v = base + tex; return v > maxv ? maxv : v; }
    }
}
typedef struct { uint8_t *luma, *cb, *cr; size_t ysz, csz; } Pic;
static void make_pic(int f, EbSvtIOFormat *io, Pic *pic) {
    int bps = P.bd > 8 ? 2 : 1;
    int ys = P.w, cs = P.w / 2, ch = P.h / 2, cw = P.w / 2;
    pic->ysz = (size_t)ys * P.h * bps; pic->csz = (size_t)cs * ch * bps;
    pic->luma = malloc(pic->ysz); pic->cb = malloc(pic->csz); pic->cr = malloc(pic->csz);
    uint8_t *pl[3] = {pic->luma, pic->cb, pic->cr};
    for (int p = 0; p < 3; p++) {
        int W = p ? cw : P.w, H = p ? ch : P.h;
        for (int y = 0; y < H; y++)
            for (int x = 0; x < W; x++) {
                int v = sample_at(f, p, x, y);
                if (bps == 1) pl[p][(size_t)y * W + x] = (uint8_t)v; else ((uint16_t *)pl[p])[(size_t)y * W + x] = (uint16_t)v;
            }
    }
    memset(io, 0, sizeof(*io));
    io->luma = pic->luma; io->cb = pic->cb; io->cr = pic->cr;
    io->y_stride = ys; io->cb_stride = cs; io->cr_stride = cs;
    io->width = P.w; io->height = P.h; io->color_fmt = EB_YUV420; io->bit_depth = P.bd > 8 ? EB_TEN_BIT : EB_EIGHT_BIT;
}

typedef struct { uint8_t *data; uint32_t size; } Pkt;
static Pkt *pkts; static int npkts, cap_pkts, nrecs;
static int got_eos_pkt, got_eos_recon;

static void on_timeout(int sig) {
    (void)sig;
    /* not async-signal-safe in general; the process is about to exit and the main thread is blocked inside the library */
    printf("TIMEOUT phase=%s packets=%d\n", phase, npkts);
    fflush(stdout);
    _exit(3);
}
static double now_ms(void) { struct timespec t; clock_gettime(CLOCK_MONOTONIC, &t); return t.tv_sec * 1e3 + t.tv_nsec / 1e6; }

static void handle_packet(EbBufferHeaderType *b) {
    alarm(P.watchdog);
    if (got_eos_pkt) printf("ERR packet-after-eos\n");
    printf("PKT %d %" PRId64 " %" PRId64 " %u %u %u %u %016" PRIx64 " 0 0 0 %" PRIdPTR "\n", npkts, b->pts, b->dts, b->flags,
           b->pic_type, b->qp, b->n_filled_len, fnv(b->p_buffer, b->n_filled_len, FNV0), (intptr_t)b->p_app_private);
    if (b->flags & ~(uint32_t)(EB_BUFFERFLAG_EOS | EB_BUFFERFLAG_SHOW_EXT | EB_BUFFERFLAG_HAS_TD | EB_BUFFERFLAG_IS_ALT_REF))
        printf("ERR error-packet flags=%08x\n", b->flags);
    if (P.hex) {
        printf("HEX %d ", npkts);
        for (uint32_t i = 0; i < b->n_filled_len; i++) printf("%02x", b->p_buffer[i]);
        printf("\n");
    }
    if (npkts == cap_pkts) { cap_pkts = cap_pkts ? cap_pkts * 2 : 64; pkts = realloc(pkts, cap_pkts * sizeof(Pkt)); }
    pkts[npkts].data = malloc(b->n_filled_len ? b->n_filled_len : 1); memcpy(pkts[npkts].data, b->p_buffer, b->n_filled_len);
    pkts[npkts].size = b->n_filled_len; npkts++;
    if (b->flags & EB_BUFFERFLAG_EOS) got_eos_pkt = 1;
}
static int poll_packets(EbComponentType *h, int blocking) {
    int got = 0;
    for (;;) {
        EbBufferHeaderType *b = NULL;
        EbErrorType e = svt_av1_enc_get_packet(h, &b, (uint8_t)blocking);
        if (e == EB_NoErrorEmptyQueue || b == NULL) { if (e != EB_NoErrorEmptyQueue && e != EB_ErrorNone) printf("ERR get_packet %x\n", e); break; }
        if (e != EB_ErrorNone) printf("ERR get_packet %x\n", e);
        handle_packet(b); got++;
        svt_av1_enc_release_out_buffer(&b);
        if (blocking) break;
    }
    return got;
}
static int poll_recon(EbComponentType *h, EbBufferHeaderType *rb) {
    int got = 0;
    if (!P.recon) return 0;
    for (;;) {
        EbErrorType e = svt_av1_get_recon(h, rb);
        if (e == EB_NoErrorEmptyQueue) break;
        if (e != EB_ErrorNone) { printf("ERR get_recon %x\n", e); break; }
        printf("RECON %d %" PRId64 " %u %016" PRIx64 " %u\n", nrecs, rb->pts, rb->n_filled_len, fnv(rb->p_buffer, rb->n_filled_len, FNV0), rb->flags);
        nrecs++; got++;
        if (rb->flags & EB_BUFFERFLAG_EOS) got_eos_recon = 1;
    }
    return got;
}

static int decode_all(void) {
    EbSvtAv1DecConfiguration dc; EbComponentType *dh = NULL;
    memset(&dc, 0, sizeof(dc));
    if (svt_av1_dec_init_handle(&dh, NULL, &dc) != EB_ErrorNone) { printf("ERR dec_init_handle\n"); return 0; }
    dc.max_picture_width = P.w; dc.max_picture_height = P.h;
    dc.max_bit_depth = P.bd > 8 ? EB_TEN_BIT : EB_EIGHT_BIT; dc.max_color_format = EB_YUV420;
    dc.threads = 1; dc.is_16bit_pipeline = 0; dc.skip_film_grain = 0; dc.eight_bit_output = 0;
    if (svt_av1_dec_set_parameter(dh, &dc) != EB_ErrorNone) { printf("ERR dec_set_parameter\n"); return 0; }
    if (svt_av1_dec_init(dh) != EB_ErrorNone) { printf("ERR dec_init\n"); svt_av1_dec_deinit_handle(dh); return 0; }
    int bps = P.bd > 8 ? 2 : 1;
    EbBufferHeaderType ob; EbSvtIOFormat io; memset(&ob, 0, sizeof(ob)); memset(&io, 0, sizeof(io));
    size_t ysz = (size_t)P.w * P.h * bps;
    io.luma = malloc(ysz); io.cb = malloc(ysz / 4 + 16); io.cr = malloc(ysz / 4 + 16);
    io.y_stride = P.w; io.cb_stride = P.w / 2; io.cr_stride = P.w / 2; io.width = P.w; io.height = P.h;
    io.bit_depth = dc.max_bit_depth; io.color_fmt = EB_YUV420;
    ob.p_buffer = (uint8_t *)&io; ob.size = sizeof(ob);
    EbAV1StreamInfo si; EbAV1FrameInfo fi; memset(&si, 0, sizeof(si)); memset(&fi, 0, sizeof(fi));
    int ndec = 0;
    for (int i = 0; i < npkts; i++) {
        EbErrorType e = svt_av1_dec_frame(dh, pkts[i].data, pkts[i].size, 0);
        if (e != EB_ErrorNone) printf("ERR dec_frame pkt=%d code=%x\n", i, e);
        if (svt_av1_dec_get_picture(dh, &ob, &si, &fi) != EB_DecNoOutputPicture) {
            uint64_t c = fnv(io.luma, ysz, FNV0); c = fnv(io.cb, ysz / 4, c); c = fnv(io.cr, ysz / 4, c);
            printf("DEC %d %016" PRIx64 " %u %u %d pkt=%d\n", ndec, c, si.max_picture_width, si.max_picture_height, P.bd, i);
            ndec++;
        }
    }
    svt_av1_dec_deinit(dh); svt_av1_dec_deinit_handle(dh);
    free(io.luma); free(io.cb); free(io.cr);
    return ndec;
}

int main(int argc, char **argv) {
    memset(&P, 0, sizeof(P));
    P.w = 128; P.h = 64; P.n = 3; P.bd = 8; P.recon = 0; P.decode = 0; P.watchdog = 120; P.eos = 1; P.pts_step = 1; P.pts_gap = 1000; P.seed = 1;
    P.content = 2; P.final_block = -1;
    static EbSvtAv1EncConfiguration cfg;
    for (int i = 1; i < argc; i++) {
        char *eq = strchr(argv[i], '='); if (!eq) continue;
        *eq = 0; const char *k = argv[i]; long long v = parse_ll(eq + 1);
#define PAR(name) if (!strcmp(k, #name)) P.name = (int)v;
        PAR(w) PAR(h) PAR(n) PAR(bd) PAR(content) PAR(recon) PAR(decode) PAR(hex) PAR(watchdog) PAR(eos) PAR(pts_mode) PAR(poll) PAR(final_block)
#undef PAR
        if (!strcmp(k, "pts_base")) P.pts_base = v;
        if (!strcmp(k, "pts_step")) P.pts_step = v;
        if (!strcmp(k, "pts_gap")) P.pts_gap = v > 0 ? v : 1;
        if (!strcmp(k, "seed")) P.seed = strtoull(eq + 1, NULL, 10);
        *eq = '=';
    }
    if (P.final_block < 0) P.final_block = P.recon ? 0 : 1;
    /* library initialisation allocates and touches all pools: give it at least 180 s on a loaded machine */
    signal(SIGALRM, on_timeout); alarm(P.watchdog > 180 ? P.watchdog : 180);
    setvbuf(stdout, NULL, _IOFBF, 1 << 20);
    EbComponentType *h = NULL;
    EbErrorType e = svt_av1_enc_init_handle(&h, NULL, &cfg);
    if (e != EB_ErrorNone) { printf("ERR init_handle %x\n", e); return 0; }
    cfg.source_width = P.w; cfg.source_height = P.h; cfg.encoder_bit_depth = P.bd; cfg.recon_enabled = P.recon;
    cfg.enc_mode = 8; cfg.logical_processors = 4;
    for (int i = 1; i < argc; i++) {
        if (strncmp(argv[i], "cfg.", 4)) continue;
        char *eq = strchr(argv[i], '='); if (!eq) continue;
        *eq = 0;
        if (!set_cfg_field(&cfg, argv[i] + 4, parse_ll(eq + 1))) printf("ERR unknown-config-field %s\n", argv[i] + 4);
        *eq = '=';
    }
    e = svt_av1_enc_set_parameter(h, &cfg);
    printf("SETPARAM %x\n", e);
    if (e != EB_ErrorNone) { svt_av1_enc_deinit_handle(h); printf("END rejected\n"); return 0; }
    e = svt_av1_enc_init(h);
    if (e != EB_ErrorNone) { printf("ERR enc_init %x\n", e); svt_av1_enc_deinit(h); svt_av1_enc_deinit_handle(h); return 0; }
    EbBufferHeaderType rb; memset(&rb, 0, sizeof(rb));
    rb.size = sizeof(rb); rb.n_alloc_len = (uint32_t)((size_t)P.w * P.h * 3 / 2 * (P.bd > 8 ? 2 : 1)) + 64; rb.p_buffer = malloc(rb.n_alloc_len);
    Rng ptsr = {P.seed ^ 0x9757}, pollr = {P.seed ^ 0xCA11}, privr = {P.seed ^ 0x9A1F};
    int64_t pts = P.pts_base;
    int64_t *used = calloc(P.n + 1, sizeof(int64_t));
    phase = "send"; alarm(P.watchdog);
    for (int f = 0; f < P.n; f++) {
        EbBufferHeaderType in; EbSvtIOFormat io; Pic pic;
        memset(&in, 0, sizeof(in));
        make_pic(f, &io, &pic);
        switch (P.pts_mode) {
        case 0: pts = P.pts_base + (int64_t)f * P.pts_step; break;
        case 1: pts = f == 0 ? P.pts_base : pts + 1 + (int64_t)(rnd(&ptsr) % (uint64_t)P.pts_gap); break;
        case 2: for (;;) { int dup = 0; pts = (int64_t)(rnd(&ptsr) & 0xFFFFFFFFFFull) - (1ll << 39);
                           for (int j = 0; j < f; j++) if (used[j] == pts) dup = 1; if (!dup) break; } break;
        default: pts = P.pts_base - (int64_t)f * P.pts_step; break;
        }
        used[f] = pts;
        intptr_t priv = (intptr_t)(0x10000 + ((rnd(&privr) & 0xFFF) << 12) + f);   /* distinct (low bits = f), non-zero */
        in.size = sizeof(in); in.p_buffer = (uint8_t *)&io; in.n_filled_len = (uint32_t)(pic.ysz + 2 * pic.csz); in.n_alloc_len = in.n_filled_len;
        in.pts = pts; in.pic_type = EB_AV1_INVALID_PICTURE; in.flags = 0; in.p_app_private = (void *)priv;
        printf("IN %d %" PRId64 " %" PRIdPTR "\n", f, pts, priv);
        e = svt_av1_enc_send_picture(h, &in);
        alarm(P.watchdog);
        if (e != EB_ErrorNone) printf("ERR send_picture %x\n", e);
        free(pic.luma); free(pic.cb); free(pic.cr);
        if (P.poll == 0 || (P.poll == 2 && (rnd(&pollr) & 1))) { poll_packets(h, 0); poll_recon(h, &rb); }
    }
    if (P.eos) {
        EbBufferHeaderType in; memset(&in, 0, sizeof(in));
        in.size = sizeof(in); in.flags = EB_BUFFERFLAG_EOS; in.p_buffer = NULL; in.pic_type = EB_AV1_INVALID_PICTURE;
        phase = "send-eos";
        svt_av1_enc_send_picture(h, &in);
        if (P.n > 0) {
            /* the documented final drain: blocking get_packet until the EOS packet; the watchdog is the oracle for "never arrives" */
            double t0 = now_ms();
            if (P.final_block) {
                phase = "final-blocking-get_packet";
                while (!got_eos_pkt && npkts < P.n + 8) { if (!poll_packets(h, 1)) { printf("ERR blocking-get-returned-nothing\n"); break; } poll_recon(h, &rb); }
            } else {
                phase = "final-nonblocking-drain";
                while (!got_eos_pkt && npkts < P.n + 8) { int g = poll_packets(h, 0); int q = poll_recon(h, &rb); if (q) alarm(P.watchdog); if (!g && !q) usleep(1000); }
            }
            printf("FINALWAIT %.0f\n", now_ms() - t0);
            phase = "after-eos";
            if (P.recon) { int spins = 0; while (!got_eos_recon && nrecs < P.n && spins < 20000) { if (!poll_recon(h, &rb)) { usleep(500); spins++; } } }
            poll_recon(h, &rb);
            usleep(30000);
            if (poll_packets(h, 0)) printf("ERR packet-after-eos-drain\n");
            poll_recon(h, &rb);
        } else {
            /* empty stream: nothing may be waited for with a blocking call (there may be no packet at all) */
            phase = "empty-stream";
            for (int k = 0; k < 10; k++) { usleep(30000); poll_packets(h, 0); }
        }
    }
    phase = "deinit"; alarm(P.watchdog);
    e = svt_av1_enc_deinit(h); if (e != EB_ErrorNone) printf("ERR enc_deinit %x\n", e);
    e = svt_av1_enc_deinit_handle(h); if (e != EB_ErrorNone) printf("ERR enc_deinit_handle %x\n", e);
    int ndec = 0;
    phase = "decode"; alarm(P.watchdog > 0 ? 10 * P.watchdog : 0);
    if (P.decode && npkts) ndec = decode_all();
    printf("END packets=%d recons=%d decoded=%d\n", npkts, nrecs, ndec);
    fflush(stdout);
    return 0;
}
