/* dec_run — drives the REAL SVT-AV1 decoder alone on a list of packets (C08 / C01).
 *
 *   dec_run key=value ...   < packets
 *
 * One decoder instance per process (a second svt_av1_dec_init in the same process is a recorded C14 finding), so the
 * decoder-configuration differential (is_16bit_pipeline 0/1, threads 1/N, skip_film_grain 0/1) runs this program once
 * per configuration on the same packets and compares the printed checksums.
 *
 * stdin:   PKT <index> <hex bytes>      one encoder output packet (temporal unit) per line, in bitstream order
 * params:  w h bd (picture size / bit depth of the stream: size of the caller's output buffers, as harness/enc_e2e.c)
 *          threads dec16 fg_skip watchdog  dump=<k> (print the samples of output picture k as DECHEX plane w h <hex>)
 * stdout:  DEC k crc max_w max_h bd pkt=<i>     k-th output picture; crc = FNV-1a over luma|cb|cr visible samples in the
 *                                               caller's tightly packed buffers - the same value harness/enc_e2e.c prints
 *                                               in its DEC lines and (for the encoder reconstruction) in its RECON lines
 *          ERR dec_frame pkt=<i> code=<hex>     svt_av1_dec_frame returned an error
 *          ERR <what>
 *          END decoded=K packets=N
 * Exit code: 0 normal; 3 watchdog timeout (prints TIMEOUT first).
 */
#include <stdio.h>
#include <stdlib.h>
#include <string.h>
#include <stdint.h>
#include <unistd.h>
#include <signal.h>
#include <inttypes.h>
#include "EbSvtAv1Dec.h"

static uint64_t fnv(const uint8_t *p, size_t n, uint64_t h) {
    for (size_t i = 0; i < n; i++) { h ^= p[i]; h *= 0x100000001b3ull; }
    return h;
}
#define FNV0 0xcbf29ce484222325ull

static void on_timeout(int sig) { (void)sig; static const char m[] = "TIMEOUT\n"; if (write(1, m, sizeof(m) - 1)) {} _exit(3); }

static int hexv(int c) {
    if (c >= '0' && c <= '9') return c - '0';
    if (c >= 'a' && c <= 'f') return c - 'a' + 10;
    if (c >= 'A' && c <= 'F') return c - 'A' + 10;
    return -1;
}

int main(int argc, char **argv) {
    int w = 64, h = 64, bd = 8, threads = 1, dec16 = 0, fg_skip = 0, watchdog = 600, dump = -1;
    for (int i = 1; i < argc; i++) {
        char *eq = strchr(argv[i], '='); if (!eq) continue;
        *eq = 0; const char *k = argv[i]; int v = atoi(eq + 1);
#define PAR(name) if (!strcmp(k, #name)) name = v;
        PAR(w) PAR(h) PAR(bd) PAR(threads) PAR(dec16) PAR(fg_skip) PAR(watchdog) PAR(dump)
#undef PAR
        *eq = '=';
    }
    signal(SIGALRM, on_timeout); alarm((unsigned)watchdog);
    setvbuf(stdout, NULL, _IOFBF, 1 << 20);

    EbSvtAv1DecConfiguration dc; EbComponentType *dh = NULL;
    memset(&dc, 0, sizeof(dc));
    if (svt_av1_dec_init_handle(&dh, NULL, &dc) != EB_ErrorNone) { printf("ERR dec_init_handle\nEND decoded=0 packets=0\n"); return 0; }
    dc.max_picture_width = (uint32_t)w; dc.max_picture_height = (uint32_t)h;
    dc.max_bit_depth = bd > 8 ? EB_TEN_BIT : EB_EIGHT_BIT; dc.max_color_format = EB_YUV420;
    dc.threads = (uint32_t)threads; dc.is_16bit_pipeline = (EbBool)dec16; dc.skip_film_grain = (uint32_t)fg_skip; dc.eight_bit_output = 0;
    if (svt_av1_dec_set_parameter(dh, &dc) != EB_ErrorNone) { printf("ERR dec_set_parameter\nEND decoded=0 packets=0\n"); return 0; }
    if (svt_av1_dec_init(dh) != EB_ErrorNone) { printf("ERR dec_init\nEND decoded=0 packets=0\n"); return 0; }
    int bps = bd > 8 ? 2 : 1;
    EbBufferHeaderType ob; EbSvtIOFormat io; memset(&ob, 0, sizeof(ob)); memset(&io, 0, sizeof(io));
    size_t ysz = (size_t)w * h * bps;
    io.luma = malloc(ysz); io.cb = malloc(ysz / 4 + 16); io.cr = malloc(ysz / 4 + 16);
    io.y_stride = (uint32_t)w; io.cb_stride = (uint32_t)w / 2; io.cr_stride = (uint32_t)w / 2; io.width = (uint32_t)w; io.height = (uint32_t)h;
    io.bit_depth = dc.max_bit_depth; io.color_fmt = EB_YUV420;
    ob.p_buffer = (uint8_t *)&io; ob.size = sizeof(ob);
    EbAV1StreamInfo si; EbAV1FrameInfo fi; memset(&si, 0, sizeof(si)); memset(&fi, 0, sizeof(fi));

    char *line = NULL; size_t cap = 0; ssize_t len;
    int ndec = 0, npk = 0;
    while ((len = getline(&line, &cap, stdin)) > 0) {
        if (strncmp(line, "PKT ", 4)) continue;
        char *p = line + 4; int idx = (int)strtol(p, &p, 10);
        while (*p == ' ') p++;
        size_t n = 0; uint8_t *buf = malloc((size_t)len / 2 + 1);
        while (hexv(p[0]) >= 0 && hexv(p[1]) >= 0) { buf[n++] = (uint8_t)(hexv(p[0]) * 16 + hexv(p[1])); p += 2; }
        npk++;
        memset(io.luma, 0xA5, ysz); memset(io.cb, 0xA5, ysz / 4); memset(io.cr, 0xA5, ysz / 4);
        EbErrorType e = svt_av1_dec_frame(dh, buf, n, 0);
        if (e != EB_ErrorNone) printf("ERR dec_frame pkt=%d code=%x\n", idx, e);
        /* the API delivers at most one picture per svt_av1_dec_frame call (as DecApp uses it) */
        if (svt_av1_dec_get_picture(dh, &ob, &si, &fi) != EB_DecNoOutputPicture) {
            uint64_t c = fnv(io.luma, ysz, FNV0); c = fnv(io.cb, ysz / 4, c); c = fnv(io.cr, ysz / 4, c);
            printf("DEC %d %016" PRIx64 " %u %u %d pkt=%d\n", ndec, c, si.max_picture_width, si.max_picture_height, bd, idx);
            if (dump == ndec) {
                const uint8_t *pl[3] = {io.luma, io.cb, io.cr};
                for (int q = 0; q < 3; q++) {
                    int W = q ? w / 2 : w, H = q ? h / 2 : h;
                    printf("DECHEX %d %d %d ", q, W, H);
                    for (size_t i = 0; i < (size_t)W * H * bps; i++) printf("%02x", pl[q][i]);
                    printf("\n");
                }
            }
            ndec++;
        }
        free(buf);
    }
    free(line);
    printf("END decoded=%d packets=%d\n", ndec, npk);
    fflush(stdout);
    /* no svt_av1_dec_deinit: teardown paths are C14's subject; the process exits */
    _exit(0);
}
