"""C03 unit harness on the REAL pre-assignment-buffer code: generate a C program that contains, verbatim (text anchors,
brace-checked), the pieces of EbPictureDecisionProcess.c that `Model/MiniGop.lean` transcribes, compiled against the real
headers (real struct layouts):
  A  bookkeeping on entry    picture_decision_kernel  `encode_context_ptr->pre_assignment_buffer_eos_flag = ...` ..
                                                     `encode_context_ptr->pre_assignment_buffer_count += 1;`          (today 4793-4798)
  B  release condition       picture_decision_kernel  `if ((encode_context_ptr->pre_assignment_buffer_intra_count > 0) ||` ..
                                                     `(pcs_ptr->pred_structure == EB_PRED_LOW_DELAY_B))`             (today 4812-4816)
  C  send loop               picture_decision_kernel  `if (context_ptr->prev_delayed_intra) { pcs_ptr = ...; ... = NULL; send_picture_out(...) }`
                                                     + `for (pic_i < mg_size) { if (is_delayed_intra) prev_delayed_intra = pcs; else send_picture_out }`
                                                                                                                      (today 5570-5585)
  D  reset                   picture_decision_kernel  `// Reset the Pre-Assignment Buffer` + 5 statements            (today 5588-5593)
  E  is_delayed_intra        whole function                                                                           (today 3739-3750)
Hand-written in the harness (cannot be extracted: entangled with the queues / prediction structures): appending the picture
to `pre_assignment_buffer[count]` (l.4740), `pcs->pre_assignment_buffer_count = mini_gop_length` (l.4886), and the split of the
released buffer into mini-GOPs, which is taken as ONE mini-GOP in buffer order (the model's `split = fun b => [b]`);
`send_picture_out` is a stub that records the picture number.

Line protocol = the `MG` lines of `svtmodel packetize` (lean/Driver/MiniGop.lean):
   `MG levels lowDelay P period n  idr_0 cra_0 eos_0  idr_1 ...`   ->  `S k a_1 .. a_k B m b_1 .. b_m D d`
       S: picture numbers handed to send_picture_out, in order; B: pictures still in the pre-assignment buffer; D: picture parked in
       prev_delayed_intra or -1.
"""
import os
import re
import sys

REPO = os.environ.get("SVT_REPO", os.environ.get("VERIF_REPO", "/repo"))
PD_SRC = "Source/Lib/Encoder/Codec/EbPictureDecisionProcess.c"


class ExtractError(Exception):
    pass


def _nocomment(t):
    t = re.sub(r"/\*.*?\*/", "", t, flags=re.S)
    return re.sub(r"//[^\n]*", "", t)


def _balanced(t, what):
    nc = _nocomment(t)
    if nc.count("{") != nc.count("}") or nc.count("(") != nc.count(")"):
        raise ExtractError("unbalanced extract (%s)" % what)


def _between(src, start, end, frm=0, include_end=False, what=""):
    a = src.find(start, frm)
    if a < 0:
        raise ExtractError("start anchor not found: %s (%s)" % (start, what))
    b = src.find(end, a + len(start))
    if b < 0:
        raise ExtractError("end anchor not found: %s (%s)" % (end, what))
    if include_end:
        b += len(end)
    t = src[a:b]
    _balanced(t, what)
    return t, src.count("\n", 0, a) + 1, src.count("\n", 0, b) + 1


def _function(src, header, what):
    a = src.find(header)
    if a < 0:
        raise ExtractError("function not found: %s" % what)
    i = src.find("{", a)
    depth, j = 0, i
    while j < len(src):
        if src[j] == "{":
            depth += 1
        elif src[j] == "}":
            depth -= 1
            if depth == 0:
                break
        j += 1
    t = src[a:j + 1]
    _balanced(t, what)
    return t, src.count("\n", 0, a) + 1, src.count("\n", 0, j) + 1


def pieces():
    pd = open(os.path.join(REPO, PD_SRC)).read()
    k = pd.find("void* picture_decision_kernel(")
    if k < 0:
        k = pd.find("picture_decision_kernel(void *input_ptr)")
    if k < 0:
        raise ExtractError("picture_decision_kernel not found")
    out = {}
    out["A"] = _between(pd, "encode_context_ptr->pre_assignment_buffer_eos_flag = (pcs_ptr->end_of_sequence_flag)",
                        "encode_context_ptr->pre_assignment_buffer_count += 1;", frm=k, include_end=True, what="entry bookkeeping")
    out["B"] = _between(pd, "if ((encode_context_ptr->pre_assignment_buffer_intra_count > 0) ||",
                        "(pcs_ptr->pred_structure == EB_PRED_LOW_DELAY_B))", frm=k, include_end=True, what="release condition")
    # the send loop: the `if (context_ptr->prev_delayed_intra)` whose body resets the pointer, up to the end of the mini-GOP loop body
    m = re.search(r"if \(context_ptr->prev_delayed_intra\) \{\s*pcs_ptr = context_ptr->prev_delayed_intra;\s*context_ptr->prev_delayed_intra = NULL;", pd[k:])
    if not m:
        raise ExtractError("send loop start not found")
    c0 = k + m.start()
    out["C"] = _between(pd, "if (context_ptr->prev_delayed_intra) {", "} // End MINI GOPs loop", frm=c0, what="send loop")
    out["D"] = _between(pd, "// Reset the Pre-Assignment Buffer", "encode_context_ptr->pre_assignment_buffer_eos_flag = EB_FALSE;",
                        frm=c0, include_end=True, what="reset")
    out["E"] = _function(pd, "EbBool is_delayed_intra(PictureParentControlSet *pcs)", "is_delayed_intra")
    if "send_picture_out" not in out["C"][0] or "is_delayed_intra" not in out["C"][0] or "mg_pictures_array" not in out["C"][0]:
        raise ExtractError("send loop does not look as expected")
    if out["C"][0].count("send_picture_out") != 2:
        raise ExtractError("send loop: expected exactly two send_picture_out calls")
    return out


TEMPLATE = r'''/* generated by harness/minigop_extract.py -- do not edit */
#include <stdio.h>
#include <stdlib.h>
#include <string.h>
#include "EbPictureDecisionProcess.h"
#include "EbDefinitions.h"
#include "EbEncHandle.h"
#include "EbPictureControlSet.h"
#include "EbSequenceControlSet.h"
#include "EbPredictionStructure.h"
#include "EbUtility.h"

#define MAXN 4096
static unsigned long long sent[MAXN]; static int nsent;
static void send_picture_out(SequenceControlSet *scs, PictureParentControlSet *pcs, PictureDecisionContext *ctx) {
    (void)scs; (void)ctx; if (nsent < MAXN) sent[nsent++] = pcs->picture_number;
}

/* ==== E verbatim %(pd)s:%(E0)d-%(E1)d ==== */
%(E)s

static SequenceControlSet *scs_ptr; static EncodeContext *encode_context_ptr; static PictureDecisionContext *context_ptr;
static PredictionStructure pred_struct;
static PictureParentControlSet pics[MAXN]; static EbObjectWrapper wrappers[MAXN];

static void one_picture(int k) {
    PictureParentControlSet *pcs_ptr;
    /* l.4740-4745 (hand-copied): the picture enters the pre-assignment buffer */
    encode_context_ptr->pre_assignment_buffer[encode_context_ptr->pre_assignment_buffer_count] = &wrappers[k];
    pcs_ptr = (PictureParentControlSet *)encode_context_ptr->pre_assignment_buffer[encode_context_ptr->pre_assignment_buffer_count]->object_ptr;
/* ==== A verbatim %(pd)s:%(A0)d-%(A1)d ==== */
    %(A)s
/* ==== B verbatim %(pd)s:%(B0)d-%(B1)d ==== */
    %(B)s
    {
        /* hand-written stand-in for l.4818-5560: ONE mini-GOP = the whole buffer, in buffer order */
        uint32_t mg_size = encode_context_ptr->pre_assignment_buffer_count;
        uint32_t out_stride_diff64;
        for (out_stride_diff64 = 0; out_stride_diff64 < mg_size; ++out_stride_diff64) {
            pcs_ptr = (PictureParentControlSet *)encode_context_ptr->pre_assignment_buffer[out_stride_diff64]->object_ptr;
            pcs_ptr->pre_assignment_buffer_count = mg_size;                 /* l.4886 */
            context_ptr->mg_pictures_array[out_stride_diff64] = pcs_ptr;    /* l.5524 */
        }
        context_ptr->mg_size = mg_size;
        {
/* ==== C verbatim %(pd)s:%(C0)d-%(C1)d ==== */
        %(C)s
        }
/* ==== D verbatim %(pd)s:%(D0)d-%(D1)d ==== */
        %(D)s
    }
}

int main(void) {
    char *line = NULL; size_t cap = 0;
    scs_ptr = calloc(1, sizeof(*scs_ptr)); encode_context_ptr = calloc(1, sizeof(*encode_context_ptr)); context_ptr = calloc(1, sizeof(*context_ptr));
    if (!scs_ptr || !encode_context_ptr || !context_ptr) return 3;
    encode_context_ptr->pre_assignment_buffer = calloc(MAXN, sizeof(EbObjectWrapper *));
    while (getline(&line, &cap, stdin) > 0) {
        char *p = line, *e; long long v[5]; int ok = 1;
        if (strncmp(p, "MG ", 3)) { printf("bad-op\n"); continue; }
        p += 3;
        for (int i = 0; i < 5; i++) { v[i] = strtoll(p, &e, 10); if (e == p) ok = 0; p = e; }
        if (!ok || v[0] < 0 || v[0] > 5 || v[4] < 0 || v[4] > MAXN) { printf("bad-op\n"); continue; }
        int levels = (int)v[0], low_delay = v[1] != 0, n = (int)v[4];
        memset(scs_ptr, 0, sizeof(*scs_ptr)); memset(context_ptr, 0, sizeof(*context_ptr));
        EbObjectWrapper **keep = encode_context_ptr->pre_assignment_buffer;
        memset(encode_context_ptr, 0, sizeof(*encode_context_ptr)); encode_context_ptr->pre_assignment_buffer = keep;
        scs_ptr->static_config.hierarchical_levels = (uint32_t)levels;
        scs_ptr->static_config.intra_period_length = (int32_t)v[2];
        scs_ptr->intra_period_length = (int32_t)v[2];
        memset(&pred_struct, 0, sizeof(pred_struct)); pred_struct.pred_struct_period = (uint32_t)v[3];
        nsent = 0;
        for (int k = 0; k < n && ok; k++) {
            long long f[3];
            for (int i = 0; i < 3; i++) { f[i] = strtoll(p, &e, 10); if (e == p) ok = 0; p = e; }
            if (!ok) break;
            memset(&pics[k], 0, sizeof(pics[k]));
            pics[k].picture_number = (uint64_t)k; pics[k].idr_flag = f[0] != 0; pics[k].cra_flag = f[1] != 0; pics[k].end_of_sequence_flag = f[2] != 0;
            pics[k].scs_ptr = scs_ptr; pics[k].pred_struct_ptr = &pred_struct;
            pics[k].pred_structure = low_delay ? EB_PRED_LOW_DELAY_P : EB_PRED_RANDOM_ACCESS;
            wrappers[k].object_ptr = (EbPtr)&pics[k];
            one_picture(k);
        }
        if (!ok) { printf("bad-op\n"); continue; }
        printf("S %%d", nsent);
        for (int i = 0; i < nsent; i++) printf(" %%llu", sent[i]);
        printf(" B %%u", encode_context_ptr->pre_assignment_buffer_count);
        for (uint32_t i = 0; i < encode_context_ptr->pre_assignment_buffer_count; i++)
            printf(" %%llu", (unsigned long long)((PictureParentControlSet *)encode_context_ptr->pre_assignment_buffer[i]->object_ptr)->picture_number);
        if (context_ptr->prev_delayed_intra) printf(" D %%llu\n", (unsigned long long)context_ptr->prev_delayed_intra->picture_number);
        else printf(" D -1\n");
    }
    return 0;
}
'''


def source():
    ps = pieces()
    d = {"pd": PD_SRC}
    for k, (t, l0, l1) in ps.items():
        d[k] = t
        d[k + "0"] = l0
        d[k + "1"] = l1
    return TEMPLATE % d


def write_source(out_dir):
    os.makedirs(out_dir, exist_ok=True)
    p = os.path.join(out_dir, "minigop_harness.c")
    t = source()
    if not os.path.exists(p) or open(p).read() != t:
        open(p, "w").write(t)
    return p


if __name__ == "__main__":
    print(write_source(sys.argv[1] if len(sys.argv) > 1 else "."))
