/* c11_units — runs the REAL padding / recon-size / bitstream-buffer-size code of /repo on the operation lines of
 * `svtmodel c11` and prints the same canonical lines.
 *
 *   pad w h          -> set_param_based_on_input() (EbEncHandle.c, linked from libSvtAv1Enc.a) on a zeroed SequenceControlSet with
 *                       max_input_luma_width/height = w/h, subsampling 1/1
 *   recon w h bd     -> the same, then svt_output_recon_buffer_header_creator() (real allocation, n_alloc_len), then the three
 *                       `sample_total_count = ...;` statements of recon_output() — their SOURCE TEXT is extracted from
 *                       EbEncDecProcess.c by checks/c11.py into c11_recon_stmts.h (RECON_STMT_Y/U/V) and compiled here against the
 *                       real structure types — with the `n_filled_len + sample_total_count <= n_alloc_len` test and `+=` of the code
 *   bitbuf w h tiles -> EB_OUTPUTSTREAMBUFFERSIZE_MACRO (EbDefinitions.h) on the padded size, and / tiles as picture_control_set_ctor
 */
#include <stdio.h>
#include <stdlib.h>
#include <string.h>
#include "EbSvtAv1Enc.h"
#include "EbDefinitions.h"
#include "EbSequenceControlSet.h"
#include "EbPictureBufferDesc.h"
#include "c11_recon_stmts.h"

void        set_param_based_on_input(SequenceControlSet *scs_ptr);
EbErrorType svt_output_recon_buffer_header_creator(EbPtr *object_dbl_ptr, EbPtr object_init_data_ptr);
void        svt_output_recon_buffer_header_destroyer(EbPtr p);

static SequenceControlSet *mk_scs(int w, int h, int bd) {
    SequenceControlSet *scs = calloc(1, sizeof(*scs));
    scs->max_input_luma_width = (uint16_t)w; scs->max_input_luma_height = (uint16_t)h;
    scs->subsampling_x = 1; scs->subsampling_y = 1;
    scs->static_config.encoder_bit_depth = (uint32_t)bd;
    scs->static_config.enc_mode = 8; scs->static_config.logical_processors = 4;
    set_param_based_on_input(scs);
    return scs;
}

int main(void) {
    char line[256], op[32]; long a, b, c;
    while (fgets(line, sizeof(line), stdin)) {
        c = 0;
        int n = sscanf(line, "%31s %ld %ld %ld", op, &a, &b, &c);
        if (n < 3) { printf("bad-op\n"); continue; }
        if (!strcmp(op, "pad")) {
            SequenceControlSet *scs = mk_scs((int)a, (int)b, 8);
            printf("pad %u %u %u %u %u %u\n", scs->max_input_luma_width, scs->max_input_luma_height, scs->max_input_pad_right,
                   scs->max_input_pad_bottom, scs->max_input_chroma_width, scs->max_input_chroma_height);
            if (scs->seq_header.max_frame_width != scs->max_input_luma_width || scs->seq_header.max_frame_height != scs->max_input_luma_height ||
                scs->chroma_width != scs->max_input_chroma_width || scs->chroma_height != scs->max_input_chroma_height ||
                scs->static_config.source_width != scs->max_input_luma_width || scs->static_config.source_height != scs->max_input_luma_height)
                printf("ERR aliases-differ\n");
            free(scs);
        } else if (!strcmp(op, "recon")) {
            SequenceControlSet *scs_ptr = mk_scs((int)a, (int)b, (int)c);
            EbPtr obj = NULL;
            if (svt_output_recon_buffer_header_creator(&obj, scs_ptr) != EB_ErrorNone || !obj) { printf("ERR creator\n"); free(scs_ptr); continue; }
            EbBufferHeaderType *output_recon_ptr = (EbBufferHeaderType *)obj;
            EbPictureBufferDesc desc, *recon_ptr = &desc;
            memset(&desc, 0, sizeof(desc));
            /* reference / recon picture descriptors are created with the padded size (EbEncHandle.c:1083-1084, 1183-1184) */
            desc.max_width = scs_ptr->max_input_luma_width; desc.max_height = scs_ptr->max_input_luma_height;
            desc.width = desc.max_width; desc.height = desc.max_height;
            EbBool   is_16bit = (scs_ptr->static_config.encoder_bit_depth > EB_8BIT);   /* EbEncDecProcess.c:422 */
            uint32_t sample_total_count; uint32_t f[3]; int ok = 1;
            output_recon_ptr->n_filled_len = 0;
            RECON_STMT_Y; ok &= (output_recon_ptr->n_filled_len + sample_total_count <= output_recon_ptr->n_alloc_len);
            output_recon_ptr->n_filled_len += sample_total_count; f[0] = output_recon_ptr->n_filled_len;
            RECON_STMT_U; ok &= (output_recon_ptr->n_filled_len + sample_total_count <= output_recon_ptr->n_alloc_len);
            output_recon_ptr->n_filled_len += sample_total_count; f[1] = output_recon_ptr->n_filled_len;
            RECON_STMT_V; ok &= (output_recon_ptr->n_filled_len + sample_total_count <= output_recon_ptr->n_alloc_len);
            output_recon_ptr->n_filled_len += sample_total_count; f[2] = output_recon_ptr->n_filled_len;
            printf("recon %u %u %u %u %d\n", output_recon_ptr->n_alloc_len, f[0], f[1], f[2], ok);
            svt_output_recon_buffer_header_destroyer(obj);
            free(scs_ptr);
        } else if (!strcmp(op, "bitbuf")) {
            SequenceControlSet *scs = mk_scs((int)a, (int)b, 8);
            uint32_t output_buffer_size = (uint32_t)(EB_OUTPUTSTREAMBUFFERSIZE_MACRO(scs->max_input_luma_width * scs->max_input_luma_height));
            uint32_t total_tile_cnt = (uint32_t)c;
            printf("bitbuf %u %u\n", output_buffer_size, total_tile_cnt ? output_buffer_size / total_tile_cnt : 0);
            free(scs);
        } else printf("bad-op\n");
    }
    return 0;
}
