/* C25 correspondence harness: runs the REAL range coder of /repo.
 *
 *   writer : Source/Lib/Common/Codec/EbBitstreamUnit.c (compiled as its own object, unmodified) through the
 *            inline wrappers of EbBitstreamUnit.h (aom_start_encode, aom_write_symbol, aom_write,
 *            aom_write_literal, aom_stop_encode) and update_cdf of EbCabacContextModel.h
 *   reader : Source/Lib/Decoder/Codec/EbDecBitstreamUnit.h + EbDecBitReader.h (all reader functions are
 *            `static` in those headers: svt_reader_init, aom_read_symbol_, aom_read_, aom_read_literal_,
 *            od_ec_decode_bool_q15, dec_update_cdf)
 *
 * Line protocol on stdin (a "case" is everything up to `done`):
 *   cdf <id> <n> <e0> ... <e_n>     define probability table <id> (0..255): n symbols, n+1 uint16 entries (last = counter)
 *   adapt 0|1                       set allow_update_cdf on writer and reader from this point of the sequence
 *   sym <id> <s>                    aom_write_symbol(w, s, table[id], n)     / aom_read_symbol_
 *   bool <prob> <bit>               aom_write(w, bit, prob)                  / aom_read_
 *   boolq <f> <bit>                 svt_od_ec_encode_bool_q15(&w->ec,bit,f)  / od_ec_decode_bool_q15
 *   lit <nbits> <value>             aom_write_literal(w, value, nbits)       / aom_read_literal_
 *   done                            aom_stop_encode, then decode the produced bytes with the same op shapes; print
 * Output per case (identical text is printed by `svtmodel ec`):
 *   bytes <m> <hex>
 *   tell <tell after every op ...> | <tell returned by aom_stop_encode>
 *   wstate <low> <rng> <cnt> <offs> <number of precarry cells > 255 among precarry_buf[0..offs) before enc_done>
 *   dec <decoded value per op ...>
 *   rstate <dif> <rng> <cnt> <tell_offs> <bytes consumed>
 *   wcdf <id> <entries...>      (one line per defined table, ascending id; writer's final table)
 *   rcdf <id> <entries...>      (reader's final table)
 *   end
 */
#include <stdio.h>
#include <stdlib.h>
#include <string.h>
#include <stdint.h>
#include <assert.h>

#include "EbDefinitions.h"
#include "EbBitstreamUnit.h"
#include "EbDecBitstreamUnit.h"
#include "EbDecBitReader.h"

/* --- link-time stubs for symbols EbBitstreamUnit.c references outside the coder itself --- */
void (*svt_memcpy)(void *dst_ptr, void const *src_ptr, size_t size) = NULL; /* NULL -> stop_encode uses svt_memcpy_c */
void svt_memcpy_c(void *dst_ptr, void const *src_ptr, size_t size) { memcpy(dst_ptr, src_ptr, size); }
#include "EbMalloc.h"
/* only used by output_bitstream_unit_ctor/dctor (the OBU byte buffer object, not part of the coder) */
void svt_print_alloc_fail(const char *file, int line) { fprintf(stderr, "alloc fail %s:%d\n", file, line); }
void svt_add_mem_entry(void *ptr, EbPtrType type, size_t count, const char *file, uint32_t line) { (void)ptr; (void)type; (void)count; (void)file; (void)line; }
void svt_remove_mem_entry(void *ptr, EbPtrType type) { (void)ptr; (void)type; }

enum { OP_SYM, OP_BOOL, OP_BOOLQ, OP_LIT, OP_ADAPT };
typedef struct { int kind; int a; int b; } Op;

#define MAXT 256
static uint16_t tab_init[MAXT][17], tab_w[MAXT][17], tab_r[MAXT][17];
static int      tab_n[MAXT];

static Op    *ops = NULL;
static size_t nops = 0, cap = 0;

static void push(int kind, int a, int b) {
    if (nops == cap) { cap = cap ? cap * 2 : 1024; ops = realloc(ops, cap * sizeof(Op)); }
    ops[nops].kind = kind; ops[nops].a = a; ops[nops].b = b; nops++;
}

static void run_case(void) {
    AomWriter w;
    size_t    i;
    memset(&w, 0, sizeof(w));
    /* every op adds at most 16 bits per coded bool/symbol; literals up to 32 bools */
    size_t bufsz = 64;
    for (i = 0; i < nops; i++) bufsz += (ops[i].kind == OP_LIT) ? 2 * (size_t)(ops[i].a + 1) : 2;
    uint8_t *out = malloc(bufsz);
    int32_t *tells = malloc(sizeof(int32_t) * (nops + 1));
    int     *decv  = malloc(sizeof(int) * (nops + 1));
    memcpy(tab_w, tab_init, sizeof(tab_init));
    memcpy(tab_r, tab_init, sizeof(tab_init));

    /* ---- real writer ---- */
    aom_start_encode(&w, out);
    w.allow_update_cdf = 0;
    for (i = 0; i < nops; i++) {
        Op *o = &ops[i];
        switch (o->kind) {
        case OP_ADAPT: w.allow_update_cdf = (uint8_t)o->a; break;
        case OP_SYM: aom_write_symbol(&w, o->b, tab_w[o->a], tab_n[o->a]); break;
        case OP_BOOL: aom_write(&w, o->b, o->a); break;
        case OP_BOOLQ: svt_od_ec_encode_bool_q15(&w.ec, o->b, (unsigned)o->a); break;
        case OP_LIT: aom_write_literal(&w, o->b, o->a); break;
        }
        tells[i] = svt_od_ec_enc_tell(&w.ec);
    }
    uint32_t wlow = w.ec.low; unsigned wrng = w.ec.rng; int wcnt = w.ec.cnt; uint32_t woffs = w.ec.offs;
    unsigned ncarry = 0;
    for (i = 0; i < woffs; i++) ncarry += w.ec.precarry_buf[i] > 255;
    int32_t  nb_bits = aom_stop_encode(&w);
    uint32_t nbytes  = w.pos;

    printf("bytes %u ", nbytes);
    for (i = 0; i < nbytes; i++) printf("%02x", out[i]);
    printf("\ntell");
    for (i = 0; i < nops; i++) printf(" %d", tells[i]);
    printf(" | %d\n", nb_bits);
    printf("wstate %u %u %d %u %u\n", wlow, wrng, wcnt, woffs, ncarry);

    /* ---- real reader on exactly the produced bytes (heap copy of exact size so that an over-read is visible to ASan) ---- */
    uint8_t *in = malloc(nbytes ? nbytes : 1);
    memcpy(in, out, nbytes);
    SvtReader r;
    memset(&r, 0, sizeof(r));
    svt_reader_init(&r, in, nbytes);
    r.allow_update_cdf = 0;
    for (i = 0; i < nops; i++) {
        Op *o = &ops[i];
        int v = 0;
        switch (o->kind) {
        case OP_ADAPT: r.allow_update_cdf = (uint8_t)o->a; v = o->a; break;
        case OP_SYM: v = aom_read_symbol_(&r, tab_r[o->a], tab_n[o->a]); break;
        case OP_BOOL: v = aom_read_(&r, o->a); break;
        case OP_BOOLQ: v = od_ec_decode_bool_q15(&r.ec, (unsigned)o->a); break;
        case OP_LIT: v = aom_read_literal_(&r, o->a); break;
        }
        decv[i] = v;
    }
    printf("dec");
    for (i = 0; i < nops; i++) printf(" %d", decv[i]);
    printf("\nrstate %u %u %d %d %ld\n", r.ec.dif, (unsigned)r.ec.rng, (int)r.ec.cnt, (int)r.ec.tell_offs,
           (long)(r.ec.bptr - r.ec.buf));
    for (int t = 0; t < MAXT; t++)
        if (tab_n[t]) {
            printf("wcdf %d", t);
            for (int k = 0; k <= tab_n[t]; k++) printf(" %u", tab_w[t][k]);
            printf("\nrcdf %d", t);
            for (int k = 0; k <= tab_n[t]; k++) printf(" %u", tab_r[t][k]);
            printf("\n");
        }
    printf("end\n");
    free(in); free(out); free(tells); free(decv);
}

int main(void) {
    static char line[1 << 12];
    while (fgets(line, sizeof(line), stdin)) {
        char *tok = strtok(line, " \t\r\n");
        if (!tok) continue;
        if (!strcmp(tok, "cdf")) {
            int id = atoi(strtok(NULL, " \t\r\n"));
            int n  = atoi(strtok(NULL, " \t\r\n"));
            if (id < 0 || id >= MAXT || n < 2 || n > 16) { printf("bad-op\n"); continue; }
            tab_n[id] = n;
            memset(tab_init[id], 0, sizeof(tab_init[id]));
            for (int k = 0; k <= n; k++) {
                char *t = strtok(NULL, " \t\r\n");
                tab_init[id][k] = (uint16_t)(t ? atoi(t) : 0);
            }
        } else if (!strcmp(tok, "adapt")) {
            push(OP_ADAPT, atoi(strtok(NULL, " \t\r\n")), 0);
        } else if (!strcmp(tok, "sym") || !strcmp(tok, "bool") || !strcmp(tok, "boolq") || !strcmp(tok, "lit")) {
            int kind = !strcmp(tok, "sym") ? OP_SYM : !strcmp(tok, "bool") ? OP_BOOL : !strcmp(tok, "boolq") ? OP_BOOLQ : OP_LIT;
            int a = atoi(strtok(NULL, " \t\r\n"));
            int b = atoi(strtok(NULL, " \t\r\n"));
            if (kind == OP_SYM && (a < 0 || a >= MAXT || !tab_n[a])) { printf("bad-op\n"); continue; }
            push(kind, a, b);
        } else if (!strcmp(tok, "done")) {
            run_case();
            nops = 0;
            memset(tab_n, 0, sizeof(tab_n));
        } else {
            printf("bad-op\n");
        }
    }
    return 0;
}
