/* C07 harness shape handlers: transforms (forward, handle_transform, inverse, fft). Included by kernels_shapes.h */
#ifndef VERIF_KSHAPES_TXFM_H
#define VERIF_KSHAPES_TXFM_H

static int k_txsize(int w, int h) {
    static const int tab[19][3] = { {4,4,TX_4X4},{8,8,TX_8X8},{16,16,TX_16X16},{32,32,TX_32X32},{64,64,TX_64X64},{4,8,TX_4X8},{8,4,TX_8X4},
        {8,16,TX_8X16},{16,8,TX_16X8},{16,32,TX_16X32},{32,16,TX_32X16},{32,64,TX_32X64},{64,32,TX_64X32},{4,16,TX_4X16},{16,4,TX_16X4},
        {8,32,TX_8X32},{32,8,TX_32X8},{16,64,TX_16X64},{64,16,TX_64X16} };
    for (int i = 0; i < 19; i++) if (tab[i][0] == w && tab[i][1] == h) return tab[i][2];
    abort();
}
/* transform types the encoder passes through the dispatch pointer for a size (av1_estimate_transform_default/_N2/_N4,
 * highbd_inv_txfm_add_*): max(w,h)==64 -> DCT_DCT; ==32 -> DCT_DCT, IDTX; else all 16 */
static int k_txtypes(int w, int h, int *t) {
    int m = w > h ? w : h;
    if (m == 64) { t[0] = DCT_DCT; return 1; }
    if (m == 32) { t[0] = DCT_DCT; t[1] = IDTX; return 2; }
    for (int i = 0; i < 16; i++) t[i] = i;
    return 16;
}
typedef void (*KFwdFn)(int16_t *, int32_t *, uint32_t, TxType, uint8_t);
static KFwdFn k_fwd_c(int txs, int shape) {
    static const KFwdFn full[19] = { svt_av1_transform_two_d_4x4_c, svt_av1_transform_two_d_8x8_c, svt_av1_transform_two_d_16x16_c,
        svt_av1_transform_two_d_32x32_c, svt_av1_transform_two_d_64x64_c, svt_av1_fwd_txfm2d_4x8_c, svt_av1_fwd_txfm2d_8x4_c,
        svt_av1_fwd_txfm2d_8x16_c, svt_av1_fwd_txfm2d_16x8_c, svt_av1_fwd_txfm2d_16x32_c, svt_av1_fwd_txfm2d_32x16_c,
        svt_av1_fwd_txfm2d_32x64_c, svt_av1_fwd_txfm2d_64x32_c, svt_av1_fwd_txfm2d_4x16_c, svt_av1_fwd_txfm2d_16x4_c,
        svt_av1_fwd_txfm2d_8x32_c, svt_av1_fwd_txfm2d_32x8_c, svt_av1_fwd_txfm2d_16x64_c, svt_av1_fwd_txfm2d_64x16_c };
    static const KFwdFn n2[19] = { av1_transform_two_d_4x4_N2_c, av1_transform_two_d_8x8_N2_c, av1_transform_two_d_16x16_N2_c,
        av1_transform_two_d_32x32_N2_c, av1_transform_two_d_64x64_N2_c, svt_av1_fwd_txfm2d_4x8_N2_c, svt_av1_fwd_txfm2d_8x4_N2_c,
        svt_av1_fwd_txfm2d_8x16_N2_c, svt_av1_fwd_txfm2d_16x8_N2_c, svt_av1_fwd_txfm2d_16x32_N2_c, svt_av1_fwd_txfm2d_32x16_N2_c,
        svt_av1_fwd_txfm2d_32x64_N2_c, svt_av1_fwd_txfm2d_64x32_N2_c, svt_av1_fwd_txfm2d_4x16_N2_c, svt_av1_fwd_txfm2d_16x4_N2_c,
        svt_av1_fwd_txfm2d_8x32_N2_c, svt_av1_fwd_txfm2d_32x8_N2_c, svt_av1_fwd_txfm2d_16x64_N2_c, svt_av1_fwd_txfm2d_64x16_N2_c };
    static const KFwdFn n4[19] = { av1_transform_two_d_4x4_N4_c, av1_transform_two_d_8x8_N4_c, av1_transform_two_d_16x16_N4_c,
        av1_transform_two_d_32x32_N4_c, av1_transform_two_d_64x64_N4_c, svt_av1_fwd_txfm2d_4x8_N4_c, svt_av1_fwd_txfm2d_8x4_N4_c,
        svt_av1_fwd_txfm2d_8x16_N4_c, svt_av1_fwd_txfm2d_16x8_N4_c, svt_av1_fwd_txfm2d_16x32_N4_c, svt_av1_fwd_txfm2d_32x16_N4_c,
        svt_av1_fwd_txfm2d_32x64_N4_c, svt_av1_fwd_txfm2d_64x32_N4_c, svt_av1_fwd_txfm2d_4x16_N4_c, svt_av1_fwd_txfm2d_16x4_N4_c,
        svt_av1_fwd_txfm2d_8x32_N4_c, svt_av1_fwd_txfm2d_32x8_N4_c, svt_av1_fwd_txfm2d_16x64_N4_c, svt_av1_fwd_txfm2d_64x16_N4_c };
    return shape == 0 ? full[txs] : shape == 1 ? n2[txs] : n4[txs];
}
static const int k_respats[] = { KP_ZERO, KP_LO, KP_HI, KP_CHECK, KP_RAMP, KP_RAND, KP_OUTLIER, KP_NEAR, KP_COLS, KP_ROWS, KP_CONST };

/* residual stride choices: k_res_stride(si): 0 -> W, 1 -> 64/128 (encoder residual buffers), 2 -> W + 8*r */
static int k_res_stride(Cx *cx, int si, int W) {
    if (si == 0) return W;
    if (si == 1) return W <= 64 ? 64 + 64 * (int)kr_n(cx, 2) : 128;
    return W + 8 * (1 + (int)kr_n(cx, 12));
}

/* ------------------------------------------------------------------ forward 2-D transforms (full, N2, N4) */
static void h_fwd_txfm(Cx *cx, const Entry *e) {
    const int W = e->w, H = e->h;
    int types[16]; const int nt = k_txtypes(W, H, types);
    for (int pass = 0; pass < cx->passes; pass++)
        for (int ti = 0; ti < nt; ti++)
            for (int bd = 8; bd <= 10; bd += 2)
                for (int si = 0; si < 3; si++)
                    for (int pi = 0; pi < KARRAY(k_respats); pi++) {
                        const int pat = k_respats[pi];
                        if (K_SKIP1(pass, pat)) continue;
                        if (!kc_case(cx)) continue;
                        const int stride = k_res_stride(cx, si, W);
                        const int64_t mx = (1 << bd) - 1;
                        kc_par(cx, "w", W); kc_par(cx, "h", H); kc_par(cx, "txtype", types[ti]); kc_par(cx, "bd", bd); kc_par(cx, "stride", stride); kc_par(cx, "pat", pat);
                        cx->next_off = 4 * (int)kr_n(cx, 4);   /* residual blocks start at multiples of 4 samples */
                        Buf *in = kb(cx, "residual", KB_IN, 2, 1, W, H, stride);
                        Buf *out = kb(cx, "coeff", KB_OUT, 4, 1, W * H, 1, W * H);
                        kb_fill(cx, in, pat, -mx, mx);
                        Args a; memset(&a, 0, sizeof(a));
                        a.p[0] = in->p; a.p[1] = out->p; a.i[0] = stride; a.i[1] = types[ti]; a.i[2] = bd;
                        kc_exec(cx, &a);
                    }
}

/* ------------------------------------------------------------------ svt_handle_transformWxH / handle_transformWxH_N2_N4 */
static void h_handle_transform(Cx *cx, const Entry *e) {
    const int W = e->w, H = e->h, n2n4 = e->k[0];
    const int txs = k_txsize(W, H);
    for (int pass = 0; pass < cx->passes; pass++)
        for (int shape = (n2n4 ? 1 : 0); shape <= (n2n4 ? 2 : 0); shape++)
            for (int bd = 8; bd <= 10; bd += 2)
                for (int pi = 0; pi < KARRAY(k_respats); pi++) {
                    const int pat = k_respats[pi];
                    if (K_SKIP1(pass, pat)) continue;
                    if (!kc_case(cx)) continue;
                    const int64_t mx = (1 << bd) - 1;
                    kc_par(cx, "w", W); kc_par(cx, "h", H); kc_par(cx, "shape", shape); kc_par(cx, "bd", bd); kc_par(cx, "pat", pat);
                    Buf *res = kb(cx, "residual", KB_IN, 2, 1, W, H, W);
                    Buf *co = kb(cx, "coeff", KB_INOUT, 4, 1, W * H, 1, W * H);
                    kb_fill(cx, res, pat, -mx, mx);
                    if (shape) memset(co->p, 0, (size_t)W * H * 4);   /* N2/N4 C transforms may leave the rest unwritten */
                    kc_dispatch(0);
                    k_fwd_c(txs, shape)((int16_t *)res->p, (int32_t *)co->p, W, DCT_DCT, (uint8_t)bd);
                    Args a; memset(&a, 0, sizeof(a));
                    a.p[0] = co->p;
                    kc_exec(cx, &a);
                }
}

/* ------------------------------------------------------------------ inverse 2-D transforms + add */
typedef struct KInvSetup { int W, H, txs, type, bd, cw, ch; } KInvSetup;
/* coefficients of a valid block: C forward transform of a residual in +-(2^bd-1) (for 64-sizes packed to 32 columns/rows by the
 * C svt_handle_transform*), optionally coarsely quantised, positions >= eob in scan order cleared.  returns the exact eob */
static int k_make_coeffs(Cx *cx, const KInvSetup *s, int pat, int q, int eob_limit, int32_t *coef /* W*H ints, 64-aligned */) {
    const int W = s->W, H = s->H;
    const int64_t mx = (1 << s->bd) - 1;
    Buf *res = kb(cx, "residual_for_fwd", KB_IN, 2, 1, W, H, W);
    kb_fill(cx, res, pat, -mx, mx);
    kc_dispatch(0);
    k_fwd_c(s->txs, 0)((int16_t *)res->p, coef, W, (TxType)s->type, (uint8_t)s->bd);
    switch (s->txs) {
    case TX_64X64: svt_handle_transform64x64_c(coef); break;
    case TX_64X32: svt_handle_transform64x32_c(coef); break;
    case TX_32X64: svt_handle_transform32x64_c(coef); break;
    case TX_64X16: svt_handle_transform64x16_c(coef); break;
    case TX_16X64: svt_handle_transform16x64_c(coef); break;
    default: break;
    }
    const int n = av1_get_max_eob((TxSize)s->txs);
    if (q > 1) for (int i = 0; i < n; i++) coef[i] = (coef[i] / q) * q;
    const int16_t *scan = av1_scan_orders[s->txs][s->type].scan;
    for (int i = eob_limit; i < n; i++) coef[scan[i]] = 0;
    int eob = 0;
    for (int i = 0; i < n; i++) if (coef[scan[i]]) eob = i + 1;
    return eob;
}

/* Overflow regime.  AV1 (spec 7.13.3) requires of a conformant stream that every intermediate value of the inverse transform fits
 * in max(BitDepth+8,16) bits (rows) / max(BitDepth+6,16) bits (columns); the C reference clamps to these ranges at the stage
 * boundaries, SIMD versions clamp at different places or not at all, so outside that regime the outputs legitimately differ
 * (any decoder may differ there as well).  Detection without instrumenting the code: the ranges are derived from `bd` only, so
 * the block is in the overflow regime iff the C result for bd differs from the C result for bd=12 clipped to bd. */
static int k_inv_overflow(Cx *cx, const Entry *e, const Args *a0, int sigkind, const Buf *r, int W, int H, int bd) {
    uint16_t *rr = kc_alloc(cx, (size_t)W * H * 2, 64), *t1 = kc_alloc(cx, (size_t)W * H * 2, 64), *t2 = kc_alloc(cx, (size_t)W * H * 2, 64);
    for (int y = 0; y < H; y++) memcpy(rr + y * W, r->p + (size_t)y * r->stride * 2, (size_t)W * 2);
    Args a = *a0;
    a.p[1] = rr; a.p[2] = t1; a.i[0] = W; a.i[1] = W;
    kc_dispatch(0);
    cx->cur_fn = e->vname[0];
    e->thunk(0, &a);
    a.p[2] = t2;
    a.i[sigkind == 0 ? 3 : sigkind == 1 ? 5 : 4] = 12;
    e->thunk(0, &a);
    cx->cur_fn = NULL;
    const int mx = (1 << bd) - 1;
    for (int i = 0; i < W * H; i++) if (t1[i] != (t2[i] > mx ? mx : t2[i])) return 1;
    return 0;
}

static void h_inv_txfm(Cx *cx, const Entry *e) {
    const int sigkind = e->k[0];   /* 0: (..,tx_type,bd)  1: (..,tx_type,tx_size,eob,bd)  2: (..,tx_type,tx_size,bd) */
    const int W = e->w, H = e->h;
    KInvSetup s; s.W = W; s.H = H; s.txs = k_txsize(W, H);
    int types[16]; const int nt = k_txtypes(W, H, types);
    const int maxeob = av1_get_max_eob((TxSize)s.txs);
    static const int pats[] = { KP_ZERO, KP_LO, KP_HI, KP_CHECK, KP_RAND, KP_OUTLIER, KP_NEAR, KP_CONST };
    for (int pass = 0; pass < cx->passes; pass++)
        for (int ti = 0; ti < nt; ti++)
            for (int bd = 8; bd <= 10; bd += 2)
                for (int same = 0; same < 2; same++)
                    for (int em = 0; em < 3; em++)
                        for (int pi = 0; pi < KARRAY(pats); pi++) {
                            const int pat = pats[pi];
                            if (pass > 0 && !(kp_random(pat))) continue;
                            if (!kc_case(cx)) continue;
                            s.type = types[ti]; s.bd = bd;
                            const int64_t mx = (1 << bd) - 1;
                            int lim = em == 0 ? maxeob : em == 1 ? 1 + (int)kr_n(cx, maxeob) : 1 + (int)kr_n(cx, maxeob < 10 ? maxeob : 10);
                            int q = kr_n(cx, 2) ? 1 : 1 + (int)kr_n(cx, 200);
                            int sr = k_stride_any(cx, (int)kr_n(cx, 4), W), sw = same ? sr : k_stride_any(cx, (int)kr_n(cx, 4), W);
                            Buf *cb = kb(cx, "coeff", KB_IN, 4, 1, W * H, 1, W * H);
                            int eob = k_make_coeffs(cx, &s, pat, q, lim, (int32_t *)cb->p);
                            if (eob == 0) eob = 1;
                            if (!same) eob = maxeob;      /* av1_inv_transform_recon: r != w => eob = av1_get_max_eob() */
                            kc_par(cx, "w", W); kc_par(cx, "h", H); kc_par(cx, "txtype", s.type); kc_par(cx, "bd", bd); kc_par(cx, "same", same);
                            kc_par(cx, "eob", eob); kc_par(cx, "q", q); kc_par(cx, "stride_r", sr); kc_par(cx, "stride_w", sw); kc_par(cx, "pat", pat);
                            int ppat = (int)kr_n(cx, 4); ppat = ppat == 0 ? KP_RAND : ppat == 1 ? KP_LO : ppat == 2 ? KP_HI : KP_CHECK;
                            Buf *r, *w;
                            cx->next_off = 4 * (int)kr_n(cx, 8);
                            if (same) { r = w = kb(cx, "recon_rw", KB_INOUT, 2, 0, W, H, sr); }
                            else { r = kb(cx, "pred_r", KB_IN, 2, 0, W, H, sr); cx->next_off = 4 * (int)kr_n(cx, 8); w = kb(cx, "recon_w", KB_OUT, 2, 0, W, H, sw); }
                            kb_fill(cx, r, ppat, 0, mx);
                            Args a; memset(&a, 0, sizeof(a));
                            a.p[0] = cb->p; a.p[1] = r->p; a.p[2] = w->p;
                            a.i[0] = sr; a.i[1] = sw; a.i[2] = s.type;
                            if (sigkind == 0) a.i[3] = bd;
                            else if (sigkind == 1) { a.i[3] = s.txs; a.i[4] = eob; a.i[5] = bd; }
                            else { a.i[3] = s.txs; a.i[4] = bd; }
                            const int ovf = k_inv_overflow(cx, e, &a, sigkind, r, W, H, bd);
                            kc_par(cx, "ovf", ovf);
                            if (ovf && !cx->ext) { kc_exclude(cx); continue; }   /* ext=1 runs these cases too */
                            kc_exec(cx, &a);
                        }
}

/* svt_av1_inv_txfm_add(dqcoeff, dst_r, stride_r, dst_w, stride_w, const TxfmParam*): 8-bit reconstruction, all 19 sizes */
static void h_inv_txfm_add(Cx *cx, const Entry *e) {
    static const int szs[19][2] = { {4,4},{8,8},{16,16},{32,32},{64,64},{4,8},{8,4},{8,16},{16,8},{16,32},{32,16},{32,64},{64,32},{4,16},{16,4},{8,32},{32,8},{16,64},{64,16} };
    static const int pats[] = { KP_ZERO, KP_LO, KP_HI, KP_CHECK, KP_RAND, KP_OUTLIER, KP_NEAR };
    (void)e;
    for (int pass = 0; pass < cx->passes; pass++)
        for (int zi = 0; zi < 19; zi++) {
            const int W = szs[zi][0], H = szs[zi][1];
            KInvSetup s; s.W = W; s.H = H; s.txs = k_txsize(W, H); s.bd = 8;
            int types[16]; const int nt = k_txtypes(W, H, types);
            const int maxeob = av1_get_max_eob((TxSize)s.txs);
            for (int ti = 0; ti < nt; ti++)
                for (int same = 0; same < 2; same++)
                    for (int em = 0; em < 3; em++)
                        for (int pi = 0; pi < KARRAY(pats); pi++) {
                            const int pat = pats[pi];
                            if (pass > 0 && !(kp_random(pat))) continue;
                            if (!kc_case(cx)) continue;
                            s.type = types[ti];
                            int lim = em == 0 ? maxeob : em == 1 ? 1 + (int)kr_n(cx, maxeob) : 1 + (int)kr_n(cx, maxeob < 10 ? maxeob : 10);
                            int q = kr_n(cx, 2) ? 1 : 1 + (int)kr_n(cx, 200);
                            int sr = k_stride_any(cx, (int)kr_n(cx, 4), W), sw = same ? sr : k_stride_any(cx, (int)kr_n(cx, 4), W);
                            Buf *cb = kb(cx, "coeff", KB_IN, 4, 1, W * H, 1, W * H);
                            int eob = k_make_coeffs(cx, &s, pat, q, lim, (int32_t *)cb->p);
                            if (eob == 0) eob = 1;
                            if (!same) eob = maxeob;
                            kc_par(cx, "w", W); kc_par(cx, "h", H); kc_par(cx, "txtype", s.type); kc_par(cx, "same", same);
                            kc_par(cx, "eob", eob); kc_par(cx, "q", q); kc_par(cx, "stride_r", sr); kc_par(cx, "stride_w", sw); kc_par(cx, "pat", pat);
                            int ppat = (int)kr_n(cx, 4); ppat = ppat == 0 ? KP_RAND : ppat == 1 ? KP_LO : ppat == 2 ? KP_HI : KP_CHECK;
                            Buf *r, *w;
                            cx->next_off = 4 * (int)kr_n(cx, 8);
                            if (same) { r = w = kb(cx, "recon_rw", KB_INOUT, 1, 0, W, H, sr); }
                            else { r = kb(cx, "pred_r", KB_IN, 1, 0, W, H, sr); cx->next_off = 4 * (int)kr_n(cx, 8); w = kb(cx, "recon_w", KB_OUT, 1, 0, W, H, sw); }
                            kb_fill(cx, r, ppat, 0, 255);
                            TxfmParam *tp = kc_alloc(cx, sizeof(TxfmParam), 16);
                            tp->tx_type = (TxType)s.type; tp->tx_size = (TxSize)s.txs; tp->eob = eob; tp->lossless = 0; tp->bd = 8; tp->is_hbd = 1;
                            Args a; memset(&a, 0, sizeof(a));
                            a.p[0] = cb->p; a.p[1] = r->p; a.p[2] = w->p; a.p[3] = tp;
                            a.i[0] = sr; a.i[1] = sw;
                            kc_exec(cx, &a);
                        }
        }
}

/* ------------------------------------------------------------------ float FFT / IFFT n x n */
static void k_fill_float(Cx *cx, Buf *b, int n, int pat) {
    float *f = (float *)b->p;
    for (int i = 0; i < n; i++) {
        double u = (double)(kr(cx) >> 11) / 9007199254740992.0;   /* [0,1) */
        float v;
        switch (pat) {
        case 0: v = 0.0f; break;
        case 1: v = 1.0f; break;
        case 2: v = (i & 1) ? 1.0f : 0.0f; break;
        case 3: v = (float)i / (float)n; break;
        case 4: v = (float)u; break;                       /* as test/FFTTest.cc */
        case 5: v = (float)(2.0 * u - 1.0); break;
        case 6: v = (float)((int)(u * 256.0)) / 255.0f; break;  /* normalised 8-bit samples */
        default: v = (float)((u - 0.5) * 2048.0); break;   /* block of 10-bit differences */
        }
        f[i] = v;
    }
}
static void h_fft(Cx *cx, const Entry *e) {
    const int n = e->w, inv = e->k[0];
    for (int pass = 0; pass < cx->passes; pass++)
        for (int pat = 0; pat < 8; pat++) {
            if (pass > 0 && pat < 4) continue;
            if (!kc_case(cx)) continue;
            kc_par(cx, "n", n); kc_par(cx, "inverse", inv); kc_par(cx, "pat", pat);
            const int nin = inv ? 2 * n * n : n * n, nout = inv ? n * n : 2 * n * n;
            Buf *in = kb(cx, "input", KB_IN, 4, 2, nin, 1, nin);
            Buf *tmp = kb(cx, "temp", KB_SCRATCH, 4, 0, 2 * n * n, 1, 2 * n * n);
            Buf *out = kb(cx, "output", KB_OUT, 4, 2, nout, 1, nout);
            k_fill_float(cx, in, nin, pat);
            Args a; memset(&a, 0, sizeof(a));
            a.p[0] = in->p; a.p[1] = tmp->p; a.p[2] = out->p;
            kc_exec(cx, &a);
        }
}

#endif
