/* C07 harness: repo headers needed by the shape handlers (struct types of kernel parameters, tables). */
#ifndef VERIF_KERNELS_INCLUDES_H
#define VERIF_KERNELS_INCLUDES_H
#include "EbDefinitions.h"
#include "EbTransforms.h"
#include "EbInvTransforms.h"
#include "EbCoefficients.h"
#endif
