/* C07 differential kernel harness -- hand-written shape handlers (included by the generated kernels_gen.c).
 *
 * A handler enumerates the cases of one prototype shape: `for pass / size / stride / pattern { if (!kc_case(cx)) continue; ... }`
 * with `pass` OUTERMOST, so that the index of a case does not depend on `passes`; inside a case everything random
 * comes from kr*(cx), which kc_case() seeds from (seed, pointer name, case index).  Deterministic patterns are only
 * run in pass 0.  Args: pointer parameters in order -> a.p[], scalar parameters in order -> a.i[].
 * The DOMAIN of every handler is documented in xlate/kernel_handlers.py (domain strings go to the evidence).
 */
#ifndef VERIF_KERNELS_SHAPES_H
#define VERIF_KERNELS_SHAPES_H
#include "kernels.h"

#define KARRAY(a) ((int)(sizeof(a) / sizeof((a)[0])))
static inline int kp2_random(int id) { id %= KP2_N; return id == 6 || id == 7 || id == 9; }
static inline int kp_random(int pat) { return pat == KP_RAND || pat == KP_OUTLIER || pat == KP_CONST || pat == KP_NEAR; }
#define K_SKIP2(pass, id) ((pass) > 0 && !kp2_random(id))
#define K_SKIP1(pass, pat) ((pass) > 0 && !kp_random(pat))
#define K_BYTEPTR(p16) ((uint8_t *)(((uintptr_t)(p16)) >> 1))   /* CONVERT_TO_BYTEPTR */

/* stride choices for kernels without alignment requirement: w, w+1, w+odd, large */
static inline int k_stride_any(Cx *cx, int si, int w) {
    switch (si) {
    case 0: return w;
    case 1: return w + 1;
    case 2: return w + 3 + 2 * (int)kr_n(cx, 20);
    default: return w + 200 + (int)kr_n(cx, 300);
    }
}

/* ------------------------------------------------------------------ intra predictors (non-directional) */
static void h_intra(Cx *cx, const Entry *e) {
    const int W = e->w, H = e->h, hbd = e->k[0], elem = hbd ? 2 : 1;
    static const int bds[3] = { 8, 10, 12 };
    for (int pass = 0; pass < cx->passes; pass++)
        for (int bdi = 0; bdi < (hbd ? 3 : 1); bdi++)
            for (int si = 0; si < 4; si++)
                for (int pat = 0; pat < KP2_N; pat++) {
                    if (K_SKIP2(pass, pat)) continue;
                    if (!kc_case(cx)) continue;
                    const int bd = hbd ? bds[bdi] : 8;
                    const int64_t hi = (1 << bd) - 1;
                    int stride = si == 0 ? W : si == 1 ? W + 1 + (int)kr_n(cx, 40) : si == 2 ? 192 : 2 * W + 16;
                    int xoff = (int)kr_n(cx, 64);
                    int pa, pb; kp2(pat, &pa, &pb);
                    kc_par(cx, "w", W); kc_par(cx, "h", H); kc_par(cx, "bd", bd); kc_par(cx, "stride", stride); kc_par(cx, "xoff", xoff); kc_par(cx, "pat", pat);
                    cx->next_off = xoff;
                    Buf *dst = kb(cx, "dst", KB_OUT, elem, 0, W, H, stride);
                    cx->next_align = 16;
                    Buf *ab = kb(cx, "above", KB_IN, elem, 0, 2 * W + 32, 1, 2 * W + 32);
                    cx->next_align = 16;
                    Buf *lf = kb(cx, "left", KB_IN, elem, 0, 2 * H + 32, 1, 2 * H + 32);
                    kb_fill(cx, ab, pa, 0, hi);
                    kb_fill(cx, lf, pb, 0, hi);
                    /* top-left sample: extremes or random */
                    int64_t tl = kr_n(cx, 3) == 0 ? 0 : kr_n(cx, 2) ? hi : kr_range(cx, 0, hi);
                    kb_set(ab, 15, 0, tl); kb_set(lf, 15, 0, tl);
                    Args a; memset(&a, 0, sizeof(a));
                    a.p[0] = dst->p; a.p[1] = ab->p + 16 * elem; a.p[2] = lf->p + 16 * elem;
                    a.i[0] = stride; a.i[1] = bd;
                    kc_exec(cx, &a);
                }
}

/* ------------------------------------------------------------------ SAD */
static void h_sad(Cx *cx, const Entry *e) {
    const int W = e->w, H = e->h;
    for (int pass = 0; pass < cx->passes; pass++)
        for (int si = 0; si < 4; si++)
            for (int pat = 0; pat < KP2_N; pat++) {
                if (K_SKIP2(pass, pat)) continue;
                if (!kc_case(cx)) continue;
                int ss = k_stride_any(cx, si, W), rs = k_stride_any(cx, (si + (int)kr_n(cx, 4)) & 3, W);
                int pa, pb; kp2(pat, &pa, &pb);
                kc_par(cx, "w", W); kc_par(cx, "h", H); kc_par(cx, "sstride", ss); kc_par(cx, "rstride", rs); kc_par(cx, "pat", pat);
                cx->next_off = (int)kr_n(cx, 64);
                Buf *s = kb(cx, "src", KB_IN, 1, 0, W, H, ss);
                cx->next_off = (int)kr_n(cx, 64);
                Buf *r = kb(cx, "ref", KB_IN, 1, 0, W, H, rs);
                kb_fill(cx, s, pa, 0, 255); kb_fill(cx, r, pb, 0, 255);
                Args a; memset(&a, 0, sizeof(a));
                a.p[0] = s->p; a.p[1] = r->p; a.i[0] = ss; a.i[1] = rs;
                kc_exec(cx, &a);
            }
}

static void h_sad4d(Cx *cx, const Entry *e) {
    const int W = e->w, H = e->h;
    for (int pass = 0; pass < cx->passes; pass++)
        for (int si = 0; si < 4; si++)
            for (int pat = 0; pat < KP2_N; pat++) {
                if (K_SKIP2(pass, pat)) continue;
                if (!kc_case(cx)) continue;
                int ss = k_stride_any(cx, si, W);
                int RW = W + 16, RH = H + 8;
                int rs = k_stride_any(cx, (si + (int)kr_n(cx, 4)) & 3, RW);
                int pa, pb; kp2(pat, &pa, &pb);
                kc_par(cx, "w", W); kc_par(cx, "h", H); kc_par(cx, "sstride", ss); kc_par(cx, "rstride", rs); kc_par(cx, "pat", pat);
                cx->next_off = (int)kr_n(cx, 64);
                Buf *s = kb(cx, "src", KB_IN, 1, 0, W, H, ss);
                cx->next_off = (int)kr_n(cx, 64);
                Buf *r = kb(cx, "refarea", KB_IN, 1, 0, RW, RH, rs);
                Buf *o = kb(cx, "sad_array", KB_OUT, 4, 0, 4, 1, 4);
                kb_fill(cx, s, pa, 0, 255); kb_fill(cx, r, pb, 0, 255);
                const uint8_t **refs = kc_alloc(cx, 4 * sizeof(*refs), 16);
                for (int k = 0; k < 4; k++) {
                    int dx = (int)kr_n(cx, 17), dy = (int)kr_n(cx, 9);
                    refs[k] = r->p + dy * rs + dx;
                    kc_par(cx, k == 0 ? "r0" : k == 1 ? "r1" : k == 2 ? "r2" : "r3", dy * 100 + dx);
                }
                Args a; memset(&a, 0, sizeof(a));
                a.p[0] = s->p; a.p[1] = (void *)refs; a.p[2] = o->p; a.i[0] = ss; a.i[1] = rs;
                kc_exec(cx, &a);
            }
}

/* ------------------------------------------------------------------ variance (8-bit, and 10-bit through CONVERT_TO_BYTEPTR) */
static void h_variance(Cx *cx, const Entry *e) {
    const int W = e->w, H = e->h, hbd = e->k[0], elem = hbd ? 2 : 1;
    const int64_t hi = hbd ? 1023 : 255;
    for (int pass = 0; pass < cx->passes; pass++)
        for (int si = 0; si < 4; si++)
            for (int pat = 0; pat < KP2_N; pat++) {
                if (K_SKIP2(pass, pat)) continue;
                if (!kc_case(cx)) continue;
                int ss = k_stride_any(cx, si, W), rs = k_stride_any(cx, (si + (int)kr_n(cx, 4)) & 3, W);
                int pa, pb; kp2(pat, &pa, &pb);
                kc_par(cx, "w", W); kc_par(cx, "h", H); kc_par(cx, "sstride", ss); kc_par(cx, "rstride", rs); kc_par(cx, "pat", pat);
                cx->next_off = (int)kr_n(cx, 64);
                Buf *s = kb(cx, "src", KB_IN, elem, 0, W, H, ss);
                cx->next_off = (int)kr_n(cx, 64);
                Buf *r = kb(cx, "ref", KB_IN, elem, 0, W, H, rs);
                Buf *o = kb(cx, "sse", KB_OUT, 4, 0, 1, 1, 1);
                kb_fill(cx, s, pa, 0, hi); kb_fill(cx, r, pb, 0, hi);
                Args a; memset(&a, 0, sizeof(a));
                a.p[0] = hbd ? K_BYTEPTR(s->p) : s->p; a.p[1] = hbd ? K_BYTEPTR(r->p) : r->p; a.p[2] = o->p;
                a.i[0] = ss; a.i[1] = rs;
                kc_exec(cx, &a);
            }
}

#include "kshapes_txfm.h"
#include "kshapes_obmc.h"
#include "kshapes_pix.h"
#include "kshapes_blend.h"
#include "kshapes_pred.h"
#include "kshapes_filt.h"

#endif
