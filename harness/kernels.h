/* C07 differential kernel harness: runtime API shared by harness/kernels.c (hand-written runtime),
 * harness/kernels_shapes.h (hand-written shape handlers) and the generated <gen>/kernels_gen.c
 * (per-entry thunks that call the _c function and every registered SIMD function BY NAME, and the entry table).
 */
#ifndef VERIF_KERNELS_H
#define VERIF_KERNELS_H
#include <stdint.h>
#include <stddef.h>
#include <string.h>
#include <stdio.h>
#include <stdlib.h>

#define K_MAXVAR 6
#define K_MAXBUF 24
#define K_MAXPAR 24

/* generic argument bag: pointer parameters of the kernel in order of appearance -> p[0..], every other
 * (scalar) parameter in order of appearance -> i[0..]; integer return -> ret, double return -> dret. */
typedef struct Args {
    void   *p[24];
    int64_t i[24];
    int64_t ret;
    double  dret;
} Args;

struct Cx;
struct Entry;
typedef void (*KThunk)(int variant, Args *a);
typedef void (*KDrive)(struct Cx *cx, const struct Entry *e);

typedef struct Entry {
    const char *ptr;            /* dispatch pointer name */
    const char *handler;        /* shape handler name, NULL when not driven */
    KDrive      drive;
    KThunk      thunk;
    int         nvar;           /* variants, [0] is the C reference */
    const char *vname[K_MAXVAR];
    int         vbit[K_MAXVAR]; /* CPU_FLAGS bit index of the variant, -1 for C */
    int         w, h;           /* size parsed from the pointer name (0 if none) */
    int         k[4];           /* handler specific constants */
    const char *kind;           /* handler specific string */
    const char *reason;         /* why not driven */
} Entry;

extern const Entry k_entries[];
extern const int   k_nentries;
void k_dispatch(int simd);   /* generated: (re)initialise all dispatch pointers: 0 = all C, 1 = as the encoder does for this CPU */

/* buffer roles */
#define KB_IN    1   /* const input: must be unchanged after the call (what=inmod otherwise) */
#define KB_OUT   2   /* output: pre-filled with canary; compared whole (area, stride padding, guards) */
#define KB_INOUT 3   /* read and written: handler fills the area with valid data; compared whole */
#define KB_SCRATCH 4 /* kernel may write anything: never compared (documented per handler) */

typedef struct Buf {
    const char *name;
    int      role;
    int      elem;          /* bytes per element: 1,2,4,8 */
    int      sgn;           /* print as signed */
    int      w, h, stride;  /* in elements */
    int      ax, ay, aw, ah;/* area the kernel is allowed to write (default 0,0,w,h) */
    uint8_t *base;          /* start of allocation (guard before) */
    uint8_t *p;             /* element (0,0) */
    size_t   total;         /* bytes of allocation */
    size_t   pre;           /* bytes before p */
    uint8_t *init;          /* snapshot of the whole allocation before the call */
    uint8_t *ref;           /* whole allocation after the C call */
} Buf;

typedef struct Cx {
    uint64_t seed;
    int      passes;
    int      dump;
    int      ext;            /* ext=1: also run the cases a handler excludes from the valid domain (kc_exclude) */
    uint64_t excluded;       /* cases excluded so far (all entries) */
    int      replay_on;
    uint64_t replay_idx;
    const Entry *e;
    uint64_t case_idx;
    uint64_t rng;
    Buf      bufs[K_MAXBUF];
    int      nbuf;
    const char *pk[K_MAXPAR];
    int64_t  pv[K_MAXPAR];
    int      npar;
    int      next_off;       /* element offset (mis-alignment) for the next kb() */
    int      next_align;     /* alignment in bytes for the next kb() (default 64) */
    /* statistics of the current entry */
    uint64_t cases, checks;
    int      fails, fails_printed;
    int      vsup[K_MAXVAR];
    /* arena */
    uint8_t *arena;
    size_t   arena_sz, arena_pos;
    /* reference results */
    int64_t  ref_ret;
    uint64_t ref_dbits;
    /* what the crash handler prints */
    const char *cur_fn;
} Cx;

/* ---- random numbers (splitmix64) ---- */
uint64_t kr(Cx *cx);
uint32_t kr_n(Cx *cx, uint32_t n);             /* uniform in [0,n) ; n>0 */
int64_t  kr_range(Cx *cx, int64_t lo, int64_t hi); /* uniform in [lo,hi] */

/* ---- case control ---- */
int  kc_case(Cx *cx);                           /* begin next case; 0 => skip it (replay filter) */
void kc_par(Cx *cx, const char *k, int64_t v);  /* record a parameter for FAIL/dump lines */
void kc_exclude(Cx *cx);                        /* the current case turned out to lie outside the valid domain: do not count it */
void *kc_alloc(Cx *cx, size_t n, size_t align); /* per-case arena memory (zeroed) */

/* ---- buffers ---- */
Buf *kb(Cx *cx, const char *name, int role, int elem, int sgn, int w, int h, int stride);
void kb_area(Buf *b, int ax, int ay, int aw, int ah);
/* fill patterns over [lo,hi] */
enum { KP_LO = 0, KP_HI, KP_CHECK, KP_CHECK_INV, KP_RAMP, KP_RAMP_REV, KP_RAND, KP_OUTLIER, KP_CONST, KP_COLS, KP_ROWS, KP_NEAR, KP_ZERO, KP_NPAT };
void kb_fill(Cx *cx, Buf *b, int pat, int64_t lo, int64_t hi);
void kb_fill_rect(Cx *cx, Buf *b, int x0, int y0, int w, int h, int pat, int64_t lo, int64_t hi);
void kb_fill_all(Cx *cx, Buf *b, int pat, int64_t lo, int64_t hi);  /* whole allocation incl. guards (elem aligned from base) */
int64_t kb_get(const Buf *b, int x, int y);
void    kb_set(Buf *b, int x, int y, int64_t v);
const char *kp_name(int pat);
/* two-operand pattern combos: id in [0,KP2_N) */
#define KP2_N 10
void kp2(int id, int *pa, int *pb);

/* run C + every supported SIMD variant of the current entry on the registered buffers and compare */
void kc_dispatch(int simd);  /* handlers that call repo functions themselves (to build inputs) must call kc_dispatch(0) first */
void kc_exec(Cx *cx, Args *a);
/* same, but `prep` is called before every variant call (after buffers are restored) to rebuild state
 * that the kernel mutates and that is not held in a Buf */
void kc_exec2(Cx *cx, Args *a, void (*prep)(Cx *cx, Args *a, void *u), void *u);

#endif
