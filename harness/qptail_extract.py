"""C18 unit harness on the REAL code: generate a C program that contains, verbatim,
  (a) the tail of rate_control_kernel that assigns base_q_idx / picture_qp
      (EbRateControlProcess.c, from `if (scs_ptr->static_config.rate_control_mode == 0) {` after the
      `rate_control_layer_ptr = ...` statement up to and including the last
      `pcs_ptr->parent_pcs_ptr->picture_qp = pcs_ptr->picture_qp;`, today lines 7322-7478), found by text anchors
      and checked for balanced braces, and
  (b) the whole static function recode_loop_decision_maker (EbEncDecProcess.c, clang source range),
compiled against the real headers (real struct layouts, real `quantizer_to_qindex`, `CLIP3`, `frame_is_intra_only`,
`use_input_stat`, `use_output_stat`).  Everything upstream is stubbed by macros / tiny functions that return the value
given on the input line (`new_qindex`, the 1-pass RC `picture_qp`, the recode loop's `q`).

Line protocol = `svtmodel qptail` (lean/Driver/QpTail.lean):
   17 ints (RcIn order)   -> `branch base_q_idx picture_qp chroma_set chroma_delta`
   `R minQp maxQp q`      -> `base_q_idx picture_qp`
   `Q i`                  -> `quantizer_to_qindex[i]` (only asked for 0..63)
`branch` is not observable in the C code; the harness recomputes it from the flags exactly as documented in
`QpTail.RcOut` so that lines can be diffed as a whole; `chroma_set/chroma_delta` are read back from
`delta_q_dc[1]` after poisoning it with 99.

    import qptail_extract; path = qptail_extract.write_source(out_dir)
    exe = C.compile_harness("qptail", [path])
"""
import os
import re
import sys

HERE = os.path.dirname(os.path.abspath(__file__))
sys.path.insert(0, os.path.join(os.path.dirname(HERE), "xlate"))
REPO = os.environ.get("SVT_REPO", "/repo")
RC_SRC = "Source/Lib/Encoder/Codec/EbRateControlProcess.c"
ED_SRC = "Source/Lib/Encoder/Codec/EbEncDecProcess.c"


class ExtractError(Exception):
    pass


def tail_text():
    """-> (text, first_line, last_line) of the tail block."""
    src = open(os.path.join(REPO, RC_SRC)).read()
    k = src.find("void *rate_control_kernel(")
    if k < 0:
        raise ExtractError("rate_control_kernel not found")
    a0 = src.find("rate_control_layer_ptr =", k)
    a = src.find("if (scs_ptr->static_config.rate_control_mode == 0) {", a0)
    if a0 < 0 or a < 0 or a - a0 > 400:
        raise ExtractError("start anchor of the tail not found")
    endmark = "pcs_ptr->parent_pcs_ptr->picture_qp = pcs_ptr->picture_qp;"
    stop = src.find("if (pcs_ptr->parent_pcs_ptr->temporal_layer_index == 0 &&", a)
    if stop < 0:
        raise ExtractError("end anchor of the tail not found")
    b = src.rfind(endmark, a, stop)
    if b < 0:
        raise ExtractError("final picture_qp copy not found")
    b += len(endmark)
    text = src[a:b]
    nocom = re.sub(r"/\*.*?\*/", "", text, flags=re.S)
    nocom = re.sub(r"//[^\n]*", "", nocom)
    if nocom.count("{") != nocom.count("}"):
        raise ExtractError("extracted tail has unbalanced braces")
    if "base_q_idx" not in text:
        raise ExtractError("extracted tail does not assign base_q_idx")
    return text, src.count("\n", 0, a) + 1, src.count("\n", 0, b) + 1


def base_q_idx_sites():
    """All assignment sites of base_q_idx in the encoder (file, line, text) — the lead's completeness scan."""
    out = []
    for root in ("Source/Lib/Encoder", "Source/Lib/Common"):
        for dp, _, fns in os.walk(os.path.join(REPO, root)):
            for fn in fns:
                if fn.endswith((".c", ".h")):
                    p = os.path.join(dp, fn)
                    for i, l in enumerate(open(p, errors="replace"), 1):
                        if re.search(r"base_q_idx\s*=[^=]", l) and not l.strip().startswith("//"):
                            out.append((os.path.relpath(p, REPO), i, l.strip()))
    return sorted(out)


PRELUDE = r'''
#include <stdio.h>
#include <stdlib.h>
#include <string.h>
#include "EbDefinitions.h"
#include "EbEncHandle.h"
#include "EbRateControlProcess.h"
#include "EbSequenceControlSet.h"
#include "EbPictureControlSet.h"
#include "EbUtility.h"
#include "EbEntropyCoding.h"
#include "EbModeDecisionProcess.h"
#include "EbSegmentation.h"
#include "pass2_strategy.h"

static long long g_new_qindex, g_rc_pic_qp, g_recode_q;

/* ---- upstream stubs for the tail (macros: the extracted text calls these names) ---- */
#define cqp_qindex_calc_tpl_la(a, b, c) ((int32_t)g_new_qindex)
#define cqp_qindex_calc(a, b, c) ((int32_t)g_new_qindex)
#define rc_pick_q_and_bounds(a) ((int32_t)g_new_qindex)
#define find_fp_qindex(a) ((int32_t)g_new_qindex)
#define process_tpl_stats_frame_kf_gfu_boost(a) ((void)0)
#define frame_level_rc_input_picture_vbr(p, s, c, l, r) ((p)->picture_qp = (uint8_t)g_rc_pic_qp)
#define frame_level_rc_input_picture_cvbr(p, s, c, l, r) ((p)->picture_qp = (uint8_t)g_rc_pic_qp)
#define rate_control_refinement(p, s, a, b, c) ((void)0)
#define setup_segmentation(p, s, l) ((void)0)

static void real_tail(PictureControlSet *pcs_ptr, SequenceControlSet *scs_ptr) {
    FrameHeader *frm_hdr = &pcs_ptr->parent_pcs_ptr->frm_hdr;
    void *context_ptr = NULL, *rate_control_layer_ptr = NULL, *rate_control_param_ptr = NULL,
         *prev_gop_rate_control_param_ptr = NULL, *next_gop_rate_control_param_ptr = NULL;
    RATE_CONTROL rc;
    (void)context_ptr; (void)rate_control_layer_ptr; (void)rate_control_param_ptr;
    (void)prev_gop_rate_control_param_ptr; (void)next_gop_rate_control_param_ptr; (void)rc;
/* ======== BEGIN verbatim %(rc_src)s:%(l0)d-%(l1)d ======== */
%(tail)s
/* ======== END verbatim ======== */
}
#undef cqp_qindex_calc_tpl_la
#undef cqp_qindex_calc
#undef rc_pick_q_and_bounds
#undef find_fp_qindex
#undef process_tpl_stats_frame_kf_gfu_boost
#undef frame_level_rc_input_picture_vbr
#undef frame_level_rc_input_picture_cvbr
#undef rate_control_refinement
#undef setup_segmentation

/* ---- upstream stubs for recode_loop_decision_maker (real functions with these names are not linked) ---- */
void recode_loop_update_q(PictureParentControlSet *ppcs_ptr, int *const loop, int *const q, int *const q_low,
                          int *const q_high, const int top_index, const int bottom_index, int *const undershoot_seen,
                          int *const overshoot_seen, int *const low_cr_seen, const int loop_count) {
    (void)ppcs_ptr; (void)q_low; (void)q_high; (void)top_index; (void)bottom_index; (void)undershoot_seen;
    (void)overshoot_seen; (void)low_cr_seen; (void)loop_count;
    *loop = 1;
    *q    = (int)g_recode_q;
}
void sb_qp_derivation_tpl_la(PictureControlSet *pcs_ptr) { (void)pcs_ptr; }
/* ======== BEGIN verbatim %(ed_src)s:recode_loop_decision_maker ======== */
%(recode)s
/* ======== END verbatim ======== */

static PictureControlSet *pcs; static PictureParentControlSet *ppcs; static SequenceControlSet *scs; static EncodeContext *ectx;

static void fresh(void) {
    memset(pcs, 0, sizeof(*pcs)); memset(ppcs, 0, sizeof(*ppcs)); memset(scs, 0, sizeof(*scs)); memset(ectx, 0, sizeof(*ectx));
    pcs->parent_pcs_ptr = ppcs; ppcs->scs_ptr = scs; scs->encode_context_ptr = ectx;
}

int main(int argc, char **argv) {
    unsigned seed = argc > 1 ? (unsigned)strtoul(argv[1], 0, 10) : 1;  /* only chooses among equivalent upstream paths */
    char line[4096];
    pcs = malloc(sizeof(*pcs)); ppcs = malloc(sizeof(*ppcs)); scs = malloc(sizeof(*scs)); ectx = malloc(sizeof(*ectx));
    if (!pcs || !ppcs || !scs || !ectx) return 3;
    while (fgets(line, sizeof line, stdin)) {
        long long v[17]; char *p = line; int n = 0; char op = 'T';
        while (*p == ' ') p++;
        if (*p == 'T' || *p == 'R' || *p == 'Q') { op = *p; p++; }
        for (;;) { char *e; long long x = strtoll(p, &e, 10); if (e == p) break; if (n < 17) v[n] = x; n++; p = e; }
        seed = seed * 1103515245u + 12345u;
        if (op == 'Q' && n == 1) {
            printf("%%d\n", (v[0] >= 0 && v[0] < 64) ? quantizer_to_qindex[v[0]] : 0);
        } else if (op == 'R' && n == 3) {
            EbBool do_recode = 0;
            fresh();
            scs->static_config.min_qp_allowed = (uint32_t)v[0];
            scs->static_config.max_qp_allowed = (uint32_t)v[1];
            g_recode_q = v[2];
            ppcs->frm_hdr.quantization_params.base_q_idx = 17;
            recode_loop_decision_maker(pcs, scs, &do_recode);
            if (!do_recode) { printf("no-recode\n"); continue; }
            printf("%%d %%d\n", ppcs->frm_hdr.quantization_params.base_q_idx, pcs->picture_qp);
        } else if (op == 'T' && n == 17) {
            int branch;
            fresh();
            scs->static_config.rate_control_mode        = (uint32_t)v[0];
            scs->static_config.use_fixed_qindex_offsets = (EbBool)v[1];
            scs->static_config.enable_qp_scaling_flag   = (uint32_t)v[2];
            ppcs->qp_on_the_fly                         = (EbBool)v[3];
            /* twoPass: use_input_stat(scs) || lap_enabled */
            if (v[4]) { if ((seed >> 16) & 1) scs->static_config.rc_twopass_stats_in.sz = 1; else scs->lap_enabled = 1; }
            scs->static_config.min_qp_allowed = (uint32_t)v[5];
            scs->static_config.max_qp_allowed = (uint32_t)v[6];
            scs->static_config.qp             = (uint32_t)v[7];
            pcs->picture_qp                   = (uint8_t)v[8];
            ppcs->picture_qp                  = (uint8_t)v[9];
            ppcs->frm_hdr.frame_type          = v[10] ? (((seed >> 17) & 1) ? KEY_FRAME : INTRA_ONLY_FRAME) : INTER_FRAME;
            pcs->temporal_layer_index         = (uint8_t)((seed >> 18) %% 6);
            scs->static_config.qindex_offsets[pcs->temporal_layer_index]        = (int32_t)v[11];
            scs->static_config.key_frame_qindex_offset                          = (int32_t)v[12];
            scs->static_config.chroma_qindex_offsets[pcs->temporal_layer_index] = (int32_t)v[13];
            scs->static_config.key_frame_chroma_qindex_offset                   = (int32_t)v[14];
            g_new_qindex = v[15];
            g_rc_pic_qp  = v[16];
            /* equivalent upstream paths inside the scaling branch */
            scs->static_config.enable_tpl_la          = (uint8_t)((seed >> 19) & 1);
            scs->static_config.rc_firstpass_stats_out = (v[0] == 0 && !v[4]) ? (EbBool)((seed >> 20) & 1) : 0;
            ppcs->frm_hdr.quantization_params.delta_q_dc[1] = 99;
            real_tail(pcs, scs);
            if ((uint32_t)v[0] == 0)
                branch = ((EbBool)v[1] == 1) ? 1 : (((uint32_t)v[2] && (EbBool)v[3] == 0) ? 2 : ((EbBool)v[3] == 1 ? 3 : 0));
            else
                branch = ((uint32_t)v[0] == 1) ? (v[4] ? 4 : 5) : ((uint32_t)v[0] == 2 ? 6 : 7);
            {
                int cset = ppcs->frm_hdr.quantization_params.delta_q_dc[1] != 99 || branch == 1;
                printf("%%d %%d %%d %%d %%d\n", branch, ppcs->frm_hdr.quantization_params.base_q_idx, pcs->picture_qp,
                       cset, cset ? ppcs->frm_hdr.quantization_params.delta_q_dc[1] : 0);
                if (ppcs->picture_qp != pcs->picture_qp) printf("parent-picture-qp-mismatch\n");
            }
        } else {
            printf("bad-op\n");
        }
    }
    return 0;
}
'''


def source():
    import extract
    tail, l0, l1 = tail_text()
    recode = extract.function_text(ED_SRC, "recode_loop_decision_maker")
    return ("/* generated by harness/qptail_extract.py -- do not edit */\n" +
            PRELUDE % {"tail": tail, "l0": l0, "l1": l1, "rc_src": RC_SRC, "ed_src": ED_SRC, "recode": recode})


def write_source(out_dir):
    os.makedirs(out_dir, exist_ok=True)
    p = os.path.join(out_dir, "qptail_harness.c")
    t = source()
    if not os.path.exists(p) or open(p).read() != t:
        open(p, "w").write(t)
    return p


if __name__ == "__main__":
    print(write_source(sys.argv[1] if len(sys.argv) > 1 else "."))
