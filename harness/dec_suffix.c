/* dec_suffix — C19 random-access harness: the REAL SVT-AV1 decoder (public API, libSvtAv1Dec.a) decodes a SUFFIX of a packet
 * list with a fresh decoder instance.
 *
 *   stdin lines
 *     RESET <w> <h> <bd>     forget all packets; picture size / bit depth for the decoder configuration
 *     PKT <i> <hex>          packet i (indices 0,1,2,... in order)
 *     DECODE <from>          create a new decoder, feed packets from..last (one svt_av1_dec_frame per packet,
 *                            svt_av1_dec_get_picture after each), destroy it
 *   stdout
 *     OUT <from> <j> <crc> pkt=<i>      j-th picture output by this decode, produced after packet i (crc = FNV-1a of Y,U,V planes)
 *     DERR <from> pkt=<i> code=<hex>    svt_av1_dec_frame returned an error
 *     DONE <from> <pictures>
 */
#include <stdio.h>
#include <stdlib.h>
#include <string.h>
#include <stdint.h>
#include <inttypes.h>
#include "EbSvtAv1Dec.h"

static uint64_t fnv(const uint8_t *p, size_t n, uint64_t h) {
    for (size_t i = 0; i < n; i++) { h ^= p[i]; h *= 0x100000001b3ull; }
    return h;
}
#define FNV0 0xcbf29ce484222325ull

typedef struct { uint8_t *data; size_t size; } Pkt;
static Pkt *pkts; static int npkts, cap;
static int W = 64, H = 64, BD = 8;

static int hexval(int c) {
    if (c >= '0' && c <= '9') return c - '0';
    if (c >= 'a' && c <= 'f') return c - 'a' + 10;
    if (c >= 'A' && c <= 'F') return c - 'A' + 10;
    return -1;
}

static void decode_from(int from) {
    EbSvtAv1DecConfiguration dc; EbComponentType *dh = NULL;
    memset(&dc, 0, sizeof(dc));
    if (svt_av1_dec_init_handle(&dh, NULL, &dc) != EB_ErrorNone) { printf("DERR %d pkt=-1 code=init_handle\nDONE %d 0\n", from, from); return; }
    dc.max_picture_width = W; dc.max_picture_height = H;
    dc.max_bit_depth = BD > 8 ? EB_TEN_BIT : EB_EIGHT_BIT; dc.max_color_format = EB_YUV420;
    dc.threads = 1; dc.is_16bit_pipeline = 0; dc.skip_film_grain = 0; dc.eight_bit_output = 0;
    if (svt_av1_dec_set_parameter(dh, &dc) != EB_ErrorNone || svt_av1_dec_init(dh) != EB_ErrorNone) {
        printf("DERR %d pkt=-1 code=init\nDONE %d 0\n", from, from); svt_av1_dec_deinit_handle(dh); return;
    }
    int bps = BD > 8 ? 2 : 1;
    EbBufferHeaderType ob; EbSvtIOFormat io; memset(&ob, 0, sizeof(ob)); memset(&io, 0, sizeof(io));
    size_t ysz = (size_t)W * H * bps;
    io.luma = malloc(ysz); io.cb = malloc(ysz / 4 + 16); io.cr = malloc(ysz / 4 + 16);
    io.y_stride = W; io.cb_stride = W / 2; io.cr_stride = W / 2; io.width = W; io.height = H;
    io.bit_depth = dc.max_bit_depth; io.color_fmt = EB_YUV420;
    ob.p_buffer = (uint8_t *)&io; ob.size = sizeof(ob);
    EbAV1StreamInfo si; EbAV1FrameInfo fi; memset(&si, 0, sizeof(si)); memset(&fi, 0, sizeof(fi));
    int nout = 0;
    for (int i = from; i < npkts; i++) {
        EbErrorType e = svt_av1_dec_frame(dh, pkts[i].data, pkts[i].size, 0);
        if (e != EB_ErrorNone) printf("DERR %d pkt=%d code=%x\n", from, i, e);
        if (svt_av1_dec_get_picture(dh, &ob, &si, &fi) != EB_DecNoOutputPicture) {
            uint64_t c = fnv(io.luma, ysz, FNV0); c = fnv(io.cb, ysz / 4, c); c = fnv(io.cr, ysz / 4, c);
            printf("OUT %d %d %016" PRIx64 " pkt=%d\n", from, nout, c, i);
            nout++;
        }
    }
    printf("DONE %d %d\n", from, nout);
    svt_av1_dec_deinit(dh); svt_av1_dec_deinit_handle(dh);
    free(io.luma); free(io.cb); free(io.cr);
}

int main(void) {
    char *line = NULL; size_t lcap = 0;
    while (getline(&line, &lcap, stdin) > 0) {
        if (!strncmp(line, "RESET", 5)) {
            for (int i = 0; i < npkts; i++) free(pkts[i].data);
            npkts = 0;
            sscanf(line + 5, "%d %d %d", &W, &H, &BD);
        } else if (!strncmp(line, "PKT ", 4)) {
            char *p = line + 4; (void)strtol(p, &p, 10);
            while (*p == ' ') p++;
            size_t n = 0, len = strlen(p);
            uint8_t *d = malloc(len / 2 + 1);
            while (hexval(p[0]) >= 0 && hexval(p[1]) >= 0) { d[n++] = (uint8_t)(hexval(p[0]) * 16 + hexval(p[1])); p += 2; }
            if (npkts == cap) { cap = cap ? 2 * cap : 64; pkts = realloc(pkts, cap * sizeof(Pkt)); }
            pkts[npkts].data = d; pkts[npkts].size = n; npkts++;
        } else if (!strncmp(line, "DECODE ", 7)) {
            int from = atoi(line + 7);
            if (from < 0 || from > npkts) printf("DONE %d 0\n", from); else decode_from(from);
            fflush(stdout);
        }
    }
    return 0;
}
