/* faultinj — property C16: fail the k-th allocation / OS-object creation of a session and watch what the REAL
 * library does.  Needs the fail-the-k-th hook (hooks/hook-failk.patch: svt_verif_fail_at, svt_verif_alloc_count,
 * svt_verif_site_hook in EbMalloc.c) compiled in (-DSVT_AV1_VERIF).
 *
 *   faultinj mode=enc|dec|gen [w= h= enc_mode= lp= frames= hl= threads= stream=FILE watchdog=S quiet=1]
 *
 * Commands on stdin, one per line; one (or more) result lines on stdout per command:
 *   count          run the whole session once without a fault (streaming included) in a child; prints
 *                    SITE <id> <file>:<line>                 one per distinct site
 *                    K <k> <siteid> <phase>                  one per counted call, k = 1..N (phase: the API call it ran under)
 *                    COUNT n=<N> n_setup=<sites up to the end of initialisation> leak_blocks= leak_bytes= threads_base= threads_end=
 *                          status=<exit0|signalN|timeout> at=<last API call entered> packets=<n>
 *   fail <k>       run the session in a child with the k-th counted call failing; prints
 *                    RUN k=<k> fired=<0|1> site=<file>:<line> phase=<API call during which it fired>
 *                        failed_call=<first API call that returned an error | none> rc=<hex>
 *                        handle_after_init_handle=<null|set> teardown=<done|skipped> leak_blocks= leak_bytes=
 *                        threads_base= threads_end= status=<exit0|signalN|timeout> at=<last API call entered> wall=<s>
 *                  The session is: init_handle; set_parameter; init; (only when nothing failed: send frames, EOS, drain);
 *                  deinit; deinit_handle.  After the first API call that returns an error the harness goes straight to
 *                  teardown (deinit if the handle exists; deinit_handle), as an application would.
 *   (mode=gen writes an encoded stream to stream=FILE: u32 length + bytes per packet, for the decoder runs.)
 * Decoder session: init_handle; set_parameter; init; dec_frame for every packet (+ get_picture); deinit; deinit_handle.
 */
#include "lifecyc_common.h"

extern volatile long svt_verif_fail_at, svt_verif_alloc_count, svt_verif_fired;
extern const char *svt_verif_fail_file;
extern int svt_verif_fail_line;
extern void (*svt_verif_site_hook)(const char *file, int line, long count);

static EncCfg E = {128, 128, 8, 4, 3, -1, -3, 0, -1};
static int g_mode = 0 /*0 enc 1 dec 2 gen*/, g_threads = 1, g_quiet = 1;
static double g_watchdog = 120;
static const char *g_stream = NULL;

/* packets of the stream file (decoder) */
typedef struct { uint8_t *data; uint32_t size; } Pkt;
static Pkt *pkts; static int npkts;
static void load_stream(const char *path) {
    FILE *f = fopen(path, "rb"); if (!f) { fprintf(stderr, "cannot open %s\n", path); exit(2); }
    uint32_t n;
    while (fread(&n, 4, 1, f) == 1) {
        pkts = __real_realloc(pkts, (size_t)(npkts + 1) * sizeof(Pkt));
        pkts[npkts].data = __real_malloc(n ? n : 1); pkts[npkts].size = n;
        if (fread(pkts[npkts].data, 1, n, f) != n) break;
        npkts++;
    }
    fclose(f);
}

/* ---- site recording (count run) ---- */
static volatile int g_phase = 0;
static const char *PHASE[] = {"none", "init_handle", "set_parameter", "init", "stream", "deinit", "deinit_handle", "dec_frame"};
#define MAXSITES 4096
static struct { const char *file; int line; } sites[MAXSITES];
static volatile int nsites = 0;
static volatile int site_lock = 0;
static int record = 0;
static const char *basename_of(const char *p) { const char *s = p ? strrchr(p, '/') : NULL; return s ? s + 1 : (p ? p : "?"); }
static void site_cb(const char *file, int line, long count) {
    if (count == svt_verif_fail_at) emit("FIRED %s:%d %s\n", basename_of(file), line, PHASE[g_phase]);
    if (!record) return;
    while (__sync_lock_test_and_set(&site_lock, 1)) {}
    int id = -1;
    for (int i = 0; i < nsites; i++) if (sites[i].line == line && sites[i].file == file) { id = i; break; }
    if (id < 0 && nsites < MAXSITES) { id = nsites; sites[id].file = file; sites[id].line = line; nsites++; emit("SITE %d %s:%d\n", id, basename_of(file), line); }
    emit("K %ld %d %s\n", count, id, PHASE[g_phase]);
    __sync_lock_release(&site_lock);
}
static FILE *g_gen;
static void gen_sink(const uint8_t *d, uint32_t n) { if (g_gen) { fwrite(&n, 4, 1, g_gen); fwrite(d, 1, n, g_gen); } }

typedef struct { long k; int count_mode; } Job;

static void finish(const Job *J, const char *failed_call, unsigned rc, int handle_null, int teardown, long base_blocks, long base_bytes,
                   int base_thr, long n_setup, int packets) {
    int thr = thread_count_settled(base_thr);
    long lb = g_live_blocks - base_blocks, by = g_live_bytes - base_bytes;
    if (J->count_mode)
        emit("COUNTCHILD n=%ld n_setup=%ld leak_blocks=%ld leak_bytes=%ld threads_base=%d threads_end=%d packets=%d failed_call=%s rc=%x\n",
             (long)svt_verif_alloc_count, n_setup, lb, by, base_thr, thr, packets, failed_call, rc);
    else
        emit("RUNCHILD fired=%ld site=%s:%d failed_call=%s rc=%x handle_after_init_handle=%s teardown=%s leak_blocks=%ld leak_bytes=%ld threads_base=%d threads_end=%d\n",
             (long)svt_verif_fired, basename_of(svt_verif_fail_file), svt_verif_fail_line, failed_call, rc,
             handle_null ? "null" : "set", teardown ? "done" : "skipped", lb, by, base_thr, thr);
}

static void enc_session(void *arg) {
    const Job *J = arg;
    /* warm up stdio / allocator state that is not the library's */
    int base_thr = thread_count();
    long base_blocks = g_live_blocks, base_bytes = g_live_bytes;
    svt_verif_alloc_count = 0; svt_verif_fired = 0; svt_verif_fail_at = J->k;
    record = J->count_mode; svt_verif_site_hook = site_cb;
    static EbSvtAv1EncConfiguration cfg;
    EbComponentType *h = NULL;
    const char *failed = "none"; unsigned rc = 0; long n_setup = 0; int packets = 0;
    g_phase = 1; emit("AT init_handle\n");
    EbErrorType e = svt_av1_enc_init_handle(&h, NULL, &cfg);
    if (e != EB_ErrorNone) {
        failed = "init_handle"; rc = e;
        if (svt_verif_fired) emit("FIREDIN init_handle\n");
        /* the API contract: on error no handle is returned; nothing to tear down */
        int hn = (h == NULL);
        if (h) { g_phase = 6; emit("AT deinit_handle\n"); svt_av1_enc_deinit_handle(h); }
        finish(J, failed, rc, hn, !hn, base_blocks, base_bytes, base_thr, svt_verif_alloc_count, 0);
        return;
    }
    if (svt_verif_fired) emit("FIREDIN init_handle\n");
    apply_cfg(&cfg, &E);
    g_phase = 2; emit("AT set_parameter\n");
    long f0 = svt_verif_fired;
    e = svt_av1_enc_set_parameter(h, &cfg);
    if (svt_verif_fired > f0) emit("FIREDIN set_parameter\n");
    if (e != EB_ErrorNone) { failed = "set_parameter"; rc = e; goto teardown; }
    g_phase = 3; emit("AT init\n");
    f0 = svt_verif_fired;
    e = svt_av1_enc_init(h);
    n_setup = svt_verif_alloc_count;
    if (svt_verif_fired > f0) emit("FIREDIN init\n");
    if (e != EB_ErrorNone) { failed = "init"; rc = e; goto teardown; }
    if (J->count_mode || svt_verif_fired == 0) {
        /* no fault fired during set-up: run a short stream so that the whole cycle is exercised */
        g_phase = 4; emit("AT stream\n");
        f0 = svt_verif_fired;
        int eos = 0;
        for (int f = 0; f < E.frames; f++) { send_pic(h, E.w, E.h, f, 0xC16); packets += get_packets(h, 64, 0, &eos, g_gen ? gen_sink : NULL); }
        send_eos(h);
        while (!eos && E.frames > 0) { int g = get_packets(h, 64, 1, &eos, g_gen ? gen_sink : NULL); if (!g) break; packets += g; }
        if (svt_verif_fired > f0) emit("FIREDIN stream\n");
    }
teardown:
    g_phase = 5; emit("AT deinit\n");
    e = svt_av1_enc_deinit(h);
    if (e != EB_ErrorNone && !strcmp(failed, "none")) { failed = "deinit"; rc = e; }
    g_phase = 6; emit("AT deinit_handle\n");
    e = svt_av1_enc_deinit_handle(h);
    if (e != EB_ErrorNone && !strcmp(failed, "none")) { failed = "deinit_handle"; rc = e; }
    emit("AT done\n");
    finish(J, failed, rc, 0, 1, base_blocks, base_bytes, base_thr, n_setup, packets);
}

static void dec_session(void *arg) {
    const Job *J = arg;
    int base_thr = thread_count();
    long base_blocks = g_live_blocks, base_bytes = g_live_bytes;
    svt_verif_alloc_count = 0; svt_verif_fired = 0; svt_verif_fail_at = J->k;
    record = J->count_mode; svt_verif_site_hook = site_cb;
    EbSvtAv1DecConfiguration dc; EbComponentType *dh = NULL;
    memset(&dc, 0, sizeof dc);
    const char *failed = "none"; unsigned rc = 0; int pics = 0; long n_setup = 0;
    g_phase = 1; emit("AT init_handle\n");
    EbErrorType e = svt_av1_dec_init_handle(&dh, NULL, &dc);
    if (svt_verif_fired) emit("FIREDIN init_handle\n");
    if (e != EB_ErrorNone) {
        failed = "init_handle"; rc = e;
        int hn = (dh == NULL);
        if (dh) { g_phase = 6; emit("AT deinit_handle\n"); svt_av1_dec_deinit_handle(dh); }
        finish(J, failed, rc, hn, !hn, base_blocks, base_bytes, base_thr, svt_verif_alloc_count, 0);
        return;
    }
    dc.max_picture_width = E.w; dc.max_picture_height = E.h; dc.max_bit_depth = EB_EIGHT_BIT; dc.max_color_format = EB_YUV420;
    dc.threads = g_threads; dc.is_16bit_pipeline = 0; dc.skip_film_grain = 0; dc.eight_bit_output = 0;
    g_phase = 2; emit("AT set_parameter\n");
    long f0 = svt_verif_fired;
    e = svt_av1_dec_set_parameter(dh, &dc);
    if (svt_verif_fired > f0) emit("FIREDIN set_parameter\n");
    if (e != EB_ErrorNone) { failed = "set_parameter"; rc = e; goto teardown; }
    g_phase = 3; emit("AT init\n");
    f0 = svt_verif_fired;
    e = svt_av1_dec_init(dh);
    if (svt_verif_fired > f0) emit("FIREDIN init\n");
    if (e != EB_ErrorNone) { failed = "init"; rc = e; goto teardown; }
    {
        EbBufferHeaderType ob; EbSvtIOFormat io; memset(&ob, 0, sizeof ob); memset(&io, 0, sizeof io);
        size_t ysz = (size_t)E.w * E.h;
        io.luma = malloc(ysz * 2); io.cb = malloc(ysz); io.cr = malloc(ysz);
        io.y_stride = E.w; io.cb_stride = E.w / 2; io.cr_stride = E.w / 2; io.width = E.w; io.height = E.h;
        io.bit_depth = EB_EIGHT_BIT; io.color_fmt = EB_YUV420;
        ob.p_buffer = (uint8_t *)&io; ob.size = sizeof ob;
        EbAV1StreamInfo si; EbAV1FrameInfo fi; memset(&si, 0, sizeof si); memset(&fi, 0, sizeof fi);
        g_phase = 7;
        for (int i = 0; i < npkts; i++) {
            emit("AT dec_frame\n");
            f0 = svt_verif_fired;
            e = svt_av1_dec_frame(dh, pkts[i].data, pkts[i].size, 0);
            if (svt_verif_fired > f0) emit("FIREDIN dec_frame\n");
            if (i == 0) n_setup = svt_verif_alloc_count;
            if (e != EB_ErrorNone) { failed = "dec_frame"; rc = e; break; }
            if (svt_av1_dec_get_picture(dh, &ob, &si, &fi) != EB_DecNoOutputPicture) pics++;
        }
        free(io.luma); free(io.cb); free(io.cr);
    }
teardown:
    g_phase = 5; emit("AT deinit\n");
    e = svt_av1_dec_deinit(dh);
    if (e != EB_ErrorNone && !strcmp(failed, "none")) { failed = "deinit"; rc = e; }
    g_phase = 6; emit("AT deinit_handle\n");
    e = svt_av1_dec_deinit_handle(dh);
    if (e != EB_ErrorNone && !strcmp(failed, "none")) { failed = "deinit_handle"; rc = e; }
    emit("AT done\n");
    finish(J, failed, rc, 0, 1, base_blocks, base_bytes, base_thr, n_setup, pics);
}

static const char *find_line(const ChildResult *R, const char *prefix, char *buf, size_t n) {
    const char *p = R->text; size_t pl = strlen(prefix); const char *last = NULL;
    while (p && *p) { if (!strncmp(p, prefix, pl)) last = p; p = strchr(p, '\n'); if (p) p++; }
    if (!last) return NULL;
    size_t i = 0; while (last[i] && last[i] != '\n' && i + 1 < n) { buf[i] = last[i]; i++; }
    buf[i] = 0; return buf;
}

int main(int argc, char **argv) {
    for (int i = 1; i < argc; i++) {
        char *eq = strchr(argv[i], '='); if (!eq) continue;
        const char *v = eq + 1; size_t kl = (size_t)(eq - argv[i]);
#define IS(s) (kl == strlen(s) && !strncmp(argv[i], s, kl))
        if (IS("mode")) g_mode = !strcmp(v, "dec") ? 1 : !strcmp(v, "gen") ? 2 : 0;
        else if (IS("w")) E.w = atoi(v); else if (IS("h")) E.h = atoi(v); else if (IS("enc_mode")) E.enc_mode = atoi(v);
        else if (IS("lp")) E.lp = atoi(v); else if (IS("frames")) E.frames = atoi(v); else if (IS("hl")) E.hierarchical_levels = atoi(v);
        else if (IS("threads")) g_threads = atoi(v); else if (IS("stream")) g_stream = v; else if (IS("watchdog")) g_watchdog = atof(v);
        else if (IS("quiet")) g_quiet = atoi(v); else if (IS("recon")) E.recon = atoi(v); else if (IS("lad")) E.lad = atoi(v);
        else if (IS("intra_period")) E.intra_period = atoi(v); else if (IS("dirty")) g_dirty_heap = atoi(v);
#undef IS
    }
    setvbuf(stdout, NULL, _IOLBF, 0);
    drop_rt_capability();
    if (g_mode == 2) {
        /* generate the decoder's input stream with the real encoder (no fault) */
        g_gen = fopen(g_stream, "wb"); if (!g_gen) { perror(g_stream); return 2; }
        Job J = {0, 1}; g_out = open("/dev/null", O_WRONLY);
        int so = dup(1), se = dup(2); int dn = open("/dev/null", O_WRONLY); dup2(dn, 1); dup2(dn, 2);
        enc_session(&J);
        fflush(stdout); dup2(so, 1); dup2(se, 2);
        fclose(g_gen);
        printf("GEN ok\n");
        return 0;
    }
    if (g_mode == 1) { if (!g_stream) { fprintf(stderr, "mode=dec needs stream=FILE\n"); return 2; } load_stream(g_stream); }
    char line[256];
    while (fgets(line, sizeof line, stdin)) {
        Job J; memset(&J, 0, sizeof J);
        if (!strncmp(line, "count", 5)) J.count_mode = 1;
        else if (!strncmp(line, "fail ", 5)) J.k = atol(line + 5);
        else continue;
        ChildResult R = run_child(g_mode == 1 ? dec_session : enc_session, &J, g_watchdog, g_quiet);
        char st[32], at[64], buf[1024], fin[64];
        status_str(&R, st, sizeof st); last_marker(&R, at, sizeof at);
        if (J.count_mode) {
            /* forward SITE / K lines, then the summary */
            const char *p = R.text;
            while (p && *p) {
                const char *nl = strchr(p, '\n'); size_t n = nl ? (size_t)(nl - p) : strlen(p);
                if (!strncmp(p, "SITE ", 5) || !strncmp(p, "K ", 2)) { fwrite(p, 1, n, stdout); fputc('\n', stdout); }
                p = nl ? nl + 1 : NULL;
            }
            const char *c = find_line(&R, "COUNTCHILD ", buf, sizeof buf);
            printf("COUNT %s status=%s at=%s wall=%.2f\n", c ? c + 11 : "n=-1", st, at, R.wall);
        } else {
            const char *c = find_line(&R, "RUNCHILD ", buf, sizeof buf);
            const char *f = find_line(&R, "FIRED ", fin, sizeof fin);
            char cr[1024]; const char *crash = find_line(&R, "CRASH ", cr, sizeof cr);
            printf("RUN k=%ld firedat=%s %s status=%s at=%s wall=%.2f\n", J.k, f ? f + 6 : "none none",
                   c ? c + 9 : "fired=? site=?:0 failed_call=? rc=0 handle_after_init_handle=? teardown=? leak_blocks=0 leak_bytes=0 threads_base=0 threads_end=0",
                   st, at, R.wall);
            if (crash) printf("%s k=%ld\n", crash, J.k);
        }
        fflush(stdout);
        __real_free(R.text);
    }
    return 0;
}
