/*
 * C23 correspondence harness: drives the REAL system resource manager of /repo.
 *
 * The translation unit *is* EbSystemResourceManager.c (included below, so the static helpers
 * svt_circular_buffer_* and the struct layouts are visible); it is linked with the real EbThreads.c,
 * EbMalloc.c and EbLog.c.  Nothing of the SRM is re-implemented here.
 *
 * Line protocol (stdin -> stdout, one output line per input line):
 *   init N P C      new SRM: N objects, P producer fifos, C consumer fifos      -> "init"
 *   ge f            svt_get_empty_object(producer fifo f)           (caller guarantees: does not block)
 *   gf f            svt_get_full_object(consumer fifo f)            (caller guarantees: does not block)
 *   gn f            svt_get_full_object_non_blocking(consumer fifo f)
 *   post o | rel o | inc o k | ren o b | shut
 *   bge f / bgf f   the same blocking calls on a background pthread (may really block)  -> "bg"
 *   join e|f F      collect the result of the background call on fifo F (2 s watchdog)  -> result | "timeout"
 *   cb_new c | cb_pb x | cb_pf x | cb_pop | cb_empty     raw circular buffer ops (static helpers)
 * Results: "obj <id>", "null", "shutdown", "ok", "bg", "timeout".
 * Every SRM line is followed by a digest of the real internal state:
 *   | E o=[..] p=[..] f0=[items]/sem/quit ... | F ... | L=live counts R=release_enable B=background calls
 *   (B: e<f>/f<f> followed by '+' finished or '-' still blocked)
 * After every op the harness waits until every background thread is finished or asleep (quiescence),
 * so the digest is deterministic.
 * "seed" argument: unused by the harness itself (all randomness is in the op stream the check generates
 * from VERIF_SEED); accepted for interface uniformity.
 */
#define _GNU_SOURCE
#include <stdio.h>
#include <string.h>
#include <pthread.h>
#include <semaphore.h>
#include <signal.h>
#include <unistd.h>
#include <time.h>
#include <sys/syscall.h>

#include "EbSystemResourceManager.c"

#define MAXF 8
typedef struct { EbDctor dctor; int id; } TestObj;

static EbErrorType test_obj_creator(EbPtr *object_dbl_ptr, EbPtr init) {
    static int next;
    TestObj *o = (TestObj *)calloc(1, sizeof(*o));
    (void)init;
    if (!o) return EB_ErrorInsufficientResources;
    o->id = next++;
    *object_dbl_ptr = o;
    return EB_ErrorNone;
}
static void test_obj_destroyer(EbPtr p) { free(p); }

static EbSystemResource *srm;
static unsigned          n_obj, n_prod, n_cons;


typedef struct {
    pthread_t     th;
    volatile int  active, started, done;
    volatile long tid;
    int           side, f;
    EbErrorType   err;
    EbObjectWrapper *w;
} Bg;
static Bg bg[2][MAXF];

static int obj_index(EbObjectWrapper *w) {
    for (unsigned i = 0; i < n_obj; i++)
        if (srm->wrapper_ptr_pool[i] == w) return (int)i;
    return -1;
}
static int fifo_index(EbMuxingQueue *q, void *f) {
    for (unsigned i = 0; i < q->process_total_count; i++)
        if (q->process_fifo_ptr_array[i] == f) return (int)i;
    return -1;
}

static void dump_queue(const char *tag, EbMuxingQueue *q) {
    printf(" | %s", tag);
    if (!q) { printf(" none"); return; }
    EbCircularBuffer *ob = q->object_queue, *pb = q->process_queue;
    printf(" o=[");
    for (uint32_t i = 0; i < ob->buffer_total_count; i++) {
        void *p = ob->array_ptr[(ob->head_index + i) % ob->buffer_total_count];
        if (!p) break;
        printf("%s%d", i ? "," : "", obj_index((EbObjectWrapper *)p));
    }
    printf("] p=[");
    for (uint32_t i = 0; i < pb->buffer_total_count; i++) {
        void *p = pb->array_ptr[(pb->head_index + i) % pb->buffer_total_count];
        if (!p) break;
        printf("%s%d", i ? "," : "", fifo_index(q, p));
    }
    printf("]");
    for (uint32_t f = 0; f < q->process_total_count; f++) {
        EbFifo *ff = q->process_fifo_ptr_array[f];
        int     sv = 0, k = 0;
        svt_block_on_mutex(ff->lockout_mutex);
        printf(" f%u=[", f);
        for (EbObjectWrapper *w = ff->first_ptr; w && k < 64; w = w->next_ptr, k++)
            printf("%s%d", k ? "," : "", obj_index(w));
        sem_getvalue((sem_t *)ff->counting_semaphore, &sv);
        printf("]/%d/%d", sv, ff->quit_signal ? 1 : 0);
        svt_release_mutex(ff->lockout_mutex);
    }
}

static void dump_state(void) {
    dump_queue("E", srm->empty_queue);
    dump_queue("F", srm->full_queue);
    printf(" | L=");
    for (unsigned i = 0; i < n_obj; i++) printf("%s%u", i ? "," : "", srm->wrapper_ptr_pool[i]->live_count);
    printf(" R=");
    for (unsigned i = 0; i < n_obj; i++) printf("%s%d", i ? "," : "", srm->wrapper_ptr_pool[i]->release_enable ? 1 : 0);
    printf(" B=");
    for (int s = 0; s < 2; s++)
        for (int f = 0; f < MAXF; f++)
            if (bg[s][f].active) printf("%c%d%c", s ? 'f' : 'e', f, bg[s][f].done ? '+' : '-');
}

/* ---- background threads ------------------------------------------------------------------ */
static void *bg_main(void *arg) {
    Bg *b = (Bg *)arg;
    pthread_setcanceltype(PTHREAD_CANCEL_DEFERRED, NULL);
    b->tid     = (long)syscall(SYS_gettid);
    b->started = 1;
    EbFifo *f = b->side == 0 ? svt_system_resource_get_producer_fifo(srm, b->f)
                             : svt_system_resource_get_consumer_fifo(srm, b->f);
    if (b->side == 0)
        b->err = svt_get_empty_object(f, &b->w);
    else
        b->err = svt_get_full_object(f, &b->w);
    __sync_synchronize();
    b->done = 1;
    return NULL;
}

static int thread_asleep(long tid) {
    char path[64], buf[512];
    snprintf(path, sizeof path, "/proc/self/task/%ld/stat", tid);
    FILE *fp = fopen(path, "r");
    if (!fp) return 1;
    size_t n = fread(buf, 1, sizeof buf - 1, fp);
    fclose(fp);
    buf[n]  = 0;
    char *p = strrchr(buf, ')');
    return p && p[1] == ' ' && p[2] == 'S';
}

static void nsleep(long ns) {
    struct timespec ts = {0, ns};
    nanosleep(&ts, NULL);
}

/* wait until every active background thread is finished or asleep in the kernel (blocked on its semaphore:
 * the main thread holds no mutex here, so a sleeping thread can only be in sem_wait) */
static void quiesce(void) {
    int stable = 0;
    for (int spin = 0; spin < 2000000 && stable < 2; spin++) {
        int ok = 1;
        for (int s = 0; s < 2 && ok; s++)
            for (int f = 0; f < MAXF && ok; f++) {
                Bg *b = &bg[s][f];
                if (!b->active || b->done) continue;
                if (!b->started || !thread_asleep(b->tid)) ok = 0;
            }
        if (ok) stable++; else { stable = 0; if (spin > 50) nsleep(20000); }
    }
}

static void print_result(EbErrorType err, EbObjectWrapper *w) {
    if (err == EB_NoErrorFifoShutdown) printf("shutdown");
    else if (!w) printf("null");
    else printf("obj %d", obj_index(w));
}

static void kill_background(void) {
    for (int s = 0; s < 2; s++)
        for (int f = 0; f < MAXF; f++) {
            Bg *b = &bg[s][f];
            if (!b->active) continue;
            if (!b->done) pthread_cancel(b->th);
            pthread_join(b->th, NULL);
            memset(b, 0, sizeof *b);
        }
}

/* ---- raw circular buffer ----------------------------------------------------------------- */
static EbCircularBuffer *cb;
static void dump_cb(void) {
    printf(" | h=%u t=%u a=[", cb->head_index, cb->tail_index);
    for (uint32_t i = 0; i < cb->buffer_total_count; i++) printf("%s%ld", i ? "," : "", (long)(intptr_t)cb->array_ptr[i]);
    printf("]");
}
static EbErrorType cb_make(uint32_t cap) {
    EB_NEW(cb, svt_circular_buffer_ctor, cap);
    return EB_ErrorNone;
}
static EbErrorType srm_make(uint32_t n, uint32_t p, uint32_t c) {
    EB_NEW(srm, svt_system_resource_ctor, n, p, c, test_obj_creator, NULL, test_obj_destroyer);
    return EB_ErrorNone;
}

static void on_alarm(int sig) {
    (void)sig;
    static const char msg[] = "\nHANG main thread blocked\n";
    if (write(1, msg, sizeof msg - 1)) {}
    _exit(3);
}

int main(int argc, char **argv) {
    char line[256];
    (void)argc; (void)argv;
    signal(SIGALRM, on_alarm);
    setvbuf(stdout, NULL, _IOFBF, 1 << 16);
    while (fgets(line, sizeof line, stdin)) {
        char op[32] = {0};
        long a = 0, b = 0, c = 0;
        char sidec = 0;
        int  n = sscanf(line, "%31s", op);
        if (n < 1) continue;
        alarm(6); /* watchdog: the main thread must never block */
        if (!strncmp(op, "cb_", 3)) {
            sscanf(line, "%*s %ld", &a);
            if (!strcmp(op, "cb_new")) { cb = NULL; cb_make((uint32_t)a); printf("ok"); }
            else if (!strcmp(op, "cb_pb")) { svt_circular_buffer_push_back(cb, (EbPtr)(intptr_t)a); printf("ok"); }
            else if (!strcmp(op, "cb_pf")) { svt_circular_buffer_push_front(cb, (EbPtr)(intptr_t)a); printf("ok"); }
            else if (!strcmp(op, "cb_pop")) { EbPtr p; svt_circular_buffer_pop_front(cb, &p); printf("pop %ld", (long)(intptr_t)p); }
            else if (!strcmp(op, "cb_empty")) printf("empty %d", svt_circular_buffer_empty_check(cb) ? 1 : 0);
            else printf("bad-op");
            dump_cb();
            printf("\n");
            continue;
        }
        if (!strcmp(op, "init")) {
            sscanf(line, "%*s %ld %ld %ld", &a, &b, &c);
            fflush(stdout);
            kill_background();
            /* the previous SRM is deliberately leaked: cancelled threads may have died inside it */
            srm = NULL; n_obj = (unsigned)a; n_prod = (unsigned)b; n_cons = (unsigned)c;
            srm_make(n_obj, n_prod, n_cons);
            /* object ids: position in wrapper_ptr_pool (obj_index) */
            printf("init");
        } else if (!srm) {
            printf("bad-op\n");
            continue;
        } else if (!strcmp(op, "ge") || !strcmp(op, "gf") || !strcmp(op, "gn")) {
            EbObjectWrapper *w = NULL;
            EbErrorType      e;
            sscanf(line, "%*s %ld", &a);
            if (op[1] == 'e') e = svt_get_empty_object(svt_system_resource_get_producer_fifo(srm, (uint32_t)a), &w);
            else if (op[1] == 'f') e = svt_get_full_object(svt_system_resource_get_consumer_fifo(srm, (uint32_t)a), &w);
            else e = svt_get_full_object_non_blocking(svt_system_resource_get_consumer_fifo(srm, (uint32_t)a), &w);
            print_result(e, w);
        } else if (!strcmp(op, "post")) {
            sscanf(line, "%*s %ld", &a);
            svt_post_full_object(srm->wrapper_ptr_pool[a]);
            printf("ok");
        } else if (!strcmp(op, "rel")) {
            sscanf(line, "%*s %ld", &a);
            svt_release_object(srm->wrapper_ptr_pool[a]);
            printf("ok");
        } else if (!strcmp(op, "inc")) {
            sscanf(line, "%*s %ld %ld", &a, &b);
            svt_object_inc_live_count(srm->wrapper_ptr_pool[a], (uint32_t)b);
            printf("ok");
        } else if (!strcmp(op, "ren")) {
            sscanf(line, "%*s %ld %ld", &a, &b);
            if (b) svt_object_release_enable(srm->wrapper_ptr_pool[a]);
            else svt_object_release_disable(srm->wrapper_ptr_pool[a]);
            printf("ok");
        } else if (!strcmp(op, "shut")) {
            svt_shutdown_process(srm);
            printf("ok");
        } else if (!strcmp(op, "bge") || !strcmp(op, "bgf")) {
            sscanf(line, "%*s %ld", &a);
            int s  = op[2] == 'e' ? 0 : 1;
            Bg *bb = &bg[s][a];
            if (bb->active) { printf("bad-op\n"); continue; }
            memset(bb, 0, sizeof *bb);
            bb->side = s; bb->f = (int)a; bb->active = 1;
            pthread_create(&bb->th, NULL, bg_main, bb);
            printf("bg");
        } else if (!strcmp(op, "join")) {
            sscanf(line, "%*s %c %ld", &sidec, &a);
            int s  = sidec == 'e' ? 0 : 1;
            Bg *bb = &bg[s][a];
            if (!bb->active) { printf("bad-op\n"); continue; }
            for (int i = 0; i < 20000 && !bb->done; i++) nsleep(100000); /* 2 s watchdog */
            if (!bb->done) printf("timeout");
            else {
                pthread_join(bb->th, NULL);
                print_result(bb->err, bb->w);
                memset(bb, 0, sizeof *bb);
            }
        } else {
            printf("bad-op\n");
            continue;
        }
        quiesce();
        dump_state();
        printf("\n");
    }
    fflush(stdout);
    kill_background();
    return 0;
}
