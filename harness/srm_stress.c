/*
 * C23 stress: N producer threads / M consumer threads on the REAL system resource manager
 * (EbSystemResourceManager.c + EbThreads.c + EbMalloc.c + EbLog.c of /repo), exercising the real
 * semaphore wake-up path under true concurrency.  Also run with env SVT_VERIF_PERTURB=<seed>:<pct>:<max_us> (EbThreads.c hook,
 * -DSVT_AV1_VERIF): sleeps / yields in front of every mutex and semaphore operation widen every race window.
 *
 *   srm_stress <seed> <nObj> <nProd> <nCons> <perProducer> <serialisePosts 0|1>
 *
 * Every producer: svt_get_empty_object(own fifo) -> stamp -> svt_post_full_object, perProducer times.
 * Every consumer: svt_get_full_object(own fifo) -> checks -> svt_release_object, until shutdown.
 * Checks (the property's oracle on the real code):
 *   - an object is never handed to a second holder while one holds it (atomic owner flag per object),
 *   - every posted stamp is consumed exactly once (no loss, no duplicate),
 *   - per consumer, stamps of one producer arrive in increasing order; with serialisePosts=1 the global
 *     post order is known and each consumer must see globally increasing stamps (delivery = posting order),
 *   - after all work is consumed svt_shutdown_process makes every consumer return EB_NoErrorFifoShutdown,
 *   - afterwards all nObj objects are back in the empty ring,
 *   - watchdog: no progress for 20 s = hang (lost wake-up) -> "HANG".
 * Output: one line "ok ..." (exit 0) or "VIOLATION ..." / "HANG ..." (exit 1).
 */
#define _GNU_SOURCE
#include <stdio.h>
#include <string.h>
#include <pthread.h>
#include <unistd.h>
#include <signal.h>
#include <sched.h>

#include "EbSystemResourceManager.c"

typedef struct { EbDctor dctor; int id; volatile int owner; int producer; long pseq; long gseq; } Obj;
static int next_id;
static EbErrorType obj_creator(EbPtr *pp, EbPtr init) {
    Obj *o = (Obj *)calloc(1, sizeof(*o));
    (void)init;
    if (!o) return EB_ErrorInsufficientResources;
    o->id = next_id++;
    *pp   = o;
    return EB_ErrorNone;
}
static void obj_destroyer(EbPtr p) { free(p); }

static EbSystemResource *srm;
static unsigned long     rng_state;
static int               n_obj, n_prod, n_cons, per_prod, serialise;
static pthread_mutex_t   post_mu = PTHREAD_MUTEX_INITIALIZER;
static long              gseq;
static volatile long     consumed, violations, shutdown_returns;
static char              vio[256];
static unsigned char *   seen; /* [producer][pseq] */

static void violation(const char *fmt, long a, long b, long c) {
    if (__sync_fetch_and_add(&violations, 1) == 0) snprintf(vio, sizeof vio, fmt, a, b, c);
}
static unsigned rnd(unsigned *s) { *s = *s * 1103515245u + 12345u; return (*s >> 16) & 0x7fff; }

static void *producer(void *arg) {
    int      me = (int)(intptr_t)arg;
    unsigned s  = (unsigned)(rng_state + 977u * me);
    EbFifo * f  = svt_system_resource_get_producer_fifo(srm, me);
    for (long k = 0; k < per_prod; k++) {
        EbObjectWrapper *w;
        svt_get_empty_object(f, &w);
        Obj *o = (Obj *)w->object_ptr;
        if (__sync_lock_test_and_set(&o->owner, 1)) violation("object %ld handed to producer %ld while held", o->id, me, 0);
        o->producer = me;
        o->pseq     = k;
        if (rnd(&s) % 4 == 0) sched_yield();
        __sync_lock_release(&o->owner);
        if (serialise) {
            pthread_mutex_lock(&post_mu);
            o->gseq = gseq++;
            svt_post_full_object(w);
            pthread_mutex_unlock(&post_mu);
        } else {
            o->gseq = -1;
            svt_post_full_object(w);
        }
    }
    return NULL;
}

static void *consumer(void *arg) {
    int      me = (int)(intptr_t)arg;
    unsigned s  = (unsigned)(rng_state + 31337u * me);
    EbFifo * f  = svt_system_resource_get_consumer_fifo(srm, me);
    long *   last = (long *)calloc(n_prod, sizeof(long));
    long     lastg = -1;
    for (int i = 0; i < n_prod; i++) last[i] = -1;
    for (;;) {
        EbObjectWrapper *w = NULL;
        EbErrorType      e = svt_get_full_object(f, &w);
        if (e == EB_NoErrorFifoShutdown) { __sync_fetch_and_add(&shutdown_returns, 1); break; }
        if (!w) { violation("consumer %ld got NULL without shutdown", me, 0, 0); break; }
        Obj *o = (Obj *)w->object_ptr;
        if (__sync_lock_test_and_set(&o->owner, 1)) violation("object %ld handed to consumer %ld while held", o->id, me, 0);
        if (o->pseq <= last[o->producer]) violation("consumer %ld: producer %ld stamp %ld out of order", me, o->producer, o->pseq);
        last[o->producer] = o->pseq;
        if (serialise) {
            if (o->gseq <= lastg) violation("consumer %ld: global post #%ld delivered after #%ld", me, o->gseq, lastg);
            lastg = o->gseq;
        }
        if (__sync_fetch_and_add(&seen[(size_t)o->producer * per_prod + o->pseq], 1)) violation("stamp (%ld,%ld) delivered twice", o->producer, o->pseq, 0);
        if (rnd(&s) % 4 == 0) sched_yield();
        __sync_lock_release(&o->owner);
        __sync_fetch_and_add(&consumed, 1);
        svt_release_object(w);
    }
    free(last);
    return NULL;
}

static long last_progress = -1;
static void on_alarm(int sig) {
    char msg[160];
    (void)sig;
    /* watchdog on PROGRESS, not on total run time (the run may be slowed by SVT_VERIF_PERTURB and by machine load) */
    long now = consumed + shutdown_returns;
    if (now != last_progress) {
        last_progress = now;
        alarm(20);
        return;
    }
    int n = snprintf(msg, sizeof msg, "HANG consumed=%ld of %ld shutdown_returns=%ld of %d\n", consumed, (long)n_prod * per_prod, shutdown_returns, n_cons);
    if (write(1, msg, n)) {}
    _exit(1);
}

static EbErrorType make(void) {
    EB_NEW(srm, svt_system_resource_ctor, n_obj, n_prod, n_cons, obj_creator, NULL, obj_destroyer);
    return EB_ErrorNone;
}

int main(int argc, char **argv) {
    if (argc < 7) { fprintf(stderr, "usage: srm_stress seed nObj nProd nCons perProducer serialise\n"); return 2; }
    rng_state = strtoul(argv[1], NULL, 10);
    n_obj = atoi(argv[2]); n_prod = atoi(argv[3]); n_cons = atoi(argv[4]); per_prod = atoi(argv[5]); serialise = atoi(argv[6]);
    signal(SIGALRM, on_alarm);
    alarm(20);
    if (make() != EB_ErrorNone) { printf("VIOLATION constructor failed\n"); return 1; }
    seen = (unsigned char *)calloc((size_t)n_prod * per_prod, 1);
    pthread_t *pt = calloc(n_prod, sizeof *pt), *ct = calloc(n_cons, sizeof *ct);
    for (int i = 0; i < n_cons; i++) pthread_create(&ct[i], NULL, consumer, (void *)(intptr_t)i);
    for (int i = 0; i < n_prod; i++) pthread_create(&pt[i], NULL, producer, (void *)(intptr_t)i);
    for (int i = 0; i < n_prod; i++) pthread_join(pt[i], NULL);
    long total = (long)n_prod * per_prod;
    while (consumed < total && !violations) { struct timespec ts = {0, 200000}; nanosleep(&ts, NULL); }
    alarm(20);
    svt_shutdown_process(srm);
    for (int i = 0; i < n_cons; i++) pthread_join(ct[i], NULL);
    /* all objects back in the empty ring (read the real ring) */
    EbCircularBuffer *ob = srm->empty_queue->object_queue;
    int               in_ring = 0;
    for (uint32_t i = 0; i < ob->buffer_total_count; i++) in_ring += ob->array_ptr[i] != NULL;
    if (!violations && shutdown_returns != n_cons) violation("only %ld of %ld consumers returned the shutdown code", shutdown_returns, n_cons, 0);
    if (!violations && consumed != total) violation("consumed %ld of %ld", consumed, total, 0);
    if (!violations && in_ring != n_obj) violation("%ld of %ld objects back in the empty ring", in_ring, n_obj, 0);
    if (violations) { printf("VIOLATION %s (%ld violations)\n", vio, violations); return 1; }
    printf("ok consumed=%ld shutdown_returns=%ld in_ring=%d\n", consumed, shutdown_returns, in_ring);
    return 0;
}
