/* copyin — runs the REAL copy-in path of the encoder on one picture per input line (C21).
 *
 *   copyin [flags=all|c]            < ops
 *
 * For every line `IN|IND bd w h sb fill ystride cbstride crstride <hexY> <hexCb> <hexCr>` (see lean/Driver/CopyIn.lean):
 *   - a zeroed SequenceControlSet gets the configured size / bit depth and goes through the REAL
 *     set_param_based_on_input (libSvtAv1Enc.a);
 *   - the internal picture is allocated by the REAL allocate_frame_buffer (static; its source text is extracted
 *     from EbEncHandle.c into copyin_extracted.inc by harness/copyin_extract.py) and every byte of every plane is
 *     pre-filled with fillByte(fill, plane, index);
 *   - the caller's planes are malloc'ed with exactly the size given by the hex strings (so an ASan build flags any
 *     over-read) and copied in by the REAL copy_frame_buffer (static, extracted the same way);
 *   - scs->pad_right/pad_bottom are set as resource_coordination_kernel does (EbResourceCoordinationProcess.c l.809)
 *     and the REAL pad_input_pictures (EbPictureAnalysisProcess.c) regenerates the padding;
 *   - prints `sz=<6 sizes> h=<6 fnv1a-64 hashes>` of y cb cr bit_inc_y bit_inc_cb bit_inc_cr (whole allocations);
 *     IND first prints the six planes in hex (`P<k> <hex>`).
 * flags=c selects the C kernels (un_pack2d, memcpy) in the run-time dispatch tables, flags=all what the CPU supports.
 */
#include <stdio.h>
#include <stdlib.h>
#include <string.h>
#include <stdint.h>
#include <inttypes.h>
#include "EbSvtAv1Enc.h"
#include "EbDefinitions.h"
#include "EbMalloc.h"
#include "EbSequenceControlSet.h"
#include "EbPictureBufferDesc.h"
#include "EbPictureAnalysisProcess.h"
#include "EbPictureOperators.h"
#include "common_dsp_rtcd.h"
#include "aom_dsp_rtcd.h"

extern void set_param_based_on_input(SequenceControlSet *scs_ptr);

#include "copyin_extracted.inc"

static unsigned fill_byte(unsigned fill, unsigned k, size_t i) { return (unsigned)((i * 131 + k * 29 + fill * 7 + i / 251) % 256); }
static uint64_t fnv(const uint8_t *p, size_t n) {
    uint64_t h = 0xcbf29ce484222325ull;
    for (size_t i = 0; i < n; i++) { h ^= p[i]; h *= 0x100000001b3ull; }
    return h;
}
static int hexval(int c) { return c >= '0' && c <= '9' ? c - '0' : c >= 'a' && c <= 'f' ? c - 'a' + 10 : c >= 'A' && c <= 'F' ? c - 'A' + 10 : 0; }
static uint8_t *unhex(const char *s, size_t *n) {
    size_t len = strlen(s) / 2;
    uint8_t *b = malloc(len ? len : 1);
    for (size_t i = 0; i < len; i++) b[i] = (uint8_t)(hexval(s[2 * i]) * 16 + hexval(s[2 * i + 1]));
    *n = len;
    return b;
}

int main(int argc, char **argv) {
    int use_c = 0;
    for (int i = 1; i < argc; i++) if (!strcmp(argv[i], "flags=c")) use_c = 1;
    CPU_FLAGS flags = use_c ? 0 : get_cpu_flags_to_use();
    setup_common_rtcd_internal(flags);
    setup_rtcd_internal(flags);
    char *line = NULL; size_t cap = 0; ssize_t got;
    while ((got = getline(&line, &cap, stdin)) > 0) {
        char *save = NULL;
        char *tok[12]; int nt = 0;
        for (char *t = strtok_r(line, " \r\n", &save); t && nt < 12; t = strtok_r(NULL, " \r\n", &save)) tok[nt++] = t;
        if (nt != 12 || (strcmp(tok[0], "IN") && strcmp(tok[0], "IND"))) { printf("bad-op\n"); continue; }
        int dump = !strcmp(tok[0], "IND");
        unsigned bd = atoi(tok[1]), w = atoi(tok[2]), h = atoi(tok[3]), sb = atoi(tok[4]), fill = atoi(tok[5]);
        SequenceControlSet *scs = calloc(1, sizeof(*scs));
        scs->static_config.encoder_bit_depth = bd;
        scs->static_config.encoder_color_format = EB_YUV420;
        scs->static_config.compressed_ten_bit_format = 0;
        scs->static_config.enc_mode = sb == 128 ? 4 : 8;       /* super_block_size = enc_mode <= ENC_M4 ? 128 : 64 */
        scs->static_config.enable_tpl_la = 0;                  /* (tpl + 240p would force 64) */
        scs->static_config.source_width = w; scs->static_config.source_height = h;
        scs->subsampling_x = 1; scs->subsampling_y = 1;
        scs->max_input_luma_width = (uint16_t)w; scs->max_input_luma_height = (uint16_t)h;    /* copy_api_from_app l.2185 */
        set_param_based_on_input(scs);
        if (scs->static_config.super_block_size != sb) { printf("ERR sb=%u\n", scs->static_config.super_block_size); free(scs); continue; }
        EbBufferHeaderType hdr; memset(&hdr, 0, sizeof(hdr));
        if (allocate_frame_buffer(scs, &hdr) != EB_ErrorNone) { printf("ERR alloc\n"); free(scs); continue; }
        EbPictureBufferDesc *pic = (EbPictureBufferDesc *)hdr.p_buffer;
        uint8_t *pl[6] = {pic->buffer_y, pic->buffer_cb, pic->buffer_cr, pic->buffer_bit_inc_y, pic->buffer_bit_inc_cb, pic->buffer_bit_inc_cr};
        size_t sz[6] = {pic->luma_size, pic->chroma_size, pic->chroma_size, pic->luma_size, pic->chroma_size, pic->chroma_size};
        for (int k = 0; k < 6; k++) {
            if (!pl[k]) { sz[k] = 0; continue; }
            for (size_t i = 0; i < sz[k]; i++) pl[k][i] = (uint8_t)fill_byte(fill, k, i);
        }
        EbSvtIOFormat io; memset(&io, 0, sizeof(io));
        size_t ny, ncb, ncr;
        io.luma = unhex(tok[9], &ny); io.cb = unhex(tok[10], &ncb); io.cr = unhex(tok[11], &ncr);
        io.y_stride = (uint32_t)strtoul(tok[6], NULL, 10); io.cb_stride = (uint32_t)strtoul(tok[7], NULL, 10);
        io.cr_stride = (uint32_t)strtoul(tok[8], NULL, 10);
        io.width = w; io.height = h; io.color_fmt = EB_YUV420; io.bit_depth = bd > 8 ? EB_TEN_BIT : EB_EIGHT_BIT;
        copy_frame_buffer(scs, (uint8_t *)pic, (uint8_t *)&io);
        scs->pad_right = scs->max_input_pad_right;              /* EbResourceCoordinationProcess.c l.809-812 */
        scs->pad_bottom = scs->max_input_pad_bottom;
        pad_input_pictures(scs, pic);
        if (dump)
            for (int k = 0; k < 6; k++) {
                printf("P%d ", k);
                for (size_t i = 0; i < sz[k]; i++) printf("%02x", pl[k][i]);
                printf("\n");
            }
        printf("sz=%zu %zu %zu %zu %zu %zu h=", sz[0], sz[1], sz[2], sz[3], sz[4], sz[5]);
        for (int k = 0; k < 6; k++) printf("%016" PRIx64 "%s", fnv(pl[k], sz[k]), k < 5 ? " " : "\n");
        fflush(stdout);
        free(io.luma); free(io.cb); free(io.cr);
        EB_DELETE(pic);
        free(scs);
    }
    free(line);
    return 0;
}
