/* setparam — drives the REAL svt_av1_enc_init_handle / svt_av1_enc_set_parameter (same line protocol as `svtmodel config`).
 *   CASE <dirty> name=value name[i]=value ...  -> accept=<0|1> code=<hex>
 *        caller memory is memset to <dirty>, svt_av1_enc_init_handle fills in the defaults, overrides are applied,
 *        svt_av1_enc_set_parameter is called on the fresh handle.
 *   CASE2 <dirty> <overrides A> ; <overrides B>  -> accept=<a> accept2=<b>   (two set_parameter calls on ONE handle, 10 s watchdog)
 *   DUMP <dirty>                                -> `name value` per member after svt_av1_enc_init_handle, then END
 */
#include <stdio.h>
#include <stdlib.h>
#include <string.h>
#include <unistd.h>
#include <signal.h>
#include "EbSvtAv1Enc.h"
#include "cfg_fields.h"

/* decimal literal of any 64-bit value, signed or unsigned (atoll saturates above LLONG_MAX) */
static long long parse_ll(const char *s) { return s[0] == '-' ? strtoll(s, NULL, 10) : (long long)strtoull(s, NULL, 10); }

static int set_cfg_field(EbSvtAv1EncConfiguration *c, const char *name, long long v) {
#define X(f) if (!strcmp(name, #f)) { c->f = v; return 1; }
    CFG_SCALARS(X)
#undef X
    { char base[128]; int idx;
      if (sscanf(name, "%127[^[][%d]", base, &idx) == 2) {
#define X(f, n) if (!strcmp(base, #f) && idx >= 0 && idx < n) { c->f[idx] = v; return 1; }
          CFG_ARRAYS(X)
#undef X
      } }
    if (!strcmp(name, "rc_twopass_stats_in_sz")) { c->rc_twopass_stats_in.sz = (uint64_t)v; return 1; }
    if (!strcmp(name, "rc_twopass_stats_in_buf")) { c->rc_twopass_stats_in.buf = (void *)(intptr_t)v; return 1; }
    return 0;
}
static void dump_cfg(const EbSvtAv1EncConfiguration *c) {
#define X(f) printf("%s %lld\n", #f, (long long)c->f);
    CFG_SCALARS(X)
#undef X
#define X(f, n) for (int i_ = 0; i_ < n; i_++) printf("%s[%d] %lld\n", #f, i_, (long long)c->f[i_]);
    CFG_ARRAYS(X)
#undef X
    printf("rc_twopass_stats_in_buf %lld\nrc_twopass_stats_in_sz %lld\n", (long long)(intptr_t)c->rc_twopass_stats_in.buf, (long long)c->rc_twopass_stats_in.sz);
}
static void on_alarm(int s) { (void)s; static const char m[] = "BLOCKED\n"; if (write(1, m, sizeof(m) - 1)) {} _exit(3); }
static int apply(EbSvtAv1EncConfiguration *cfg, char *toks) {
    for (char *t = strtok(toks, " \t\n"); t; t = strtok(NULL, " \t\n")) {
        char *eq = strchr(t, '='); if (!eq) return 0;
        *eq = 0; if (!set_cfg_field(cfg, t, parse_ll(eq + 1))) return 0;
    }
    return 1;
}
int main(void) {
    static char line[1 << 16];
    static EbSvtAv1EncConfiguration cfg;
    /* library log goes to stderr by default; keep stdout canonical */
    signal(SIGALRM, on_alarm);
    while (fgets(line, sizeof(line), stdin)) {
        int dirty; int off = 0; char cmd[16];
        if (sscanf(line, "%15s %d %n", cmd, &dirty, &off) < 2) { printf("bad-op\n"); continue; }
        memset(&cfg, dirty, sizeof(cfg));
        EbComponentType *h = NULL;
        if (svt_av1_enc_init_handle(&h, NULL, &cfg) != EB_ErrorNone) { printf("init-handle-failed\n"); continue; }
        if (!strcmp(cmd, "DUMP")) { dump_cfg(&cfg); printf("END\n"); svt_av1_enc_deinit_handle(h); fflush(stdout); continue; }
        if (!strcmp(cmd, "CASE")) {
            if (!apply(&cfg, line + off)) { printf("bad-op\n"); svt_av1_enc_deinit_handle(h); continue; }
            EbErrorType e = svt_av1_enc_set_parameter(h, &cfg);
            printf("accept=%d code=%x\n", e == EB_ErrorNone, (unsigned)e);
        } else if (!strcmp(cmd, "CASE2")) {
            char *semi = strchr(line + off, ';');
            if (!semi) { printf("bad-op\n"); svt_av1_enc_deinit_handle(h); continue; }
            *semi = 0;
            static EbSvtAv1EncConfiguration cfg2; cfg2 = cfg;
            if (!apply(&cfg, line + off) || !apply(&cfg2, semi + 1)) { printf("bad-op\n"); svt_av1_enc_deinit_handle(h); continue; }
            alarm(10);
            EbErrorType e1 = svt_av1_enc_set_parameter(h, &cfg);
            EbErrorType e2 = svt_av1_enc_set_parameter(h, &cfg2);
            alarm(0);
            printf("accept=%d accept2=%d\n", e1 == EB_ErrorNone, e2 == EB_ErrorNone);
        } else printf("bad-op\n");
        svt_av1_enc_deinit_handle(h);
        fflush(stdout);
    }
    return 0;
}
