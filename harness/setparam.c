/* setparam — drives the REAL svt_av1_enc_init_handle / svt_av1_enc_set_parameter (same line protocol as `svtmodel config`).
 *   CASE <dirty> name=value name[i]=value ...  -> accept=<0|1> code=<hex>
 *        (pred_struct[i].m is written pred_struct_m[i]; pred_struct[i].ref_listX[j] is pred_struct_ref_listX[i*4+j])
 *        caller memory is memset to <dirty>, svt_av1_enc_init_handle fills in the defaults, overrides are applied,
 *        svt_av1_enc_set_parameter is called on the fresh handle.
 *        If the library dies inside the call (SIGSEGV/SIGFPE/SIGBUS/SIGILL/SIGABRT) the line is `accept=- crash=<signal>`; if it dies
 *        while the handle is torn down afterwards the line is `accept=<0|1> code=<hex> crash=<signal>`.  In both cases the harness
 *        exits with status 3 after that line (its heap can no longer be trusted); the caller restarts it with the remaining cases.
 *   CASE2 <dirty> <overrides A> ; <overrides B>  -> accept=<a> accept2=<b>   (two set_parameter calls on ONE handle, 10 s watchdog)
 *   DUMP <dirty>                                -> `name value` per member after svt_av1_enc_init_handle, then END
 */
#include <stdio.h>
#include <stdlib.h>
#include <string.h>
#include <unistd.h>
#include <signal.h>
#include <setjmp.h>
#include "EbSvtAv1Enc.h"
#include "cfg_fields.h"

/* decimal literal of any 64-bit value, signed or unsigned (atoll saturates above LLONG_MAX) */
static long long parse_ll(const char *s) { return s[0] == '-' ? strtoll(s, NULL, 10) : (long long)strtoull(s, NULL, 10); }

static int set_cfg_field(EbSvtAv1EncConfiguration *c, const char *name, long long v) {
#define X(f) if (!strcmp(name, #f)) { c->f = v; return 1; }
    CFG_SCALARS(X)
#undef X
    { char base[128]; int idx;
      if (sscanf(name, "%127[^[][%d]", base, &idx) == 2) {
#define X(f, n) if (!strcmp(base, #f) && idx >= 0 && idx < n) { c->f[idx] = v; return 1; }
          CFG_ARRAYS(X)
#undef X
      } }
    /* elements of pred_struct[] by flattened name: pred_struct_<member>[i], list members pred_struct_<member>[i*REF_LIST_MAX_DEPTH+j] */
    { char base[128]; int idx; const int n = (int)(sizeof(c->pred_struct) / sizeof(c->pred_struct[0]));
      if (sscanf(name, "%127[^[][%d]", base, &idx) == 2 && idx >= 0) {
          if (!strcmp(base, "pred_struct_temporal_layer_index") && idx < n) { c->pred_struct[idx].temporal_layer_index = (uint32_t)v; return 1; }
          if (!strcmp(base, "pred_struct_decode_order") && idx < n) { c->pred_struct[idx].decode_order = (uint32_t)v; return 1; }
          if (!strcmp(base, "pred_struct_ref_list0") && idx < n * REF_LIST_MAX_DEPTH) { c->pred_struct[idx / REF_LIST_MAX_DEPTH].ref_list0[idx % REF_LIST_MAX_DEPTH] = (int32_t)v; return 1; }
          if (!strcmp(base, "pred_struct_ref_list1") && idx < n * REF_LIST_MAX_DEPTH) { c->pred_struct[idx / REF_LIST_MAX_DEPTH].ref_list1[idx % REF_LIST_MAX_DEPTH] = (int32_t)v; return 1; }
      } }
    if (!strcmp(name, "rc_twopass_stats_in_sz")) { c->rc_twopass_stats_in.sz = (uint64_t)v; return 1; }
    if (!strcmp(name, "rc_twopass_stats_in_buf")) { c->rc_twopass_stats_in.buf = (void *)(intptr_t)v; return 1; }
    return 0;
}
static void dump_cfg(const EbSvtAv1EncConfiguration *c) {
#define X(f) printf("%s %lld\n", #f, (long long)c->f);
    CFG_SCALARS(X)
#undef X
#define X(f, n) for (int i_ = 0; i_ < n; i_++) printf("%s[%d] %lld\n", #f, i_, (long long)c->f[i_]);
    CFG_ARRAYS(X)
#undef X
    printf("rc_twopass_stats_in_buf %lld\nrc_twopass_stats_in_sz %lld\n", (long long)(intptr_t)c->rc_twopass_stats_in.buf, (long long)c->rc_twopass_stats_in.sz);
}
static sigjmp_buf crash_env;
static volatile sig_atomic_t crash_armed = 0, crash_phase = 0;
static void on_crash(int s) { if (crash_armed) siglongjmp(crash_env, s); signal(s, SIG_DFL); raise(s); }
static void on_alarm(int s) { (void)s; static const char m[] = "BLOCKED\n"; if (write(1, m, sizeof(m) - 1)) {} _exit(3); }
static int apply(EbSvtAv1EncConfiguration *cfg, char *toks) {
    for (char *t = strtok(toks, " \t\n"); t; t = strtok(NULL, " \t\n")) {
        char *eq = strchr(t, '='); if (!eq) return 0;
        *eq = 0; if (!set_cfg_field(cfg, t, parse_ll(eq + 1))) return 0;
    }
    return 1;
}
int main(void) {
    static char line[1 << 16];
    static EbSvtAv1EncConfiguration cfg;
    /* library log goes to stderr by default; keep stdout canonical */
    signal(SIGALRM, on_alarm);
    { struct sigaction sa; memset(&sa, 0, sizeof(sa)); sa.sa_handler = on_crash; sa.sa_flags = SA_NODEFER;
      sigaction(SIGSEGV, &sa, NULL); sigaction(SIGFPE, &sa, NULL); sigaction(SIGBUS, &sa, NULL); sigaction(SIGILL, &sa, NULL); sigaction(SIGABRT, &sa, NULL); }
    while (fgets(line, sizeof(line), stdin)) {
        int dirty; int off = 0; char cmd[16];
        if (sscanf(line, "%15s %d %n", cmd, &dirty, &off) < 2) { printf("bad-op\n"); continue; }
        memset(&cfg, dirty, sizeof(cfg));
        EbComponentType *h = NULL;
        if (svt_av1_enc_init_handle(&h, NULL, &cfg) != EB_ErrorNone) { printf("init-handle-failed\n"); continue; }
        if (!strcmp(cmd, "DUMP")) { dump_cfg(&cfg); printf("END\n"); svt_av1_enc_deinit_handle(h); fflush(stdout); continue; }
        if (!strcmp(cmd, "CASE")) {
            if (!apply(&cfg, line + off)) { printf("bad-op\n"); svt_av1_enc_deinit_handle(h); continue; }
            crash_armed = 1; crash_phase = 0;
            int sig = sigsetjmp(crash_env, 1);
            if (sig == 0) {
                EbErrorType e = svt_av1_enc_set_parameter(h, &cfg);
                printf("accept=%d code=%x", e == EB_ErrorNone, (unsigned)e);
                fflush(stdout);
                crash_phase = 1;
                svt_av1_enc_deinit_handle(h);
                crash_armed = 0;
                printf("\n");
                fflush(stdout);
                continue;
            }
            /* the library died: inside set_parameter (no verdict) or while the handle was torn down (verdict already printed).
               The process state is no longer trustworthy: report and stop; the caller restarts the harness with the remaining cases. */
            crash_armed = 0;
            printf(crash_phase ? " crash=%d\n" : "accept=- crash=%d\n", sig);
            fflush(stdout);
            _exit(3);
        } else if (!strcmp(cmd, "CASE2")) {
            char *semi = strchr(line + off, ';');
            if (!semi) { printf("bad-op\n"); svt_av1_enc_deinit_handle(h); continue; }
            *semi = 0;
            static EbSvtAv1EncConfiguration cfg2; cfg2 = cfg;
            if (!apply(&cfg, line + off) || !apply(&cfg2, semi + 1)) { printf("bad-op\n"); svt_av1_enc_deinit_handle(h); continue; }
            alarm(10);
            EbErrorType e1 = svt_av1_enc_set_parameter(h, &cfg);
            EbErrorType e2 = svt_av1_enc_set_parameter(h, &cfg2);
            alarm(0);
            printf("accept=%d accept2=%d\n", e1 == EB_ErrorNone, e2 == EB_ErrorNone);
        } else printf("bad-op\n");
        svt_av1_enc_deinit_handle(h);
        fflush(stdout);
    }
    return 0;
}
