/* teardown — property C15: tear an encoder / decoder session down at every point of the API protocol and look at
 * what is left.  Real libraries (static, current tree), every scenario in a forked child under a wall-clock watchdog.
 *
 *   teardown [w= h= enc_mode= lp= watchdog=S stream=FILE quiet=1]
 *
 * Commands on stdin, one result line each (plus CRASH / THREAD lines when a child dies or hangs):
 *   enc <point> [k] [j]     point = handle          after svt_av1_enc_init_handle
 *                                   nullcfg         svt_av1_enc_init_handle(&h, NULL, NULL): must fail and leave nothing behind
 *                                   rejected        after a set_parameter that is rejected (source_width = 0)
 *                                   configured      after an accepted set_parameter
 *                                   init            after svt_av1_enc_init
 *                                   midstream       after k pictures sent and (up to) j packets fetched, no EOS
 *                                   drained         after k pictures, EOS and a complete drain
 *                           then svt_av1_enc_deinit; svt_av1_enc_deinit_handle  (for handle/rejected/configured also the
 *                           variant `nodeinit=1`: svt_av1_enc_deinit_handle only)
 *   dec <point> [k] [threads]   point = handle | configured | init | frames (k packets decoded) ; then deinit; deinit_handle
 *   cycles <n> [k]          n complete encoder sessions (k pictures each) in ONE process: live blocks after each, RSS trend
 * Result: TD kind=<enc|dec|cycles> point= k= j= threads= status=<exit0|signalN|timeout> at=<last API call entered>
 *            leak_blocks= leak_bytes= threads_base= threads_end= rc_deinit= rc_deinit_handle= packets= wall=
 */
#include "lifecyc_common.h"

static EncCfg E = {128, 128, 8, 4, 3, -1, -3, 0, -1};
static double g_watchdog = 60;
static int g_quiet = 1;
static const char *g_stream = NULL;
typedef struct { uint8_t *data; uint32_t size; } Pkt;
static Pkt *pkts; static int npkts;
static void load_stream(const char *path) {
    FILE *f = fopen(path, "rb"); if (!f) return;
    uint32_t n;
    while (fread(&n, 4, 1, f) == 1) {
        pkts = __real_realloc(pkts, (size_t)(npkts + 1) * sizeof(Pkt));
        pkts[npkts].data = __real_malloc(n ? n : 1); pkts[npkts].size = n;
        if (fread(pkts[npkts].data, 1, n, f) != n) break;
        npkts++;
    }
    fclose(f);
}

typedef struct { int kind; char point[24]; int k, j, threads, nodeinit; } Job;

static void report(const Job *J, long b0, long y0, int t0, unsigned rc1, unsigned rc2, int packets) {
    int t1 = thread_count_settled(t0);
    emit("TDCHILD leak_blocks=%ld leak_bytes=%ld threads_base=%d threads_end=%d rc_deinit=%x rc_deinit_handle=%x packets=%d\n",
         g_live_blocks - b0, g_live_bytes - y0, t0, t1, rc1, rc2, packets);
}

static void enc_job(void *arg) {
    const Job *J = arg;
    int t0 = thread_count(); long b0 = g_live_blocks, y0 = g_live_bytes;
    static EbSvtAv1EncConfiguration cfg; EbComponentType *h = NULL;
    unsigned rc1 = 0, rc2 = 0; int packets = 0;
    emit("AT init_handle\n");
    if (!strcmp(J->point, "nullcfg")) {
        EbErrorType e = svt_av1_enc_init_handle(&h, NULL, NULL);
        emit("NOTE init_handle(NULL config) returned %x handle=%s\n", e, h ? "set" : "null");
        if (h) { svt_av1_enc_deinit_handle(h); }
        emit("AT done\n");
        report(J, b0, y0, t0, e, 0, 0);
        return;
    }
    if (svt_av1_enc_init_handle(&h, NULL, &cfg) != EB_ErrorNone || !h) { emit("NOTE init_handle failed\n"); report(J, b0, y0, t0, 0, 0, 0); return; }
    if (!strcmp(J->point, "handle")) goto teardown;
    apply_cfg(&cfg, &E);
    if (!strcmp(J->point, "rejected")) {
        cfg.source_width = 0;
        emit("AT set_parameter\n");
        EbErrorType e = svt_av1_enc_set_parameter(h, &cfg);
        if (e == EB_ErrorNone) emit("NOTE config unexpectedly accepted\n");
        goto teardown;
    }
    emit("AT set_parameter\n");
    if (svt_av1_enc_set_parameter(h, &cfg) != EB_ErrorNone) { emit("NOTE config unexpectedly rejected\n"); goto teardown; }
    if (!strcmp(J->point, "configured")) goto teardown;
    emit("AT init\n");
    if (svt_av1_enc_init(h) != EB_ErrorNone) { emit("NOTE init failed\n"); goto teardown; }
    if (!strcmp(J->point, "init")) goto teardown;
    {
        int eos = 0;
        emit("AT send_picture\n");
        for (int f = 0; f < J->k; f++) {
            send_pic(h, E.w, E.h, f, 0xC15);
            if (!strcmp(J->point, "drained")) packets += get_packets(h, 64, 0, &eos, NULL);
        }
        if (!strcmp(J->point, "midstream")) {
            emit("AT get_packet\n");
            /* fetch up to j packets, waiting at most ~2 s for them to appear (non-blocking polls) */
            for (int spin = 0; packets < J->j && spin < 400; spin++) { int g = get_packets(h, J->j - packets, 0, &eos, NULL); packets += g; if (!g) usleep(5000); }
        } else {
            send_eos(h);
            emit("AT get_packet\n");
            while (!eos && J->k > 0) { int g = get_packets(h, 64, 1, &eos, NULL); if (!g) break; packets += g; }
        }
    }
teardown:
    if (!J->nodeinit) { emit("AT deinit\n"); rc1 = svt_av1_enc_deinit(h); }
    emit("AT deinit_handle\n");
    rc2 = svt_av1_enc_deinit_handle(h);
    emit("AT done\n");
    report(J, b0, y0, t0, rc1, rc2, packets);
}

static void dec_job(void *arg) {
    const Job *J = arg;
    int t0 = thread_count(); long b0 = g_live_blocks, y0 = g_live_bytes;
    EbSvtAv1DecConfiguration dc; EbComponentType *dh = NULL; unsigned rc1 = 0, rc2 = 0; int pics = 0;
    memset(&dc, 0, sizeof dc);
    emit("AT init_handle\n");
    if (svt_av1_dec_init_handle(&dh, NULL, &dc) != EB_ErrorNone || !dh) { emit("NOTE init_handle failed\n"); report(J, b0, y0, t0, 0, 0, 0); return; }
    if (!strcmp(J->point, "handle")) goto teardown;
    dc.max_picture_width = E.w; dc.max_picture_height = E.h; dc.max_bit_depth = EB_EIGHT_BIT; dc.max_color_format = EB_YUV420;
    dc.threads = J->threads; dc.eight_bit_output = 0;
    emit("AT set_parameter\n");
    svt_av1_dec_set_parameter(dh, &dc);
    if (!strcmp(J->point, "configured")) goto teardown;
    emit("AT init\n");
    if (svt_av1_dec_init(dh) != EB_ErrorNone) { emit("NOTE init failed\n"); goto teardown; }
    if (!strcmp(J->point, "init")) goto teardown;
    {
        EbBufferHeaderType ob; EbSvtIOFormat io; memset(&ob, 0, sizeof ob); memset(&io, 0, sizeof io);
        size_t ysz = (size_t)E.w * E.h;
        io.luma = malloc(ysz * 2); io.cb = malloc(ysz); io.cr = malloc(ysz);
        io.y_stride = E.w; io.cb_stride = E.w / 2; io.cr_stride = E.w / 2; io.width = E.w; io.height = E.h;
        io.bit_depth = EB_EIGHT_BIT; io.color_fmt = EB_YUV420;
        ob.p_buffer = (uint8_t *)&io; ob.size = sizeof ob;
        EbAV1StreamInfo si; EbAV1FrameInfo fi; memset(&si, 0, sizeof si); memset(&fi, 0, sizeof fi);
        for (int i = 0; i < npkts && i < J->k; i++) {
            emit("AT dec_frame\n");
            if (svt_av1_dec_frame(dh, pkts[i].data, pkts[i].size, 0) != EB_ErrorNone) { emit("NOTE dec_frame error\n"); break; }
            if (svt_av1_dec_get_picture(dh, &ob, &si, &fi) != EB_DecNoOutputPicture) pics++;
        }
        free(io.luma); free(io.cb); free(io.cr);
    }
teardown:
    emit("AT deinit\n"); rc1 = svt_av1_dec_deinit(dh);
    emit("AT deinit_handle\n"); rc2 = svt_av1_dec_deinit_handle(dh);
    emit("AT done\n");
    report(J, b0, y0, t0, rc1, rc2, pics);
}

static void cycles_job(void *arg) {
    const Job *J = arg;
    int t0 = thread_count(); long b0 = g_live_blocks, y0 = g_live_bytes;
    long rss_first = 0, rss_second = 0, rss_last = 0, worst_blocks = 0; int worst_thr = t0;
    for (int c = 0; c < J->k; c++) {
        static EbSvtAv1EncConfiguration cfg; EbComponentType *h = NULL; int eos = 0;
        emit("AT cycle%d\n", c);
        if (svt_av1_enc_init_handle(&h, NULL, &cfg) != EB_ErrorNone) { emit("NOTE init_handle failed in cycle %d\n", c); break; }
        apply_cfg(&cfg, &E);
        if (svt_av1_enc_set_parameter(h, &cfg) != EB_ErrorNone || svt_av1_enc_init(h) != EB_ErrorNone) { emit("NOTE setup failed in cycle %d\n", c); }
        else {
            for (int f = 0; f < J->j; f++) { send_pic(h, E.w, E.h, f, 0xC15 + c); get_packets(h, 64, 0, &eos, NULL); }
            send_eos(h);
            while (!eos && J->j > 0) if (!get_packets(h, 64, 1, &eos, NULL)) break;
        }
        svt_av1_enc_deinit(h); svt_av1_enc_deinit_handle(h);
        long lb = g_live_blocks - b0; if (lb > worst_blocks) worst_blocks = lb;
        int th = thread_count_settled(t0); if (th > worst_thr) worst_thr = th;
        long r = rss_kb();
        if (c == 0) rss_first = r; if (c == 1) rss_second = r; rss_last = r;
        emit("CYCLE %d live_blocks=%ld live_bytes=%ld threads=%d rss_kb=%ld\n", c, lb, g_live_bytes - y0, th, r);
    }
    emit("AT done\n");
    emit("TDCHILD leak_blocks=%ld leak_bytes=%ld threads_base=%d threads_end=%d rc_deinit=0 rc_deinit_handle=0 packets=0 rss_first=%ld rss_second=%ld rss_last=%ld\n",
         worst_blocks, g_live_bytes - y0, t0, worst_thr, rss_first, rss_second, rss_last);
}

static const char *find_line(const ChildResult *R, const char *prefix, char *buf, size_t n) {
    const char *p = R->text; size_t pl = strlen(prefix); const char *last = NULL;
    while (p && *p) { if (!strncmp(p, prefix, pl)) last = p; p = strchr(p, '\n'); if (p) p++; }
    if (!last) return NULL;
    size_t i = 0; while (last[i] && last[i] != '\n' && i + 1 < n) { buf[i] = last[i]; i++; }
    buf[i] = 0; return buf;
}
static void forward_lines(const ChildResult *R, const char *prefix) {
    const char *p = R->text; size_t pl = strlen(prefix);
    while (p && *p) {
        const char *nl = strchr(p, '\n'); size_t n = nl ? (size_t)(nl - p) : strlen(p);
        if (!strncmp(p, prefix, pl)) { fwrite(p, 1, n, stdout); fputc('\n', stdout); }
        p = nl ? nl + 1 : NULL;
    }
}

int main(int argc, char **argv) {
    for (int i = 1; i < argc; i++) {
        char *eq = strchr(argv[i], '='); if (!eq) continue;
        const char *v = eq + 1; size_t kl = (size_t)(eq - argv[i]);
#define IS(s) (kl == strlen(s) && !strncmp(argv[i], s, kl))
        if (IS("w")) E.w = atoi(v); else if (IS("h")) E.h = atoi(v); else if (IS("enc_mode")) E.enc_mode = atoi(v);
        else if (IS("lp")) E.lp = atoi(v); else if (IS("hl")) E.hierarchical_levels = atoi(v);
        else if (IS("watchdog")) g_watchdog = atof(v); else if (IS("quiet")) g_quiet = atoi(v); else if (IS("stream")) g_stream = v;
        else if (IS("dirty")) g_dirty_heap = atoi(v); else if (IS("lad")) E.lad = atoi(v); else if (IS("scm")) E.scm_plus1 = atoi(v) + 1;
#undef IS
    }
    setvbuf(stdout, NULL, _IOLBF, 0);
    drop_rt_capability();
    if (g_stream) load_stream(g_stream);
    char line[256];
    while (fgets(line, sizeof line, stdin)) {
        Job J; memset(&J, 0, sizeof J); J.threads = 1;
        char kind[16] = "", point[24] = ""; int a = 0, b = 0, c = 0;
        int n = sscanf(line, "%15s %23s %d %d %d", kind, point, &a, &b, &c);
        if (n < 1) continue;
        void (*fn)(void *) = NULL; double limit = g_watchdog;
        if (!strcmp(kind, "enc") && n >= 2) { J.kind = 0; snprintf(J.point, sizeof J.point, "%s", point); J.k = a; J.j = b; J.nodeinit = c; fn = enc_job; }
        else if (!strcmp(kind, "dec") && n >= 2) { J.kind = 1; snprintf(J.point, sizeof J.point, "%s", point); J.k = a; J.threads = b > 0 ? b : 1; fn = dec_job; }
        else if (!strcmp(kind, "cycles")) { J.kind = 2; snprintf(J.point, sizeof J.point, "cycles"); J.k = atoi(point); J.j = a > 0 ? a : 3; fn = cycles_job; limit = g_watchdog * (J.k > 1 ? J.k : 1); }
        else continue;
        ChildResult R = run_child(fn, &J, limit, g_quiet);
        char st[32], at[64], buf[1024];
        status_str(&R, st, sizeof st); last_marker(&R, at, sizeof at);
        const char *cl = find_line(&R, "TDCHILD ", buf, sizeof buf);
        printf("TD kind=%s point=%s k=%d j=%d threads=%d nodeinit=%d status=%s at=%s %s wall=%.2f\n", kind, J.point, J.k, J.j, J.threads, J.nodeinit, st, at,
               cl ? cl + 8 : "leak_blocks=0 leak_bytes=0 threads_base=0 threads_end=0 rc_deinit=0 rc_deinit_handle=0 packets=0", R.wall);
        forward_lines(&R, "CRASH "); forward_lines(&R, "THREAD "); forward_lines(&R, "NOTE "); forward_lines(&R, "CYCLE ");
        printf("ENDTD\n");
        fflush(stdout);
        __real_free(R.text);
    }
    return 0;
}
