/* bufcfg — runs the REAL load_default_buffer_configuration_settings (Source/Lib/Encoder/Globals/EbEncHandle.c,
 * compiled into this harness as its own translation unit with cmake's definitions) on explicit inputs.
 *
 * The two answers of the operating system the function consumes are injected, nothing else is replaced:
 *   - get_num_processors() is the file's own code; its `sysconf(_SC_NPROCESSORS_ONLN)` is redirected to `verif_nproc`;
 *   - the file-static `num_groups` (normally set by init_thread_management_params from /proc/cpuinfo) is assigned.
 * get_cpu_flags_to_use() is the library's (reported by the HOST line, fed to the model as `env_cpu_flags_to_use`).
 *
 * stdin, one operation per line:
 *   HOST                                  -> HOST nproc=<real> num_groups=<real, after init_thread_management_params> cpu_flags_to_use=<v> cpu_flags=<v>
 *   CASE <nproc> <num_groups> k=v ...     -> R ret=<uint32> [name=value ...]     (k: member path below scs_ptr, `static_config_x` = static_config.x;
 *                                            every member not named is 0; members are printed only when ret == 0)
 * The member tables come from the translator (gen_src/bufcfg_fields.h), so harness and model always dump the same set.
 */
#include <stdio.h>
#include <stdlib.h>
#include <string.h>
#include <stdint.h>
#include <unistd.h>

static long verif_nproc = -1;
static long verif_sysconf(int name) {
    if (name == _SC_NPROCESSORS_ONLN && verif_nproc >= 0) return verif_nproc;
    return sysconf(name);
}
#define sysconf(x) verif_sysconf(x)
#include "EbEncHandle.c"
#undef sysconf

#include "bufcfg_fields.h"

static long long parse_ll(const char *s) { return s[0] == '-' ? strtoll(s, NULL, 10) : (long long)strtoull(s, NULL, 10); }

static int set_member(SequenceControlSet *scs, const char *name, long long v) {
#define X(expr, nm) if (!strcmp(name, nm)) { expr = v; return 1; }
    BUFCFG_INPUTS(X)
#undef X
    return 0;
}

static void dump(const SequenceControlSet *scs) {
#define XU(expr, nm) printf(" %s=%llu", nm, (unsigned long long)(expr));
#define XS(expr, nm) printf(" %s=%lld", nm, (long long)(expr));
    BUFCFG_OUTPUTS(XU, XS)
#undef XU
#undef XS
}

int main(void) {
    static char line[1 << 16];
    SequenceControlSet *scs = calloc(1, sizeof(*scs));
    if (!scs) return 2;
    setenv("SVT_LOG", "-1", 1);               /* the function logs two lines per call */
    while (fgets(line, sizeof line, stdin)) {
        char *tok = strtok(line, " \t\r\n");
        if (!tok) continue;
        if (!strcmp(tok, "HOST")) {
            verif_nproc = -1;
            num_groups = 0;
            if (!lp_group) lp_group = malloc(INITIAL_PROCESSOR_GROUP * sizeof(processorGroup));   /* as svt_av1_enc_init_handle does */
            if (!lp_group) return 2;
            init_thread_management_params();
            printf("HOST nproc=%u num_groups=%u cpu_flags_to_use=%llu cpu_flags=%llu\n", get_num_processors(), (unsigned)num_groups,
                   (unsigned long long)get_cpu_flags_to_use(), (unsigned long long)get_cpu_flags());
            fflush(stdout);
            continue;
        }
        if (strcmp(tok, "CASE")) { printf("bad-op\n"); continue; }
        char *a = strtok(NULL, " \t\r\n"), *b = strtok(NULL, " \t\r\n");
        if (!a || !b) { printf("bad-op\n"); continue; }
        memset(scs, 0, sizeof(*scs));
        verif_nproc = strtol(a, NULL, 10);
        num_groups = (uint8_t)strtol(b, NULL, 10);
        int bad = 0;
        while ((tok = strtok(NULL, " \t\r\n"))) {
            char *eq = strchr(tok, '=');
            if (!eq) { bad = 1; break; }
            *eq = 0;
            if (!strncmp(tok, "env_", 4)) continue;      /* environment answers are the host's, not settable */
            if (!set_member(scs, tok, parse_ll(eq + 1))) { bad = 1; break; }
        }
        if (bad) { printf("bad-op\n"); continue; }
        EbErrorType ret = load_default_buffer_configuration_settings(scs);
        printf("R ret=%u", (unsigned)(uint32_t)ret);
        if (ret == EB_ErrorNone) dump(scs);
        printf("\n");
        fflush(stdout);
    }
    free(scs);
    return 0;
}
